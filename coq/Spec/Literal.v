(* What a quoted SQL string literal denotes -- written independently of the code.
   [scan_std]: standard SQL (PostgreSQL, SQLite, MSSQL, Oracle): a doubled quote is a quote, the
   literal ends at the first lone quote; backslash is an ordinary character.
   [scan_bs]: MySQL (default sql_mode) and the library's own lexical rules: additionally a
   backslash takes the next character with it ( \' \" \\ denote ' " \ ; any other \c is kept as
   the two characters, the reading pinned by tests/test_parser/.../test_escaping). *)
From Coq Require Import NArith List Bool.
From MSV Require Import Lib.PyStr.
Import ListNotations.
Local Open Scope N_scope.

(* after the opening quote; result: (value, rest after the closing quote) *)
Fixpoint scan_std_body (s : str) (acc : str) : option (str * str) :=
  match s with
  | [] => None
  | c :: r =>
    if N.eqb c cQ then
      match r with
      | c2 :: r2 => if N.eqb c2 cQ then scan_std_body r2 (cQ :: acc) else Some (rev acc, r)
      | [] => Some (rev acc, [])
      end
    else scan_std_body r (c :: acc)
  end.

Definition scan_std (s : str) : option (str * str) :=
  match s with
  | c :: r => if N.eqb c cQ then scan_std_body r [] else None
  | [] => None
  end.

Definition unescape (c : N) : list N :=
  if N.eqb c cQ || N.eqb c cDQ || N.eqb c cBS then [c] else [cBS; c].

(* generic over the delimiter [q] (single or double quote) *)
Fixpoint scan_bs_body (q : N) (s : str) (acc : str) : option (str * str) :=
  match s with
  | [] => None
  | c :: r =>
    if N.eqb c cBS then
      match r with
      | c2 :: r2 => scan_bs_body q r2 (rev (unescape c2) ++ acc)
      | [] => None
      end
    else if N.eqb c q then
      match r with
      | c2 :: r2 => if N.eqb c2 q && N.eqb q cQ then scan_bs_body q r2 (q :: acc) else Some (rev acc, r)
      | [] => Some (rev acc, [])
      end
    else scan_bs_body q r (c :: acc)
  end.

Definition scan_bs (s : str) : option (str * str) :=
  match s with
  | c :: r => if N.eqb c cQ then scan_bs_body cQ r [] else None
  | [] => None
  end.

(* the value denoted by a complete literal text *)
Definition denote_q (lexeme : str) : option str :=
  match scan_bs lexeme with Some (v, []) => Some v | _ => None end.
Definition denote_dq (lexeme : str) : option str :=
  match lexeme with
  | c :: r => if N.eqb c cDQ then match scan_bs_body cDQ r [] with Some (v, []) => Some v | _ => None end
              else None
  | [] => None
  end.
