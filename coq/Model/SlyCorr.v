(* Helpers for the correspondence check of Model/Sly.v against sly's Parser.parse:
   the harness writes, per case, the token types and what the implementation did; Coq
   re-runs the model and reports the indices of the cases that differ.  No proofs. *)
From Coq Require Import PArith List Bool Arith.
From MSV Require Import Model.Sly.
Import ListNotations.
Local Open Scope positive_scope.

(* outcome code, reductions oldest first, bad token (1 = end of input / none, tid+1 otherwise),
   expected symbols *)
Definition summary := (positive * list positive * positive * list sym)%type.

Definition bad_of (b : option look) : positive :=
  match b with Some (LTok t) => Pos.succ (tid t) | _ => 1 end.

Definition summarize (o : outcome) : summary :=
  match o with
  | OAccept _ tr => (1, rev tr, 1, [])
  | ONone s =>
    match einfo s with
    | Some e => (2, rev (trace s), bad_of (e_bad e), e_expected e)
    | None => (2, rev (trace s), 1, [])
    end
  | ORaise e tr => (3, rev tr, bad_of (e_bad e), e_expected e)
  | OInternal tr => (6, rev tr, 1, [])
  | OUnsupported => (7, [], 1, [])
  | OBadInput => (8, [], 1, [])
  | OFuel => (9, [], 1, [])
  end.

Fixpoint is_prefix (a b : list positive) : bool :=
  match a, b with
  | [], _ => true
  | x :: a', y :: b' => Pos.eqb x y && is_prefix a' b'
  | _, [] => false
  end.

Definition fuel_for (toks : list sym) : nat := 300 * (length toks + 5).

Definition run_case (T : tables) (cb : cbkind) (toks : list sym) : summary :=
  summarize (run T cb (fuel_for toks) (mk_tokens toks)).

Definition check_case (T : tables) (cb : cbkind) (c : list sym * summary) : bool :=
  let '(toks, (code, tr, bad, ex)) := c in
  let '(mc, mtr, mbad, mex) := run_case T cb toks in
  match code with
  | 4 | 5 => is_prefix tr mtr   (* an exception escaped a semantic action: engine trace up to there *)
  | _ => Pos.eqb code mc && list_eqb tr mtr && Pos.eqb bad mbad && list_eqb ex mex
  end.

Fixpoint mismatches_from (T : tables) (cb : cbkind) (i : positive) (cs : list (list sym * summary))
  : list positive :=
  match cs with
  | [] => []
  | c :: r => if check_case T cb c then mismatches_from T cb (Pos.succ i) r
              else i :: mismatches_from T cb (Pos.succ i) r
  end.
Definition mismatches T cb cs := mismatches_from T cb 1 cs.

Definition accepted (T : tables) (cb : cbkind) (toks : list sym) : bool :=
  match run T cb (fuel_for toks) (mk_tokens toks) with OAccept _ _ => true | _ => false end.
