(* Model of planner/utils.py : query_traversal as a generic pre-order walker over generic trees,
   driven by a schedule (class -> ordered entries) obtained from the code on every run
   (harness/gen_walker.py), and the specification of what a complete left-to-right traversal is,
   driven by the schema (class -> child fields in textual order, with their roles).
   Trees are produced by the harness from real ASTs with children listed in schema order; a
   node-valued field that is None is a child of the pseudo-class [cNone]. *)
From Coq Require Import PArith List Bool Arith.
Import ListNotations.
Local Open Scope positive_scope.

Record slot := mkSlot { s_field : positive; s_table : bool; s_target : bool }.
Inductive node := Nd (id : positive) (cls : positive) (ch : list (slot * node)).

Definition cNone : positive := 1.
Definition ncls (n : node) : positive := match n with Nd _ c _ => c end.
Definition nid (n : node) : positive := match n with Nd i _ _ => i end.
Definition is_none (n : node) : bool := Pos.eqb (ncls n) cNone.

Definition visit := (positive * bool * bool)%type.     (* node id, is_table, is_target *)

Inductive rmode := RSlot | REntry | RDrop.
   (* where a node returned by the callback ends up: in the visited slot / it replaces the whole
      list entry that contains the visited node / it is dropped *)
Record entry := mkE { e_field : positive; e_table : bool; e_target : bool; e_none : bool; e_repl : rmode }.
Definition sched := list (positive * list entry).

Fixpoint passoc {A} (k : positive) (l : list (positive * A)) : option A :=
  match l with [] => None | (k', v) :: r => if Pos.eqb k k' then Some v else passoc k r end.

Definition entries_of (S : sched) (c : positive) : list entry :=
  match passoc c S with Some l => l | None => [] end.

(* the walker: callback on the node, then, for each scheduled entry of its class in schedule
   order, the children stored under that field, in order *)
Fixpoint walk (S : sched) (n : node) (tb tg : bool) : list visit :=
  match n with
  | Nd id cls ch =>
    (id, tb, tg) ::
    flat_map (fun e =>
      (fix go (l : list (slot * node)) : list visit :=
         match l with
         | [] => []
         | (s, c) :: r =>
           (if Pos.eqb (s_field s) (e_field e)
            then (if is_none c && negb (e_none e) then [] else walk S c (e_table e) (e_target e))
            else []) ++ go r
         end) ch) (entries_of S cls)
  end.

(* the specification: every real node once, parents before children, children left to right,
   flagged by the role of the position they occupy *)
Fixpoint spec (n : node) (tb tg : bool) : list visit :=
  match n with
  | Nd id cls ch =>
    (id, tb, tg) ::
    (fix go (l : list (slot * node)) : list visit :=
       match l with
       | [] => []
       | (s, c) :: r => (if is_none c then [] else spec c (s_table s) (s_target s)) ++ go r
       end) ch
  end.

(* ---------- the schema and the table check ---------- *)
Definition schema := list (positive * list slot).
Definition slots_of (Q : schema) (c : positive) : list slot :=
  match passoc c Q with Some l => l | None => [] end.

Definition slot_eqb (a b : slot) : bool :=
  Pos.eqb (s_field a) (s_field b) && Bool.eqb (s_table a) (s_table b) && Bool.eqb (s_target a) (s_target b).

Definition rmode_eqb (a b : rmode) : bool :=
  match a, b with RSlot, RSlot | REntry, REntry | RDrop, RDrop => true | _, _ => false end.

Definition entry_ok (e : entry) (s : slot) : bool :=
  Pos.eqb (e_field e) (s_field s) && Bool.eqb (e_table e) (s_table s) && Bool.eqb (e_target e) (s_target s)
  && negb (e_none e) && rmode_eqb (e_repl e) RSlot.

Fixpoint entries_ok (es : list entry) (ss : list slot) : bool :=
  match es, ss with
  | [], [] => true
  | e :: es', s :: ss' => entry_ok e s && entries_ok es' ss'
  | _, _ => false
  end.

Fixpoint nodupb (l : list positive) : bool :=
  match l with [] => true | x :: r => negb (existsb (Pos.eqb x) r) && nodupb r end.

(* the walker's branch for class [c] is exactly the schema: same fields, same order, right flags,
   None children skipped, replacement written back to the visited slot *)
Definition good_class (S : sched) (Q : schema) (c : positive) : bool :=
  entries_ok (entries_of S c) (slots_of Q c) && nodupb (map s_field (slots_of Q c)).

(* children of a node are grouped by field in schema order and carry the schema's roles *)
Fixpoint drop_eq (f : slot) (ss : list slot) : list slot :=
  match ss with s :: r => if slot_eqb s f then drop_eq f r else ss | [] => [] end.
Fixpoint wf_slots (fs : list slot) (ss : list slot) : bool :=
  match fs with
  | [] => match ss with [] => true | _ => false end
  | f :: fr => wf_slots fr (drop_eq f ss)
  end.

Fixpoint okb (S : sched) (Q : schema) (n : node) : bool :=
  match n with
  | Nd id cls ch =>
    (Pos.eqb cls cNone || (good_class S Q cls && wf_slots (slots_of Q cls) (map fst ch))) &&
    (fix go (l : list (slot * node)) : bool :=
       match l with [] => true | (_, c) :: r => okb S Q c && go r end) ch
  end.

Fixpoint visits_eqb (a b : list visit) : bool :=
  match a, b with
  | [], [] => true
  | (i, t, g) :: a', (j, u, h) :: b' => Pos.eqb i j && Bool.eqb t u && Bool.eqb g h && visits_eqb a' b'
  | _, _ => false
  end.

(* ---------- replacement: the callback returns [r] for the node whose id is [x] ---------- *)
Fixpoint find_entry (es : list entry) (f : positive) : option entry :=
  match es with [] => None | e :: r => if Pos.eqb (e_field e) f then Some e else find_entry r f end.

(* the tree after the walk, when the root itself is not the target *)
Fixpoint wrepl (S : sched) (n : node) (x : positive) (r : node) : node :=
  match n with
  | Nd id cls ch =>
    Nd id cls
      ((fix go (l : list (slot * node)) : list (slot * node) :=
          match l with
          | [] => []
          | (s, c) :: rest =>
            (s, match find_entry (entries_of S cls) (s_field s) with
                | None => c                                   (* field never visited *)
                | Some e =>
                  if is_none c && negb (e_none e) then c
                  else if Pos.eqb (nid c) x
                       then match e_repl e with RDrop => c | _ => r end
                       else wrepl S c x r
                end) :: go rest
          end) ch)
  end.

(* what "the returned node replaces exactly the visited node and nothing else" means *)
Fixpoint subst (n : node) (x : positive) (r : node) : node :=
  match n with
  | Nd id cls ch =>
    Nd id cls
      ((fix go (l : list (slot * node)) : list (slot * node) :=
          match l with
          | [] => []
          | (s, c) :: rest =>
            (s, if is_none c then c else if Pos.eqb (nid c) x then r else subst c x r) :: go rest
          end) ch)
  end.

Fixpoint node_eqb (a b : node) : bool :=
  match a, b with
  | Nd i c ch, Nd j d dh =>
    Pos.eqb i j && Pos.eqb c d &&
    (fix go (l : list (slot * node)) (m : list (slot * node)) : bool :=
       match l, m with
       | [], [] => true
       | (s, x) :: l', (t, y) :: m' => slot_eqb s t && node_eqb x y && go l' m'
       | _, _ => false
       end) ch dh
  end.

(* judge for the correspondence: 1 = walker model = implementation = specification,
   2 = model = implementation, both differ from the specification, 3 = model <> implementation *)
Definition judge_walk (S : sched) (c : node * list visit) : positive :=
  let '(t, impl) := c in
  let w := walk S t false false in
  if visits_eqb w impl then (if visits_eqb w (spec t false false) then 1 else 2) else 3.
Definition judge_repl (S : sched) (c : node * positive * node * node) : positive :=
  let '(t, x, r, impl) := c in
  let w := wrepl S t x r in
  if node_eqb w impl then (if node_eqb w (subst t x r) then 1 else 2) else 3.
