(* Model for C14: how PlanJoinTablesQuery splits the conditions of a table-model join.
   check_query_conditions collects the column-versus-constant comparisons that are top-level
   conjuncts of the WHERE tree and attributes each to the table or model alias of its column;
   process_table pushes a table's comparisons into its fetch unless an OR occurs anywhere in the
   WHERE tree, plus (inner / left joins only, and only if the ON clause holds no operator other than
   = and AND anywhere) the `=`-constant conjuncts of its own ON clause; process_predictor turns the
   model's `col = const` comparisons into arguments (row_dict) and overwrites them in the outer
   condition by 0 = 0; column-column operators anywhere in the model's ON clause become its column
   mapping; USING options become its params.
   (Before the repository fixes c9afda6 / 57eb20a / 046179c the comparisons were collected from
   anywhere in the trees and for every join type; [collect] below is that traversal, kept because the
   OR test and the column mapping still use a full traversal.) *)
From Coq Require Import PArith NArith List Bool.
From MSV Require Import Lib.PyStr Model.Resolve.
Import ListNotations.
Local Open Scope positive_scope.

Inductive cmpop := OEq      (* col = const *)
                 | OEqRev   (* const = col *)
                 | OBin     (* any other binary operator between a column and a constant *)
                 | OBtw     (* col BETWEEN const AND const *)
                 | OIsNull. (* col IS NULL: a conjunct like the others, but never pushed (it does not reject the
                               NULLs an outer join supplies; repository fix 11250a0) *)

Inductive cond :=
| CAnd (l r : cond)
| COr (l r : cond)
| CNot (c : cond)
| CCmp (op : cmpop) (alias col val : positive)
| CCols (eq : bool) (a1 c1 a2 c2 : positive)        (* a1.c1 <op> a2.c2; eq: op is = *)
| CTrue                                             (* 0 = 0 *)
| CWrap1 (id : positive) (blocks : bool) (c : cond) (* function / IS / unary operator around a condition *)
| CWrap2 (id : positive) (blocks : bool) (l r : cond)  (* other binary operator / 2-argument function *)
| COther (id : positive) (blocks : bool).           (* leaf; blocks: contains a binary operator other than = / and *)

Definition cmp := (cmpop * positive * positive * positive)%type.

(* every column-constant comparison of the tree, in traversal order *)
Fixpoint collect (c : cond) : list cmp :=
  match c with
  | CAnd l r | COr l r | CWrap2 _ _ l r => collect l ++ collect r
  | CNot x | CWrap1 _ _ x => collect x
  | CCmp op a col v => [(op, a, col, v)]
  | _ => []
  end.

(* top-level conjuncts *)
Fixpoint conjuncts (c : cond) : list cond :=
  match c with CAnd l r => conjuncts l ++ conjuncts r | _ => [c] end.

Definition conj_cmps (c : cond) : list cmp :=
  flat_map (fun x => match x with CCmp op a col v => [(op, a, col, v)] | _ => [] end) (conjuncts c).

Fixpoint has_or (c : cond) : bool :=
  match c with
  | COr _ _ => true
  | CAnd l r | CWrap2 _ _ l r => has_or l || has_or r
  | CNot x | CWrap1 _ _ x => has_or x
  | _ => false
  end.

Definition cmp_alias (x : cmp) : positive := snd (fst (fst x)).
Definition of_alias (a : positive) (l : list cmp) := filter (fun x => Pos.eqb (cmp_alias x) a) l.

(* WHERE comparisons pushed into the fetch of table alias [a] *)
Definition not_isnull (x : cmp) : bool := match x with (OIsNull, _, _, _) => false | _ => true end.
Definition pushed (c : cond) (a : positive) : list cmp :=
  if has_or c then [] else filter not_isnull (of_alias a (conj_cmps c)).

(* model arguments: the `col = const` comparisons attributed to the model alias [m], except on
   the predicted column (tgt) *)
Definition consumed (tgt : list positive) (m : positive) (x : cmp) : bool :=
  match x with (OEq, a, col, _) => Pos.eqb a m && negb (existsb (Pos.eqb col) tgt) | _ => false end.

Definition row_dict (c : cond) (m : positive) (tgt : list positive) : list (positive * positive) :=
  map (fun x => (snd (fst x), snd x)) (filter (consumed tgt m) (conj_cmps c)).

(* the outer condition after process_predictor: consumed (top-level) comparisons become 0 = 0 *)
Fixpoint neutralise (c : cond) (m : positive) (tgt : list positive) : cond :=
  match c with
  | CAnd l r => CAnd (neutralise l m tgt) (neutralise r m tgt)
  | CCmp op a col v => if consumed tgt m (op, a, col, v) then CTrue else c
  | _ => c
  end.

(* ---- ON clause of the join whose right side is table alias [a] ---- *)
Fixpoint on_blocked (c : cond) : bool :=
  match c with
  | COr _ _ => true
  | CAnd l r => on_blocked l || on_blocked r
  | CNot x => on_blocked x
  | CWrap1 _ b x => b || on_blocked x
  | CWrap2 _ b l r => b || on_blocked l || on_blocked r
  | CCmp OBin _ _ _ | CCmp OIsNull _ _ _ => true
  | CCols false _ _ _ _ => true
  | COther _ b => b
  | _ => false
  end.

Definition is_eq (x : cmp) : bool := match x with (OEq, _, _, _) | (OEqRev, _, _, _) => true | _ => false end.

Inductive jtype := JInner | JLeft | JRight | JFull | JOtherJoin.
Definition push_safe (j : jtype) : bool := match j with JInner | JLeft => true | _ => false end.

Definition pushed_on (j : jtype) (c : cond) (a : positive) : list cmp :=
  if push_safe j && negb (on_blocked c) then of_alias a (filter is_eq (conj_cmps c)) else [].

(* ---- ON clause of the join whose right side is model alias [m]: column mapping ---- *)
Fixpoint colpairs (c : cond) : list (positive * positive * positive * positive) :=
  match c with
  | CAnd l r | COr l r | CWrap2 _ _ l r => colpairs l ++ colpairs r
  | CNot x | CWrap1 _ _ x => colpairs x
  | CCols _ a1 c1 a2 c2 => [(a1, c1, a2, c2)]
  | _ => []
  end.

Definition colmap (c : cond) (m : positive) : list (positive * (positive * positive)) :=
  flat_map (fun x => match x with (a1, c1, a2, c2) =>
     if Pos.eqb a1 m then [(c1, (a2, c2))] else if Pos.eqb a2 m then [(c2, (a1, c1))] else [] end) (colpairs c).

(* ---------- the specification: only top-level conjuncts ---------- *)
Definition pushed_spec (c : cond) (a : positive) := of_alias a (conj_cmps c).
Definition row_dict_spec (c : cond) (m : positive) (tgt : list positive) : list (positive * positive) :=
  map (fun x => (snd (fst x), snd x)) (filter (consumed tgt m) (conj_cmps c)).

(* the conjuncts that must still filter the outer result: all but the consumed ones *)
Definition consumed_conj (tgt : list positive) (m : positive) (x : cond) : bool :=
  match x with CCmp op a col v => consumed tgt m (op, a, col, v) | _ => false end.
Definition remaining (c : cond) (m : positive) (tgt : list positive) : list cond :=
  filter (fun x => negb (consumed_conj tgt m x)) (conjuncts c).

(* the ON clause may be used as a filter of the right table only for inner / left joins, and only
   through its top-level `=`-constant conjuncts on that table *)
Definition pushed_on_spec (j : jtype) (c : cond) (a : positive) : list cmp :=
  if push_safe j then of_alias a (filter is_eq (conj_cmps c)) else [].
Definition conj_colpairs (c : cond) :=
  flat_map (fun x => match x with CCols true a1 c1 a2 c2 => [(a1, c1, a2, c2)] | _ => [] end) (conjuncts c).
Definition colmap_spec (c : cond) (m : positive) : list (positive * (positive * positive)) :=
  flat_map (fun x => match x with (a1, c1, a2, c2) =>
     if Pos.eqb a1 m then [(c1, (a2, c2))] else if Pos.eqb a2 m then [(c2, (a1, c1))] else [] end) (conj_colpairs c).

(* a condition that is a tree of ANDs over atoms *)
Fixpoint and_tree (c : cond) : bool :=
  match c with
  | CAnd l r => and_tree l && and_tree r
  | COr _ _ | CNot _ | CWrap1 _ _ _ | CWrap2 _ _ _ _ => false
  | _ => true
  end.
(* an ON clause made of ANDs of equalities *)
Fixpoint eq_and_tree (c : cond) : bool :=
  match c with
  | CAnd l r => eq_and_tree l && eq_and_tree r
  | CCmp OEq _ _ _ | CCmp OEqRev _ _ _ | CCmp OBtw _ _ _ | CCols true _ _ _ _ | CTrue | COther _ false => true
  | _ => false
  end.

(* three-valued evaluation, to say what "no longer filters" means *)
Inductive tv := TT | TF | TU.
Definition tv_and a b := match a, b with TF, _ | _, TF => TF | TT, TT => TT | _, _ => TU end.
Definition tv_or a b := match a, b with TT, _ | _, TT => TT | TF, TF => TF | _, _ => TU end.
Definition tv_not a := match a with TT => TF | TF => TT | TU => TU end.
Section Eval.
  Context (env : cmp -> tv) (cols : bool -> positive -> positive -> positive -> positive -> tv)
          (oth : positive -> tv) (w1 : positive -> tv -> tv) (w2 : positive -> tv -> tv -> tv).
  Fixpoint ceval (c : cond) : tv :=
    match c with
    | CAnd l r => tv_and (ceval l) (ceval r)
    | COr l r => tv_or (ceval l) (ceval r)
    | CNot x => tv_not (ceval x)
    | CCmp op a col v => env (op, a, col, v)
    | CCols e a1 c1 a2 c2 => cols e a1 c1 a2 c2
    | CTrue => TT
    | CWrap1 i _ x => w1 i (ceval x)
    | CWrap2 i _ l r => w2 i (ceval l) (ceval r)
    | COther i _ => oth i
    end.
End Eval.

(* ---------- USING options ---------- *)
Fixpoint split_dot (s : str) : option (str * str) :=
  match s with
  | [] => None
  | ch :: r => if N.eqb ch cDOT then Some ([], r)
               else match split_dot r with Some (p, q) => Some (ch :: p, q) | None => None end
  end.
Definition partition_size : str := [112; 97; 114; 116; 105; 116; 105; 111; 110; 95; 115; 105; 122; 101]%N.
Definition mem_str (s : str) (l : list str) : bool := existsb (str_eqb s) l.
(* key -> value list in insertion order, as dict assignment would build it (later wins handled by the reader) *)
Definition using_one (aliases : list str) (kv : str * positive) : list (str * positive) :=
  match split_dot (fst kv) with
  | Some (al, rest) => if mem_str al aliases then [(lower rest, snd kv)] else []
  | None => [(lower (fst kv), snd kv)]
  end.
Definition using_all (aliases : list str) (opts : list (str * positive)) : list (str * positive) :=
  flat_map (using_one aliases) opts.
Definition model_params (aliases : list str) (opts : list (str * positive)) : list (str * positive) :=
  filter (fun kv => negb (str_eqb (fst kv) partition_size)) (using_all aliases opts).

(* ---------- the sequence of steps: which data a model is applied to ---------- *)
Inductive item := ITab | IMod | IJoin.
Inductive step := SFetch (ref : nat) | SApply (ref : nat) (input : nat) | SJoin (l r : nat).
(* state: steps so far (index = step number), stack of step numbers, number of references seen *)
Definition pstate := (list step * list nat * nat)%type.
Definition pstep (s : pstate) (it : item) : option pstate :=
  let '(steps, stack, nref) := s in
  let k := length steps in
  match it with
  | ITab => Some (steps ++ [SFetch nref], k :: stack, S nref)
  | IMod => match stack with
            | top :: _ => Some (steps ++ [SApply nref top], k :: stack, S nref)
            | [] => None
            end
  | IJoin => match stack with
             | r :: l :: rest => Some (steps ++ [SJoin l r], k :: rest, nref)
             | _ => None
             end
  end.
Fixpoint prun (s : pstate) (its : list item) : option pstate :=
  match its with
  | [] => Some s
  | it :: r => match pstep s it with Some s' => prun s' r | None => None end
  end.
(* left-deep join sequence of references r0 r1 J r2 J ... *)
Definition ref_item (is_model : bool) := if is_model then IMod else ITab.
Definition join_seq (first : bool) (rest : list bool) : list item :=
  ref_item first :: flat_map (fun b => [ref_item b; IJoin]) rest.
(* the references a step's result covers *)
Fixpoint covers (fuel : nat) (steps : list step) (k : nat) : list nat :=
  match fuel with
  | O => []
  | S f => match nth_error steps k with
           | Some (SFetch r) => [r]
           | Some (SApply r _) => [r]
           | Some (SJoin l r) => covers f steps l ++ covers f steps r
           | None => []
           end
  end.
