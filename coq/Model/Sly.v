(* Model of sly/yacc.py : Parser.parse  (the LALR shift/reduce loop with panic-mode
   recovery), parameterised by tables that are regenerated from /repo on every run.
   No proofs in this file.

   Numbering used by the translator (harness/gen_tables.py):
     states      : python state + 1          (initial state = 1)
     productions : python number + 1         (production 1 = S' -> start)
     symbols     : 1 = $end, 2 = error, terminals, then nonterminals             *)
From Coq Require Import PArith List Bool FMapPositive Arith.
Import ListNotations.
Local Open Scope positive_scope.

Definition sym := positive.
Definition END : sym := 1.
Definition ERR : sym := 2.

(* Er: an entry that sly stored as None (unresolved nonassoc conflict): behaves as a missing
   entry but its key is still listed among the expected tokens *)
Inductive act := Sh (s : positive) | Rd (p : positive) | Ac | Er.

(* a token: its type and its position in the token stream *)
Record token := mkTok { ttype : sym; tid : positive }.

Inductive tree :=
| Leaf (t : token)
| Node (p : positive) (lhs : sym) (cs : list tree).

Definition root (t : tree) : sym :=
  match t with Leaf k => ttype k | Node _ l _ => l end.

Fixpoint yield (t : tree) : list token :=
  match t with
  | Leaf k => [k]
  | Node _ _ cs => (fix go (l : list tree) : list token :=
                      match l with [] => [] | c :: r => yield c ++ go r end) cs
  end.

Record tables := mkTables {
  t_prods   : PositiveMap.t (sym * list sym);
  t_action  : PositiveMap.t (list (sym * act));
  t_goto    : PositiveMap.t (list (sym * positive));
  t_default : PositiveMap.t positive;          (* defaulted state -> production *)
  t_past    : PositiveMap.t (list sym);        (* certificate: known stack suffix *)
  t_start   : sym
}.

Fixpoint assoc {A} (k : positive) (l : list (positive * A)) : option A :=
  match l with
  | [] => None
  | (k', v) :: r => if Pos.eqb k k' then Some v else assoc k r
  end.

Definition of_list {A} (l : list (positive * A)) : PositiveMap.t A :=
  fold_left (fun m kv => PositiveMap.add (fst kv) (snd kv) m) l (PositiveMap.empty A).

Definition mk_tables prods arows grows defs pasts start : tables :=
  mkTables (of_list prods) (of_list arows) (of_list grows) (of_list defs) (of_list pasts) start.

Definition row (T : tables) (s : positive) : list (sym * act) :=
  match PositiveMap.find s (t_action T) with Some r => r | None => [] end.
Definition action (T : tables) (s : positive) (a : sym) : option act := assoc a (row T s).
Definition goto (T : tables) (s : positive) (A : sym) : option positive :=
  match PositiveMap.find s (t_goto T) with Some r => assoc A r | None => None end.
Definition prod (T : tables) (p : positive) : option (sym * list sym) :=
  PositiveMap.find p (t_prods T).
Definition past (T : tables) (s : positive) : option (list sym) :=
  PositiveMap.find s (t_past T).

(* what Parser.error of the dialect does (extracted from the source every run) *)
Inductive cbkind :=
| CbRaise     (* raises ParsingException unconditionally *)
| CbDrain     (* records error_info, exhausts self.tokens, returns None *)
| CbIgnore.   (* returns None without touching the token iterator *)

Inductive look := LTok (t : token) | LEnd | LErr.

Definition look_sym (l : look) : sym :=
  match l with LTok t => ttype t | LEnd => END | LErr => ERR end.

Record errinfo := mkErr {
  e_bad : option look;          (* bad token (None = end of input) *)
  e_expected : list sym;        (* keys of the action row, in dict order *)
  e_state : positive
}.

Record pst := mkPst {
  stack  : list (positive * tree);     (* top first; bottom cell (state 1, $end) implicit *)
  lookah : option look;
  lstack : list look;
  input  : list token;
  errcount : nat;
  errok  : bool;
  ncalls : nat;                        (* calls of error() so far *)
  einfo  : option errinfo;             (* parser.error_info *)
  trace  : list positive               (* reductions performed, most recent first *)
}.

Inductive outcome :=
| OAccept (t : tree) (tr : list positive)
| ONone (s : pst)             (* parse() returned None *)
| ORaise (e : errinfo) (tr : list positive)   (* error() raised ParsingException *)
| OInternal (tr : list positive)   (* KeyError / IndexError inside the engine *)
| OUnsupported                (* the tables make the engine shift $end / error: not modelled *)
| OBadInput                   (* a token typed $end or error *)
| OFuel.

Definition top_state (stk : list (positive * tree)) : positive :=
  match stk with [] => 1 | (s, _) :: _ => s end.

Definition init (toks : list token) : pst :=
  mkPst [] None [] toks 0 false 0 None [].

Definition fetch (s : pst) : look * pst :=
  match lookah s with
  | Some l => (l, s)
  | None =>
    match lstack s with
    | l :: r => (l, mkPst (stack s) (Some l) r (input s) (errcount s) (errok s) (ncalls s) (einfo s) (trace s))
    | [] =>
      match input s with
      | t :: r => (LTok t, mkPst (stack s) (Some (LTok t)) [] r (errcount s) (errok s) (ncalls s) (einfo s) (trace s))
      | [] => (LEnd, mkPst (stack s) (Some LEnd) [] [] (errcount s) (errok s) (ncalls s) (einfo s) (trace s))
      end
    end
  end.

Definition do_reduce (T : tables) (s : pst) (p : positive) : pst + outcome :=
  match prod T p with
  | None => inr (OInternal (trace s))
  | Some (lhs, rhs) =>
    let n := length rhs in
    if Nat.leb n (length (stack s)) then
      let cs := rev (map snd (firstn n (stack s))) in
      let stk' := skipn n (stack s) in
      match goto T (top_state stk') lhs with
      | None => inr (OInternal (p :: trace s))
      | Some t =>
        inl (mkPst ((t, Node p lhs cs) :: stk') (lookah s) (lstack s) (input s)
                   (errcount s) (errok s) (ncalls s) (einfo s) (p :: trace s))
      end
    else inr (OInternal (trace s))
  end.

Definition is_end (l : look) : bool := match l with LEnd => true | _ => false end.
Definition is_err (l : look) : bool := match l with LErr => true | _ => false end.

(* the `t is None` branch of Parser.parse; [s] already holds the fetched lookahead [lk] *)
Definition do_error (T : tables) (cb : cbkind) (s : pst) (lk : look) : pst + outcome :=
  let st := top_state (stack s) in
  let first := orb (Nat.eqb (errcount s) 0) (errok s) in
  let called :=
    if first then
      let errtoken := if is_end lk then None else Some lk in
      let info := mkErr errtoken (map fst (row T st)) st in
      match cb with
      | CbRaise => inr (ORaise info (trace s))
      | CbDrain =>
        let s' := mkPst (stack s) (lookah s) (lstack s) [] 3 false (S (ncalls s)) (Some info) (trace s) in
        if is_end lk then inr (ONone s') else inl s'
      | CbIgnore =>
        let s' := mkPst (stack s) (lookah s) (lstack s) (input s) 3 false (S (ncalls s)) (Some info) (trace s) in
        if is_end lk then inr (ONone s') else inl s'
      end
    else inl (mkPst (stack s) (lookah s) (lstack s) (input s) 3 (errok s) (ncalls s) (einfo s) (trace s)) in
  match called with
  | inr o => inr o
  | inl s1 =>
    match stack s1 with
    | [] =>
      if is_end lk then inr (ONone s1)
      else (* case 1: discard the token, restart from the initial state *)
        inl (mkPst [] None [] (input s1) (errcount s1) (errok s1) (ncalls s1) (einfo s1) (trace s1))
    | c :: rest =>
      if is_end lk then inr (ONone s1)
      else if is_err lk then
        (* pop one entry *)
        inl (mkPst rest (lookah s1) (lstack s1) (input s1) (errcount s1) (errok s1) (ncalls s1) (einfo s1) (trace s1))
      else
        (* nothing typed `error` is ever on the stack (shifting it is OUnsupported):
           make the error symbol the lookahead, remember the real one *)
        inl (mkPst (stack s1) (Some LErr) (lk :: lstack s1) (input s1) (errcount s1) (errok s1)
                   (ncalls s1) (einfo s1) (trace s1))
    end
  end.

Definition step (T : tables) (cb : cbkind) (s : pst) : pst + outcome :=
  let st := top_state (stack s) in
  match PositiveMap.find st (t_default T) with
  | Some p => do_reduce T s p
  | None =>
    let '(lk, s1) := fetch s in
    match action T st (look_sym lk) with
    | Some (Sh t) =>
      match lk with
      | LTok k =>
        inl (mkPst ((t, Leaf k) :: stack s1) None (lstack s1) (input s1)
                   (Nat.pred (errcount s1)) (errok s1) (ncalls s1) (einfo s1) (trace s1))
      | _ => inr OUnsupported
      end
    | Some (Rd p) => do_reduce T s1 p
    | Some Ac =>
      match stack s1 with
      | (_, t) :: _ => inr (OAccept t (trace s1))
      | [] => inr (ONone s1)
      end
    | Some Er | None => do_error T cb s1 lk
    end
  end.

Fixpoint run_loop (T : tables) (cb : cbkind) (fuel : nat) (s : pst) : outcome :=
  match fuel with
  | O => OFuel
  | S f => match step T cb s with inl s' => run_loop T cb f s' | inr o => o end
  end.

Definition bad_type (t : token) : bool := Pos.eqb (ttype t) END || Pos.eqb (ttype t) ERR.

Definition run (T : tables) (cb : cbkind) (fuel : nat) (toks : list token) : outcome :=
  if existsb bad_type toks then OBadInput else run_loop T cb fuel (init toks).

(* tokens from a list of types, numbered 1.. *)
Fixpoint number_from (i : positive) (l : list sym) : list token :=
  match l with [] => [] | a :: r => mkTok a i :: number_from (Pos.succ i) r end.
Definition mk_tokens (l : list sym) : list token := number_from 1 l.

(* ------------------------------------------------------------------ *)
(* Decidable well-formedness of the generated tables (the certificate) *)

Fixpoint list_eqb (a b : list positive) : bool :=
  match a, b with
  | [], [] => true
  | x :: a', y :: b' => Pos.eqb x y && list_eqb a' b'
  | _, _ => false
  end.

Definition is_suffix (a b : list positive) : bool :=
  Nat.leb (length a) (length b) && list_eqb a (skipn (length b - length a) b).

Definition mem (x : positive) (l : list positive) : bool := existsb (Pos.eqb x) l.

Definition chk_edge (T : tables) (s : positive) (X : sym) (t : positive) : bool :=
  match past T s, past T t with
  | Some ps, Some pt => is_suffix pt (ps ++ [X])
  | _, _ => false
  end.

Definition chk_reduce (T : tables) (s : positive) (p : positive) : bool :=
  match prod T p, past T s with
  | Some (lhs, rhs), Some ps =>
    is_suffix rhs ps && negb (mem END rhs) && negb (Pos.eqb lhs END)
  | _, _ => false
  end.

Definition chk_act (T : tables) (s : positive) (ea : sym * act) : bool :=
  let '(a, x) := ea in
  negb (Pos.eqb a ERR) &&
  match x with
  | Sh t => chk_edge T s a t
  | Rd p => chk_reduce T s p
  | Ac => Pos.eqb a END &&
          match past T s with Some ps => list_eqb ps [END; t_start T] | None => false end
  | Er => true
  end.

Definition K_tables (T : tables) : bool :=
  forallb (fun sr => forallb (chk_act T (fst sr)) (snd sr)) (PositiveMap.elements (t_action T)) &&
  forallb (fun sp => chk_reduce T (fst sp) (snd sp)) (PositiveMap.elements (t_default T)) &&
  forallb (fun sr => forallb (fun At => chk_edge T (fst sr) (fst At) (snd At)) (snd sr))
          (PositiveMap.elements (t_goto T)) &&
  match past T 1 with Some ps => list_eqb ps [END] | None => false end &&
  match action T 1 END with None | Some Er => true | Some _ => false end &&
  match PositiveMap.find 1 (t_default T) with None => true | Some _ => false end.
