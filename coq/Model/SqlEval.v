(* A reference semantics for the SQL subset the planner and renderer checks use (C06, C08, C11,
   C15): expressions with NULL / three-valued logic, joins of every kind, grouping and
   aggregates, DISTINCT, ORDER BY with NULL placement, LIMIT / OFFSET, set union, CTEs,
   uncorrelated subqueries; plus the documented meaning of the plan steps.  All recursion is on
   an explicit fuel (nesting depth); running out of fuel, an unknown column / table / function or
   a type error produce VErr, which propagates to the output and is reported by the harness as
   "outside the evaluator" -- never as a verdict. *)
From Coq Require Import ZArith PArith List Bool.
From MSV Require Import Lib.Rel.
Import ListNotations.

Definition name := positive.
Definition schema := list (option name * name).
Definition frame := (schema * rel)%type.

Inductive unop := UNot | UNeg | UIsNull | UNotNull.
Inductive binop := BAdd | BSub | BMul | BEq | BNe | BLt | BLe | BGt | BGe | BAnd | BOr.
Inductive aggf := ACount | ASum | AMin | AMax.

Inductive expr :=
| ECol (q : option name) (c : name)
| EConst (v : val)
| EUn (op : unop) (a : expr)
| EBin (op : binop) (a b : expr)
| EBetween (a lo hi : expr)
| EIn (neg : bool) (a : expr) (l : list expr)
| ECase (whens : list (expr * expr)) (els : option expr)
| EFun (f : name) (args : list expr)
| EAgg (f : aggf) (dist : bool) (a : option expr)
| EInQ (neg : bool) (a : expr) (q : query)
| EExists (neg : bool) (q : query)
| ESubQ (q : query)
| EInP (neg : bool) (a : expr) (k : nat)         (* a IN :Result(k) *)
| EParam (k : nat)                               (* :Result(k) as a scalar *)
| EVar (c : name)                                (* '$var[c]': the value bound by a MapReduceStep *)
with query :=
| QSel (dist agg : bool) (targets : list target) (frm : option from) (wh : option expr)
       (group : list expr) (having : option expr) (order : list (expr * (bool * bool)))
       (limit offset : option nat)
| QUnion (all : bool) (a b : query)
| QSetOp (op : setop) (all : bool) (a b : query)
| QWith (ctes : list (name * query)) (q : query)
with from :=
| FTab (parts : list name) (alias : option name)
| FJoin (k : jkind) (l r : from) (on : option expr)
| FSub (q : query) (alias : name)
| FRes (k : nat) (alias : option name)           (* the result of plan step k *)
with target :=
| TStar (q : option name)
| TExpr (e : expr) (alias : option name).

Record ctx := mkCtx { c_db : list (list name * (list name * rel));
                      c_prefix : list name;
                      c_res : list frame;
                      c_ctes : list (name * frame);
                      c_vars : list (name * val) }.

Fixpoint names_eqb (a b : list name) : bool :=
  match a, b with
  | [], [] => true
  | x :: a', y :: b' => Pos.eqb x y && names_eqb a' b'
  | _, _ => false
  end.
Fixpoint lookup_tab (p : list name) (db : list (list name * (list name * rel))) : option (list name * rel) :=
  match db with
  | [] => None
  | (n, t) :: r => if names_eqb p n then Some t else lookup_tab p r
  end.
Fixpoint lookup_cte (n : name) (l : list (name * frame)) : option frame :=
  match l with
  | [] => None
  | (m, f) :: r => if Pos.eqb n m then Some f else lookup_cte n r
  end.

Definition qual_ok (q : option name) (q' : option name) : bool :=
  match q with
  | None => true
  | Some x => match q' with Some y => Pos.eqb x y | None => false end
  end.
Fixpoint find_col (sch : schema) (q : option name) (c : name) (i : nat) : option nat :=
  match sch with
  | [] => None
  | (q', c') :: r => if Pos.eqb c c' && qual_ok q q' then Some i else find_col r q c (S i)
  end.

(* an unqualified column that two differently qualified columns of the row could mean *)
Definition oname_eqb (a b : option name) : bool :=
  match a, b with Some x, Some y => Pos.eqb x y | None, None => true | _, _ => false end.
Definition ambiguous (sch : schema) (c : name) : bool :=
  match filter (fun x => Pos.eqb c (snd x)) sch with
  | [] => false
  | x :: r => existsb (fun y => negb (oname_eqb (fst x) (fst y))) r
  end.

(* functions known to the evaluator (ids fixed by the translator) *)
Definition f_coalesce : name := 1%positive.
Definition f_abs : name := 2%positive.
Definition f_ifnull : name := 3%positive.
Fixpoint coalesce (l : list val) : val :=
  match l with [] => VNull | VNull :: r => coalesce r | v :: _ => v end.
Definition apply_fun (f : name) (vs : list val) : val :=
  if existsb is_err vs then VErr else
  if Pos.eqb f f_coalesce then coalesce vs
  else if Pos.eqb f f_ifnull then coalesce vs
  else if Pos.eqb f f_abs then match vs with [VInt z] => VInt (Z.abs z) | [VNull] => VNull | _ => VErr end
  else VErr.

Definition nonnull (l : list val) : list val := filter (fun v => negb (val_eqb v VNull)) l.
Fixpoint dedup_vals (seen l : list val) : list val :=
  match l with
  | [] => []
  | x :: r => if mem_val x seen then dedup_vals seen r else x :: dedup_vals (x :: seen) r
  end.
Definition v_best (pick : comparison -> bool) (l : list val) : val :=
  fold_left (fun acc v => match acc with
                          | VNull => v
                          | _ => match v_cmp v acc with Some c => if pick c then v else acc | None => VErr end
                          end) l VNull.
Definition agg (f : aggf) (dist star : bool) (vals : list val) : val :=
  if existsb is_err vals then VErr else
  let vs := if star then vals else nonnull vals in
  let vs := if dist then dedup_vals [] vs else vs in
  match f with
  | ACount => VInt (Z.of_nat (length vs))
  | ASum => match vs with [] => VNull | _ => fold_left (v_arith Z.add) vs (VInt 0) end
  | AMin => v_best c_lt vs
  | AMax => v_best c_gt vs
  end.

Definition err_frame : frame := ([], [[VErr]]).
Definition frame_err (f : frame) : bool := existsb (existsb is_err) (snd f).

Definition filter_v (p : row -> val) (rows : rel) : rel :=
  if existsb (fun r => is_err (p r)) rows then [[VErr]] else filter (fun r => is_true (p r)) rows.

Fixpoint group_ins (k : list val) (r : row) (gs : list (list val * rel)) : list (list val * rel) :=
  match gs with
  | [] => [(k, [r])]
  | (k', g) :: rest => if row_eqb k k' then (k', g ++ [r]) :: rest else (k', g) :: group_ins k r rest
  end.

Fixpoint dedup_fst {B} (seen : rel) (l : list (row * B)) : list (row * B) :=
  match l with
  | [] => []
  | x :: r => if mem_row (fst x) seen then dedup_fst seen r else x :: dedup_fst (fst x :: seen) r
  end.

Definition out_schema (sch : schema) (ts : list target) : schema :=
  flat_map (fun t => match t with
                     | TStar None => sch
                     | TStar (Some q) => filter (fun c => qual_ok (Some q) (fst c)) sch
                     | TExpr (ECol q c) al =>
                         let src := match find_col sch q c 0 with Some i => fst (nth i sch (None, c)) | None => None end in
                         [(src, match al with Some a => a | None => c end)]
                     | TExpr _ al => [(None, match al with Some a => a | None => 1%positive end)]
                     end) ts.

Fixpoint pick_cols (sch : schema) (rw : row) (q : name) : row :=
  match sch, rw with
  | c :: s', v :: r' => if qual_ok (Some q) (fst c) then v :: pick_cols s' r' q else pick_cols s' r' q
  | _, _ => []
  end.

Fixpoint eval_e (f : nat) (cx : ctx) (sch : schema) (rw : row) (grp : option rel) (e : expr) {struct f} : val :=
  match f with
  | O => VErr
  | S f' =>
    let ev := eval_e f' cx sch rw grp in
    match e with
    | ECol q c =>
        if match q with None => ambiguous sch c | Some _ => false end then VErr else
        match find_col sch q c 0 with Some i => nth i rw VErr | None => VErr end
    | EConst v => v
    | EUn op a =>
        let x := ev a in
        match op with
        | UNot => v_not x
        | UNeg => v_arith Z.sub (VInt 0) x
        | UIsNull => match x with VErr => VErr | VNull => VInt 1 | _ => VInt 0 end
        | UNotNull => match x with VErr => VErr | VNull => VInt 0 | _ => VInt 1 end
        end
    | EBin op a b =>
        let x := ev a in let y := ev b in
        match op with
        | BAdd => v_arith Z.add x y | BSub => v_arith Z.sub x y | BMul => v_arith Z.mul x y
        | BEq => v_rel c_eq x y | BNe => v_rel c_ne x y
        | BLt => v_rel c_lt x y | BLe => v_rel c_le x y | BGt => v_rel c_gt x y | BGe => v_rel c_ge x y
        | BAnd => v_and x y | BOr => v_or x y
        end
    | EBetween a lo hi => let x := ev a in v_and (v_rel c_ge x (ev lo)) (v_rel c_le x (ev hi))
    | EIn neg a l => let r := v_in (ev a) (map ev l) in if neg then v_not r else r
    | ECase whens els =>
        (fix go (ws : list (expr * expr)) : val :=
           match ws with
           | [] => match els with Some x => ev x | None => VNull end
           | (c, v) :: r => let cv := ev c in if is_err cv then VErr else if is_true cv then ev v else go r
           end) whens
    | EFun fn args => apply_fun fn (map ev args)
    | EAgg fn dist a =>
        match grp with
        | None => VErr
        | Some rows =>
            match a with
            | None => agg fn dist true (map (fun _ => VInt 1) rows)
            | Some x => agg fn dist false (map (fun r => eval_e f' cx sch r None x) rows)
            end
        end
    | EInQ neg a q =>
        let fr := eval_q f' cx q in
        if frame_err fr then VErr else
        let r := v_in (ev a) (map (fun r => hd VErr r) (snd fr)) in if neg then v_not r else r
    | EExists neg q =>
        let fr := eval_q f' cx q in
        if frame_err fr then VErr else of_bool (xorb neg (match snd fr with [] => false | _ => true end))
    | ESubQ q =>
        let fr := eval_q f' cx q in
        match snd fr with [] => VNull | r :: _ => hd VErr r end
    | EInP neg a k =>
        match nth_error (c_res cx) k with
        | Some fr => if frame_err fr then VErr else
                     let r := v_in (ev a) (map (fun r => hd VErr r) (snd fr)) in if neg then v_not r else r
        | None => VErr
        end
    | EParam k =>
        match nth_error (c_res cx) k with
        | Some fr => match snd fr with [] => VNull | r :: _ => hd VErr r end
        | None => VErr
        end
    | EVar c =>
        (fix look (l : list (name * val)) : val :=
           match l with [] => VErr | (n, v) :: r => if Pos.eqb n c then v else look r end) (c_vars cx)
    end
  end
with eval_q (f : nat) (cx : ctx) (q : query) {struct f} : frame :=
  match f with
  | O => err_frame
  | S f' =>
    match q with
    | QUnion all a b =>
        let fa := eval_q f' cx a in let fb := eval_q f' cx b in
        if frame_err fa || frame_err fb then err_frame else
        (fst fa, if all then snd fa ++ snd fb else distinct (snd fa ++ snd fb))
    | QSetOp op all a b =>
        let fa := eval_q f' cx a in let fb := eval_q f' cx b in
        if frame_err fa || frame_err fb then err_frame else
        (fst fa, set_op op all (snd fa) (snd fb))
    | QWith ctes q' =>
        let cx' := fold_left (fun c nq => mkCtx (c_db c) (c_prefix c) (c_res c)
                                                ((fst nq, eval_q f' c (snd nq)) :: c_ctes c) (c_vars c)) ctes cx in
        eval_q f' cx' q'
    | QSel dist ag targets frm wh group having order limit offset =>
        let src := match frm with Some fr => eval_f f' cx fr | None => ([], [[]]) end in
        if frame_err src then err_frame else
        let sch := fst src in
        let rows := match wh with
                    | Some w => filter_v (fun r => eval_e f' cx sch r None w) (snd src)
                    | None => snd src end in
        if frame_err (sch, rows) then err_frame else
        let units : list (row * option rel) :=
          if ag || match group with [] => false | _ => true end then
            match group with
            | [] => [(hd (nulls (length sch)) rows, Some rows)]
            | _ => map (fun g => (hd [] (snd g), Some (snd g)))
                       (fold_left (fun gs r => group_ins (map (eval_e f' cx sch r None) group) r gs) rows [])
            end
          else map (fun r => (r, None)) rows in
        let hv := match having with
                  | Some h => map (fun u => eval_e f' cx sch (fst u) (snd u) h) units
                  | None => [] end in
        if existsb is_err hv then err_frame else
        let units := match having with
                     | Some h => filter (fun u => is_true (eval_e f' cx sch (fst u) (snd u) h)) units
                     | None => units end in
        let osch := out_schema sch targets in
        let proj := fun (u : row * option rel) =>
          flat_map (fun t => match t with
                             | TStar None => fst u
                             | TStar (Some q) => pick_cols sch (fst u) q
                             | TExpr e _ => [eval_e f' cx sch (fst u) (snd u) e]
                             end) targets in
        let outs := map (fun u => let o := proj u in
                                  (o, map (fun k => eval_e f' cx (osch ++ sch) (o ++ fst u) (snd u) (fst k)) order)) units in
        if existsb (fun o => existsb is_err (snd o)) outs then err_frame else
        let outs := if dist then dedup_fst [] outs else outs in
        let srt := match order with
                   | [] => outs
                   | _ => isort (fun a b => kle (map snd order) (snd a) (snd b)) outs end in
        (osch, take_drop limit offset (map fst srt))
    end
  end
with eval_f (f : nat) (cx : ctx) (fr : from) {struct f} : frame :=
  match f with
  | O => err_frame
  | S f' =>
    match fr with
    | FTab parts alias =>
        let q := match alias with Some a => a | None => last parts 1%positive end in
        match (match parts with [n] => lookup_cte n (c_ctes cx) | _ => None end) with
        | Some (sch, rows) => (map (fun c => (Some q, snd c)) sch, rows)
        | None => match lookup_tab (c_prefix cx ++ parts) (c_db cx) with
                  | Some (cols, rows) => (map (fun c => (Some q, c)) cols, rows)
                  | None => err_frame
                  end
        end
    | FSub q alias => let r := eval_q f' cx q in (map (fun c => (Some alias, snd c)) (fst r), snd r)
    | FRes k alias =>
        match nth_error (c_res cx) k with
        | Some (sch, rows) => (match alias with Some a => map (fun c => (Some a, snd c)) sch | None => sch end, rows)
        | None => err_frame
        end
    | FJoin k l r on =>
        let a := eval_f f' cx l in let b := eval_f f' cx r in
        if frame_err a || frame_err b then err_frame else
        let sch := fst a ++ fst b in
        let thv := fun x y => match on with Some c => eval_e f' cx sch (x ++ y) None c | None => VInt 1 end in
        if existsb (fun x => existsb (fun y => is_err (thv x y)) (snd b)) (snd a) then err_frame else
        (sch, join k (fun x y => is_true (thv x y)) (length (fst a)) (length (fst b)) (snd a) (snd b))
    end
  end.

(* ---------- plan steps, by their documented meaning ---------- *)
Inductive pstep :=
| PFetch (integ : list name) (q : query)        (* run q on that integration *)
| PEval (q : query)                             (* SubSelectStep / QueryStep: q reads FRes k *)
| PJoin (k : jkind) (l r : nat) (on : option expr)
| PUnion (l r : nat) (all : bool)
| PSetOp (op : setop) (l r : nat) (all : bool)
| PProject (k : nat) (ts : list target)
| PLimit (k : nat) (limit offset : option nat)
| PFilter (k : nat) (e : expr)
| PMulti (steps : list pstep)                   (* MultipleSteps, reduce = union: the results one after another *)
| PMapReduce (k : nat) (s : pstep).             (* MapReduceStep: s once per row of result k, '$var[col]' bound to its values *)

Fixpoint exec_step (fuel : nat) (db : list (list name * (list name * rel))) (res : list frame)
         (vars : list (name * val)) (s : pstep) {struct fuel} : frame :=
  match fuel with
  | O => err_frame
  | S f' =>
    match s with
    | PFetch integ q => eval_q fuel (mkCtx db integ res [] vars) q
    | PEval q => eval_q fuel (mkCtx db [] res [] vars) q
    | PJoin k l r on => eval_f fuel (mkCtx db [] res [] vars) (FJoin k (FRes l None) (FRes r None) on)
    | PUnion l r all =>
        match nth_error res l, nth_error res r with
        | Some a, Some b => (fst a, if all then snd a ++ snd b else distinct (snd a ++ snd b))
        | _, _ => err_frame
        end
    | PSetOp op l r all =>
        match nth_error res l, nth_error res r with
        | Some a, Some b => (fst a, set_op op all (snd a) (snd b))
        | _, _ => err_frame
        end
    | PProject k ts => eval_q fuel (mkCtx db [] res [] vars)
                         (QSel false false ts (Some (FRes k None)) None [] None [] None None)
    | PLimit k lim off => match nth_error res k with Some a => (fst a, take_drop lim off (snd a)) | None => err_frame end
    | PFilter k e => eval_q fuel (mkCtx db [] res [] vars)
                       (QSel false false [TStar None] (Some (FRes k None)) (Some e) [] None [] None None)
    | PMulti steps =>
        let frs := map (exec_step f' db res vars) steps in
        if existsb frame_err frs then err_frame else
        (match frs with fr :: _ => fst fr | [] => [] end, flat_map snd frs)
    | PMapReduce k st =>
        match nth_error res k with
        | Some (sch, rows) =>
            let frs := map (fun r => exec_step f' db res (combine (map snd sch) r ++ vars) st) rows in
            if existsb frame_err frs then err_frame else
            (match frs with fr :: _ => fst fr | [] => [] end, flat_map snd frs)
        | None => err_frame
        end
    end
  end.
Definition exec_plan (fuel : nat) db (steps : list pstep) : frame :=
  last (fold_left (fun res s => res ++ [exec_step fuel db res [] s]) steps []) err_frame.
Definition eval_top (fuel : nat) db (q : query) : frame := eval_q fuel (mkCtx db [] [] [] []) q.

(* ---------- when is an answer acceptable ---------- *)
(* full: the rows of the query without its LIMIT / OFFSET; keys: positions of the ORDER BY keys in
   the output rows (empty if the query does not order or a key is not an output column) *)
Definition key_of (keys : list (nat * (bool * bool))) (r : row) : list val := map (fun k => nth (fst k) r VNull) keys.
Definition answer_ok (full : rel) (keys : list (nat * (bool * bool))) (limit offset : option nat) (got : rel) : bool :=
  let spec := map snd keys in
  let le := fun a b => kle spec (key_of keys a) (key_of keys b) in
  sorted le got &&
  match limit, offset with
  | None, None => bag_eq got full
  | _, _ =>
      let avail := match offset with Some k => length full - k | None => length full end in
      let want := match limit with Some n => Nat.min n avail | None => avail end in
      Nat.eqb (length got) want && sub_bag got full &&
      match offset, keys with
      | None, _ :: _ | Some O, _ :: _ =>
          (* every row left out sorts after (or with) the last row taken *)
          match rev got with
          | [] => true
          | lastr :: _ =>
              match (fix minus (a b : rel) : rel :=
                       match b with [] => a | x :: b' => match remove_one x a with Some a' => minus a' b' | None => minus a b' end end)
                      full got with
              | rest => forallb (fun r => le lastr r) rest
              end
          end
      | _, _ => true
      end
  end.
