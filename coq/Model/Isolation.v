(* C20: calls are isolated.  The part that is logic: every call (parse / plan / render) works on
   its own private objects (a fresh lexer and parser, a planner or renderer instance) and only
   READS what is shared (generated tables, class attributes, the caller's catalog); under that
   discipline the state a call reaches depends only on its own input and on how many of its own
   steps have run -- not on how the scheduler interleaves the steps of other calls.
   What the model cannot exhibit: whether the real calls follow the discipline (no write to a
   shared object, no shared private object), CPython's bytecode-level interleaving, and hash
   randomisation; harness/c20.py checks those on the implementation. *)
From Coq Require Import List Arith Bool.
Import ListNotations.

Section Threads.
  Variables (Shared Private : Type).
  (* one step of a call: reads the shared state, updates only its private state *)
  Variable step : Shared -> Private -> Private.

  Fixpoint upd (i : nat) (f : Private -> Private) (ps : list Private) : list Private :=
    match ps, i with
    | [], _ => []
    | p :: r, O => f p :: r
    | p :: r, S j => p :: upd j f r
    end.

  (* a schedule: which call makes the next step *)
  Definition run (sh : Shared) (ps : list Private) (sched : list nat) : list Private :=
    fold_left (fun ps i => upd i (step sh) ps) sched ps.

  Fixpoint iter (n : nat) (f : Private -> Private) (p : Private) : Private :=
    match n with O => p | S k => iter k f (f p) end.
End Threads.
