(* Model of mindsdb_sql/parser/utils.py : tokens_to_string -- rebuilds the text of a raw inner
   query from token.index / token.lineno / token.value. *)
From Coq Require Import NArith List Bool Arith.
From MSV Require Import Lib.PyStr.
Import ListNotations.

Record rtok := mkR { rk_index : nat; rk_line : N; rk_value : str }.

Definition spaces (n : nat) : str := repeat cSP n.

(* the loop body; state = (content, line, line_num, shift, last_pos) *)
Fixpoint tts (toks : list rtok) (content line : str) (ln : N) (shift last_pos : nat) : str :=
  match toks with
  | [] => content ++ line
  | t :: r =>
    let newline := negb (N.eqb (rk_line t) ln) in
    let content := if newline then content ++ line ++ [cNL] else content in
    let line := if newline then [] else line in
    let shift := if newline then last_pos + 1 else shift in
    let line := line ++ spaces (rk_index t - shift - length line) ++ rk_value t in
    tts r content line (rk_line t) shift (rk_index t + length (rk_value t))
  end.

(* None = IndexError on tokens[0] *)
Definition tokens_to_string (toks : list rtok) : option str :=
  match toks with
  | [] => None
  | t :: _ => Some (tts toks [] [] (rk_line t) (rk_index t) 0)
  end.

(* ---- the layout it is supposed to reproduce ---- *)
Record item := mkI { it_val : str; it_gap : nat; it_line : N }.
   (* a token's text, the number of characters (blanks, comments) up to the next token, its line *)

Fixpoint mk_toks (pos : nat) (items : list item) : list rtok :=
  match items with
  | [] => []
  | i :: r => mkR pos (it_line i) (it_val i) :: mk_toks (pos + length (it_val i) + it_gap i) r
  end.

Definition sep (ln : N) (g : nat) (items : list item) : str :=
  match items with
  | [] => []
  | j :: _ => if N.eqb (it_line j) ln then spaces g else cNL :: spaces (g - 1)
  end.

(* the original text with every inter-token gap replaced by white space of the same length *)
Fixpoint blanked (items : list item) : str :=
  match items with
  | [] => []
  | i :: r => it_val i ++ sep (it_line i) (it_gap i) r ++ blanked r
  end.

(* a gap that crosses a line boundary contains at least the newline character *)
Fixpoint gaps_ok (items : list item) : bool :=
  match items with
  | i :: ((j :: _) as r) => (N.eqb (it_line j) (it_line i) || Nat.leb 1 (it_gap i)) && gaps_ok r
  | _ => true
  end.
