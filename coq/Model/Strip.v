(* The rewriting prepare_integration_select applies before a query is sent to one integration
   (mindsdb_sql/planner/query_planner.py): the integration qualifier is removed from every table
   name of more than one part whose first part is the integration, and select-list columns get a
   name-keeping alias.  `tr ds ka`: ds = Some d strips qualifier d (None: nothing is stripped),
   ka = true adds the aliases.  `ok`: the conditions under which the rewriting keeps the meaning
   (Proofs/StripProofs.v): every table is either a CTE in scope (one part) or qualified with d,
   and a stripped two-part name is not captured by a CTE in scope. *)
From Coq Require Import ZArith PArith List Bool.
From MSV Require Import Lib.Rel Model.SqlEval.
Import ListNotations.

Definition memn (n : name) (l : list name) : bool := existsb (Pos.eqb n) l.

Definition strip_parts (ds : option name) (parts : list name) : list name :=
  match ds, parts with
  | Some d, x :: ((_ :: _) as rest) => if Pos.eqb x d then rest else parts
  | _, _ => parts
  end.

Definition keep_alias (ka : bool) (e : expr) (al : option name) : option name :=
  match e, al with
  | ECol _ c, None => if ka then Some c else None
  | _, _ => al
  end.

Section Tr.
Variable ds : option name.
Variable ka : bool.

Fixpoint tr_e (e : expr) : expr :=
  match e with
  | ECol q c => ECol q c
  | EConst v => EConst v
  | EUn op a => EUn op (tr_e a)
  | EBin op a b => EBin op (tr_e a) (tr_e b)
  | EBetween a lo hi => EBetween (tr_e a) (tr_e lo) (tr_e hi)
  | EIn neg a l => EIn neg (tr_e a) (map tr_e l)
  | ECase whens els => ECase (map (fun p => let '(c, v) := p in (tr_e c, tr_e v)) whens)
                             (match els with Some x => Some (tr_e x) | None => None end)
  | EFun f args => EFun f (map tr_e args)
  | EAgg f dist a => EAgg f dist (match a with Some x => Some (tr_e x) | None => None end)
  | EInQ neg a q => EInQ neg (tr_e a) (tr_q q)
  | EExists neg q => EExists neg (tr_q q)
  | ESubQ q => ESubQ (tr_q q)
  | EInP neg a k => EInP neg (tr_e a) k
  | EParam k => EParam k
  | EVar c => EVar c
  end
with tr_q (q : query) : query :=
  match q with
  | QSel dist ag ts frm wh group having order limit offset =>
      QSel dist ag
           (map (fun t => match t with
                          | TStar x => TStar x
                          | TExpr e al => TExpr (tr_e e) (keep_alias ka e al)
                          end) ts)
           (match frm with Some f => Some (tr_f f) | None => None end)
           (match wh with Some w => Some (tr_e w) | None => None end)
           (map tr_e group)
           (match having with Some h => Some (tr_e h) | None => None end)
           (map (fun o => let '(k, s) := o in (tr_e k, s)) order) limit offset
  | QUnion all a b => QUnion all (tr_q a) (tr_q b)
  | QSetOp op all a b => QSetOp op all (tr_q a) (tr_q b)
  | QWith ctes q' => QWith (map (fun nq => let '(n, cq) := nq in (n, tr_q cq)) ctes) (tr_q q')
  end
with tr_f (f : from) : from :=
  match f with
  | FTab parts al => FTab (strip_parts ds parts) al
  | FJoin k l r on => FJoin k (tr_f l) (tr_f r) (match on with Some c => Some (tr_e c) | None => None end)
  | FSub q al => FSub (tr_q q) al
  | FRes k al => FRes k al
  end.

Definition tr_t (t : target) : target :=
  match t with
  | TStar x => TStar x
  | TExpr e al => TExpr (tr_e e) (keep_alias ka e al)
  end.

(* sc: the names of the CTEs in scope *)
Definition ok_parts (sc : list name) (parts : list name) : bool :=
  match ds with
  | None => true
  | Some d =>
      match parts with
      | [] => false
      | [n] => memn n sc
      | x :: rest => Pos.eqb x d && match rest with [t] => negb (memn t sc) | _ => true end
      end
  end.

Fixpoint ok_e (sc : list name) (e : expr) : bool :=
  match e with
  | ECol _ _ | EConst _ | EParam _ | EVar _ => true
  | EUn _ a => ok_e sc a
  | EBin _ a b => ok_e sc a && ok_e sc b
  | EBetween a lo hi => ok_e sc a && ok_e sc lo && ok_e sc hi
  | EIn _ a l => ok_e sc a && forallb (ok_e sc) l
  | ECase whens els => forallb (fun p => let '(c, v) := p in ok_e sc c && ok_e sc v) whens &&
                       match els with Some x => ok_e sc x | None => true end
  | EFun _ args => forallb (ok_e sc) args
  | EAgg _ _ a => match a with Some x => ok_e sc x | None => true end
  | EInQ _ a q => ok_e sc a && ok_q sc q
  | EExists _ q => ok_q sc q
  | ESubQ q => ok_q sc q
  | EInP _ a _ => ok_e sc a
  end
with ok_q (sc : list name) (q : query) : bool :=
  match q with
  | QSel _ _ ts frm wh group having order _ _ =>
      forallb (fun t => match t with TStar _ => true | TExpr e _ => ok_e sc e end) ts &&
      match frm with Some f => ok_f sc f | None => true end &&
      match wh with Some w => ok_e sc w | None => true end &&
      forallb (ok_e sc) group &&
      match having with Some h => ok_e sc h | None => true end &&
      forallb (fun o => let '(k, _) := o in ok_e sc k) order
  | QUnion _ a b => ok_q sc a && ok_q sc b
  | QSetOp _ _ a b => ok_q sc a && ok_q sc b
  | QWith ctes q' =>
      (fix go (sc : list name) (l : list (name * query)) : bool :=
         match l with
         | [] => ok_q sc q'
         | (n, cq) :: r => ok_q sc cq && go (n :: sc) r
         end) sc ctes
  end
with ok_f (sc : list name) (f : from) : bool :=
  match f with
  | FTab parts _ => ok_parts sc parts
  | FJoin _ l r on => ok_f sc l && ok_f sc r && match on with Some c => ok_e sc c | None => true end
  | FSub q _ => ok_q sc q
  | FRes _ _ => true
  end.
End Tr.

(* the context in which the rewritten query runs: inside integration d *)
Definition inside_o (ds : option name) (cx : ctx) : ctx :=
  match ds with
  | Some d => mkCtx (c_db cx) [d] (c_res cx) (c_ctes cx) (c_vars cx)
  | None => cx
  end.
Definition pref_ok (ds : option name) (cx : ctx) : Prop :=
  match ds with Some _ => c_prefix cx = [] | None => True end.

(* what the planner sends for q: qualifier stripped, name-keeping aliases (compared up to those aliases) *)
Definition pushed (d : name) (q : query) : query := tr_q None true (tr_q (Some d) false q).
Definition alias_norm (q : query) : query := tr_q None true q.
