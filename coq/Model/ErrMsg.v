(* Model of mindsdb_sql/__init__.py : ErrorHandling.process (error_location + make_suggestion).
   The display string of every token type ([disp]) is obtained from the running code by probing
   make_suggestion with a single expected token; the re-parse of synthesized token lists
   ([query_is_valid]) is a parameter, instantiated with the engine model of Model/Sly.v. *)
From Coq Require Import NArith PArith ZArith List Bool Arith.
From MSV Require Import Lib.PyStr.
Import ListNotations.

Record etok := mkET { et_type : positive; et_line : N; et_index : nat; et_value : str }.

Definition ljust (s : str) (n : nat) : str := s ++ repeat cSP (n - length s).

(* lines_idx: insertion-ordered map lineno -> text *)
Fixpoint upd_line (ls : list (N * str)) (ln : N) (f : str -> str) : list (N * str) :=
  match ls with
  | [] => [(ln, f [])]
  | (k, v) :: r => if N.eqb k ln then (k, f v) :: r else (k, v) :: upd_line r ln f
  end.

Definition put_token (line : str) (t : etok) : str :=
  (if Nat.ltb (et_index t) (length line) then firstn (et_index t) line else ljust line (et_index t))
  ++ et_value t.

Definition build_lines (toks : list etok) : list (N * str) :=
  fold_left (fun ls t => upd_line ls (et_line t) (fun line => put_token line t)) toks [].

Definition get_line (ls : list (N * str)) (ln : N) : str :=
  match find (fun kv => N.eqb (fst kv) ln) ls with Some kv => snd kv | None => [] end.

(* the "shift lines indexes" loop: displayed lines, index of the error line, error_index *)
Fixpoint shift_lines (ls : list (N * str)) (err_ln : N) (i : nat) (shift : nat) (err_index : Z) (err_line : nat)
  : list str * Z * nat :=
  match ls with
  | [] => ([], err_index, err_line)
  | (k, line) :: r =>
    let hit := N.eqb k err_ln in
    let err_index' := if hit then (err_index - Z.of_nat shift)%Z else err_index in
    let err_line' := if hit then i else err_line in
    let '(rest, ei, el) := shift_lines r err_ln (S i) (length line) err_index' err_line' in
    (skipn shift line :: rest, ei, el)
  end.

Definition str_of_ascii (l : list N) : str := l.
Definition s_unknown : str := (* Syntax error, unknown input: *)
  [83;121;110;116;97;120;32;101;114;114;111;114;44;32;117;110;107;110;111;119;110;32;105;110;112;117;116;58]%N.
Definition s_eoq : str := (* Syntax error, unexpected end of query: *)
  [83;121;110;116;97;120;32;101;114;114;111;114;44;32;117;110;101;120;112;101;99;116;101;100;32;101;110;100;32;111;102;32;113;117;101;114;121;58]%N.

Definition last_key (ls : list (N * str)) : N := match rev ls with (k, _) :: _ => k | [] => 0%N end.

(* -> message lines (without the suggestion line), error_index, error_len *)
Definition error_location (toks : list etok) (bad : option etok) : list str * Z * nat :=
  let ls := build_lines toks in
  let '(header, err_len, err_ln, err_index) :=
      match bad with
      | None => (s_eoq, 1, last_key ls, Z.of_nat (length (get_line ls (last_key ls))))
      | Some b => (s_unknown, length (et_value b), et_line b, Z.of_nat (et_index b))
      end in
  let '(lines, ei, el) := shift_lines ls err_ln 0 0 err_index 0 in
  let first := if Nat.ltb 1 el then el - 2 else 0 in
  let shown := firstn (S el - first) (skipn first lines) in
  ([header] ++ map (fun l => 62%N :: l) shown ++
   [repeat 45%N (Z.to_nat (ei + 1)) ++ repeat 94%N err_len], ei, err_len).

(* ---------- suggestions ---------- *)
Inductive tclass := TId | TNum | TStr | TPlain (d : option str).   (* what make_suggestion maps a token type to *)

Section Sug.
Variable cls : positive -> tclass.                 (* generated *)
Variable valid : list etok -> bool.                (* query_is_valid *)

Definition d_ident : str := [91;105;100;101;110;116;105;102;105;101;114;93]%N.   (* [identifier] *)
Definition d_number : str := [91;110;117;109;98;101;114;93]%N.                   (* [number] *)
Definition d_string : str := [91;115;116;114;105;110;103;93]%N.                  (* [string] *)

(* dict update preserving first-insertion order *)
Fixpoint dput (d : list (str * positive)) (k : str) (v : positive) : list (str * positive) :=
  match d with
  | [] => [(k, v)]
  | (k', v') :: r => if str_eqb k k' then (k', v) :: r else (k', v') :: dput r k v
  end.

Fixpoint expected_dict (exp : list positive) (acc : list (str * positive)) : list (str * positive) :=
  match exp with
  | [] => acc
  | t :: r =>
    match cls t with
    | TId => [(d_ident, t)]                                 (* break *)
    | TNum => expected_dict r (dput acc d_number t)
    | TStr => expected_dict r (dput acc d_string t)
    | TPlain (Some d) => expected_dict r (dput acc d t)
    | TPlain None => expected_dict r acc
    end
  end.

Definition synth (t : positive) (v : str) : etok := mkET t 0%N 0 v.

(* index of the bad token in the token list: the LAST position holding that very object *)
Definition make_suggestion (toks : list etok) (bad : option (nat * etok)) (exp : list positive) : list str :=
  match exp with
  | [] => []
  | _ =>
    let d := expected_dict exp [] in
    match d with
    | [(v, _)] => [v]
    | _ =>
      if Nat.ltb 1 (length d) && Nat.ltb (length d) 20 then
        match bad with
        | None => map fst d
        | Some (i, _) =>
          flat_map (fun kv =>
                      let tk := synth (snd kv) (fst kv) in
                      if valid (firstn i toks ++ [tk] ++ skipn i toks) then [fst kv]
                      else
                        (* tokens[:error_index - 1]: for error_index = 0 python's slice [:-1] drops the LAST token *)
                        let pre := match i with O => removelast toks | S k => firstn k toks end in
                        if valid (pre ++ [tk] ++ skipn i toks) then [fst kv] else []) d
        end
      else []
    end
  end.
End Sug.
