(* the text of a printed structure, as SQLAlchemy's compiler lays it out (postgres / sqlite) *)
From Coq Require Import NArith PArith List Bool.
From MSV Require Import Lib.PyStr Model.SaGroup.
Import ListNotations.
Local Open Scope N_scope.

Definition s_sp : str := [32].
Definition sym_of (k : kind) : str :=
  match k with
  | KAdd => [43] | KMul => [42] | KAnd => [65; 78; 68] | KOr => [79; 82] | _ => [63]
  end.
Definition cmp_sym (c : cop) : str :=
  match c with CEq => [61] | CNe => [33; 61] | CLt => [60] | CLe => [60; 61] | CGt => [62] | CGe => [62; 61] end.
Fixpoint join_with (sep : str) (l : list str) : str :=
  match l with [] => [] | [x] => x | x :: r => x ++ sep ++ join_with sep r end.

Fixpoint show (atom : positive -> str) (p : pex) : str :=
  match p with
  | PAtom n => atom n
  | PPar e => [40] ++ show atom e ++ [41]
  | PChain k cs => join_with (s_sp ++ sym_of k ++ s_sp) (map (show atom) cs)
  | PSub l r => show atom l ++ [32; 45; 32] ++ show atom r
  | PCmp op l r => show atom l ++ s_sp ++ cmp_sym op ++ s_sp ++ show atom r
  | PNeg e => [45] ++ show atom e
  | PNot e => [78; 79; 84; 32] ++ show atom e
  | PBtw neg e lo hi => show atom e ++ (if neg then [32; 78; 79; 84] else []) ++ [32; 66; 69; 84; 87; 69; 69; 78; 32] ++ show atom lo ++
                        [32; 65; 78; 68; 32] ++ show atom hi
  end.
Definition render (T : satable) (atom : positive -> str) (e : sex) : option str :=
  match pr T e with Some p => Some (show atom p) | None => None end.
Definition ostr_eqb (a : option str) (b : str) : bool := match a with Some x => str_eqb x b | None => false end.
