(* C17: the fallback contract of SqlalchemyRender.get_exec_params / get_string as a function of
   what the translation + compilation (get_query, render_func) does: it either produces text or
   raises an exception of some class.  [caught] is the tuple of the `except` clause, regenerated
   from the source on every run (harness/c17.py). *)
From Coq Require Import PArith List Bool.
Import ListNotations.

Inductive exc := ESqlAlchemy | ENotImplemented | EOther (cls : positive).
Inductive out := Rendered | OwnString | Raises (e : exc).

Definition exc_eqb (a b : exc) : bool :=
  match a, b with
  | ESqlAlchemy, ESqlAlchemy | ENotImplemented, ENotImplemented => true
  | EOther x, EOther y => Pos.eqb x y
  | _, _ => false
  end.
Definition mem_exc (e : exc) (l : list exc) : bool := existsb (exc_eqb e) l.

(* the inner handler: classes in [pass] are re-raised as they are, and if [convert] is set every
   other class is re-raised as NotImplementedError *)
Definition inner (pass : list exc) (convert : bool) (raw : option exc) : option exc :=
  match raw with
  | None => None
  | Some e => if mem_exc e pass then Some e else if convert then Some ENotImplemented else Some e
  end.

(* raw: None = the translation and compilation succeeded *)
Definition outer (caught : list exc) (with_failback : bool) (raw : option exc) : out :=
  match raw with
  | None => Rendered
  | Some e => if mem_exc e caught then (if with_failback then OwnString else Raises e) else Raises e
  end.
Definition get_string (pass : list exc) (convert : bool) (caught : list exc) (with_failback : bool) (raw : option exc) : out :=
  outer caught with_failback (inner pass convert raw).

Definition out_eqb (a b : out) : bool :=
  match a, b with
  | Rendered, Rendered | OwnString, OwnString => true
  | Raises x, Raises y => exc_eqb x y
  | _, _ => false
  end.
Definition allowed_without_fallback (o : out) : bool :=
  match o with Raises (EOther _) => false | _ => true end.
Definition allowed_with_fallback (o : out) : bool :=
  match o with Raises _ => false | _ => true end.
