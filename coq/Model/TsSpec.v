(* C15: which rows a time-series model must receive, and the model of what the planner fetches.
   A row's time is the value of the order column (NULL possible); rows of one partition only. *)
From Coq Require Import ZArith PArith List Bool.
From MSV Require Import Lib.Rel.
Import ListNotations.

Inductive tcond :=
| TNone                       (* no condition on the order column *)
| TGt (z : Z) | TGe (z : Z) | TEq (z : Z) | TLt (z : Z) | TLe (z : Z)
| TBetween (lo hi : Z)
| TGtLatest | TEqLatest.

(* the user's condition on a (non-NULL) time *)
Definition selects (c : tcond) (t : Z) : bool :=
  match c with
  | TNone => true
  | TGt z => Z.ltb z t | TGe z => Z.leb z t | TEq z => false | TLt z => Z.ltb t z | TLe z => Z.leb t z
  | TBetween lo hi => Z.leb lo t && Z.leb t hi
  | TGtLatest | TEqLatest => false
  end.
(* the rows that may serve as context: those before the lower bound of the condition
   (for an exact time / LATEST: everything up to that point) *)
Definition context (c : tcond) (t : Z) : bool :=
  match c with
  | TNone | TLt _ | TLe _ => false
  | TGt z => Z.leb t z | TGe z => Z.ltb t z | TEq z => Z.leb t z
  | TBetween lo _ => Z.ltb t lo
  | TGtLatest | TEqLatest => true
  end.

Definition time_of (tcol : nat) (r : row) : option Z := match nth tcol r VNull with VInt z => Some z | _ => None end.
Definition on_time (tcol : nat) (f : Z -> bool) (r : row) : bool := match time_of tcol r with Some z => f z | None => false end.
Definition tz (tcol : nat) (r : row) : Z := match time_of tcol r with Some z => z | None => 0%Z end.

(* most recent first; stable *)
Definition newer (tcol : nat) (a b : row) : bool := Z.leb (tz tcol b) (tz tcol a).

(* ---------- model of plan_timeseries_predictor: what is fetched for one partition ---------- *)
(* rows: the rows of the partition that pass the partition filters *)
Definition window_part (tcol : nat) (w : nat) (c : tcond) (rows : rel) : rel :=
  firstn w (isort (newer tcol) (filter (on_time tcol (context c)) rows)).
Definition select_part (tcol : nat) (c : tcond) (rows : rel) : rel :=
  isort (newer tcol) (filter (on_time tcol (selects c)) rows).
Definition has_window (c : tcond) : bool := match c with TNone | TLt _ | TLe _ => false | _ => true end.
Definition has_select (c : tcond) : bool := match c with TEq _ | TGtLatest | TEqLatest => false | _ => true end.
Definition fetched (tcol : nat) (w : nat) (c : tcond) (rows : rel) : rel :=
  (if has_window c then window_part tcol w c rows else []) ++ (if has_select c then select_part tcol c rows else []).

(* ---------- the specification, as a checkable predicate on an answer ---------- *)
(* got is acceptable: it consists of every selected row plus `w` most recent context rows (any
   choice among ties), all with a non-NULL time *)
Fixpoint minus (a b : rel) : rel :=
  match b with [] => a | x :: b' => match remove_one x a with Some a' => minus a' b' | None => minus a b' end end.
Definition ts_ok (tcol : nat) (w : nat) (c : tcond) (rows got : rel) : bool :=
  let sel := filter (on_time tcol (selects c)) rows in
  let cand := filter (on_time tcol (context c)) rows in
  sub_bag sel got &&
  let rest := minus got sel in
  Nat.eqb (length got) (length sel + length rest) &&
  sub_bag rest cand && Nat.eqb (length rest) (Nat.min w (length cand)) &&
  forallb (fun x => forallb (fun y => Z.leb (tz tcol x) (tz tcol y)) rest) (minus cand rest).
