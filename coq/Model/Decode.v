(* Model of how a string token becomes the value stored in the tree:
   lexer action (chain of str.replace, extracted from the lexer source) followed by the grammar
   action quote_string / dquote_string (strip of the delimiter, extracted from the parser source). *)
From Coq Require Import NArith List Bool.
From MSV Require Import Lib.PyStr Model.Lex.
Import ListNotations.
Local Open Scope N_scope.

Definition decode (ops : list strop) (delim : list N) (lexeme : str) : str :=
  strip delim (apply_ops ops lexeme).

(* the chain found in MindsDBLexer.QUOTE_STRING on the pinned tree *)
Definition ops_mindsdb_q : list strop :=
  [OpReplace [cBS; cDQ] [cDQ]; OpReplace [cBS; cQ] [cQ]; OpReplace [cQ; cQ] [cQ]].

Fixpoint strop_eqb (a b : strop) : bool :=
  match a, b with
  | OpReplace x y, OpReplace x' y' => str_eqb x x' && str_eqb y y'
  | OpStrip x, OpStrip y | OpLstrip x, OpLstrip y => str_eqb x y
  | _, _ => false
  end.
Fixpoint ops_eqb (a b : list strop) : bool :=
  match a, b with
  | [], [] => true
  | x :: a', y :: b' => strop_eqb x y && ops_eqb a' b'
  | _, _ => false
  end.

Definition K_decode_mindsdb (ops : list strop) (delim : list N) : bool :=
  ops_eqb ops ops_mindsdb_q && str_eqb delim [cQ].
(* sqlite / mysql: no lexer rewriting, strip of the delimiter only *)
Definition K_decode_plain (ops : list strop) (delim : list N) : bool :=
  ops_eqb ops [] && str_eqb delim [cQ].
