(* Executable comparison functions used by the C14 correspondence and judge (harness/c14.py writes
   Gen/C14_cases_*.v that apply them to what the implementation produced). *)
From Coq Require Import PArith NArith List Bool.
From MSV Require Import Lib.PyStr Model.Resolve Model.ModelJoin.
Import ListNotations.
Local Open Scope positive_scope.

Definition cmpop_eqb (a b : cmpop) : bool :=
  match a, b with OEq, OEq | OEqRev, OEqRev | OBin, OBin | OBtw, OBtw | OIsNull, OIsNull => true | _, _ => false end.
Definition cmp_eqb (x y : cmp) : bool :=
  let '(o1, a1, c1, v1) := x in let '(o2, a2, c2, v2) := y in
  cmpop_eqb o1 o2 && Pos.eqb a1 a2 && Pos.eqb c1 c2 && Pos.eqb v1 v2.
Fixpoint list_eqb {A} (e : A -> A -> bool) (l1 l2 : list A) : bool :=
  match l1, l2 with
  | [], [] => true
  | x :: r1, y :: r2 => e x y && list_eqb e r1 r2
  | _, _ => false
  end.
Fixpoint cond_eqb (x y : cond) : bool :=
  match x, y with
  | CAnd a b, CAnd c d | COr a b, COr c d => cond_eqb a c && cond_eqb b d
  | CNot a, CNot c => cond_eqb a c
  | CCmp o a c v, CCmp o' a' c' v' => cmp_eqb (o, a, c, v) (o', a', c', v')
  | CCols e a1 c1 a2 c2, CCols e' a1' c1' a2' c2' =>
      Bool.eqb e e' && Pos.eqb a1 a1' && Pos.eqb c1 c1' && Pos.eqb a2 a2' && Pos.eqb c2 c2'
  | CTrue, CTrue => true
  | CWrap1 i b a, CWrap1 i' b' a' => Pos.eqb i i' && Bool.eqb b b' && cond_eqb a a'
  | CWrap2 i b a c, CWrap2 i' b' a' c' => Pos.eqb i i' && Bool.eqb b b' && cond_eqb a a' && cond_eqb c c'
  | COther i b, COther i' b' => Pos.eqb i i' && Bool.eqb b b'
  | _, _ => false
  end.

(* dict assignment: an existing key keeps its position and takes the new value *)
Fixpoint dict_set {K V} (e : K -> K -> bool) (d : list (K * V)) (k : K) (v : V) : list (K * V) :=
  match d with
  | [] => [(k, v)]
  | (k', v') :: r => if e k k' then (k, v) :: r else (k', v') :: dict_set e r k v
  end.
Definition dict_of {K V} (e : K -> K -> bool) (l : list (K * V)) : list (K * V) :=
  fold_left (fun d kv => dict_set e d (fst kv) (snd kv)) l [].

Definition pp_eqb (x y : positive * positive) := Pos.eqb (fst x) (fst y) && Pos.eqb (snd x) (snd y).
Definition cm_eqb (x y : positive * (positive * positive)) := Pos.eqb (fst x) (fst y) && pp_eqb (snd x) (snd y).
Definition sp_eqb (x y : str * positive) := str_eqb (fst x) (fst y) && Pos.eqb (snd x) (snd y).

Record tcase := mkT { t_alias : positive; t_on : option (jtype * cond); t_impl : list cmp }.
Record mcase := mkM { m_alias : positive; m_tgt : list positive; m_on : option cond;
                      m_rowdict : list (positive * positive);
                      m_colmap : list (positive * (positive * positive)) }.
Record jcase := mkJ { j_where : cond; j_tabs : list tcase; j_mods : list mcase; j_outer : option cond }.

Definition on_model (t : tcase) : list cmp :=
  match t_on t with Some (j, oc) => pushed_on j oc (t_alias t) | None => [] end.
Definition on_spec (t : tcase) : list cmp :=
  match t_on t with Some (j, oc) => pushed_on_spec j oc (t_alias t) | None => [] end.

Definition neutralise_all (w : cond) (ms : list mcase) : cond :=
  fold_left (fun c m => neutralise c (m_alias m) (m_tgt m)) ms w.
Definition remaining_all (w : cond) (ms : list mcase) : list cond :=
  filter (fun x => negb (existsb (fun m => consumed_conj (m_tgt m) (m_alias m) x) ms)) (conjuncts w).
Definition is_true_c (c : cond) : bool := match c with CTrue => true | _ => false end.
Fixpoint sublist {A} (e : A -> A -> bool) (l1 l2 : list A) : bool :=
  match l1, l2 with
  | [], _ => true
  | _ :: _, [] => false
  | x :: r1, y :: r2 => if e x y then sublist e r1 r2 else sublist e l1 r2
  end.

(* correspondence: the implementation's outputs equal the model's *)
Definition corr_case (j : jcase) : list bool :=
  [ forallb (fun t => list_eqb cmp_eqb (t_impl t) (pushed (j_where j) (t_alias t) ++ on_model t)) (j_tabs j);
    forallb (fun m => list_eqb pp_eqb (m_rowdict m) (dict_of Pos.eqb (row_dict (j_where j) (m_alias m) (m_tgt m)))) (j_mods j);
    forallb (fun m => list_eqb cm_eqb (m_colmap m)
                        (match m_on m with Some oc => dict_of Pos.eqb (colmap oc (m_alias m)) | None => [] end)) (j_mods j);
    match j_outer j with Some o => cond_eqb o (neutralise_all (j_where j) (j_mods j)) | None => true end ].

(* judge: every fetch filter is a top-level conjunct of WHERE on that table or a top-level
   `=`-constant conjunct of the ON clause of an inner / left join; the arguments are exactly the
   top-level model equalities; the outer WHERE keeps exactly the conjuncts that were not consumed *)
Definition judge_case (j : jcase) : list bool :=
  [ forallb (fun t => sublist cmp_eqb (t_impl t) (pushed_spec (j_where j) (t_alias t) ++ on_spec t)) (j_tabs j);
    forallb (fun m => list_eqb pp_eqb (m_rowdict m) (dict_of Pos.eqb (row_dict_spec (j_where j) (m_alias m) (m_tgt m)))) (j_mods j);
    match j_outer j with
    | Some o => list_eqb cond_eqb (filter (fun x => negb (is_true_c x)) (conjuncts o)) (remaining_all (j_where j) (j_mods j))
    | None => true end ].

(* which theorem guards hold for the case (for the input distribution) *)
Definition guards (j : jcase) : bool * bool :=
  (and_tree (j_where j),
   forallb (fun t => match t_on t with Some (jt, oc) => eq_and_tree oc && push_safe jt | None => true end) (j_tabs j)).

Definition bad_index (f : jcase -> list bool) (cs : list jcase) : list (nat * list bool) :=
  let fix go (i : nat) (l : list jcase) :=
    match l with
    | [] => []
    | c :: r => let b := f c in if forallb (fun x => x) b then go (S i) r else (i, b) :: go (S i) r
    end in go O cs.

(* USING *)
Definition using_ok (c : list str * list (str * positive) * list (str * positive)) : bool :=
  let '(al, opts, impl) := c in list_eqb sp_eqb impl (dict_of str_eqb (model_params al opts)).

(* step sequence *)
Definition step_eqb (a b : step) : bool :=
  match a, b with
  | SFetch r, SFetch r' => Nat.eqb r r'
  | SApply r i, SApply r' i' => Nat.eqb r r' && Nat.eqb i i'
  | SJoin l r, SJoin l' r' => Nat.eqb l l' && Nat.eqb r r'
  | _, _ => false
  end.
Definition seq_corr (c : bool * list bool * list step) : bool :=
  let '(first, rest, impl) := c in
  match prun ([], [], O) (join_seq first rest) with
  | Some (steps, _, _) => list_eqb step_eqb steps impl
  | None => false
  end.
Definition seq_judge (c : bool * list bool * list step) : bool :=
  let '(_, _, impl) := c in
  forallb (fun s => match s with
                    | SApply r i => list_eqb Nat.eqb (covers (S (length impl)) impl i) (seq 0 r)
                    | _ => true end) impl.
