(* Models for C12:
   - get_query_params / fill_query_params (planner/utils.py) on top of the walker model:
     the placeholders found = the Parameter nodes in visiting order; filling binds the k-th value
     to the k-th placeholder found;
   - the prepare / execute protocol of PreparedStatementPlanner as a three-state machine. *)
From Coq Require Import PArith List Bool Arith.
From MSV Require Import Model.Walk.
Import ListNotations.
Local Open Scope positive_scope.

Section P.
Variable cParam : positive.      (* class id of ast.Parameter *)
Variable cConst : positive.      (* class id of ast.Constant *)
Variable vbase : positive.       (* the node that carries value number k has id vbase + k *)

Fixpoint ids_of_class (c : positive) (n : node) : list positive :=
  match n with
  | Nd id cls ch =>
    (if Pos.eqb cls c then [id] else []) ++
    (fix go (l : list (slot * node)) : list positive :=
       match l with [] => [] | (_, x) :: r => ids_of_class c x ++ go r end) ch
  end.

Definition only_params (t : node) (vs : list visit) : list positive :=
  filter (fun i => existsb (Pos.eqb i) (ids_of_class cParam t)) (map (fun v => fst (fst v)) vs).

(* what get_query_params finds, in the order it finds them *)
Definition params (S : sched) (t : node) : list positive := only_params t (walk S t false false).
(* all placeholders of the statement in left-to-right textual order *)
Definition params_spec (t : node) : list positive := only_params t (spec t false false).

Fixpoint index_of (x : positive) (l : list positive) (k : nat) : option nat :=
  match l with [] => None | y :: r => if Pos.eqb x y then Some k else index_of x r (S k) end.

Definition bound (ps : list positive) (n : node) : node :=
  match n with
  | Nd id cls _ =>
    if Pos.eqb cls cParam then
      match index_of id ps 0 with
      | Some k => Nd (vbase + Pos.of_succ_nat k) cConst []
      | None => n                      (* a placeholder that was not found stays unbound *)
      end
    else n
  end.

(* the tree with the k-th placeholder of [ps] replaced by value number k *)
Fixpoint bind (ps : list positive) (n : node) : node :=
  match bound ps n with
  | Nd id cls _ =>
    match n with
    | Nd id0 cls0 ch =>
      if Pos.eqb cls0 cParam then bound ps n
      else Nd id0 cls0
             ((fix go (l : list (slot * node)) : list (slot * node) :=
                 match l with [] => [] | (s, c) :: r => (s, bind ps c) :: go r end) ch)
    end
  end.

Definition fill (S : sched) (t : node) : node := bind (params S t) t.
Definition fill_spec (t : node) : node := bind (params_spec t) t.
End P.

(* ---------- prepare / execute protocol ---------- *)
Inductive pstate := PNone | PPrepared (n : nat) | PExecuted.
Inductive pcall := CPrepare (n : nat) | CExecute (k : option nat).   (* k = number of values supplied *)
Inductive pout := OutGoesOn | OutPlanningException | OutInternalError.

(* [again]: what execute(values) does on a statement that has already been executed (probed) *)
Definition pstep (again : pout) (s : pstate) (c : pcall) : pstate * pout :=
  match c with
  | CPrepare n => (PPrepared n, OutGoesOn)
  | CExecute None =>
    match s with PPrepared _ => (PExecuted, OutGoesOn) | _ => (s, OutGoesOn) end
  | CExecute (Some k) =>
    match s with
    | PNone => (PNone, OutPlanningException)
    | PPrepared n => if Nat.eqb k n then (PExecuted, OutGoesOn) else (PPrepared n, OutPlanningException)
    | PExecuted => (PExecuted, again)
    end
  end.

Fixpoint prun (again : pout) (s : pstate) (h : list pcall) : list pout :=
  match h with
  | [] => []
  | c :: r => let '(s', o) := pstep again s c in o :: prun again s' r
  end.
