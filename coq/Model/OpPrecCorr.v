(* Correspondence helpers for C03: run the engine model on a statement's token types, read the
   expression that covers a given token span back with [abs], compare with what the
   implementation built and with the standard grouping.  No proofs. *)
From Coq Require Import PArith List Bool Arith.
From MSV Require Import Model.Sly Model.SlyCorr Model.OpPrec.
Import ListNotations.
Local Open Scope positive_scope.

Fixpoint ex_eqb (a b : ex) : bool :=
  match a, b with
  | EAtom x, EAtom y => Pos.eqb x y
  | EBin o l r, EBin o' l' r' => binop_eqb o o' && ex_eqb l l' && ex_eqb r r'
  | ENeg x, ENeg y | ENot x, ENot y | EPar x, EPar y => ex_eqb x y
  | EBtw x l h, EBtw x' l' h' => ex_eqb x x' && ex_eqb l l' && ex_eqb h h'
  | _, _ => false
  end.

Definition first_tid (t : tree) : positive := match yield t with k :: _ => tid k | [] => 1 end.
Definition last_tid (t : tree) : positive := match rev (yield t) with k :: _ => tid k | [] => 1 end.

(* outermost node with the given lhs covering exactly tokens lo..hi *)
Fixpoint expr_at (e lo hi : positive) (t : tree) : option tree :=
  match t with
  | Leaf _ => None
  | Node p l cs =>
    if Pos.eqb l e && Pos.eqb (first_tid t) lo && Pos.eqb (last_tid t) hi then Some t
    else (fix go (cs : list tree) : option tree :=
            match cs with
            | [] => None
            | c :: r => match expr_at e lo hi c with Some x => Some x | None => go r end
            end) cs
  end.

(* 0: model = implementation = standard grouping
   1: model = implementation, both differ from the standard grouping
   2: model differs from the implementation
   3: the model rejects the statement / no expression at the span *)
Definition judge (T : tables) (cb : cbkind) (G : pgram)
           (c : list sym * positive * positive * ex * ex) : positive :=
  let '(toks, lo, hi, impl, std) := c in
  match run T cb (fuel_for toks) (mk_tokens toks) with
  | OAccept d _ =>
    match expr_at (g_expr G) lo hi d with
    | Some t =>
      match abs G t with
      | Some m => if ex_eqb m impl then (if ex_eqb m std then 1 else 2) else 3
      | None => 4
      end
    | None => 4
    end
  | _ => 5
  end.
(* codes as positives: 1 = agree+std, 2 = agree, not std, 3 = model<>impl, 4 = model has no
   expression at the span, 5 = the model rejects the statement *)

Fixpoint judge_all T cb G (i : positive) (cs : list (list sym * positive * positive * ex * ex))
  : list (positive * positive) :=
  match cs with
  | [] => []
  | c :: r => let j := judge T cb G c in
              if Pos.eqb j 1 then judge_all T cb G (Pos.succ i) r
              else (i, j) :: judge_all T cb G (Pos.succ i) r
  end.
