(* Model for C09: how a plan is assembled.
   QueryPlan.add_step numbers a step by its position; PlanJoinTablesQuery.add_plan_step may open a
   map-reduce partition (a container step holding un-numbered sub-steps, numbered "p_j"), add
   join / apply-predictor steps to the open partition, and add everything else to the plan itself
   -- without closing the partition.  [wf_plan] is the property: consecutive numbering, every
   reference points strictly backwards. *)
From Coq Require Import List Bool Arith.
Import ListNotations.

Inductive sid := Top (i : nat) | Sub (i j : nat) | Bad.      (* PlanStep.step_num / Result.step_num; Bad = no such step *)

Record top := mkTop { t_num : sid; t_refs : list sid; t_subs : list (sid * list sid) }.
Definition plan := list top.

Definition sid_eqb (a b : sid) : bool :=
  match a, b with
  | Top i, Top j => Nat.eqb i j
  | Sub i j, Sub k l => Nat.eqb i k && Nat.eqb j l
  | _, _ => false
  end.

(* ---------- the property, as a boolean over a dumped plan ---------- *)
Definition ref_ok_top (i : nat) (r : sid) : bool :=
  match r with Top k => Nat.ltb k i | _ => false end.
Definition ref_ok_sub (i j : nat) (r : sid) : bool :=
  match r with Top k => Nat.ltb k i | Sub k l => Nat.eqb k i && Nat.ltb l j | Bad => false end.

Fixpoint wf_subs (i j : nat) (subs : list (sid * list sid)) : bool :=
  match subs with
  | [] => true
  | (n, refs) :: r => sid_eqb n (Sub i j) && forallb (ref_ok_sub i j) refs && wf_subs i (S j) r
  end.

Fixpoint wf_from (i : nat) (p : plan) : bool :=
  match p with
  | [] => true
  | t :: r => sid_eqb (t_num t) (Top i) && forallb (ref_ok_top i) (t_refs t) && wf_subs i 0 (t_subs t)
              && wf_from (S i) r
  end.
Definition wf_plan (p : plan) : bool := wf_from 0 p.

(* ---------- the construction ---------- *)
Inductive kind := KJoin | KPredictor | KOther.
Record newstep := mkNew { n_kind : kind; n_refs : list nat }.   (* refs: indices of the creating calls *)
Inductive call :=
| CAdd (s : newstep)                  (* planner.plan.add_step(step) *)
| CAddPlan (s : newstep) (psize : bool)   (* PlanJoinTablesQuery.add_plan_step(step, partition_size) *)
| CClose.                             (* close_partition() *)

Record bstate := mkB { b_plan : plan; b_open : option nat; b_ids : list sid }.
Definition binit : bstate := mkB [] None [].

Definition resolve (ids : list sid) (refs : list nat) : list sid :=
  map (fun k => nth k ids Bad) refs.

Definition add_top (st : bstate) (refs : list sid) : bstate :=
  let i := length (b_plan st) in
  mkB (b_plan st ++ [mkTop (Top i) refs []]) (b_open st) (b_ids st ++ [Top i]).

Fixpoint add_sub_at (p : plan) (k : nat) (refs : list sid) : plan * sid :=
  match p, k with
  | t :: r, O => let j := length (t_subs t) in
                 (mkTop (t_num t) (t_refs t) (t_subs t ++ [(Sub (match t_num t with Top i => i | Sub i _ => i | Bad => 0 end) j, refs)]) :: r,
                  Sub (match t_num t with Top i => i | Sub i _ => i | Bad => 0 end) j)
  | t :: r, S k' => let '(r', s) := add_sub_at r k' refs in (t :: r', s)
  | [], _ => ([], Bad)
  end.

Definition add_sub (st : bstate) (p : nat) (refs : list sid) : bstate :=
  let '(pl, s) := add_sub_at (b_plan st) p refs in mkB pl (b_open st) (b_ids st ++ [s]).

Definition is_partitionable (k : kind) : bool := match k with KJoin | KPredictor => true | KOther => false end.

Definition bstep (st : bstate) (c : call) : bstate :=
  match c with
  | CAdd s => add_top st (resolve (b_ids st) (n_refs s))
  | CClose => mkB (b_plan st) None (b_ids st)
  | CAddPlan s psize =>
    let refs := resolve (b_ids st) (n_refs s) in
    match b_open st with
    | Some p => if is_partitionable (n_kind s) then add_sub st p refs
                else add_top st refs                      (* the partition stays open *)
    | None =>
      if psize then
        (* MapReduceStep(values=step.dataframe, step=[]) is added to the plan, the step goes inside *)
        let m := length (b_plan st) in
        let st1 := mkB (b_plan st ++ [mkTop (Top m) refs []]) (Some m) (b_ids st ++ [Top m]) in
        add_sub st1 m refs
      else add_top st refs
    end
  end.

Definition brun (cs : list call) : bstate := fold_left bstep cs binit.

(* discipline under which the construction is safe: no step is added to the plan itself while a
   partition is open; references exist and point to top-level steps (or, inside a partition, to
   earlier sub-steps of it) *)
Definition call_ok (st : bstate) (c : call) : bool :=
  match c with
  | CClose => true
  | CAdd s =>
    match b_open st with Some _ => false | None => true end &&
    forallb (fun k => Nat.ltb k (length (b_ids st))) (n_refs s) &&
    forallb (fun r => match r with Top _ => true | _ => false end) (resolve (b_ids st) (n_refs s))
  | CAddPlan s psize =>
    forallb (fun k => Nat.ltb k (length (b_ids st))) (n_refs s) &&
    match b_open st with
    | Some p => is_partitionable (n_kind s) &&
                forallb (fun r => match r with Top k => Nat.ltb k p | Sub k _ => Nat.eqb k p | Bad => false end)
                        (resolve (b_ids st) (n_refs s))
    | None => forallb (fun r => match r with Top _ => true | _ => false end) (resolve (b_ids st) (n_refs s))
    end
  end.

Fixpoint run_ok (st : bstate) (cs : list call) : bool :=
  match cs with [] => true | c :: r => call_ok st c && run_ok (bstep st c) r end.
