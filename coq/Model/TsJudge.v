(* Judge and correspondence for C15, applied by harness/c15.py to the rows the emitted fetch steps
   return (executed by Model/SqlEval.exec_plan). *)
From Coq Require Import ZArith PArith List Bool.
From MSV Require Import Lib.Rel Model.SqlEval Model.TsSpec.
Import ListNotations.

Definition key_of_row (gcols : list nat) (r : row) : row := map (fun i => nth i r VNull) gcols.
Definition has_null (k : row) : bool := existsb (val_eqb VNull) k.

Definition ts_check (fuel : nat) (sch : schema) (rows : rel) (tcol : nat) (gcols : list nat) (w : nat) (c : tcond)
           (pf : option expr) (got : frame) : nat * bool * bool :=
  if frame_err got then (3%nat, false, false) else
  let cx := mkCtx [] [] [] [] [] in
  let pass := match pf with Some e => filter (fun r => is_true (eval_e fuel cx sch r None e)) rows | None => rows end in
  let parts := filter (fun k => negb (has_null k)) (distinct (map (key_of_row gcols) pass)) in
  let rows_of := fun k => filter (fun r => row_eqb (key_of_row gcols r) k) pass in
  let corr := bag_eq (snd got) (flat_map (fun k => fetched tcol w c (rows_of k)) parts) in
  let judge := forallb (fun k => ts_ok tcol w c (rows_of k) (filter (fun r => row_eqb (key_of_row gcols r) k) (snd got))) parts &&
               forallb (fun r => mem_row (key_of_row gcols r) parts) (snd got) in
  (0%nat, corr, judge).
