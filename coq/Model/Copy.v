(* Model for C18.
   Object graphs: a node is a mutable object (AST node, list, dict) or an immutable atom; ids are
   object identities.  [gcopy] is copy.deepcopy, except that a class with a hand-written
   __deepcopy__ follows its copy schedule (per field: deep / shallow / shared / dropped), which is
   obtained from the code by probing (harness/gen_copy.py).
   Equality: ASTNode.__eq__ compares two computed strings; PlanStep.__eq__ compares the attributes
   of the left operand only; QueryPlan.__eq__ / Result.__hash__ are probed. *)
From Coq Require Import PArith List Bool Arith.
Import ListNotations.
Local Open Scope positive_scope.

Inductive onode := N (id : positive) (cls : positive) (mut : bool) (ch : list (positive * onode)).

Inductive cmode := Deep | Shallow | Share | Drop.
(* class -> Some schedule (custom __deepcopy__: listed fields, the rest is dropped) | absent = generic *)
Definition cschedule := list (positive * list (positive * cmode)).

Fixpoint passoc {A} (k : positive) (l : list (positive * A)) : option A :=
  match l with [] => None | (k', v) :: r => if Pos.eqb k k' then Some v else passoc k r end.

Definition mode_of (CS : cschedule) (cls f : positive) : cmode :=
  match passoc cls CS with
  | None => Deep
  | Some fs => match passoc f fs with Some m => m | None => Drop end
  end.

Definition reid (off : positive) (n : onode) : onode :=
  match n with N id cls mut ch => N (if mut then id + off else id) cls mut ch end.

Fixpoint gcopy (CS : cschedule) (off : positive) (n : onode) : onode :=
  match n with
  | N id cls mut ch =>
    if mut then
      N (id + off) cls mut
        ((fix go (l : list (positive * onode)) : list (positive * onode) :=
            match l with
            | [] => []
            | (f, c) :: r =>
              match mode_of CS cls f with
              | Deep => (f, gcopy CS off c) :: go r
              | Shallow => (f, reid off c) :: go r      (* new container, same elements *)
              | Share => (f, c) :: go r
              | Drop => go r
              end
            end) ch)
    else n
  end.

(* identities of the mutable objects reachable from a node *)
Fixpoint mut_ids (n : onode) : list positive :=
  match n with
  | N id cls mut ch =>
    (if mut then [id] else []) ++
    (fix go (l : list (positive * onode)) : list positive :=
       match l with [] => [] | (_, c) :: r => mut_ids c ++ go r end) ch
  end.

(* the node without identities: what printing and == can see *)
Inductive shape := Sh (cls : positive) (atom : option positive) (ch : list (positive * shape)).
Fixpoint erase (n : onode) : shape :=
  match n with
  | N id cls mut ch =>
    Sh cls (if mut then None else Some id)
       ((fix go (l : list (positive * onode)) : list (positive * shape) :=
           match l with [] => [] | (f, c) :: r => (f, erase c) :: go r end) ch)
  end.

(* every class occurring in the node is copied deeply on every field it has *)
Fixpoint all_deep (CS : cschedule) (n : onode) : bool :=
  match n with
  | N id cls mut ch =>
    (mut || match ch with [] => true | _ => false end) &&      (* atoms have no parts *)
    (fix go (l : list (positive * onode)) : bool :=
       match l with
       | [] => true
       | (f, c) :: r => (match mode_of CS cls f with Deep => true | _ => false end) && all_deep CS c && go r
       end) ch
  end.

Fixpoint max_id (n : onode) : positive :=
  match n with
  | N id cls mut ch =>
    Pos.max id ((fix go (l : list (positive * onode)) : positive :=
                   match l with [] => 1 | (_, c) :: r => Pos.max (max_id c) (go r) end) ch)
  end.

Definition disjointb (a b : list positive) : bool :=
  forallb (fun x => negb (existsb (Pos.eqb x) b)) a.

(* ---------- equality ---------- *)
(* ASTNode.__eq__ : to_tree() equal and single-line str() equal *)
Definition ast_eq {A B} (tree_of : onode -> A) (str_of : onode -> B)
           (eqA : A -> A -> bool) (eqB : B -> B -> bool) (x y : onode) : bool :=
  eqA (tree_of x) (tree_of y) && eqB (str_of x) (str_of y).

(* PlanStep.__eq__ : same type, and every attribute of the LEFT operand (except result_data)
   compares equal with the right operand's; a missing attribute on the right raises *)
Inductive eqres := ETrue | EFalse | ERaise.
Record step := mkStep { st_type : positive; st_attrs : list (positive * positive) }.  (* attr -> value id *)
Fixpoint step_attrs_eq (l : list (positive * positive)) (o : list (positive * positive)) : eqres :=
  match l with
  | [] => ETrue
  | (k, v) :: r =>
    match passoc k o with
    | None => ERaise
    | Some v' => if Pos.eqb v v' then step_attrs_eq r o else EFalse
    end
  end.
Definition step_eq (a b : step) : eqres :=
  if Pos.eqb (st_type a) (st_type b) then step_attrs_eq (st_attrs a) (st_attrs b) else EFalse.

Fixpoint keys_eqb (a b : list (positive * positive)) : bool :=
  match a, b with
  | [], [] => true
  | (k, _) :: a', (k', _) :: b' => Pos.eqb k k' && keys_eqb a' b'
  | _, _ => false
  end.
