(* C01: how an Identifier is printed (Identifier.parts_to_str) and how a dotted, possibly
   back-quoted name is read back into parts (the reading of path_str_parts_regex
   (`[^`]+`)|([^.]+) with the back quotes stripped; the parsers' ID rule plus the grammar's
   `identifier DOT id` are tied to it by correspondence in harness/c01.py). *)
From Coq Require Import NArith List Bool.
From MSV Require Import Lib.PyStr.
Import ListNotations.
Local Open Scope N_scope.

Definition cUS : N := 95.
Definition is_alpha_us (c : N) : bool := ((65 <=? c) && (c <=? 90)) || ((97 <=? c) && (c <=? 122)) || (c =? cUS).
Definition is_digit (c : N) : bool := (48 <=? c) && (c <=? 57).
(* [a-zA-Z_][a-zA-Z_0-9]* *)
Definition plain (p : str) : bool :=
  match p with
  | [] => false
  | c :: r => is_alpha_us c && forallb (fun x => is_alpha_us x || is_digit x) r
  end.

Section Print.
  Variable reserved : str -> bool.     (* part.upper() in reserved_words *)
  Definition print_part (p : str) : str := if plain p && negb (reserved p) then p else cBT :: p ++ [cBT].
  Fixpoint print_parts (ps : list str) : str :=
    match ps with
    | [] => []
    | [p] => print_part p
    | p :: r => print_part p ++ cDOT :: print_parts r
    end.
End Print.

Fixpoint take_until (c : N) (s : str) : str * str :=
  match s with
  | [] => ([], [])
  | x :: r => if x =? c then ([], s) else let (a, b) := take_until c r in (x :: a, b)
  end.

Fixpoint split_fuel (fuel : nat) (s : str) : list str :=
  match fuel with
  | O => []
  | S f =>
    match s with
    | [] => []
    | x :: r =>
        if x =? cBT then
          let (p, rest) := take_until cBT r in
          match rest with
          | _ :: d :: rest' => if d =? cDOT then p :: split_fuel f rest' else [p]
          | _ => [p]
          end
        else
          let (p, rest) := take_until cDOT s in
          match rest with
          | _ :: rest' => p :: split_fuel f rest'
          | [] => [p]
          end
    end
  end.
Definition split_parts (s : str) : list str := split_fuel (S (length s)) s.
