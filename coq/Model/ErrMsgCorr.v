(* Correspondence / judge helpers for C19 and C02: the full error message of parse_sql (mindsdb
   dialect) = engine model (Model/Sly.v) + ErrorHandling model (Model/ErrMsg.v). *)
From Coq Require Import NArith PArith ZArith List Bool Arith.
From MSV Require Import Lib.PyStr Model.Sly Model.SlyCorr Model.ErrMsg.
Import ListNotations.

Definition to_tokens (ets : list etok) : list token :=
  mk_tokens (map et_type ets).

Definition accepts (T : tables) (ets : list etok) : bool :=
  accepted T CbDrain (map et_type ets).

Fixpoint join_nl (ls : list str) : str :=
  match ls with [] => [] | [l] => l | l :: r => l ++ [cNL] ++ join_nl r end.

Fixpoint join_comma (ls : list str) : str :=
  match ls with [] => [] | [l] => l | l :: r => l ++ [44%N; 32%N] ++ join_comma r end.

Definition s_possible : str := [80;111;115;115;105;98;108;101;32;105;110;112;117;116;115;58;32]%N.  (* Possible inputs:  *)
Fixpoint ins_pos (x : positive) (l : list positive) : list positive :=
  match l with
  | [] => [x]
  | y :: r => if Pos.leb x y then x :: l else y :: ins_pos x r
  end.
Definition sort_pos (l : list positive) : list positive := fold_right ins_pos [] l.

Definition s_expected : str := [69;120;112;101;99;116;101;100;32;115;121;109;98;111;108;58;32]%N.   (* Expected symbol:  *)
Definition s_empty : str := [69;109;112;116;121;32;105;110;112;117;116]%N.                          (* Empty input *)

Definition quote (s : str) : str := [cDQ] ++ s ++ [cDQ].

(* ErrorHandling.process on what the engine model reports; None = the model does not reject *)
Definition message (T : tables) (cls : positive -> tclass) (ets : list etok) : option str :=
  match run T CbDrain (fuel_for (map et_type ets)) (to_tokens ets) with
  | ONone s =>
    match einfo s with
    | None => None
    | Some e =>
      match ets with
      | [] => Some s_empty
      | _ =>
        let badpos := match e_bad e with Some (LTok t) => Some (Pos.to_nat (tid t) - 1) | _ => None end in
        let bad := match badpos with Some i => match nth_error ets i with Some b => Some (i, b) | None => None end | None => None end in
        let '(msgs, _, _) := error_location ets (option_map snd bad) in
        (* make_suggestion walks sorted(expected_tokens): terminals are numbered in alphabetical order by the translator
           (gen_tables.symbol_numbering), so ascending numbers are that order *)
        let sug := make_suggestion cls (accepts T) ets bad (sort_pos (e_expected e)) in
        let tail := match sug with
                    | [] => []
                    | [x] => [s_expected ++ quote x]
                    | _ => [s_possible ++ join_comma (map quote sug)]
                    end in
        Some (join_nl (msgs ++ tail))
      end
    end
  | _ => None
  end.

Fixpoint msg_mismatches (T : tables) (cls : positive -> tclass) (i : positive)
         (cs : list (list etok * str)) : list positive :=
  match cs with
  | [] => []
  | (ets, impl) :: r =>
    let rest := msg_mismatches T cls (Pos.succ i) r in
    match message T cls ets with
    | Some m => if str_eqb m impl then rest else i :: rest
    | None => i :: rest
    end
  end.

(* judge: a suggested token is acceptable at the error position: inserting it before, or
   substituting it for, the offending token makes the engine get past that position *)
Definition error_pos (T : tables) (tys : list positive) : option nat :=
  match run T CbDrain (fuel_for tys) (mk_tokens tys) with
  | OAccept _ _ => None
  | ONone s => match einfo s with
               | Some e => match e_bad e with Some (LTok t) => Some (Pos.to_nat (tid t) - 1) | _ => Some (length tys) end
               | None => Some 0
               end
  | _ => Some 0
  end.

Definition gets_past (T : tables) (tys : list positive) (i : nat) : bool :=
  match error_pos T tys with None => true | Some j => Nat.ltb i j end.

Definition suggestion_ok (T : tables) (tys : list positive) (i : nat) (sug : positive) : bool :=
  gets_past T (firstn i tys ++ [sug] ++ skipn i tys) i ||
  gets_past T (firstn i tys ++ [sug] ++ skipn (S i) tys) i.
