(* Models of the code that writes string literals:
     - LiteralCompiler.render_literal_value (render/sqlalchemy_render.py): "'{}'".format(str(v).replace(a, b))
     - Constant.get_string (parser/ast/select/constant.py):                f"'{v.replace(a, b)}'"
   The pair (a, b) of each is extracted from the source on every run (harness/gen_literal.py). *)
From Coq Require Import NArith List Bool.
From MSV Require Import Lib.PyStr.
Import ListNotations.
Local Open Scope N_scope.

Definition quote_with (old new : str) (v : str) : str := [cQ] ++ replace old new v ++ [cQ].

(* the two escaping disciplines found in the code *)
Definition render_sa (v : str) : str := quote_with [cQ] [cQ; cQ] v.     (* double the quote *)
Definition render_ts (v : str) : str := quote_with [cQ] [cBS; cQ] v.    (* backslash the quote *)

Definition pair_eqb (p q : str * str) : bool := str_eqb (fst p) (fst q) && str_eqb (snd p) (snd q).
Definition K_doubling (p : str * str) : bool := pair_eqb p ([cQ], [cQ; cQ]).
Definition K_backslash (p : str * str) : bool := pair_eqb p ([cQ], [cBS; cQ]).
