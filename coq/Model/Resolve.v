(* Model for C10: how a table / model name is resolved to the place it is routed to.
   - QueryPlanner.__init__ : catalog normalisation
   - QueryPlanner.resolve_database_table (case-insensitive, used by the simple paths)
   - PlanJoinTablesQuery.resolve_table   (compares the first part as written, join path)
   - QueryPlanner.get_predictor          (namespace / name / version of a model reference)
   Names are lists of code points; str.lower is modelled on ASCII. *)
From Coq Require Import NArith List Bool Arith.
From MSV Require Import Lib.PyStr.
Import ListNotations.
Local Open Scope N_scope.

Definition lowc (c : N) : N := if N.leb 65 c && N.leb c 90 then c + 32 else c.
Definition lower (s : str) : str := map lowc s.
Definition mems (s : str) (l : list str) : bool := existsb (str_eqb s) l.

(* an integration as the caller supplies it *)
Inductive centry :=
| CName (name : str)                               (* 'int1' *)
| CDict (name : str) (is_data : bool).              (* {'name':.., 'type': 'data' | other} *)

Record catalog := mkCat { c_databases : list str; c_projects : list str; c_default : option str }.

(* integrations dict keys (lower-cased), projects, in the order __init__ builds them *)
Definition norm_entries (es : list centry) : list str * list str :=
  fold_left (fun acc e =>
               match e with
               | CName n => (fst acc ++ [lower n], snd acc)
               | CDict n true => (fst acc ++ [lower n], snd acc)
               | CDict n false => (fst acc, snd acc ++ [lower n])
               end) es ([], []).

Definition mk_catalog (es : list centry) (pred_namespaces : list str) (default : option str) : catalog :=
  let '(ints, projs) := norm_entries es in
  let projects := projs ++ [[109; 105; 110; 100; 115; 100; 98]] ++ map lower pred_namespaces in   (* + 'mindsdb' *)
  mkCat (ints ++ projects) projects default.

(* resolve_database_table: (database, remaining parts); None = PlanningException *)
Definition resolve_db (C : catalog) (parts : list str) : option (str * list str) :=
  match parts with
  | p0 :: (_ :: _) as rest =>
    if mems (lower p0) (c_databases C) then Some (lower p0, tl parts)
    else match c_default C with Some d => Some (d, parts) | None => None end
  | _ => match c_default C with Some d => Some (d, parts) | None => None end
  end.

(* PlanJoinTablesQuery.resolve_table *)
Definition resolve_join (C : catalog) (parts : list str) : option (str * list str) :=
  match parts with
  | p0 :: rest =>
    if mems p0 (c_databases C) then Some (p0, rest)
    else match c_default C with Some d => Some (d, parts) | None => None end
  | [] => match c_default C with Some d => Some (d, parts) | None => None end
  end.

(* ---------- the specification, as a relation ---------- *)
Definition routes (C : catalog) (parts : list str) (db : str) (rest : list str) : Prop :=
  (exists p0 r, parts = p0 :: r /\ r <> [] /\ In (lower p0) (c_databases C) /\ db = lower p0 /\ rest = r) \/
  ((forall p0 r, parts = p0 :: r -> r <> [] -> ~ In (lower p0) (c_databases C)) /\
   c_default C = Some db /\ rest = parts).

(* ---------- models ---------- *)
Definition is_digits (s : str) : bool :=
  match s with [] => false | _ => forallb (fun c => N.leb 48 c && N.leb c 57) s end.

(* get_predictor: the lookup key (namespace.name lower-cased), name and version *)
Definition predictor_key (default : option str) (parts : list str) : option (str * str * option str) :=
  let n := length parts in
  let '(version, nparts) :=
      match rev parts with
      | last :: before => if Nat.ltb 1 n && is_digits last then (Some last, rev before) else (None, parts)
      | [] => (None, parts)
      end in
  match rev nparts with
  | name :: more =>
    let ns := match more with ns :: _ => Some ns | [] => default end in
    let key := match ns with Some x => lower x ++ [46] ++ lower name | None => lower name end in
    Some (key, name, version)
  | [] => None
  end.
