(* Judge used by the planner / renderer checks: is the result of a plan (or of another query) an
   acceptable answer to the reference query on a given database? *)
From Coq Require Import ZArith PArith List Bool.
From MSV Require Import Lib.Rel Model.SqlEval.
Import ListNotations.

Definition order_keys (osch : schema) (order : list (expr * (bool * bool))) : option (list (nat * (bool * bool))) :=
  fold_right (fun o acc =>
                match acc, fst o with
                | Some l, ECol q c => match find_col osch q c 0 with Some i => Some ((i, snd o) :: l) | None => None end
                | _, _ => None
                end) (Some []) order.

(* sort keys that are expressions over the output columns (ORDER BY b - a): their values are appended to every row of the
   reference and of the candidate as extra columns, which then serve as keys.  None: a key is not an output column and cannot be
   computed from the output columns (the order is then not checked). *)
Definition key_fuel : nat := 20.
Definition key_val (osch : schema) (rw : row) (e : expr) : val := eval_e key_fuel (mkCtx [] [] [] [] []) osch rw None e.
Definition extend (osch : schema) (order : list (expr * (bool * bool))) (r : rel) : rel :=
  map (fun rw => rw ++ map (fun o => key_val osch rw (fst o)) order) r.
Definition is_err (v : val) : bool := match v with VErr => true | _ => false end.
Definition computed_keys (osch : schema) (order : list (expr * (bool * bool))) (ref got : rel) : option (list (nat * (bool * bool))) :=
  let w := length osch in
  if forallb (fun rw => Nat.eqb (length rw) w && negb (existsb (fun o => is_err (key_val osch rw (fst o))) order)) (ref ++ got)
  then Some (snd (fold_left (fun acc o => (S (fst acc), snd acc ++ [(fst acc, snd o)])) order (w, [])))
  else None.

(* verdict: 0 acceptable, 1 NOT acceptable, 2 reference outside the evaluator, 3 candidate outside the evaluator;
   the flag tells whether the order of the rows could be checked *)
Definition verdict (ref got : frame) (order : list (expr * (bool * bool))) (limit offset : option nat) : nat * bool :=
  if frame_err ref then (2, false) else
  if frame_err got then (3, false) else
  match order_keys (fst ref) order with
  | Some k => ((if answer_ok (snd ref) k limit offset (snd got) then 0 else 1), true)
  | None =>
      match computed_keys (fst ref) order (snd ref) (snd got) with
      | Some k => ((if answer_ok (extend (fst ref) order (snd ref)) k limit offset (extend (fst ref) order (snd got)) then 0 else 1), true)
      | None => ((if answer_ok (snd ref) [] limit offset (snd got) then 0 else 1), false)
      end
  end.

Definition judge_plan (fuel : nat) db (q_full : query) order limit offset (plan : list pstep) : nat * bool :=
  verdict (eval_top fuel db q_full) (exec_plan fuel db plan) order limit offset.
Definition judge_query (fuel : nat) db (q_full : query) order limit offset (q2 : query) : nat * bool :=
  verdict (eval_top fuel db q_full) (eval_top fuel db q2) order limit offset.

(* printable form of a frame, for the evaluator-vs-sqlite validation *)
Definition show (f : frame) : rel := snd f.
