(* Judge used by the planner / renderer checks: is the result of a plan (or of another query) an
   acceptable answer to the reference query on a given database? *)
From Coq Require Import ZArith PArith List Bool.
From MSV Require Import Lib.Rel Model.SqlEval.
Import ListNotations.

Definition order_keys (osch : schema) (order : list (expr * (bool * bool))) : option (list (nat * (bool * bool))) :=
  fold_right (fun o acc =>
                match acc, fst o with
                | Some l, ECol q c => match find_col osch q c 0 with Some i => Some ((i, snd o) :: l) | None => None end
                | _, _ => None
                end) (Some []) order.

(* verdict: 0 acceptable, 1 NOT acceptable, 2 reference outside the evaluator, 3 candidate outside the evaluator;
   the flag tells whether the order of the rows could be checked *)
Definition verdict (ref got : frame) (order : list (expr * (bool * bool))) (limit offset : option nat) : nat * bool :=
  if frame_err ref then (2, false) else
  if frame_err got then (3, false) else
  let keys := order_keys (fst ref) order in
  let ok := answer_ok (snd ref) (match keys with Some k => k | None => [] end) limit offset (snd got) in
  (if ok then 0 else 1, match keys with Some _ => true | None => false end).

Definition judge_plan (fuel : nat) db (q_full : query) order limit offset (plan : list pstep) : nat * bool :=
  verdict (eval_top fuel db q_full) (exec_plan fuel db plan) order limit offset.
Definition judge_query (fuel : nat) db (q_full : query) order limit offset (q2 : query) : nat * bool :=
  verdict (eval_top fuel db q_full) (eval_top fuel db q2) order limit offset.

(* printable form of a frame, for the evaluator-vs-sqlite validation *)
Definition show (f : frame) : rel := snd f.
