(* The "Illegal character" report of MindsDBLexer.error (mindsdb_sql/parser/dialects/mindsdb/lexer.py):
   the text is split into lines, the line and the column of the absolute index of the offending
   character are found by a scan over the lines, the line before and the line of the error are
   shown behind '>' and a caret line  '-' * (column + 1) + '^'  follows. *)
From Coq Require Import NArith ZArith List Bool.
From MSV Require Import Lib.PyStr.
Import ListNotations.

Definition cGT : N := 62.    (* > *)
Definition cDASH : N := 45.  (* - *)
Definition cCARET : N := 94. (* ^ *)

(* text.split('\n') *)
Fixpoint split_nl_aux (cur : str) (s : str) : list str :=
  match s with
  | [] => [rev cur]
  | c :: r => if N.eqb c cNL then rev cur :: split_nl_aux [] r else split_nl_aux (c :: cur) r
  end.
Definition split_nl (s : str) : list str := split_nl_aux [] s.

(* '\n'.join(lines) *)
Fixpoint join_nl (lines : list str) : str :=
  match lines with
  | [] => []
  | [l] => l
  | l :: r => l ++ cNL :: join_nl r
  end.

(* the loop of error(): the last line i with 0 <= idx - shift < len(line) wins *)
Fixpoint scan (lines : list str) (idx shift : Z) (i : nat) (acc : nat * Z) : nat * Z :=
  match lines with
  | [] => acc
  | l :: r =>
      let d := (idx - shift)%Z in
      let acc' := if (0 <=? d)%Z && (d <? Z.of_nat (length l))%Z then (i, d) else acc in
      scan r idx (shift + Z.of_nat (length l) + 1)%Z (S i) acc'
  end.

Definition locate (text : str) (idx : nat) : nat * Z := scan (split_nl text) (Z.of_nat idx) 0%Z O (O, 0%Z).

(* lines[max(error_line - 1, 0) : error_line + 1] *)
Definition context (lines : list str) (el : nat) : list str :=
  firstn (S el - (el - 1)) (skipn (el - 1) lines).

(* the body of the message: everything after the 'Illegal character ...:' line *)
Definition report (text : str) (idx : nat) : list str :=
  let lines := split_nl text in
  let '(el, ei) := locate text idx in
  map (fun l => cGT :: l) (context lines el) ++ [repeat cDASH (Z.to_nat ei + 1) ++ [cCARET]].

(* absolute index of column c of line l *)
Fixpoint pos_of (lines : list str) (l c : nat) : nat :=
  match l, lines with
  | O, _ => c
  | S l', x :: r => length x + 1 + pos_of r l' c
  | S _, [] => c
  end.

Definition no_nl (l : str) : bool := forallb (fun c => negb (N.eqb c cNL)) l.
