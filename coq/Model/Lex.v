(* Model of sly/lex.py : Lexer.tokenize over a rule table regenerated from the lexer classes
   in /repo (master regular expression parsed by Python's own re parser, token functions
   translated from their source).  No proofs here. *)
From Coq Require Import NArith PArith List Bool Arith.
From MSV Require Import Lib.PyStr Lib.Re.
Import ListNotations.
Local Open Scope N_scope.

(* value-rewriting steps of a token function *)
Inductive strop :=
| OpReplace (old new : str)
| OpStrip (cs : list N)
| OpLstrip (cs : list N)
| OpCondStrip (cases : list (N * list N)).   (* if value[0] == c: value = value.strip(cs) elif ... *)

Inductive raction :=
| ATok                      (* plain token, or a function that returns t unchanged *)
| ARewrite (ops : list strop)   (* function that rewrites t.value, returns t *)
| AIgnore                   (* ignore_* string rule *)
| ANewline.                 (* ignore_newline: self.lineno += len(t.value); returns None *)

(* r_nl: the token function also does  self.lineno += t.value.count('\n') *)
Record rule := mkRule { r_type : positive; r_re : re; r_act : raction; r_nl : bool }.

Record ltoken := mkLT {
  lt_type : positive; lt_value : str; lt_lexeme : str; lt_index : N; lt_end : N; lt_line : N }.

Definition apply_op (o : strop) (v : str) : str :=
  match o with
  | OpReplace a b => replace a b v
  | OpStrip cs => strip cs v
  | OpLstrip cs => lstrip cs v
  | OpCondStrip cases =>
    match v with
    | [] => v
    | c :: _ =>
      (fix go (l : list (N * list N)) : str :=
         match l with
         | [] => v
         | (c', cs) :: r => if N.eqb c c' then strip cs v else go r
         end) cases
    end
  end.
Definition apply_ops (ops : list strop) (v : str) : str := fold_left (fun v o => apply_op o v) ops v.

Inductive lexres :=
| LexOk (toks : list ltoken)
| LexErr (index : N) (toks : list ltoken)      (* Lexer.error at this index *)
| LexFuel.

Section L.
Variable U : uenv.
Variable rules : list rule.
Variable ignore : list N.

(* first rule (in order) that matches at the current position *)
Fixpoint first_match (rs : list rule) (prev : option N) (s : str)
  : option (rule * str * str) + unit :=
  match rs with
  | [] => inl None
  | r :: rs' =>
    match match_at U true (r_re r) prev s with
    | inl (Some (lexeme, rest)) => inl (Some (r, lexeme, rest))
    | inl None => first_match rs' prev s
    | inr _ => inr tt
    end
  end.

Definition last_char (prev : option N) (lexeme : str) : option N :=
  match rev lexeme with c :: _ => Some c | [] => prev end.

Fixpoint lex_loop (fuel : nat) (prev : option N) (s : str) (idx line : N) (acc : list ltoken) : lexres :=
  match fuel with
  | O => LexFuel
  | S f =>
    match s with
    | [] => LexOk (rev acc)
    | c :: s' =>
      if memN c ignore then lex_loop f (Some c) s' (idx + 1) line acc
      else
        match first_match rules prev s with
        | inr _ => LexFuel
        | inl None => LexErr idx (rev acc)
        | inl (Some (r, lexeme, rest)) =>
          let n := N.of_nat (length lexeme) in
          let p' := last_char prev lexeme in
          let line' := if r_nl r then line + N.of_nat (length (filter (N.eqb cNL) lexeme)) else line in
          match r_act r with
          | AIgnore => lex_loop f p' rest (idx + n) line' acc
          | ANewline => lex_loop f p' rest (idx + n) (line' + n) acc
          | ATok => lex_loop f p' rest (idx + n) line'
                             (mkLT (r_type r) lexeme lexeme idx (idx + n) line :: acc)
          | ARewrite ops => lex_loop f p' rest (idx + n) line'
                             (mkLT (r_type r) (apply_ops ops lexeme) lexeme idx (idx + n) line :: acc)
          end
        end
    end
  end.

Definition lex (s : str) : lexres := lex_loop (S (length s)) None s 0 1 [].
End L.
