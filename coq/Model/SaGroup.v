(* C06: where SQLAlchemy puts parentheses.  Model of the grouping rule of SQLAlchemy 2.0 for the
   expression elements SqlalchemyRender.to_expression builds (BinaryExpression operands are
   self_group(against = operator); operators.is_precedent compares _PRECEDENCE values, except
   that a "natural self precedent" operator is not grouped against itself; add / mul / and_ / or_
   chains are flattened; NOT of a comparison / BETWEEN flips the operator; between bounds are
   grouped against and_).  The precedence table and the natural-self-precedent set are read from
   the installed library on every run (harness/c06sa.py); the printed structure is compared
   with the real rendering there. *)
From Coq Require Import ZArith PArith List Bool.
From MSV Require Import Lib.Rel.
Import ListNotations.

Inductive kind := KAdd | KSub | KMul | KNeg | KCmp | KBetween | KInv | KAnd | KOr.
Definition kind_eqb (a b : kind) : bool :=
  match a, b with
  | KAdd, KAdd | KSub, KSub | KMul, KMul | KNeg, KNeg | KCmp, KCmp | KBetween, KBetween | KInv, KInv | KAnd, KAnd | KOr, KOr => true
  | _, _ => false
  end.
Definition all_kinds := [KAdd; KSub; KMul; KNeg; KCmp; KBetween; KInv; KAnd; KOr].

Record satable := mkSA { sa_prec : kind -> nat; sa_natural : kind -> bool }.

Definition is_prec (T : satable) (op against : kind) : bool :=
  if kind_eqb op against && sa_natural T op then false else Nat.leb (sa_prec T op) (sa_prec T against).

Inductive aop := AAdd | ASub | AMul.
Inductive cop := CEq | CNe | CLt | CLe | CGt | CGe.
Inductive lop := LAnd | LOr.
Inductive sex :=
| XAtom (n : positive)
| XArith (op : aop) (l r : sex)
| XCmp (op : cop) (l r : sex)
| XLog (op : lop) (l r : sex)
| XNeg (e : sex)
| XNot (e : sex)
| XBtw (e lo hi : sex).

(* the printed structure: PPar = a pair of parentheses in the text *)
Inductive pex :=
| PAtom (n : positive)
| PPar (e : pex)
| PChain (k : kind) (cs : list pex)
| PSub (l r : pex)
| PCmp (op : cop) (l r : pex)
| PNeg (e : pex)
| PNot (e : pex)
| PBtw (neg : bool) (e lo hi : pex).

Definition kind_of (p : pex) : option kind :=
  match p with
  | PAtom _ | PPar _ => None
  | PChain k _ => Some k
  | PSub _ _ => Some KSub
  | PCmp _ _ _ => Some KCmp
  | PNeg _ => Some KNeg
  | PNot _ => Some KInv
  | PBtw _ _ _ _ => Some KBetween
  end.

Section Print.
  Variable T : satable.
  Definition group (p : pex) (against : kind) : pex :=
    match kind_of p with
    | Some k => if is_prec T k against then PPar p else p
    | None => p
    end.
  Definition clauses (k : kind) (p : pex) : list pex :=
    match p with
    | PChain k' cs => if kind_eqb k k' then cs else [group p k]
    | _ => [group p k]
    end.
  Definition negc (c : cop) : cop :=
    match c with CEq => CNe | CNe => CEq | CLt => CGe | CLe => CGt | CGt => CLe | CGe => CLt end.

  Fixpoint pr (e : sex) : option pex :=
    match e with
    | XAtom n => Some (PAtom n)
    | XNeg a => match pr a with Some p => Some (PNeg (group p KNeg)) | None => None end
    | XBtw a lo hi =>
        match pr a, pr lo, pr hi with
        | Some p, Some pl, Some ph => Some (PBtw false (group p KBetween) (group pl KAnd) (group ph KAnd))
        | _, _, _ => None
        end
    | XNot a =>
        match a with
        | XCmp op l r =>
            match pr l, pr r with
            | Some pl, Some p2 => Some (PCmp (negc op) (group pl KCmp) (group p2 KCmp))
            | _, _ => None
            end
        | XBtw x lo hi =>
            match pr x, pr lo, pr hi with
            | Some p, Some pl, Some ph => Some (PBtw true (group p KBetween) (group pl KAnd) (group ph KAnd))
            | _, _, _ => None
            end
        | XNot _ => None                       (* double negation: not modelled *)
        | _ => match pr a with Some p => Some (PNot (group p KInv)) | None => None end
        end
    | XArith op l r =>
        match pr l, pr r with
        | Some pl, Some p2 =>
            match op with
            | AAdd => Some (PChain KAdd (clauses KAdd pl ++ clauses KAdd p2))
            | AMul => Some (PChain KMul (clauses KMul pl ++ clauses KMul p2))
            | ASub => Some (PSub (group pl KSub) (group p2 KSub))
            end
        | _, _ => None
        end
    | XCmp op l r =>
        match pr l, pr r with
        | Some pl, Some p2 => Some (PCmp op (group pl KCmp) (group p2 KCmp))
        | _, _ => None
        end
    | XLog op l r =>
        match pr l, pr r with
        | Some pl, Some p2 =>
            let k := match op with LAnd => KAnd | LOr => KOr end in
            Some (PChain k (clauses k pl ++ clauses k p2))
        | _, _ => None
        end
    end.
End Print.

(* ---------- the standard reading of a printed structure ---------- *)
(* levels of standard SQL, loosest first *)
Definition lv (k : kind) : nat :=
  match k with KOr => 1 | KAnd => 2 | KInv => 3 | KCmp => 4 | KBetween => 4 | KAdd => 5 | KSub => 5 | KMul => 6 | KNeg => 7 end.
Definition level (p : pex) : nat := match kind_of p with Some k => lv k | None => 9 end.

(* the text reads back with this structure: every operand binds tighter than (or, on the left
   of a left-associative operator, as tight as) the operator around it, or is parenthesised *)
Fixpoint wf (p : pex) : bool :=
  match p with
  | PAtom _ => true
  | PPar e => wf e
  | PChain k cs => forallb wf cs && forallb (fun c => Nat.ltb (lv k) (level c)) cs && Nat.leb 2 (length cs)
  | PSub l r => wf l && wf r && Nat.leb (lv KSub) (level l) && Nat.ltb (lv KSub) (level r)
  | PCmp _ l r => wf l && wf r && Nat.ltb (lv KCmp) (level l) && Nat.ltb (lv KCmp) (level r)
  | PNeg e => wf e && Nat.ltb (lv KNeg) (level e)
  | PNot e => wf e && Nat.ltb (lv KInv) (level e)
  | PBtw _ e lo hi => wf e && wf lo && wf hi && Nat.ltb (lv KBetween) (level e) &&
                      Nat.ltb (lv KBetween) (level lo) && Nat.ltb (lv KBetween) (level hi)
  end.

(* ---------- meaning ---------- *)
Definition opk (k : kind) (a b : val) : val :=
  match k with
  | KAdd => v_arith Z.add a b | KMul => v_arith Z.mul a b | KAnd => v_and a b | KOr => v_or a b | _ => VErr
  end.
Definition cmpf (c : cop) : comparison -> bool :=
  match c with CEq => c_eq | CNe => c_ne | CLt => c_lt | CLe => c_le | CGt => c_gt | CGe => c_ge end.
Definition chain_val (k : kind) (vs : list val) : val :=
  match vs with [] => VErr | v :: r => fold_left (opk k) r v end.
Definition btw_val (neg : bool) (x lo hi : val) : val :=
  let v := v_and (v_rel c_ge x lo) (v_rel c_le x hi) in if neg then v_not v else v.

Section Sem.
  Variable env : positive -> val.
  Fixpoint sem (e : sex) : val :=
    match e with
    | XAtom n => env n
    | XArith AAdd l r => v_arith Z.add (sem l) (sem r)
    | XArith ASub l r => v_arith Z.sub (sem l) (sem r)
    | XArith AMul l r => v_arith Z.mul (sem l) (sem r)
    | XCmp op l r => v_rel (cmpf op) (sem l) (sem r)
    | XLog LAnd l r => v_and (sem l) (sem r)
    | XLog LOr l r => v_or (sem l) (sem r)
    | XNeg a => v_arith Z.sub (VInt 0) (sem a)
    | XNot a => v_not (sem a)
    | XBtw a lo hi => btw_val false (sem a) (sem lo) (sem hi)
    end.
  Fixpoint psem (p : pex) : val :=
    match p with
    | PAtom n => env n
    | PPar e => psem e
    | PChain k cs => chain_val k (map psem cs)
    | PSub l r => v_arith Z.sub (psem l) (psem r)
    | PCmp op l r => v_rel (cmpf op) (psem l) (psem r)
    | PNeg e => v_arith Z.sub (VInt 0) (psem e)
    | PNot e => v_not (psem e)
    | PBtw neg e lo hi => btw_val neg (psem e) (psem lo) (psem hi)
    end.
End Sem.

(* ---------- what the table must satisfy ---------- *)
(* whenever the standard levels require parentheses around an operand of kind ki in a context,
   SQLAlchemy's table makes is_precedent true there *)
Definition K_sa (T : satable) : bool :=
  forallb (fun ki =>
    (* chains of add / mul / and / or: every operand of another kind *)
    forallb (fun k => kind_eqb ki k || negb (Nat.leb (lv ki) (lv k)) || is_prec T ki k) [KAdd; KMul; KAnd; KOr] &&
    (negb (Nat.leb (lv ki) (lv KSub)) || is_prec T ki KSub) &&
    (negb (Nat.leb (lv ki) (lv KCmp)) || is_prec T ki KCmp) &&
    (negb (Nat.leb (lv ki) (lv KNeg)) || is_prec T ki KNeg) &&
    (negb (Nat.leb (lv ki) (lv KInv)) || is_prec T ki KInv) &&
    (negb (Nat.leb (lv ki) (lv KBetween)) || is_prec T ki KBetween)) all_kinds &&
  (* a chain is never grouped against its own operator (it is flattened instead) *)
  forallb (fun k => sa_natural T k) [KAdd; KMul; KAnd; KOr].

(* typing guard: the bounds of BETWEEN are arithmetic expressions *)
Definition is_arith (e : sex) : bool := match e with XAtom _ | XArith _ _ _ | XNeg _ => true | _ => false end.
Fixpoint bounds_arith (e : sex) : bool :=
  match e with
  | XAtom _ => true
  | XArith _ l r | XCmp _ l r | XLog _ l r => bounds_arith l && bounds_arith r
  | XNeg a | XNot a => bounds_arith a
  | XBtw a lo hi => bounds_arith a && bounds_arith lo && bounds_arith hi && is_arith lo && is_arith hi
  end.
