(* Integer literals: Python's str(int) and int(text) on decimal digit strings (also what the lexers' INTEGER rule
   followed by int() does), over unbounded integers. *)
From Coq Require Import ZArith NArith List Bool Lia.
From MSV Require Import Lib.PyStr.
Import ListNotations.
Local Open Scope N_scope.

Definition digit (d : N) : N := 48 + d.
Definition is_digit (c : N) : bool := (48 <=? c) && (c <=? 57).

(* most significant digit first; fuel: an upper bound of the number of digits *)
Fixpoint digits_fuel (fuel : nat) (n : N) (acc : str) : str :=
  match fuel with
  | O => acc
  | S f => let acc' := digit (n mod 10) :: acc in
           if n / 10 =? 0 then acc' else digits_fuel f (n / 10) acc'
  end.
Definition print_nat (n : N) : str := digits_fuel (S (N.to_nat (N.log2 n))) n [].
Definition cMINUS : N := 45.
Definition print_int (z : Z) : str :=
  match z with
  | Zneg p => cMINUS :: print_nat (Npos p)
  | _ => print_nat (Z.to_N z)
  end.

(* int(): None for anything that is not [-]digits *)
Fixpoint read_digits (s : str) (a : N) : option N :=
  match s with
  | [] => Some a
  | c :: r => if is_digit c then read_digits r (10 * a + (c - 48)) else None
  end.
Definition read_nat (s : str) : option N := match s with [] => None | _ => read_digits s 0 end.
Definition read_int (s : str) : option Z :=
  match s with
  | c :: r => if c =? cMINUS then match read_nat r with Some n => Some (- Z.of_N n)%Z | None => None end
              else match read_nat s with Some n => Some (Z.of_N n) | None => None end
  | [] => None
  end.
