(* Correspondence helpers for the lexer model: compare [lex] with what sly's tokenize did. *)
From Coq Require Import NArith PArith List Bool Arith.
From MSV Require Import Lib.PyStr Lib.Re Model.Lex.
Import ListNotations.
Local Open Scope N_scope.

Definition lt_eqb (a b : ltoken) : bool :=
  Pos.eqb (lt_type a) (lt_type b) && str_eqb (lt_value a) (lt_value b) &&
  str_eqb (lt_lexeme a) (lt_lexeme b) && N.eqb (lt_index a) (lt_index b) &&
  N.eqb (lt_end a) (lt_end b) && N.eqb (lt_line a) (lt_line b).

Fixpoint lts_eqb (a b : list ltoken) : bool :=
  match a, b with
  | [], [] => true
  | x :: a', y :: b' => lt_eqb x y && lts_eqb a' b'
  | _, _ => false
  end.

Definition lexres_eqb (a b : lexres) : bool :=
  match a, b with
  | LexOk x, LexOk y => lts_eqb x y
  | LexErr i x, LexErr j y => N.eqb i j && lts_eqb x y
  | _, _ => false
  end.

Fixpoint lex_mismatches (lexer : str -> lexres) (i : positive) (cs : list (str * lexres)) : list positive :=
  match cs with
  | [] => []
  | (s, e) :: r => if lexres_eqb (lexer s) e then lex_mismatches lexer (Pos.succ i) r
                   else i :: lex_mismatches lexer (Pos.succ i) r
  end.
