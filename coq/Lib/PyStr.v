(* Python str operations used by the lexers, grammar actions and printers, over code points. *)
From Coq Require Import NArith List Bool Arith.
Import ListNotations.
Local Open Scope N_scope.

Definition str := list N.

Fixpoint str_eqb (a b : str) : bool :=
  match a, b with
  | [], [] => true
  | x :: a', y :: b' => N.eqb x y && str_eqb a' b'
  | _, _ => false
  end.

Fixpoint is_prefix (p s : str) : bool :=
  match p, s with
  | [], _ => true
  | x :: p', y :: s' => N.eqb x y && is_prefix p' s'
  | _ :: _, [] => false
  end.

(* str.replace(old, new) for non-empty [old]: leftmost, non-overlapping occurrences.
   [skip] = characters of the occurrence just replaced that are still to be dropped. *)
Fixpoint replace_aux (old new : str) (skip : nat) (s : str) : str :=
  match s with
  | [] => []
  | c :: r =>
    match skip with
    | S k => replace_aux old new k r
    | O => if is_prefix old s then new ++ replace_aux old new (length old - 1) r
           else c :: replace_aux old new O r
    end
  end.
Definition replace (old new s : str) : str := replace_aux old new O s.

Definition memN (c : N) (cs : list N) : bool := existsb (N.eqb c) cs.

Fixpoint lstrip (cs : list N) (s : str) : str :=
  match s with
  | c :: r => if memN c cs then lstrip cs r else s
  | [] => []
  end.
Definition rstrip (cs : list N) (s : str) : str := rev (lstrip cs (rev s)).
Definition strip (cs : list N) (s : str) : str := rstrip cs (lstrip cs s).

(* code points used below *)
Definition cQ : N := 39.   (* single quote *)
Definition cDQ : N := 34.  (* double quote *)
Definition cBS : N := 92.  (* \ *)
Definition cBT : N := 96.  (* ` *)
Definition cAT : N := 64.  (* @ *)
Definition cNL : N := 10.
Definition cSP : N := 32.
Definition cDOT : N := 46.
