(* Relations as lists of rows, SQL values with NULL, three-valued logic, and the relational
   operators the SQL evaluator (Model/SqlEval.v) and the pushdown laws (Proofs/RelLaws.v) share.
   Everything is executable (vm_compute) and order-preserving: a relation is a list, so a law
   stated with = also fixes the order of the rows. *)
From Coq Require Import ZArith PArith List Bool.
Import ListNotations.

Inductive val := VNull | VInt (z : Z) | VStr (s : positive) | VErr.
Definition row := list val.
Definition rel := list row.

Definition val_eqb (a b : val) : bool :=
  match a, b with
  | VNull, VNull | VErr, VErr => true
  | VInt x, VInt y => Z.eqb x y
  | VStr x, VStr y => Pos.eqb x y
  | _, _ => false
  end.
Fixpoint row_eqb (a b : row) : bool :=
  match a, b with
  | [], [] => true
  | x :: a', y :: b' => val_eqb x y && row_eqb a' b'
  | _, _ => false
  end.

(* truth of a value used as a condition *)
Inductive tri := T3 | F3 | U3.
Definition truth (v : val) : tri :=
  match v with VInt 0 => F3 | VInt _ => T3 | VNull => U3 | _ => U3 end.
Definition is_true (v : val) : bool := match truth v with T3 => true | _ => false end.
Definition of_bool (b : bool) : val := VInt (if b then 1 else 0).
Definition is_err (v : val) : bool := match v with VErr => true | _ => false end.

Definition v_and (a b : val) : val :=
  if is_err a || is_err b then VErr else
  match truth a, truth b with
  | F3, _ | _, F3 => VInt 0
  | T3, T3 => VInt 1
  | _, _ => VNull
  end.
Definition v_or (a b : val) : val :=
  if is_err a || is_err b then VErr else
  match truth a, truth b with
  | T3, _ | _, T3 => VInt 1
  | F3, F3 => VInt 0
  | _, _ => VNull
  end.
Definition v_not (a : val) : val :=
  match a with VErr => VErr | _ => match truth a with T3 => VInt 0 | F3 => VInt 1 | U3 => VNull end end.

(* comparison of two non-NULL values of the same type *)
Definition v_cmp (a b : val) : option comparison :=
  match a, b with
  | VInt x, VInt y => Some (Z.compare x y)
  | VStr x, VStr y => Some (Pos.compare x y)   (* only = / <> are meaningful on interned strings *)
  | _, _ => None
  end.
Definition v_rel (f : comparison -> bool) (a b : val) : val :=
  match a, b with
  | VErr, _ | _, VErr => VErr
  | VNull, _ | _, VNull => VNull
  | _, _ => match v_cmp a b with Some c => of_bool (f c) | None => VErr end
  end.
Definition c_eq c := match c with Eq => true | _ => false end.
Definition c_ne c := negb (c_eq c).
Definition c_lt c := match c with Lt => true | _ => false end.
Definition c_le c := match c with Gt => false | _ => true end.
Definition c_gt c := match c with Gt => true | _ => false end.
Definition c_ge c := match c with Lt => false | _ => true end.

Definition v_arith (f : Z -> Z -> Z) (a b : val) : val :=
  match a, b with
  | VErr, _ | _, VErr => VErr
  | VNull, _ | _, VNull => VNull
  | VInt x, VInt y => VInt (f x y)
  | _, _ => VErr
  end.

(* ---------- operators ---------- *)
Definition nulls (n : nat) : row := repeat VNull n.

Definition sel (p : row -> bool) (r : rel) : rel := filter p r.

Inductive jkind := JI | JL | JR | JF | JC.   (* inner, left, right, full, cross *)

Definition join_inner (th : row -> row -> bool) (R S : rel) : rel :=
  flat_map (fun r => map (fun s => r ++ s) (filter (th r) S)) R.
Definition join_left (th : row -> row -> bool) (ns : nat) (R S : rel) : rel :=
  flat_map (fun r => match filter (th r) S with [] => [r ++ nulls ns] | m => map (fun s => r ++ s) m end) R.
Definition unmatched_right (th : row -> row -> bool) (nr : nat) (R S : rel) : rel :=
  map (fun s => nulls nr ++ s) (filter (fun s => negb (existsb (fun r => th r s) R)) S).
Definition join (k : jkind) (th : row -> row -> bool) (nr ns : nat) (R S : rel) : rel :=
  match k with
  | JI => join_inner th R S
  | JC => join_inner (fun _ _ => true) R S
  | JL => join_left th ns R S
  | JR => join_inner th R S ++ unmatched_right th nr R S
  | JF => join_left th ns R S ++ unmatched_right th nr R S
  end.

Fixpoint mem_row (x : row) (l : rel) : bool :=
  match l with [] => false | y :: r => row_eqb x y || mem_row x r end.
Fixpoint dedup_aux (seen : rel) (l : rel) : rel :=
  match l with
  | [] => []
  | x :: r => if mem_row x seen then dedup_aux seen r else x :: dedup_aux (x :: seen) r
  end.
Definition distinct (l : rel) : rel := dedup_aux [] l.

Definition mem_val (x : val) (l : list val) : bool := existsb (val_eqb x) l.

(* x IN (values): TRUE if equal to one, NULL if not found and x or some value is NULL, else FALSE *)
Definition v_in (x : val) (l : list val) : val :=
  if is_err x || existsb is_err l then VErr else
  match x with
  | VNull => match l with [] => VInt 0 | _ => VNull end
  | _ => if mem_val x l then VInt 1 else if existsb (val_eqb VNull) l then VNull else VInt 0
  end.

(* ---------- ordering ---------- *)
(* key comparison with NULL placement: nf = NULLs first *)
Definition key_cmp (desc nf : bool) (a b : val) : comparison :=
  match a, b with
  | VNull, VNull => Eq
  | VNull, _ => if nf then Lt else Gt
  | _, VNull => if nf then Gt else Lt
  | _, _ => match v_cmp a b with
            | Some c => if desc then CompOpp c else c
            | None => Eq
            end
  end.
Fixpoint keys_cmp (spec : list (bool * bool)) (a b : list val) : comparison :=
  match spec, a, b with
  | (d, nf) :: sp, x :: a', y :: b' => match key_cmp d nf x y with Eq => keys_cmp sp a' b' | c => c end
  | _, _, _ => Eq
  end.
Definition kle (spec : list (bool * bool)) (a b : list val) : bool :=
  match keys_cmp spec a b with Gt => false | _ => true end.

Section Sort.
  Context {A : Type} (le : A -> A -> bool).
  Fixpoint insert (x : A) (l : list A) : list A :=
    match l with
    | [] => [x]
    | y :: r => if le x y then x :: l else y :: insert x r     (* stable for insertion from the right *)
    end.
  Definition isort (l : list A) : list A := fold_right insert [] l.
  Fixpoint sorted (l : list A) : bool :=
    match l with
    | [] => true
    | x :: r => match r with [] => true | y :: _ => le x y && sorted r end
    end.
End Sort.

Definition take_drop {A} (limit offset : option nat) (l : list A) : list A :=
  let l1 := match offset with Some k => skipn k l | None => l end in
  match limit with Some n => firstn n l1 | None => l1 end.

(* ---------- bags ---------- *)
Fixpoint remove_one (x : row) (l : rel) : option rel :=
  match l with
  | [] => None
  | y :: r => if row_eqb x y then Some r else match remove_one x r with Some r' => Some (y :: r') | None => None end
  end.
Fixpoint sub_bag (a b : rel) : bool :=
  match a with
  | [] => true
  | x :: a' => match remove_one x b with Some b' => sub_bag a' b' | None => false end
  end.
Definition bag_eq (a b : rel) : bool := Nat.eqb (length a) (length b) && sub_bag a b.

(* set operations on bags *)
Fixpoint bag_minus (a b : rel) : rel :=          (* EXCEPT ALL: every row of b cancels one equal row of a *)
  match b with
  | [] => a
  | x :: b' => match remove_one x a with Some a' => bag_minus a' b' | None => bag_minus a b' end
  end.
Fixpoint bag_inter (a b : rel) : rel :=          (* INTERSECT ALL: a row of a survives while b still has an equal row *)
  match a with
  | [] => []
  | x :: a' => match remove_one x b with Some b' => x :: bag_inter a' b' | None => bag_inter a' b end
  end.
Inductive setop := SUnion | SExcept | SIntersect.
Definition set_op (op : setop) (all : bool) (a b : rel) : rel :=
  match op, all with
  | SUnion, true => a ++ b
  | SUnion, false => distinct (a ++ b)
  | SExcept, true => bag_minus a b
  | SExcept, false => distinct (filter (fun r => negb (mem_row r b)) a)
  | SIntersect, true => bag_inter a b
  | SIntersect, false => distinct (filter (fun r => mem_row r b) a)
  end.
