(* A backtracking matcher for the sre constructs the lexers use, with Python's semantics:
   ordered alternation, greedy / lazy repetition, IGNORECASE, \b, . (not newline).
   The patterns are produced by harness/gen_lexer.py from Python's own parse of the master
   regular expression of each lexer.  Unicode tables (digits, spaces, word characters, extra
   case-insensitive equivalents) are data in [uenv], generated from the running Python. *)
From Coq Require Import NArith List Bool Arith.
From MSV Require Import Lib.PyStr.
Import ListNotations.
Local Open Scope N_scope.

Inductive sitem := SLit (c : N) | SRange (lo hi : N) | SDigit | SSpace | SNotSpace.

Inductive re :=
| RLit (c : N)
| RNotLit (c : N)
| RIn (neg : bool) (items : list sitem)
| RAny
| RSeq (l : list re)
| RAlt (l : list re)
| RRep (greedy : bool) (mn : nat) (mx : option nat) (r : re)
| RBound.

(* each table is split at code point 128 (ranges below / from 128 up) so that ASCII input,
   which is almost all of it, never scans the long Unicode part *)
Record uenv := mkU {
  u_digits : list (N * N) * list (N * N);
  u_spaces : list (N * N) * list (N * N);
  u_words : list (N * N) * list (N * N);   (* \w : str.isalnum() or '_' *)
  u_fold : list (N * N)            (* non-ASCII code point -> the ASCII lower-case letter it equals under IGNORECASE *)
}.

Fixpoint in_ranges1 (c : N) (l : list (N * N)) : bool :=
  match l with
  | [] => false
  | (lo, hi) :: r => (N.leb lo c && N.leb c hi) || in_ranges1 c r
  end.
Definition in_ranges (c : N) (t : list (N * N) * list (N * N)) : bool :=
  if N.ltb c 128 then in_ranges1 c (fst t) else in_ranges1 c (snd t).

Fixpoint assocN (c : N) (l : list (N * N)) : option N :=
  match l with
  | [] => None
  | (k, v) :: r => if N.eqb c k then Some v else assocN c r
  end.

Section M.
Variable U : uenv.
Variable ic : bool.    (* re.IGNORECASE *)

Definition lower (c : N) : N :=
  if N.leb 65 c && N.leb c 90 then c + 32
  else match assocN c (u_fold U) with Some a => a | None => c end.
Definition upper (c : N) : N :=
  let l := lower c in if N.leb 97 l && N.leb l 122 then l - 32 else l.

Definition lit_match (c t : N) : bool :=
  N.eqb c t || (ic && N.eqb (lower c) (lower t)).

Definition item_match (t : N) (i : sitem) : bool :=
  match i with
  | SLit c => N.eqb c t
  | SRange lo hi => N.leb lo t && N.leb t hi
  | SDigit => in_ranges t (u_digits U)
  | SSpace => in_ranges t (u_spaces U)
  | SNotSpace => negb (in_ranges t (u_spaces U))
  end.

Definition set_match (items : list sitem) (t : N) : bool :=
  existsb (item_match t) items ||
  (ic && (existsb (item_match (lower t)) items || existsb (item_match (upper t)) items)).

Definition is_word (c : option N) : bool :=
  match c with Some x => in_ranges x (u_words U) | None => false end.

Inductive res := Match (rest : str) | NoMatch | OutOfFuel.

(* [prev]: the character before the current position (for \b) *)
Fixpoint mt (fuel : nat) (r : re) (prev : option N) (s : str)
         (k : option N -> str -> res) {struct fuel} : res :=
  match fuel with
  | O => OutOfFuel
  | S f =>
    match r with
    | RLit c => match s with t :: s' => if lit_match c t then k (Some t) s' else NoMatch | [] => NoMatch end
    | RNotLit c => match s with t :: s' => if lit_match c t then NoMatch else k (Some t) s' | [] => NoMatch end
    | RIn neg items =>
      match s with
      | t :: s' => if xorb neg (set_match items t) then k (Some t) s' else NoMatch
      | [] => NoMatch
      end
    | RAny => match s with t :: s' => if N.eqb t 10 then NoMatch else k (Some t) s' | [] => NoMatch end
    | RBound => if xorb (is_word prev) (is_word (hd_error s)) then k prev s else NoMatch
    | RSeq l =>
      match l with
      | [] => k prev s
      | r1 :: l' => mt f r1 prev s (fun p s' => mt f (RSeq l') p s' k)
      end
    | RAlt l =>
      match l with
      | [] => NoMatch
      | r1 :: l' => match mt f r1 prev s k with
                    | NoMatch => mt f (RAlt l') prev s k
                    | x => x
                    end
      end
    | RRep greedy mn mx r1 =>
      let more :=
        match mx with
        | Some O => NoMatch
        | _ => mt f r1 prev s (fun p s' =>
                 if Nat.eqb (length s') (length s) then NoMatch   (* no progress: stop iterating *)
                 else mt f (RRep greedy (Nat.pred mn) (option_map Nat.pred mx) r1) p s' k)
        end in
      match mn with
      | S _ => more
      | O => if greedy then match more with NoMatch => k prev s | x => x end
             else match k prev s with NoMatch => more | x => x end
      end
    end
  end.

Definition fuel_of (s : str) : nat := 40 * length s + 200.

(* match [r] at the start of [s] (previous character [prev]); result: lexeme and rest *)
Definition match_at (r : re) (prev : option N) (s : str) : option (str * str) + unit :=
  match mt (fuel_of s) r prev s (fun _ rest => Match rest) with
  | Match rest => inl (Some (firstn (length s - length rest) s, rest))
  | NoMatch => inl None
  | OutOfFuel => inr tt
  end.
End M.
