(* C07: constants render as inert, exact literals.  Theorems only. *)
From Coq Require Import NArith List Bool.
From Coq Require Import ZArith.
From MSV Require Import Lib.PyStr Spec.Literal Model.Literal Proofs.LiteralProofs Model.IntLit Proofs.IntLitProofs.
Import ListNotations.
Local Open Scope N_scope.

(* SQLAlchemy path, targets with standard string syntax (postgresql, sqlite, mssql, oracle):
   for EVERY value, if the escaping pair extracted from render_literal_value is ("'", "''"), the
   target's scanner reads the rendered literal back as exactly that value and stops exactly at
   its end, whatever follows (provided what follows does not start with a quote). *)
Theorem C07_sqlalchemy_std_inert :
  forall p v rest, K_doubling p = true -> not_quote_next rest ->
    scan_std (quote_with (fst p) (snd p) v ++ rest) = Some (v, rest).
Proof. intros p v rest HK Hr. apply K_doubling_ok in HK. subst p. exact (std_inert v rest Hr). Qed.
Print Assumptions C07_sqlalchemy_std_inert.

(* the same rendering read by a backslash-aware target (MySQL): only for backslash-free values *)
Theorem C07_sqlalchemy_bs_inert_guarded :
  forall p v rest, K_doubling p = true -> ~ In cBS v -> not_quote_next rest ->
    scan_bs (quote_with (fst p) (snd p) v ++ rest) = Some (v, rest).
Proof. intros p v rest HK Hb Hr. apply K_doubling_ok in HK. subst p. exact (bs_inert_guarded v rest Hb Hr). Qed.
Print Assumptions C07_sqlalchemy_bs_inert_guarded.

(* FULL STATEMENT for MySQL is false of the faithful model: *)
Theorem C07_sqlalchemy_bs_inert_refuted :
  exists v rest, not_quote_next rest /\ scan_bs (render_sa v ++ rest) <> Some (v, rest).
Proof. exact bs_inert_refuted. Qed.

(* to_string path (Constant.get_string), read by the library's own lexical rules *)
Theorem C07_tostring_inert_guarded :
  forall p v rest, K_backslash p = true -> ~ In cBS v -> not_quote_next rest ->
    scan_bs (quote_with (fst p) (snd p) v ++ rest) = Some (v, rest).
Proof. intros p v rest HK Hb Hr. apply K_backslash_ok in HK. subst p. exact (ts_inert_guarded v rest Hb Hr). Qed.
Print Assumptions C07_tostring_inert_guarded.

Theorem C07_tostring_inert_refuted :
  exists v rest, not_quote_next rest /\ scan_bs (render_ts v ++ rest) <> Some (v, rest).
Proof. exact ts_inert_refuted. Qed.

(* Integer constants: every output path writes Python's str(value) (Model/IntLit.print_int; tied per run by Gen/C07_int.v) and the
   library's INTEGER rule with int() reads decimal digits (read_int): the literal is read back as exactly the value, for every
   integer of any size and sign. *)
Theorem C07_integer_literal_exact : forall z : Z, read_int (print_int z) = Some z.
Proof. exact read_print_int. Qed.
Print Assumptions C07_integer_literal_exact.
