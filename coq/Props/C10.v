(* C10: every table and model is routed to the place its name resolves to.  Theorems only. *)
From Coq Require Import NArith List Bool.
From MSV Require Import Lib.PyStr Model.Resolve Proofs.ResolveProofs.
Import ListNotations.

(* resolve_database_table, for ALL catalogs and names: the database is the first part, matched
   case-insensitively against integrations and projects, with the qualifier removed; otherwise the
   default namespace with the name unchanged; no default namespace => PlanningException. *)
Theorem C10_simple_path_routes_by_specification :
  forall C parts db rest, resolve_db C parts = Some (db, rest) <-> routes C parts db rest.
Proof. exact resolve_db_spec. Qed.
Print Assumptions C10_simple_path_routes_by_specification.

Theorem C10_spelling_of_qualifier_is_irrelevant :
  forall C p0 p0' p1 r, lower p0 = lower p0' -> In (lower p0) (c_databases C) ->
    resolve_db C (p0 :: p1 :: r) = resolve_db C (p0' :: p1 :: r).
Proof. exact spelling_irrelevant. Qed.

Theorem C10_catalog_encoding_is_irrelevant :
  forall names preds d, mk_catalog (map CName names) preds d = mk_catalog (map (fun n => CDict n true) names) preds d.
Proof. exact catalog_encoding_irrelevant. Qed.

(* the join path uses a second resolver; it agrees with the first one only for lower-case qualifiers *)
Theorem C10_join_path_agrees_guarded :
  forall C p0 p1 r, lower p0 = p0 -> resolve_join C (p0 :: p1 :: r) = resolve_db C (p0 :: p1 :: r).
Proof. exact resolvers_agree_guarded. Qed.
Theorem C10_join_path_agrees_refuted : exists C parts, resolve_join C parts <> resolve_db C parts.
Proof. exact resolvers_agree_refuted. Qed.

Theorem C10_model_version_is_kept :
  forall d ns name v, is_digits v = true ->
    predictor_key d [ns; name; v] = Some (lower ns ++ [46%N] ++ lower name, name, Some v).
Proof. exact predictor_version_kept. Qed.
Print Assumptions C10_model_version_is_kept.
