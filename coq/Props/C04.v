(* C04: string tokens keep exactly the value the SQL text denotes.  Theorems only. *)
From Coq Require Import NArith ZArith List Bool DecimalZ.
From MSV Require Import Lib.PyStr Spec.Literal Model.Literal Model.Lex Model.Decode
     Proofs.LiteralProofs Proofs.DecodeProofs.
Import ListNotations.
Local Open Scope N_scope.

(* mindsdb dialect, standard spelling (quotes doubled): for EVERY backslash-free value that does
   not begin or end with a quote, the value stored in the tree (lexer replace chain, then the
   grammar action's strip) is the value the literal denotes. *)
Theorem C04_decode_doubled :
  forall ops delim v, K_decode_mindsdb ops delim = true -> nobs v = true -> noedge v = true ->
    decode ops delim (render_sa v) = v /\ denote_q (render_sa v) = Some v.
Proof.
  intros ops delim v HK Hb He. apply K_mindsdb_ok in HK as [-> ->]. split.
  - now apply decode_doubled.
  - unfold denote_q. rewrite <- (app_nil_r (render_sa v)).
    rewrite bs_inert_guarded; auto. now apply nobs_notin. exact I.
Qed.
Print Assumptions C04_decode_doubled.

(* mindsdb dialect, the spelling the library itself prints (quotes backslashed): additionally the
   value must not contain two adjacent quotes.  This is also the "conversely" direction: a
   Constant placed in a tree prints (K_backslash: Constant.get_string) to text that is read back
   as the same value. *)
Theorem C04_print_then_decode :
  forall ops delim p v, K_decode_mindsdb ops delim = true -> K_backslash p = true ->
    nobs v = true -> noedge v = true -> noadj v = true ->
    decode ops delim (quote_with (fst p) (snd p) v) = v /\
    denote_q (quote_with (fst p) (snd p) v) = Some v.
Proof.
  intros ops delim p v HK HP Hb He Ha. apply K_mindsdb_ok in HK as [-> ->].
  apply K_backslash_ok in HP. subst p. split.
  - now apply decode_backslashed.
  - unfold denote_q. change (quote_with (fst ([cQ], [cBS; cQ])) (snd ([cQ], [cBS; cQ])) v) with (render_ts v).
    rewrite <- (app_nil_r (render_ts v)). rewrite ts_inert_guarded; auto. now apply nobs_notin. exact I.
Qed.
Print Assumptions C04_print_then_decode.

(* FULL STATEMENT (decode = denote for every lexeme; print-then-decode = identity for every
   value) is false of the faithful model: *)
Theorem C04_decode_refuted :
  forallb (fun p => match denote_q (fst p) with
                    | Some v => str_eqb v (snd p) && negb (str_eqb (decode ops_mindsdb_q [cQ] (fst p)) v)
                    | None => false end) refute_witnesses = true.
Proof. exact decode_refuted. Qed.
Theorem C04_encode_refuted : decode ops_mindsdb_q [cQ] (render_ts [97; 92]) <> [97; 92].
Proof. exact encode_refuted. Qed.

(* sqlite and mysql dialects: the string rule is '[^']*' with no escapes; every literal keeps
   exactly its body *)
Theorem C04_decode_plain :
  forall ops delim body, K_decode_plain ops delim = true -> ~ In cQ body ->
    decode ops delim ([cQ] ++ body ++ [cQ]) = body.
Proof. intros ops delim body HK Hq. apply K_plain_ok in HK as [-> ->]. now apply decode_plain. Qed.
Print Assumptions C04_decode_plain.

(* integers: decimal printing and reading are inverse (int(str(n)) = n), all integers *)
Theorem C04_int_roundtrip : forall z : Z, Z.of_int (Z.to_int z) = z.
Proof. exact DecimalZ.of_to. Qed.
Print Assumptions C04_int_roundtrip.
