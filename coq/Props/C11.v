(* C11: a query on one SQL integration is pushed down whole and unchanged in meaning.
   What is proved about the reference semantics (Model/SqlEval.v): evaluating a table reference
   without its integration qualifier inside that integration reads the same rows, for every
   database, provided the remaining name is not captured by a CTE in scope; both guards are shown
   necessary.  The whole-query statement is decided per generated query x database by evaluation
   (harness/c11.py): PARTIAL, see DESIGN.md. *)
From Coq Require Import ZArith PArith List Bool.
From MSV Require Import Lib.Rel Model.SqlEval Proofs.SqlEvalLemmas.
Import ListNotations.

Theorem C11_strip_table_sound_partial :
  forall fuel d rest al cx,
    c_prefix cx = [] -> rest <> [] -> cte_free rest cx ->
    eval_f fuel (inside d cx) (FTab rest al) = eval_f fuel cx (FTab (d :: rest) al).
Proof. exact strip_table_sound. Qed.
Print Assumptions C11_strip_table_sound_partial.

Theorem C11_strip_table_cte_capture_refuted :
  exists fuel d rest al cx,
    c_prefix cx = [] /\ rest <> [] /\
    eval_f fuel (inside d cx) (FTab rest al) <> eval_f fuel cx (FTab (d :: rest) al).
Proof. exact strip_table_cte_capture_refuted. Qed.

Theorem C11_strip_alias_like_integration_refuted :
  exists fuel cx sch rw c d,
    eval_e fuel cx sch rw None (ECol None c) <> eval_e fuel cx sch rw None (ECol (Some d) c).
Proof. exact strip_alias_like_integration_refuted. Qed.
Print Assumptions C11_strip_alias_like_integration_refuted.
