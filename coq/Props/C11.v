(* C11: a query on one SQL integration is pushed down whole and unchanged in meaning.
   What is proved about the reference semantics (Model/SqlEval.v): evaluating a table reference
   without its integration qualifier inside that integration reads the same rows, for every
   database, provided the remaining name is not captured by a CTE in scope; both guards are shown
   necessary.  Further down: the whole-query statement for every query of the reference language
   (C11_rewriting_keeps_meaning) and the form that harness/c11u.py instantiates for each planned
   statement (C11_pushdown_keeps_meaning), so that a statement planned as one fetch step is settled
   for every database.  Statements outside the conditions (default namespace, CTE capture) and
   constructs outside the reference language are decided by evaluation on generated databases. *)
From Coq Require Import ZArith PArith List Bool.
From MSV Require Import Lib.Rel Model.SqlEval Proofs.SqlEvalLemmas Model.Strip Proofs.StripProofs.
Import ListNotations.

Theorem C11_strip_table_sound_partial :
  forall fuel d rest al cx,
    c_prefix cx = [] -> rest <> [] -> cte_free rest cx ->
    eval_f fuel (inside d cx) (FTab rest al) = eval_f fuel cx (FTab (d :: rest) al).
Proof. exact strip_table_sound. Qed.
Print Assumptions C11_strip_table_sound_partial.

Theorem C11_strip_table_cte_capture_refuted :
  exists fuel d rest al cx,
    c_prefix cx = [] /\ rest <> [] /\
    eval_f fuel (inside d cx) (FTab rest al) <> eval_f fuel cx (FTab (d :: rest) al).
Proof. exact strip_table_cte_capture_refuted. Qed.

Theorem C11_strip_alias_like_integration_refuted :
  exists fuel cx sch rw c d,
    eval_e fuel cx sch rw None (ECol None c) <> eval_e fuel cx sch rw None (ECol (Some d) c).
Proof. exact strip_alias_like_integration_refuted. Qed.
Print Assumptions C11_strip_alias_like_integration_refuted.
Local Open Scope positive_scope.

(* ---- the whole-query statement (Model/Strip.v, Proofs/StripProofs.v) ----
   For EVERY query of the reference language (joins of every kind, sub-queries in any position,
   set operations, CTEs, grouping, ordering, LIMIT), every context and every fuel: removing the
   qualifier d from the table names (and adding name-keeping aliases) and evaluating inside
   integration d gives the frame the original query gives outside, provided every table is
   qualified with d or is a CTE in scope and no stripped name is captured by a CTE in scope. *)
Theorem C11_rewriting_keeps_meaning :
  forall ds ka fuel cx q,
    pref_ok ds cx -> ok_q ds (map fst (c_ctes cx)) q = true ->
    eval_q fuel (inside_o ds cx) (tr_q ds ka q) = eval_q fuel cx q.
Proof. exact tr_q_sound. Qed.
Print Assumptions C11_rewriting_keeps_meaning.

(* The form instantiated per planned statement by harness/c11u.py: a fetched query q2 that is the
   rewriting of q up to name-keeping aliases answers q on every database. *)
Theorem C11_pushdown_keeps_meaning :
  forall d q q2,
    ok_q (Some d) [] q = true -> alias_norm q2 = pushed d q ->
    forall fuel db, eval_q fuel (mkCtx db [d] [] [] []) q2 = eval_q fuel (mkCtx db [] [] [] []) q.
Proof. exact pushdown_sound. Qed.
Print Assumptions C11_pushdown_keeps_meaning.

(* non-vacuity: `with c as (select * from d.t where a = 1) select c.a, u.b from c join d.u on c.a = u.a limit 5`
   (d = 5, t = 7, u = 8, c = 9, a = 11, b = 12) satisfies the condition, and returns a row on a small database *)
Example pushdown_example :
  let q := QWith [(9, QSel false false [TStar None] (Some (FTab [5; 7] None))
                          (Some (EBin BEq (ECol None 11) (EConst (VInt 1)))) [] None [] None None)]
                 (QSel false false [TExpr (ECol (Some 9) 11) None; TExpr (ECol (Some 8) 12) None]
                       (Some (FJoin JI (FTab [9] None) (FTab [5; 8] None) (Some (EBin BEq (ECol (Some 9) 11) (ECol (Some 8) 11)))))
                       None [] None [] (Some 5%nat) None) in
  let db := [([5; 7], ([11; 12], [[VInt 1; VInt 2]])); ([5; 8], ([11; 12], [[VInt 1; VInt 3]]))] in
  ok_q (Some 5) [] q = true /\
  snd (eval_q 10 (mkCtx db [5] [] [] []) (pushed 5 q)) = [[VInt 1; VInt 3]] /\
  snd (eval_q 10 (mkCtx db [] [] [] []) q) = [[VInt 1; VInt 3]].
Proof. vm_compute. auto. Qed.

(* the condition "every table belongs to d" is needed: a table of another integration *)
Theorem C11_other_integration_refuted :
  exists d q fuel db,
    ok_q (Some d) [] q = false /\
    eval_q fuel (mkCtx db [d] [] [] []) (pushed d q) <> eval_q fuel (mkCtx db [] [] [] []) q.
Proof.
  exists 5, (QSel false false [TStar None] (Some (FTab [6; 7] None)) None [] None [] None None), 5%nat,
         [([6; 7], ([11], [[VInt 1]]))].
  split; [reflexivity|]. vm_compute. discriminate.
Qed.
