(* C12: prepared statements bind placeholders in textual order.  Theorems only. *)
From Coq Require Import PArith List Bool Arith.
From MSV Require Import Model.Walk Model.Params Proofs.WalkProofs Proofs.ParamsProofs.
Import ListNotations.

(* For EVERY statement tree whose classes all have a walker branch that agrees with the schema:
   the placeholders reported by get_query_params are all the Parameter nodes, in left-to-right
   textual order, and fill_query_params binds the k-th value to the k-th placeholder of the text. *)
Theorem C12_placeholders_in_textual_order :
  forall cParam S Q t, okb S Q t = true -> is_none t = false ->
    params cParam S t = params_spec cParam t.
Proof. exact params_textual. Qed.
Print Assumptions C12_placeholders_in_textual_order.

Theorem C12_values_bound_in_textual_order :
  forall cParam cConst vbase S Q t, okb S Q t = true -> is_none t = false ->
    fill cParam cConst vbase S t = fill_spec cParam cConst vbase t.
Proof. exact fill_textual. Qed.
Print Assumptions C12_values_bound_in_textual_order.

(* protocol, all call histories *)
Theorem C12_wrong_count_is_PlanningException :
  forall again s n k, s = PPrepared n -> k <> n ->
    pstep again s (CExecute (Some k)) = (PPrepared n, OutPlanningException).
Proof. exact wrong_count. Qed.

Theorem C12_no_internal_error_in_any_history :
  forall h s, Forall (fun o => o <> OutInternalError) (prun OutPlanningException s h).
Proof. exact no_internal_error. Qed.
Print Assumptions C12_no_internal_error_in_any_history.

Theorem C12_internal_error_refuted_if_reexecution_crashes :
  exists h, In OutInternalError (prun OutInternalError PNone h).
Proof. exact internal_error_refuted. Qed.
