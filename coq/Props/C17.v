(* C17: the renderer honours its fallback contract and never leaks internal errors.
   The contract is proved about the control flow of get_exec_params (Model/Fallback.v, whose
   handler structure -- pass tuple, conversion, caught tuple -- is regenerated from the source on
   every run) for EVERY outcome of the translation; that the real calls follow the model is
   checked by correspondence, and non-mutation of the tree is checked on the real objects
   (harness/c17.py). *)
From Coq Require Import PArith List Bool.
From MSV Require Import Model.Fallback Proofs.FallbackProofs.
Import ListNotations.

Theorem C17_fallback_raises_iff :
  forall caught raw e, outer caught true raw = Raises e <-> raw = Some e /\ ~ In e caught.
Proof. exact fallback_raises_iff. Qed.
Print Assumptions C17_fallback_raises_iff.

(* FOR EVERY outcome of the translation (any exception class): with fallback nothing is raised,
   without fallback only SQLAlchemyError / NotImplementedError -- for the control flow with the
   converting inner handler (the instance the harness reads from the source is compared with
   [get_string std true std] on every run) *)
Theorem C17_contract_holds :
  forall raw,
    allowed_with_fallback (get_string std true std true raw) = true /\
    allowed_without_fallback (get_string std true std false raw) = true.
Proof. exact contract_holds. Qed.
Print Assumptions C17_contract_holds.

(* without the conversion (the control flow before repository fix) other classes escape *)
Theorem C17_other_class_escapes_without_conversion :
  forall c fb, get_string std false std fb (Some (EOther c)) = Raises (EOther c).
Proof. exact other_class_escapes_without_conversion. Qed.
