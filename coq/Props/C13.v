(* C13: the AST walker visits every table, expression and subquery once, in order.  Theorems only. *)
From Coq Require Import PArith List Bool.
From MSV Require Import Model.Walk Proofs.WalkProofs.
Import ListNotations.

(* For EVERY tree all of whose node classes have a walker branch that agrees with the schema
   (finite check [okb]: same child fields, same order, right flags, None skipped, replacement
   written to the visited slot) and whose children are laid out by the schema:
   the sequence of callback invocations is exactly the pre-order, left-to-right sequence of all
   nodes, each once, tables and select-list items flagged as such ... *)
Theorem C13_visits_everything_once_in_order :
  forall S Q n, okb S Q n = true -> is_none n = false ->
  forall tb tg, walk S n tb tg = spec n tb tg.
Proof. exact walk_is_spec. Qed.
Print Assumptions C13_visits_everything_once_in_order.

(* ... and a node returned by the callback replaces exactly the visited node and nothing else. *)
Theorem C13_replacement_is_local :
  forall S Q n x r, okb S Q n = true -> is_none n = false -> wrepl S n x r = subst n x r.
Proof. exact wrepl_is_subst. Qed.
Print Assumptions C13_replacement_is_local.

(* non-vacuity: a two-class schedule/schema and a tree that satisfies the premises *)
Local Open Scope positive_scope.
Example okb_inhabited :
  let S := [(2, [mkE 1 false false false RSlot; mkE 2 true false false RSlot])] in
  let Q := [(2, [mkSlot 1 false false; mkSlot 2 true false]); (3, [])] in
  okb S Q (Nd 1 2 [(mkSlot 1 false false, Nd 2 3 []); (mkSlot 1 false false, Nd 3 3 []);
                   (mkSlot 2 true false, Nd 4 2 [(mkSlot 2 true false, Nd 5 3 [])])]) = true.
Proof. vm_compute. reflexivity. Qed.
