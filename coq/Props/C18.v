(* C18: tree copies are independent; equality of trees, steps and plans is lawful.  Theorems only. *)
From Coq Require Import PArith List Bool.
From MSV Require Import Model.Copy Proofs.CopyProofs.
Import ListNotations.
Local Open Scope positive_scope.

(* For EVERY object graph whose classes are all copied deeply on every field (finite check
   [all_deep] of the probed copy schedule against the graph): the copy has the same shape (prints
   identically, compares equal) and shares no mutable object with the original, so no mutation
   through the copy can reach the original. *)
Theorem C18_copy_prints_identically :
  forall CS off n, all_deep CS n = true -> erase (gcopy CS off n) = erase n.
Proof. exact copy_same_shape. Qed.
Print Assumptions C18_copy_prints_identically.

Theorem C18_copy_shares_nothing_mutable :
  forall CS off n, all_deep CS n = true -> max_id n <= off ->
    forall i, In i (mut_ids (gcopy CS off n)) -> ~ In i (mut_ids n).
Proof. exact copy_disjoint. Qed.
Print Assumptions C18_copy_shares_nothing_mutable.

(* a custom __deepcopy__ that copies a container shallowly shares the mutable elements *)
Theorem C18_shallow_field_shares :
  exists CS off n, max_id n <= off /\ exists i, In i (mut_ids (gcopy CS off n)) /\ In i (mut_ids n).
Proof.
  exists [(7, [(1, Shallow)])], 100, (N 1 7 true [(1, N 2 9 true [(1, N 3 8 true [])])]).
  split; [vm_compute; discriminate|]. exists 3. vm_compute. auto.
Qed.

(* equality of trees (two computed strings) is reflexive, symmetric and implies equal SQL, for any
   printer; equality of steps is reflexive but not symmetric when attribute sets differ *)
Theorem C18_ast_eq_lawful :
  forall {A B} (tree_of : onode -> A) (str_of : onode -> B) eqA eqB,
    (forall a, eqA a a = true) -> (forall b, eqB b b = true) ->
    (forall a b, eqA a b = eqA b a) -> (forall a b, eqB a b = eqB b a) ->
    (forall x, ast_eq tree_of str_of eqA eqB x x = true) /\
    (forall x y, ast_eq tree_of str_of eqA eqB x y = ast_eq tree_of str_of eqA eqB y x) /\
    (forall x y, ast_eq tree_of str_of eqA eqB x y = true -> eqB (str_of x) (str_of y) = true).
Proof.
  intros A B t s eqA eqB H1 H2 H3 H4. repeat split.
  - intros x. now apply ast_eq_refl.
  - intros x y. now apply ast_eq_sym.
  - intros x y. apply ast_eq_same_sql.
Qed.
Print Assumptions C18_ast_eq_lawful.

Theorem C18_step_eq_reflexive : forall s, nodup_keys (st_attrs s) = true -> step_eq s s = ETrue.
Proof. exact step_eq_refl. Qed.
Theorem C18_step_eq_not_symmetric : exists a b, step_eq a b = ETrue /\ step_eq b a <> ETrue.
Proof. exact step_eq_sym_refuted. Qed.
