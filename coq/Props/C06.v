(* C06: SQL rendered through SQLAlchemy means the same as the parsed statement.
   PARTIAL.  Universal part: the rewrites that SQLAlchemy applies to the elements the renderer
   builds -- negated comparisons (NOT (a = b) -> a != b ...), NOT (x IS NULL) -> x IS NOT NULL,
   flattening of AND / OR / + / * chains -- preserve the value of the expression for ALL values
   under three-valued logic, and subtraction is NOT associative (so its grouping must be kept).
   Whole statements are decided per generated statement x database x dialect by evaluation
   (harness/c06.py: Coq reference semantics for the AST, sqlite3 for the rendered text). *)
From Coq Require Import ZArith PArith List Bool.
From MSV Require Import Lib.Rel Proofs.RenderLaws.

Theorem C06_negated_comparisons :
  forall a b,
    v_not (v_rel c_eq a b) = v_rel c_ne a b /\ v_not (v_rel c_ne a b) = v_rel c_eq a b /\
    v_not (v_rel c_lt a b) = v_rel c_ge a b /\ v_not (v_rel c_le a b) = v_rel c_gt a b /\
    v_not (v_rel c_gt a b) = v_rel c_le a b /\ v_not (v_rel c_ge a b) = v_rel c_lt a b.
Proof.
  intros a b. repeat split; [apply not_eq|apply not_ne|apply not_lt|apply not_le|apply not_gt|apply not_ge].
Qed.
Print Assumptions C06_negated_comparisons.

Theorem C06_negated_is_null :
  forall x, v_not (is_null_v x) = not_null_v x /\ v_not (not_null_v x) = is_null_v x.
Proof. intros x. split; [apply not_is_null|apply not_not_null]. Qed.

Theorem C06_flattened_boolean_chains :
  forall a b c,
    v_and (v_and a b) c = v_and a (v_and b c) /\ v_or (v_or a b) c = v_or a (v_or b c).
Proof. intros a b c. split; [apply and_assoc|apply or_assoc]. Qed.
(* arithmetic chains: for numeric operands (NULL included); on strings + is a type error *)
Theorem C06_flattened_chains :
  forall a b c, no_str a = true -> no_str b = true -> no_str c = true ->
    v_arith Z.add (v_arith Z.add a b) c = v_arith Z.add a (v_arith Z.add b c) /\
    v_arith Z.mul (v_arith Z.mul a b) c = v_arith Z.mul a (v_arith Z.mul b c).
Proof. intros a b c Ha Hb Hc. split; [now apply add_assoc|now apply mul_assoc]. Qed.
Print Assumptions C06_flattened_chains.

Theorem C06_subtraction_grouping_matters :
  exists a b c, v_arith Z.sub (v_arith Z.sub a b) c <> v_arith Z.sub a (v_arith Z.sub b c).
Proof. exact sub_not_assoc. Qed.

(* ---- where SQLAlchemy puts parentheses (Model/SaGroup.v) ---- *)
From MSV Require Import Model.SaGroup Proofs.SaGroupProofs.

(* EVERY expression tree of +, -, *, unary minus, comparisons, AND / OR / NOT, BETWEEN (with
   arithmetic bounds): if the precedence table read from the installed SQLAlchemy satisfies K_sa
   (checked by an instance theorem on every run), the printed structure reads back under the
   standard operator levels exactly as it was printed: operand grouping is explicit wherever it
   is needed. *)
Theorem C06_printed_is_unambiguous :
  forall T, K_sa T = true -> forall e, bounds_arith e = true -> forall p, pr T e = Some p -> wf p = true.
Proof. exact printed_is_unambiguous. Qed.
Print Assumptions C06_printed_is_unambiguous.

(* ... and it has the value of the tree it was printed from, for every assignment of numbers /
   NULL to the columns: flattened chains, flipped negations and parentheses change nothing. *)
Theorem C06_printed_means_the_same :
  forall T env, (forall n, no_str (env n) = true) -> forall e p, pr T e = Some p -> psem env p = sem env e.
Proof. intros T env H e p Hp. exact (proj1 (printed_means_the_same T env H e p Hp)). Qed.
Print Assumptions C06_printed_means_the_same.

(* the guard on BETWEEN bounds is needed *)
Theorem C06_between_bound_comparison_refuted :
  exists T e p, K_sa T = true /\ pr T e = Some p /\ wf p = false.
Proof. exact between_bound_comparison_refuted. Qed.
