(* C15: a time-series model receives exactly its context window plus the selected rows.
   Model/TsSpec.v holds the branch table of plan_timeseries_predictor (which rows are "selected" and
   which may serve as context, per operator of the time condition) and what is fetched for one
   partition; harness/c15.py ties it to the plans by executing the emitted fetch steps in Coq. *)
From Coq Require Import ZArith PArith List Bool Sorting.Permutation.
From MSV Require Import Lib.Rel Model.TsSpec Proofs.TsProofs.
Import ListNotations.

(* EVERY table content, window size and condition: the window part has min(w, #context) rows,
   they are context rows, and every context row left out is not more recent than any row taken *)
Theorem C15_window_is_most_recent :
  forall tcol w c rows,
    let cand := filter (on_time tcol (context c)) rows in
    let W := window_part tcol w c rows in
    length W = Nat.min w (length cand) /\
    (exists rest, Permutation (W ++ rest) cand /\ forall x y, In x W -> In y rest -> (tz tcol y <= tz tcol x)%Z).
Proof. exact window_is_most_recent. Qed.
Print Assumptions C15_window_is_most_recent.

(* the selected part is exactly the rows satisfying the user's condition *)
Theorem C15_select_is_all_selected :
  forall tcol c rows, Permutation (select_part tcol c rows) (filter (on_time tcol (selects c)) rows).
Proof. exact select_is_all_selected. Qed.

(* context rows never satisfy the condition (no row is handed over twice), and for >, >=, BETWEEN
   nothing between the window and the selection is skipped *)
Theorem C15_context_disjoint_from_selection : forall c t, context c t = true -> selects c t = false.
Proof. exact context_disjoint_from_selection. Qed.
Theorem C15_lower_bound_complete :
  forall c t,
    match c with
    | TGt _ | TGe _ => context c t || selects c t = true
    | TBetween _ hi => (t <= hi)%Z -> context c t || selects c t = true
    | _ => True
    end.
Proof. exact lower_bound_complete. Qed.

(* rows without a time are never handed over *)
Theorem C15_fetched_rows_have_time :
  forall tcol w c rows r, In r (fetched tcol w c rows) -> time_of tcol r <> None.
Proof. exact fetched_rows_have_time. Qed.
Print Assumptions C15_fetched_rows_have_time.
