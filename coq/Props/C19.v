(* C19: syntax errors point at the offending token.  Theorems only. *)
From Coq Require Import NArith PArith ZArith List Bool Arith.
From MSV Require Import Lib.PyStr Model.ErrMsg Proofs.ErrMsgProofs.
From MSV Require Model.LexErr Proofs.LexErrProofs.
Import ListNotations.

(* error_location, for EVERY statement written on one line (any number of tokens, any gaps, any
   offending token, token values = lexemes): the message shows '>' + the line, the caret line has
   index+1 dashes and exactly one caret per character of the offending token, and the characters
   above the carets are that token. *)
Theorem C19_carets_cover_the_offending_token :
  forall ln pos items k ty v g,
  nth_error items k = Some (ty, v, g) ->
  let bad := mkET ty ln (pos_of pos items k) v in
  let '(msgs, ei, len) := error_location (lay ln pos items) (Some bad) in
  ei = Z.of_nat (pos_of pos items k) /\ len = length v /\
  exists line, nth_error msgs 1 = Some (62%N :: line) /\
               firstn len (skipn (Z.to_nat ei) line) = v /\
               nth_error msgs 2 = Some (repeat 45%N (S (pos_of pos items k)) ++ repeat 94%N (length v)).
Proof. exact caret_covers_bad_token. Qed.
Print Assumptions C19_carets_cover_the_offending_token.

(* non-vacuity: `select  a b` with the error at `b` *)
Example caret_example :
  let items := [(5%positive, [115;101;108;101;99;116]%N, 2); (7%positive, [97]%N, 1); (7%positive, [98]%N, 0)] in
  nth_error items 2 = Some (7%positive, [98]%N, 0) /\ pos_of 0 items 2 = 10.
Proof. vm_compute. auto. Qed.

(* The lexer's "Illegal character" report, for EVERY text of any number of lines (lines = any strings without
   a newline) and any offending character at column c of line l: the character at the reported absolute index
   is that character; the report shows the line of the error behind '>' as its last source line, preceded by
   the line before it when there is one (and by nothing else), followed by one caret line whose caret is
   exactly under the offending character. *)
Theorem C19_illegal_character_report :
  forall (lines : list str) (l c : nat) (ch : N),
  forallb LexErr.no_nl lines = true -> l < length lines -> nth_error (nth l lines []) c = Some ch ->
  let text := LexErr.join_nl lines in
  let idx := LexErr.pos_of lines l c in
  nth_error text idx = Some ch /\
  exists pre caret,
    LexErr.report text idx = map (fun x => LexErr.cGT :: x) pre ++ [LexErr.cGT :: nth l lines []; caret] /\
    (l = 0 -> pre = []) /\ (0 < l -> pre = [nth (l - 1) lines []]) /\
    nth_error caret (S c) = Some LexErr.cCARET /\ nth_error (LexErr.cGT :: nth l lines []) (S c) = Some ch /\
    length caret = S (S c).
Proof. exact LexErrProofs.lexer_report_points_at_the_character. Qed.
Print Assumptions C19_illegal_character_report.
