(* C09: every emitted plan is a well-formed, forward-only dataflow program.  Theorems only. *)
From Coq Require Import List Bool Arith.
From MSV Require Import Model.PlanBuild Proofs.PlanBuildProofs.
Import ListNotations.

(* For EVERY sequence of plan-building calls that follows the discipline [run_ok] (references
   exist; nothing is added to the plan itself while a map-reduce partition is open; sub-steps refer
   only to steps before the container or to earlier sub-steps): the resulting plan is numbered
   consecutively and every reference -- in steps and in sub-steps -- points strictly backwards. *)
Theorem C09_disciplined_construction_is_wellformed :
  forall cs, run_ok binit cs = true -> wf_plan (b_plan (brun cs)) = true.
Proof. exact build_wf. Qed.
Print Assumptions C09_disciplined_construction_is_wellformed.

(* FULL STATEMENT (every call sequence the planner can make) is false of the faithful model:
   add_plan_step adds a non-partitionable step to the plan without closing the open partition *)
Theorem C09_partition_refuted : wf_plan (b_plan (brun partition_calls)) = false.
Proof. exact partition_refuted. Qed.
