(* C14: in a table-model join the model gets the right rows and arguments, only those.
   Theorems only; models in Model/ModelJoin.v, proofs in Proofs/ModelJoinProofs.v. *)
From Coq Require Import PArith NArith List Bool.
From MSV Require Import Lib.PyStr Model.Resolve Model.ModelJoin Proofs.ModelJoinProofs.
Import ListNotations.

(* EVERY condition tree (AND / OR / NOT / functions nested in any way): the model's arguments are
   exactly the top-level `col = const` conjuncts on the model's own alias whose column is not the
   predicted one -- nothing under NOT, inside OR or a function, nothing on a table alias. *)
Theorem C14_arguments_characterised :
  forall c m tgt col v,
    In (col, v) (row_dict c m tgt) <-> In (CCmp OEq m col v) (conjuncts c) /\ ~ In col tgt.
Proof. exact args_characterised. Qed.
Print Assumptions C14_arguments_characterised.

(* EVERY condition tree: every filter pushed into a table's fetch is a top-level conjunct of
   WHERE that compares a column of that table with constants; without OR all of them are pushed. *)
Theorem C14_pushed_filters_are_top_conjuncts :
  forall c a op al col v,
    In (op, al, col, v) (pushed c a) -> In (CCmp op al col v) (conjuncts c) /\ al = a.
Proof. exact pushed_sound. Qed.
Theorem C14_pushed_filters_complete_without_or :
  forall c a, has_or c = false -> pushed c a = filter not_isnull (pushed_spec c a).
Proof. exact pushed_complete. Qed.
Print Assumptions C14_pushed_filters_are_top_conjuncts.

(* EVERY condition tree: after the arguments are taken out, the outer condition evaluates (3-valued)
   as the conjunction of exactly the conjuncts that were not consumed. *)
Theorem C14_outer_condition_is_the_rest :
  forall env cols oth w1 w2 c m tgt,
    ceval env cols oth w1 w2 (neutralise c m tgt) =
    conj_eval (map (ceval env cols oth w1 w2) (remaining c m tgt)).
Proof. exact neutralised_evaluates_remaining. Qed.
Print Assumptions C14_outer_condition_is_the_rest.

(* EVERY ON clause, every join type: a filter taken from the ON clause is a top-level
   `=`-constant conjunct on the joined table, and only for inner / left joins. *)
Theorem C14_on_clause_filters_sound :
  forall j c a op al col v,
    In (op, al, col, v) (pushed_on j c a) ->
    push_safe j = true /\ In (CCmp op al col v) (conjuncts c) /\ al = a /\ (op = OEq \/ op = OEqRev).
Proof. exact pushed_on_sound. Qed.
Theorem C14_on_clause_filters_complete_for_equalities :
  forall j c a, eq_and_tree c = true -> pushed_on j c a = pushed_on_spec j c a.
Proof. exact pushed_on_complete. Qed.
Theorem C14_column_mapping_is_top_equalities :
  forall c m, eq_and_tree c = true -> colmap c m = colmap_spec c m.
Proof. exact colmap_is_top_equalities. Qed.
Print Assumptions C14_on_clause_filters_sound.

(* USING *)
Theorem C14_using_plain_key_reaches_model :
  forall al opts k v, In (k, v) opts -> split_dot k = None -> str_eqb (lower k) partition_size = false ->
    In (lower k, v) (model_params al opts).
Proof. exact using_plain_key_reaches_model. Qed.
Theorem C14_using_params_come_from_options :
  forall al opts k' v, In (k', v) (model_params al opts) ->
    exists k, In (k, v) opts /\
      ((split_dot k = None /\ k' = lower k) \/
       (exists a r, split_dot k = Some (a, r) /\ mem_str a al = true /\ k' = lower r)).
Proof. exact using_params_come_from_options. Qed.
Print Assumptions C14_using_params_come_from_options.

(* EVERY left-deep join that starts with a table: each model reference is applied to exactly the
   join of all references before it, and there is one apply step per model reference. *)
Theorem C14_model_input_is_preceding_data :
  forall rest, exists steps top n, prun ([], [], O) (join_seq false rest) = Some (steps, [top], n) /\
    forall k r i, nth_error steps k = Some (SApply r i) -> cov steps i (seq 0 r).
Proof. exact model_input_is_preceding_data. Qed.
Theorem C14_one_apply_per_model :
  forall rest s s', prun s (flat_map (fun b => [ref_item b; IJoin]) rest) = Some s' ->
    length (filter is_apply (fst (fst s'))) =
    (length (filter is_apply (fst (fst s))) + length (filter (fun b => b) rest))%nat.
Proof. exact one_apply_per_model. Qed.
Print Assumptions C14_model_input_is_preceding_data.
