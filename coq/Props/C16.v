(* C16: queries embedded in MindsDB commands are stored verbatim.  Theorems only. *)
From Coq Require Import NArith List Bool.
From MSV Require Import Lib.PyStr Lib.Re Model.Lex Model.RawQuery Proofs.RawQueryProofs Proofs.LexProofs.
Import ListNotations.

(* tokens_to_string, for EVERY token list laid out consistently (any number of tokens, lines and
   gap widths) whose token values are the lexemes: the stored text is the original text with each
   inter-token gap (blanks, comments, line breaks) replaced by white space of the same length. *)
Theorem C16_stored_is_original_with_gaps_blanked :
  forall start items, items <> [] -> gaps_ok items = true ->
    tokens_to_string (mk_toks start items) = Some (blanked items).
Proof. exact tokens_to_string_blanked. Qed.
Print Assumptions C16_stored_is_original_with_gaps_blanked.

(* ... and the hypothesis "values are the lexemes" holds for every input exactly when no lexer
   rule rewrites token.value (a finite check of the regenerated rule table): *)
Theorem C16_values_are_lexemes_if_no_rule_rewrites :
  forall U rules ignore s toks, K_raw rules = true -> lex U rules ignore s = LexOk toks ->
    Forall (fun t => lt_value t = lt_lexeme t) toks.
Proof. exact lex_values_are_lexemes. Qed.
Print Assumptions C16_values_are_lexemes_if_no_rule_rewrites.
