(* C02: parsing terminates with a tree or a parsing error, never a crash -- the part of it that
   is a theorem about the engine model.  Theorems only. *)
From Coq Require Import PArith List Bool Arith.
From MSV Require Import Model.Sly Proofs.SlySound Proofs.SlyTotal.
Import ListNotations.

(* the outcome of the engine is independent of the fuel given to the model, as soon as it suffices *)
Theorem C02_outcome_independent_of_fuel :
  forall T cb f k toks o, run T cb f toks = o -> o <> OFuel -> run T cb (f + k) toks = o.
Proof. exact run_fuel_mono. Qed.
Print Assumptions C02_outcome_independent_of_fuel.

(* with certified tables a reduction never pops below the bottom of the stack *)
Theorem C02_reduce_never_underflows :
  forall T toks s p lhs rhs, K_tables T = true -> NInv T toks s ->
    chk_reduce T (top_state (stack s)) p = true -> prod T p = Some (lhs, rhs) ->
    (length rhs <= length (stack s))%nat.
Proof. exact reduce_never_underflows. Qed.
Print Assumptions C02_reduce_never_underflows.
