(* C03: operators group by standard SQL precedence and associativity.
   Theorems only; proofs in Proofs/OpPrecSound.v, OpPrecStd.v, OpPrecSim.v. *)
From Coq Require Import PArith List Bool.
From MSV Require Import Model.Sly Model.OpPrec Proofs.SlySound Proofs.OpPrecSound Proofs.OpPrecStd
     Proofs.OpPrecSim.
Import ListNotations.
Local Open Scope positive_scope.

Lemma K_struct T G : K_prec T G = true -> g_struct G = true.
Proof.
  intros H. unfold K_prec in H. repeat (apply andb_true_iff in H; destruct H as [H ?]).
  unfold g_struct. repeat (apply andb_true_iff; split); assumption.
Qed.

(* (1) Whatever the dialect's decision table [g_dec G] is: if the LALR tables pass the finite
   check K_prec against it, then from every state where an expression may start the engine
   parses the tokens of every expression that is well-formed for that table into exactly that
   expression.  All expressions, all states, all continuations. *)
Theorem C03_groups_by_table :
  forall T G, K_prec T G = true ->
  forall e s ts x ks rest,
    tsof T G s = Some ts -> wf_dec G e = true -> lsp_ok T G s e ->
    map ttype ks = syms G e ->
    defd T ts (la rest) = true -> closes G e (la rest) = true ->
    exists t, reach T true ([(s, x)], ks ++ rest) ([(ts, t); (s, x)], rest) /\ abs G t = Some e.
Proof.
  intros T G HK e s ts x ks rest H1 H2 H3 H4 H5 H6.
  destruct (parse_ex T G HK e s ts x ks rest H1 H2 H3 H4 H5 H6) as (t & Hr & Ha & _). eauto.
Qed.
Print Assumptions C03_groups_by_table.

(* (2) The property itself: if moreover the decision table refines the standard levels
   (unary minus > * / % > + - > comparisons/IN/BETWEEN/LIKE/IS > NOT > AND > OR, left-associative
   chains), then every expression written with the minimal parentheses those levels require
   (user parentheses are EPar nodes and are kept) is grouped by the *engine* exactly as written:
   n steps of Model/Sly.v's [step] from any normal state whose top state is fresh leave the
   expression's tree on the stack. *)
Theorem C03_standard_grouping :
  forall T G L cb, K_prec T G = true -> lv_ok G L = true -> refines G L = true ->
  forall e, wf_lvl G L e = true ->
  forall st s ts x base ks rest,
    nrel st -> stack st = (s, x) :: base -> pending st = ks ++ rest ->
    tsof T G s = Some ts -> fresh T G s = true ->
    map ttype ks = syms G e ->
    defd T ts (la rest) = true -> mem (la rest) (g_terms G) = true ->
    exists n st' t, steps T cb n st = Some st' /\ stack st' = (ts, t) :: (s, x) :: base /\
                    pending st' = rest /\ abs G t = Some e.
Proof.
  intros T G L cb HK Hlv Href e Hw st s ts x base ks rest Hn Hst Hp Hts Hf Hm Hd Hterm.
  pose proof (K_struct T G HK) as Hs.
  assert (Hwd : wf_dec G e = true).
  { apply (wf_std_dec G L Hs Href). apply (wf_lvl_std G L Hlv); assumption. }
  unfold fresh in Hf. apply andb_true_iff in Hf as [Hf Hf3]. apply andb_true_iff in Hf as [_ Hf2].
  destruct (parse_ex T G HK e s ts x ks rest Hts Hwd (fresh_lsp T G s e Hf2 Hf3 Hwd) Hm Hd)
    as (t & Hr & Ha & _).
  { unfold closes. now rewrite Hterm. }
  apply reach_frame with (base := base) in Hr. simpl app in Hr.
  apply reach_weaken in Hr.
  destruct (sim_reach T cb _ _ Hr st Hn) as (n & st' & Hss & Hc & _).
  { now rewrite Hst, Hp. }
  injection Hc as Hc1 Hc2. exists n, st', t. auto.
Qed.
Print Assumptions C03_standard_grouping.
