(* C05: a statement is accepted only if its whole token stream is one grammar sentence.
   Theorems only; proofs live in Proofs/SlySound.v. *)
From Coq Require Import PArith List.
From MSV Require Import Model.Sly Proofs.SlySound.
Import ListNotations.

(* For every table set that passes the (finite, kernel-evaluated) certificate check and every
   error callback that raises or drains the token stream: whatever the engine accepts is the
   yield of a derivation tree of the dumped grammar rooted at the start symbol -- all tokens,
   in order, none skipped. *)
Theorem C05_accept_is_sentence :
  forall T cb fuel toks d tr,
    K_tables T = true -> cb <> CbIgnore ->
    run T cb fuel toks = OAccept d tr ->
    derives T d /\ root d = t_start T /\ yield d = toks.
Proof. intros T cb fuel toks d tr HK. exact (run_sound T HK cb fuel toks d tr). Qed.
Print Assumptions C05_accept_is_sentence.

(* Once the (draining) callback has run, no continuation of the loop accepts. *)
Theorem C05_recovery_rejects :
  forall T fuel s, K_tables T = true -> EInv s -> noaccept (run_loop T CbDrain fuel s).
Proof. intros T fuel s HK. exact (recovery_rejects T HK fuel s). Qed.
Print Assumptions C05_recovery_rejects.

(* Non-vacuity: a toy table (S' -> s ; s -> a) passes K_tables and accepts [a]. *)
Local Open Scope positive_scope.
Definition toy : tables :=
  mk_tables [(1, (5, [4])); (2, (4, [3]))]
            [(1, [(3, Sh 2)]); (2, [(1, Rd 2)]); (3, [(1, Ac)])]
            [(1, [(4, 3)])] [] [(1, [1]); (2, [1; 3]); (3, [1; 4])] 4.
Example toy_K : K_tables toy = true. Proof. vm_compute. reflexivity. Qed.
Example toy_accepts : exists d tr, run toy CbDrain 10 (mk_tokens [3]) = OAccept d tr.
Proof. eexists; eexists. vm_compute. reflexivity. Qed.
(* and with a callback that ignores errors the same engine resynchronises: garbage is skipped *)
Example toy_resync : exists d tr, run toy CbIgnore 20 (mk_tokens [6; 3]) = OAccept d tr
                                  /\ yield d <> mk_tokens [6; 3].
Proof. eexists; eexists. vm_compute. split; [reflexivity|discriminate]. Qed.
