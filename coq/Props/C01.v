(* C01: printing a parsed statement and re-parsing it yields the same tree.  PARTIAL.
   Proved: the two places where printing must quote -- names and string constants.
   Everything else (each node's get_string mirrors its grammar rule, for every statement kind) is
   decided by the round trip itself on harvested, generated and mutated statements
   (harness/c01.py). *)
From Coq Require Import NArith ZArith List Bool.
From MSV Require Import Lib.PyStr Model.IdentPrint Proofs.IdentProofs Spec.Literal Model.Literal Model.Decode
     Proofs.LiteralProofs Proofs.DecodeProofs Props.C04.
Import ListNotations.

(* EVERY identifier: whatever its parts contain (keywords, spaces, dots, leading digits, any
   character but the back quote), printing it and splitting the text back gives the same parts *)
Theorem C01_identifier_print_then_read :
  forall reserved ps, Forall ok_part ps -> split_parts (print_parts reserved ps) = ps.
Proof. exact print_then_read. Qed.
Print Assumptions C01_identifier_print_then_read.

Theorem C01_backquote_in_part_refuted :
  exists reserved ps, split_parts (print_parts reserved ps) <> ps.
Proof. exact backquote_in_part_refuted. Qed.

(* EVERY string constant (mindsdb dialect) under the guards of C04: the text Constant.get_string
   prints is read back as the same value *)
Theorem C01_string_constant_print_then_read :
  forall ops delim p v, K_decode_mindsdb ops delim = true -> K_backslash p = true ->
    nobs v = true -> noedge v = true -> noadj v = true ->
    decode ops delim (quote_with (fst p) (snd p) v) = v.
Proof. intros ops delim p v H1 H2 H3 H4 H5. exact (proj1 (C04_print_then_decode ops delim p v H1 H2 H3 H4 H5)). Qed.
Print Assumptions C01_string_constant_print_then_read.
