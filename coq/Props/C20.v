(* C20: calls are isolated.  PARTIAL: the theorem is about the discipline "private objects per
   call, shared objects only read"; that parse_sql / plan_query / SqlalchemyRender follow it, and
   everything that lives in the runtime (threads, hash randomisation), is checked on the
   implementation by harness/c20.py. *)
From Coq Require Import List Arith Bool.
From MSV Require Import Model.Isolation Proofs.IsolationProofs.
Import ListNotations.

Theorem C20_isolation_partial :
  forall (Shared Private : Type) (step : Shared -> Private -> Private) sh (ps : list Private) (sched : list nat) i d,
    i < length ps ->
    nth i (run Shared Private step sh ps sched) d = iter Private (count_occ Nat.eq_dec sched i) (step sh) (nth i ps d).
Proof. exact isolation. Qed.
Print Assumptions C20_isolation_partial.

Theorem C20_schedule_independent_partial :
  forall (Shared Private : Type) (step : Shared -> Private -> Private) sh ps s1 s2 i d,
    i < length ps -> count_occ Nat.eq_dec s1 i = count_occ Nat.eq_dec s2 i ->
    nth i (run Shared Private step sh ps s1) d = nth i (run Shared Private step sh ps s2) d.
Proof. exact schedule_independent. Qed.

Theorem C20_history_independent_partial :
  forall (Shared Private : Type) (step : Shared -> Private -> Private) sh ps sched i d n,
    i < length ps -> count_occ Nat.eq_dec sched i = 0 ->
    nth i (run Shared Private step sh ps (sched ++ repeat i n)) d = iter Private n (step sh) (nth i ps d).
Proof. exact history_independent. Qed.
Print Assumptions C20_history_independent_partial.
