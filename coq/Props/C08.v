(* C08: executing a federated plan returns what the original query returns.
   The laws that make the planner's pushdowns sound, over ALL relations (any number of rows,
   NULLs, duplicates; equality of lists, so order and multiplicity are both preserved), each with
   the side condition it needs and a refutation without it.  The implementation's plans are
   tied to these laws by evaluation (harness/c08.py, Model/SqlEval.v, Model/SqlJudge.v). *)
From Coq Require Import ZArith PArith List Bool.
From MSV Require Import Lib.Rel Proofs.RelLaws Proofs.SortPush.
Import ListNotations.

(* INNER JOIN: conditions pushed into both fetches and the semi-join restriction of the second
   table change nothing, provided the outer WHERE (re-applied after the join) implies every
   pushed condition -- i.e. each pushed condition is a conjunct of it. *)
Theorem C08_inner_join_pushdown :
  forall (th : row -> row -> bool) (p pR pS inS : row -> bool) (R S : rel),
    (forall r x, p (r ++ x) = true -> pR r = true) ->
    (forall r s, In s S -> p (r ++ s) = true -> pS s = true) ->
    (forall r s, In r R -> pR r = true -> th r s = true -> inS s = true) ->
    sel p (join_inner th (sel pR R) (sel (fun s => pS s && inS s) S)) = sel p (join_inner th R S).
Proof. exact inner_join_pushdown. Qed.
Print Assumptions C08_inner_join_pushdown.

(* LEFT JOIN: a condition on the preserved table and the semi-join restriction of the other one. *)
Theorem C08_left_join_pushdown :
  forall (th : row -> row -> bool) (p pR inS : row -> bool) (R S : rel),
    (forall r x, p (r ++ x) = true -> pR r = true) ->
    (forall r s, In r R -> pR r = true -> th r s = true -> inS s = true) ->
    forall ns, sel p (join_left th ns (sel pR R) (sel inS S)) = sel p (join_left th ns R S).
Proof. exact left_join_pushdown. Qed.
Print Assumptions C08_left_join_pushdown.

(* LEFT JOIN: a condition on the null-supplied table may be pushed only if the outer WHERE rejects
   the NULL-extended rows; otherwise (IS NULL: the anti-join) the result changes. *)
Theorem C08_left_join_right_pushdown :
  forall (th : row -> row -> bool) (p pS : row -> bool) (R S : rel),
    (forall r s, In s S -> p (r ++ s) = true -> pS s = true) ->
    (forall ns r, In r R -> p (r ++ nulls ns) = false) ->
    forall ns, sel p (join_left th ns R (sel pS S)) = sel p (join_left th ns R S).
Proof. exact left_join_right_pushdown. Qed.
Theorem C08_left_join_right_pushdown_needs_null_rejection :
  exists th p pS R S ns,
    (forall r s, In s S -> p (r ++ s) = true -> pS s = true) /\
    sel p (join_left th ns R (sel pS S)) <> sel p (join_left th ns R S).
Proof. exact left_join_right_pushdown_needs_null_rejection. Qed.
Print Assumptions C08_left_join_right_pushdown.

(* LIMIT may be applied to the first table of a LEFT JOIN when nothing happens after the join;
   not for an inner join, not before a WHERE, and OFFSET not at all. *)
Theorem C08_limit_through_left_join :
  forall th ns n R S, firstn n (join_left th ns (firstn n R) S) = firstn n (join_left th ns R S).
Proof. exact limit_through_left_join. Qed.
Theorem C08_limit_through_inner_join_refuted :
  exists th n R S, firstn n (join_inner th (firstn n R) S) <> firstn n (join_inner th R S).
Proof. exact limit_through_inner_join_refuted. Qed.
Theorem C08_limit_before_where_refuted :
  exists th p ns n R S,
    firstn n (sel p (join_left th ns (firstn n R) S)) <> firstn n (sel p (join_left th ns R S)).
Proof. exact limit_before_where_refuted. Qed.
Theorem C08_offset_through_left_join_refuted :
  exists th ns k R S, skipn k (join_left th ns R S) <> join_left th ns (skipn k R) S.
Proof. exact offset_through_left_join_refuted. Qed.
Print Assumptions C08_limit_through_left_join.

(* ORDER BY <columns of the first table> [LIMIT n] may follow the first table of a LEFT JOIN into its fetch -- if the fetch sorts
   by the SAME comparison (direction and NULL placement, Lib/Rel.kle): sorting the join is joining the sorted table (the sort is
   stable, the join keeps the rows of one left row together); the outer step sorts and cuts again.  With another NULL placement
   in the fetch the law fails.  keyf: the sort-key expressions evaluated on a row of the first table (width w). *)
Theorem C08_order_by_through_left_join :
  forall spec keyf w th ns (R S : rel), width_ok w R ->
    isort (le_joined w (le_keys spec keyf)) (join_left th ns R S) = join_left th ns (isort (le_keys spec keyf) R) S.
Proof. exact sort_through_left_join_kle. Qed.
Theorem C08_order_limit_through_left_join :
  forall spec keyf w th ns n (R S : rel), width_ok w R ->
    firstn n (isort (le_joined w (le_keys spec keyf)) (join_left th ns (firstn n (isort (le_keys spec keyf) R)) S)) =
    firstn n (isort (le_joined w (le_keys spec keyf)) (join_left th ns R S)).
Proof. exact order_limit_through_left_join_kle. Qed.
Theorem C08_order_limit_needs_the_same_comparison_refuted :
  exists th ns n (R S : rel),
    firstn n (isort (le_joined 1 (le_spec [(false, false)])) (join_left th ns (firstn n (isort (le_spec [(false, true)]) R)) S)) <>
    firstn n (isort (le_joined 1 (le_spec [(false, false)])) (join_left th ns R S)).
Proof. exact order_limit_needs_the_same_comparison_refuted. Qed.
(* an outer condition may not move below the LIMIT of a derived table / of a sub-select that cuts its rows *)
Theorem C08_filter_below_limit_refuted :
  exists (p : row -> bool) n (R : rel), firstn n (filter p R) <> filter p (firstn n R).
Proof. exact filter_below_limit_refuted. Qed.
Print Assumptions C08_order_limit_through_left_join.
