(* Characterising lemmas for the Python string operations of Lib/PyStr.v *)
From Coq Require Import NArith List Bool Arith Lia.
From MSV Require Import Lib.PyStr.
Import ListNotations.
Local Open Scope N_scope.

Lemma replace_aux_skip old new k s :
  (k <= length s)%nat -> replace_aux old new k s = replace_aux old new 0 (skipn k s).
Proof.
  revert s. induction k as [|k IH]; intros s H; [reflexivity|].
  destruct s as [|c r]; simpl in H; [lia|]. simpl. apply IH. lia.
Qed.

(* a two-character pattern whose first character does not occur leaves the string alone *)
Lemma replace2_absent a b new s : ~ In a s -> replace [a; b] new s = s.
Proof.
  unfold replace. induction s as [|c r IH]; intros H; [reflexivity|].
  cbn [replace_aux]. cbn [is_prefix].
  destruct (N.eqb a c) eqn:E.
  - apply N.eqb_eq in E. subst. exfalso. apply H. now left.
  - cbn [andb]. f_equal. apply IH. intros Hi. apply H. now right.
Qed.

Lemma memN_true c cs : memN c cs = true <-> In c cs.
Proof.
  unfold memN. rewrite existsb_exists. split.
  - intros [x [Hi He]]. apply N.eqb_eq in He. now subst.
  - intros H. exists c. split; auto. apply N.eqb_refl.
Qed.

Lemma lstrip_stop cs c r : memN c cs = false -> lstrip cs (c :: r) = c :: r.
Proof. intros H. simpl. now rewrite H. Qed.

(* stripping one delimiter character from both ends *)
Lemma strip_delims q v :
  (match v with c :: _ => c <> q | [] => True end) ->
  (match rev v with c :: _ => c <> q | [] => True end) ->
  strip [q] (q :: v ++ [q]) = v.
Proof.
  intros Hh Hl. unfold strip, rstrip.
  assert (Hm : forall c, c <> q -> memN c [q] = false).
  { intros c Hc. unfold memN. simpl. rewrite orb_false_r. now apply N.eqb_neq. }
  assert (Hq : memN q [q] = true) by (unfold memN; simpl; now rewrite N.eqb_refl).
  cbn [lstrip]. rewrite Hq.
  destruct v as [|c r].
  - cbn [app lstrip]. rewrite Hq. reflexivity.
  - cbn [app]. rewrite lstrip_stop by (apply Hm; exact Hh).
    change (c :: r ++ [q]) with ((c :: r) ++ [q]). rewrite rev_app_distr.
    change (rev [q]) with [q]. change ([q] ++ rev (c :: r)) with (q :: rev (c :: r)).
    remember (rev (c :: r)) as w eqn:Ew. cbn [lstrip]. rewrite Hq. subst w.
    destruct (rev (c :: r)) as [|d t] eqn:Er.
    + apply (f_equal (@rev _)) in Er. rewrite rev_involutive in Er. discriminate.
    + rewrite lstrip_stop by (apply Hm; exact Hl). rewrite <- Er. apply rev_involutive.
Qed.
