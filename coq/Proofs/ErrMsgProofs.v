(* error_location on a statement written on one line: the caret segment covers exactly the
   offending token, for every token list laid out consistently whose values are the lexemes. *)
From Coq Require Import NArith PArith ZArith List Bool Arith Lia.
From MSV Require Import Lib.PyStr Model.ErrMsg.
Import ListNotations.

Definition item := (positive * str * nat)%type.     (* token type, lexeme, blanks up to the next token *)

Fixpoint lay (ln : N) (pos : nat) (items : list item) : list etok :=
  match items with
  | [] => []
  | (ty, v, g) :: r => mkET ty ln pos v :: lay ln (pos + length v + g) r
  end.

(* the text of the line from the first token on *)
Fixpoint content (items : list item) : str :=
  match items with
  | [] => []
  | (_, v, g) :: r => v ++ match r with [] => [] | _ => repeat cSP g ++ content r end
  end.

Lemma ljust_len s n : length s <= n -> length (ljust s n) = n.
Proof. intros H. unfold ljust. rewrite app_length, repeat_length. lia. Qed.

Lemma fold_put items : forall ln pos acc, length acc <= pos -> items <> [] ->
  fold_left (fun l t => put_token l t) (lay ln pos items) acc = ljust acc pos ++ content items.
Proof.
  induction items as [|[[ty v] g] r IH]; intros ln pos acc Hl Hne; [congruence|].
  cbn [lay fold_left content]. unfold put_token at 2. cbn [et_index et_value].
  assert (E : Nat.ltb pos (length acc) = false) by (apply Nat.ltb_ge; lia). rewrite E.
  destruct r as [|i2 r'].
  - cbn [lay fold_left]. now rewrite app_nil_r.
  - rewrite IH; [|rewrite app_length, ljust_len by lia; lia|discriminate].
    unfold ljust at 1. rewrite app_length, ljust_len by lia.
    replace (pos + length v + g - (pos + length v)) with g by lia.
    rewrite <- !app_assoc. reflexivity.
Qed.

Lemma build_single items ln pos : items <> [] ->
  build_lines (lay ln pos items) = [(ln, repeat cSP pos ++ content items)].
Proof.
  intros Hne. unfold build_lines.
  assert (G : forall toks acc, fold_left (fun ls t => upd_line ls (et_line t) (fun line => put_token line t)) toks [(ln, acc)]
                               = [(ln, fold_left (fun l t => put_token l t) toks acc)] \/ exists t, In t toks /\ et_line t <> ln).
  { induction toks as [|t r IH]; intros acc; [now left|].
    destruct (N.eq_dec (et_line t) ln) as [E|E].
    - cbn [fold_left upd_line]. rewrite E, N.eqb_refl. destruct (IH (put_token acc t)) as [H|[x [Hx Hn]]]; [now left|].
      right. exists x. split; auto. now right.
    - right. exists t. split; auto. now left. }
  destruct items as [|[[ty v] g] r]; [congruence|].
  cbn [lay fold_left upd_line et_line].
  destruct (G (lay ln (pos + length v + g) r) (put_token [] (mkET ty ln pos v))) as [H|[x [Hx Hn]]].
  - rewrite H. f_equal. f_equal.
    change (fold_left (fun l t => put_token l t) (lay ln (pos + length v + g) r) (put_token [] (mkET ty ln pos v)))
      with (fold_left (fun l t => put_token l t) (lay ln pos ((ty, v, g) :: r)) []).
    rewrite fold_put; [|simpl; lia|discriminate]. unfold ljust. simpl length. now rewrite Nat.sub_0_r.
  - exfalso. clear - Hx Hn. revert Hx. generalize (pos + length v + g). induction r as [|[[ty' v'] g'] r IH]; intros p Hx; [contradiction|].
    cbn [lay] in Hx. destruct Hx as [<-|Hx]; [now apply Hn|]. eapply IH; eauto.
Qed.

(* position of the k-th token *)
Fixpoint pos_of (pos : nat) (items : list item) (k : nat) : nat :=
  match items, k with
  | (_, v, g) :: r, S k' => pos_of (pos + length v + g) r k'
  | _, _ => pos
  end.

Lemma content_at items : forall k ty v g, nth_error items k = Some (ty, v, g) ->
  forall pos, firstn (length v) (skipn (pos_of pos items k - pos) (content items)) = v.
Proof.
  induction items as [|[[ty0 v0] g0] r IH]; intros k ty v g Hn pos; [destruct k; discriminate|].
  destruct k as [|k].
  - injection Hn as -> -> ->. cbn [pos_of content]. rewrite Nat.sub_diag. cbn [skipn].
    rewrite firstn_app, firstn_all, Nat.sub_diag. cbn [firstn]. now rewrite app_nil_r.
  - cbn [pos_of content nth_error] in *. destruct r as [|i2 r']; [destruct k; discriminate|].
    assert (Hge : pos + length v0 + g0 <= pos_of (pos + length v0 + g0) (i2 :: r') k).
    { clear. generalize (pos + length v0 + g0). generalize (i2 :: r'). intros l. revert k.
      induction l as [|[[a b] c] l IH]; intros k p; destruct k; cbn [pos_of]; try lia.
      specialize (IH k (p + length b + c)). lia. }
    replace (pos_of (pos + length v0 + g0) (i2 :: r') k - pos)
      with (length v0 + (g0 + (pos_of (pos + length v0 + g0) (i2 :: r') k - (pos + length v0 + g0)))) by lia.
    rewrite skipn_app, skipn_all2 by lia. cbn [app].
    replace (length v0 + (g0 + (pos_of (pos + length v0 + g0) (i2 :: r') k - (pos + length v0 + g0))) - length v0)
      with (g0 + (pos_of (pos + length v0 + g0) (i2 :: r') k - (pos + length v0 + g0))) by lia.
    rewrite skipn_app, skipn_all2 by (rewrite repeat_length; lia). cbn [app]. rewrite repeat_length.
    replace (g0 + (pos_of (pos + length v0 + g0) (i2 :: r') k - (pos + length v0 + g0)) - g0)
      with (pos_of (pos + length v0 + g0) (i2 :: r') k - (pos + length v0 + g0)) by lia.
    eapply IH; eauto.
Qed.

(* the theorem: one line, any number of tokens and gaps, any offending token *)
Theorem caret_covers_bad_token ln pos items k ty v g :
  nth_error items k = Some (ty, v, g) ->
  let bad := mkET ty ln (pos_of pos items k) v in
  let '(msgs, ei, len) := error_location (lay ln pos items) (Some bad) in
  ei = Z.of_nat (pos_of pos items k) /\ len = length v /\
  exists line, nth_error msgs 1 = Some (62%N :: line) /\
               firstn len (skipn (Z.to_nat ei) line) = v /\
               nth_error msgs 2 = Some (repeat 45%N (S (pos_of pos items k)) ++ repeat 94%N (length v)).
Proof.
  intros Hn bad. assert (Hne : items <> []) by (intros ->; destruct k; discriminate).
  unfold error_location. rewrite (build_single items ln pos Hne). cbn [et_value et_line et_index bad].
  cbn [shift_lines]. rewrite N.eqb_refl. cbn [Nat.ltb Nat.leb skipn firstn Nat.sub map app length].
  rewrite Z.sub_0_r. split; [reflexivity|]. split; [reflexivity|].
  exists (repeat cSP pos ++ content items). split; [reflexivity|]. split.
  - rewrite Nat2Z.id.
    assert (Hge : pos <= pos_of pos items k).
    { clear. revert k pos. induction items as [|[[a b] c] l IH]; intros k p; destruct k; cbn [pos_of]; try lia.
      specialize (IH k (p + length b + c)). lia. }
    replace (pos_of pos items k) with (pos + (pos_of pos items k - pos)) at 1 by lia.
    rewrite skipn_app, skipn_all2 by (rewrite repeat_length; lia). cbn [app]. rewrite repeat_length.
    replace (pos + (pos_of pos items k - pos) - pos) with (pos_of pos items k - pos) by lia.
    eapply content_at; eauto.
  - cbn [nth_error]. f_equal. f_equal. f_equal. lia.
Qed.
