From Coq Require Import List Arith Bool Lia.
From MSV Require Import Model.Isolation.
Import ListNotations.

Section Proofs.
  Variables (Shared Private : Type) (step : Shared -> Private -> Private).

  Lemma nth_upd_same i f (ps : list Private) d : i < length ps -> nth i (upd Private i f ps) d = f (nth i ps d).
  Proof.
    revert i. induction ps as [|p r IH]; intros i H; simpl in H; [lia|].
    destruct i; simpl; [reflexivity|]. apply IH. lia.
  Qed.
  Lemma nth_upd_other i j f (ps : list Private) d : i <> j -> nth j (upd Private i f ps) d = nth j ps d.
  Proof.
    revert i j. induction ps as [|p r IH]; intros i j H; [destruct i; reflexivity|].
    destruct i, j; simpl; try reflexivity; try congruence. apply IH. congruence.
  Qed.
  Lemma length_upd i f (ps : list Private) : length (upd Private i f ps) = length ps.
  Proof. revert i. induction ps as [|p r IH]; intros i; [destruct i; reflexivity|]. destruct i; simpl; [reflexivity|]. now rewrite IH. Qed.

  Lemma iter_snoc n f (p : Private) : iter Private (S n) f p = f (iter Private n f p).
  Proof. revert p. induction n as [|n IH]; intros p; [reflexivity|]. simpl in *. now rewrite IH. Qed.

  (* the state of call i after ANY schedule is its own state after as many of its own steps as the
     schedule gave it: the steps of other calls, and the order, do not matter *)
  Theorem isolation sh (ps : list Private) (sched : list nat) i d :
    i < length ps ->
    nth i (run Shared Private step sh ps sched) d = iter Private (count_occ Nat.eq_dec sched i) (step sh) (nth i ps d).
  Proof.
    unfold run. revert ps. induction sched as [|j sched IH]; intros ps Hi; [reflexivity|].
    cbn [fold_left count_occ]. rewrite IH by (now rewrite length_upd).
    destruct (Nat.eq_dec j i) as [->|Hne].
    - rewrite nth_upd_same by exact Hi. reflexivity.
    - rewrite nth_upd_other by exact Hne. reflexivity.
  Qed.

  (* two schedules that give call i the same number of steps leave it in the same state *)
  Corollary schedule_independent sh ps s1 s2 i d :
    i < length ps -> count_occ Nat.eq_dec s1 i = count_occ Nat.eq_dec s2 i ->
    nth i (run Shared Private step sh ps s1) d = nth i (run Shared Private step sh ps s2) d.
  Proof. intros Hi Hc. rewrite !isolation by exact Hi. now rewrite Hc. Qed.

  (* and earlier calls do not matter either: a call started after any history of other calls
     behaves as if started first (the shared state is never written) *)
  Corollary history_independent sh ps sched i d n :
    i < length ps -> count_occ Nat.eq_dec sched i = 0 ->
    nth i (run Shared Private step sh ps (sched ++ repeat i n)) d = iter Private n (step sh) (nth i ps d).
  Proof.
    intros Hi Hc. rewrite isolation by exact Hi. f_equal. rewrite count_occ_app, Hc. simpl.
    induction n as [|n IHn]; simpl; [reflexivity|]. destruct (Nat.eq_dec i i); [now rewrite IHn|congruence].
  Qed.
End Proofs.

Example isolation_nonvacuous :
  run nat nat (fun sh p => sh + p) 3 [0; 10] [0; 1; 0; 1; 1] = [6; 19] /\
  run nat nat (fun sh p => sh + p) 3 [0; 10] [1; 1; 1; 0; 0] = [6; 19].
Proof. split; reflexivity. Qed.
