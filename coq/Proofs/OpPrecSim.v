(* The local shift/reduce machine of Model/OpPrec.v is the normal (error-free) path of the
   engine model Model/Sly.v: every [astep] is a [Sly.step]. *)
From Coq Require Import PArith List Bool FMapPositive Arith Lia.
From MSV Require Import Model.Sly Model.OpPrec Proofs.SlySound Proofs.OpPrecSound.
Import ListNotations.
Local Open Scope positive_scope.

Section Sim.
Variable T : tables.

Definition nrel (s : pst) : Prop :=
  lstack s = [] /\ lookah s <> Some LErr /\ (lookah s = Some LEnd -> input s = []) /\
  Forall (fun t => ttype t <> END) (pending s).

Lemma strict_weaken c c' : astep T true c = Some c' -> astep T false c = Some c'.
Proof.
  destruct c as [stk toks]. unfold astep. destruct stk as [|c0 stk]; [discriminate|].
  simpl andb. cbn iota.
  destruct (eact T (top_state (c0 :: stk)) (la toks)) as [[u|p| |]|]; auto.
  unfold ared. destruct (prod T p) as [[lhs rhs]|]; auto.
  destruct (Nat.ltb (length rhs) (length (c0 :: stk))) eqn:L; [|discriminate].
  apply Nat.ltb_lt in L. assert (L2 : Nat.leb (length rhs) (length (c0 :: stk)) = true)
    by (apply Nat.leb_le; lia). now rewrite L2.
Qed.

Lemma fetch_nrel s :
  nrel s -> exists lk s1, fetch s = (lk, s1) /\ look_sym lk = la (pending s) /\
    stack s1 = stack s /\ pending s1 = pending s /\ lookah s1 = Some lk /\ lstack s1 = [] /\
    input s1 = match lk with LTok _ => tl (pending s) | _ => [] end /\
    errcount s1 = errcount s /\ errok s1 = errok s /\ ncalls s1 = ncalls s /\
    einfo s1 = einfo s /\ trace s1 = trace s /\
    (forall k, lk = LTok k -> pending s = k :: input s1) /\ (lk = LEnd -> pending s = []) /\ lk <> LErr.
Proof.
  intros (Hls & Hlk & He & Hi). unfold fetch, pending in *.
  destruct (lookah s) as [[k| |]|] eqn:El.
  - exists (LTok k), s. rewrite El. simpl.
    repeat split; auto; try congruence; try (intros k0 [= <-]; reflexivity).
  - exists LEnd, s. rewrite El. rewrite (He eq_refl) in *. simpl. repeat split; auto; congruence.
  - congruence.
  - rewrite Hls. destruct (input s) as [|k r] eqn:Ei.
    + eexists LEnd, _. split; [reflexivity|]. simpl. repeat split; auto; congruence.
    + eexists (LTok k), _. split; [reflexivity|]. simpl.
      repeat split; auto; try congruence; try (intros k0 [= <-]; reflexivity).
Qed.

Lemma ared_do_reduce s p stk' :
  ared T false (stack s) p = Some stk' ->
  exists s', do_reduce T s p = inl s' /\ stack s' = stk' /\ lookah s' = lookah s /\
             lstack s' = lstack s /\ input s' = input s.
Proof.
  unfold ared, do_reduce. destruct (prod T p) as [[lhs rhs]|]; [|discriminate].
  destruct (Nat.leb (length rhs) (length (stack s))); [|discriminate].
  destruct (goto T _ lhs) as [t|]; [|discriminate].
  intros [= <-]. eexists. split; [reflexivity|]. simpl. auto.
Qed.

Lemma sim_step cb s stk' toks' :
  nrel s -> astep T false (stack s, pending s) = Some (stk', toks') ->
  exists s', step T cb s = inl s' /\ stack s' = stk' /\ pending s' = toks' /\ nrel s'.
Proof.
  intros Hn Ha. pose proof Hn as (Hls & Hlk & He & Hi).
  unfold astep in Ha. simpl andb in Ha. cbn iota in Ha. unfold eact in Ha. unfold step.
  destruct (PositiveMap.find (top_state (stack s)) (t_default T)) as [p|] eqn:Ed.
  - destruct (ared T false (stack s) p) as [st1|] eqn:Er; [|discriminate].
    injection Ha as <- <-.
    destruct (ared_do_reduce s p st1 Er) as (s' & Hd & H1 & H2 & H3 & H4).
    exists s'. split; [exact Hd|]. split; [exact H1|].
    assert (Hp : pending s' = pending s) by (unfold pending; now rewrite H2, H4).
    split; [exact Hp|]. unfold nrel. rewrite H2, H3, H4, Hp. auto.
  - destruct (fetch_nrel s Hn) as (lk & s1 & Hf & Hsym & Hst & Hpe & Hl1 & Hls1 & Hin1 & _ & _ & _ & _ & _ & Htok & Hend & Hne).
    rewrite Hf. rewrite Hsym.
    destruct (action T (top_state (stack s)) (la (pending s))) as [[u|p| |]|] eqn:Eact; try discriminate.
    + destruct (pending s) as [|k r] eqn:Ep; [discriminate|]. injection Ha as <- <-.
      destruct lk as [k0| |].
      * specialize (Htok k0 eq_refl). injection Htok as <- Hr.
        eexists. split; [reflexivity|]. simpl. rewrite Hst. split; [reflexivity|].
        unfold pending. simpl. split; [now rewrite Hr|].
        unfold nrel. simpl. unfold pending. simpl. repeat split; auto; try discriminate.
        rewrite <- Hr. now inversion Hi.
      * specialize (Hend eq_refl). discriminate.
      * congruence.
    + destruct (ared T false (stack s) p) as [st1|] eqn:Er; [|discriminate].
      injection Ha as <- <-. rewrite <- Hst in Er.
      destruct (ared_do_reduce s1 p st1 Er) as (s' & Hd & H1 & H2 & H3 & H4).
      exists s'. split; [exact Hd|]. split; [exact H1|].
      assert (Hp : pending s' = pending s) by (rewrite <- Hpe; unfold pending; now rewrite H2, H4).
      split; [exact Hp|]. unfold nrel. rewrite H2, H3, H4, Hp, Hl1, Hls1.
      repeat split; auto; try congruence.
      intros [= E]. subst lk. rewrite Hin1. reflexivity.
Qed.

(* n engine steps *)
Fixpoint steps (cb : cbkind) (n : nat) (s : pst) : option pst :=
  match n with
  | O => Some s
  | S m => match step T cb s with inl s' => steps cb m s' | inr _ => None end
  end.

Lemma sim_reach cb c c' :
  reach T false c c' -> forall s, nrel s -> (stack s, pending s) = c ->
  exists n s', steps cb n s = Some s' /\ (stack s', pending s') = c' /\ nrel s'.
Proof.
  induction 1 as [c|c c1 c2 Hs Hr IH]; intros s Hn Hc.
  - exists O, s. simpl. auto.
  - subst c. destruct c1 as [stk1 toks1].
    destruct (sim_step cb s stk1 toks1 Hn Hs) as (s1 & Hst & H1 & H2 & Hn1).
    destruct (IH s1 Hn1) as (n & s' & Hss & Hc' & Hn').
    { now rewrite H1, H2. }
    exists (S n), s'. simpl. rewrite Hst. auto.
Qed.

Lemma reach_weaken c c' : reach T true c c' -> reach T false c c'.
Proof. induction 1; econstructor; eauto using strict_weaken. Qed.

End Sim.
