From Coq Require Import List Bool Arith Lia.
From MSV Require Import Model.PlanBuild.
Import ListNotations.

Lemma wf_subs_app i subs : forall j n refs,
  wf_subs i j (subs ++ [(n, refs)]) =
  wf_subs i j subs && (sid_eqb n (Sub i (j + length subs)) && forallb (ref_ok_sub i (j + length subs)) refs).
Proof.
  induction subs as [|[m rs] r IH]; intros j n refs; cbn [app wf_subs length].
  - rewrite Nat.add_0_r, andb_true_r. reflexivity.
  - rewrite IH. replace (S j + length r) with (j + S (length r)) by lia.
    now rewrite !andb_assoc.
Qed.

Lemma wf_from_app p : forall i t,
  wf_from i (p ++ [t]) =
  wf_from i p && (sid_eqb (t_num t) (Top (i + length p)) && forallb (ref_ok_top (i + length p)) (t_refs t)
                  && wf_subs (i + length p) 0 (t_subs t)).
Proof.
  induction p as [|x r IH]; intros i t; cbn [app wf_from length].
  - rewrite Nat.add_0_r, andb_true_r. reflexivity.
  - rewrite IH. replace (S i + length r) with (i + S (length r)) by lia. now rewrite !andb_assoc.
Qed.

Definition valid_id (p : plan) (s : sid) : Prop :=
  match s with
  | Top k => k < length p
  | Sub q j => exists t, nth_error p q = Some t /\ j < length (t_subs t)
  | Bad => False
  end.

Record Inv (st : bstate) : Prop := {
  i_wf : wf_plan (b_plan st) = true;
  i_ids : Forall (valid_id (b_plan st)) (b_ids st);
  i_open : forall q, b_open st = Some q -> S q = length (b_plan st)
}.

Lemma valid_app p t s : valid_id p s -> valid_id (p ++ [t]) s.
Proof.
  destruct s as [k|q j|]; simpl; auto.
  - rewrite app_length. simpl. lia.
  - intros (x & Hx & Hj). exists x. split; auto. rewrite nth_error_app1; auto.
    apply nth_error_Some. congruence.
Qed.

Lemma resolve_valid ids p refs :
  Forall (valid_id p) ids -> forallb (fun k => Nat.ltb k (length ids)) refs = true ->
  Forall (valid_id p) (resolve ids refs).
Proof.
  intros Hv Hr. unfold resolve. apply Forall_map. rewrite forallb_forall in Hr.
  apply Forall_forall. intros k Hk. specialize (Hr k Hk). apply Nat.ltb_lt in Hr.
  rewrite Forall_forall in Hv. apply Hv. now apply nth_In.
Qed.

Lemma tops_ok p refs :
  Forall (valid_id p) refs ->
  forallb (fun r => match r with Top _ => true | _ => false end) refs = true ->
  forallb (ref_ok_top (length p)) refs = true.
Proof.
  intros Hv Ht. apply forallb_forall. intros r Hr. rewrite forallb_forall in Ht. specialize (Ht r Hr).
  rewrite Forall_forall in Hv. specialize (Hv r Hr). destruct r; try discriminate.
  simpl in *. now apply Nat.ltb_lt.
Qed.

Lemma add_top_inv st refs :
  Inv st -> b_open st = None -> Forall (valid_id (b_plan st)) refs ->
  forallb (fun r => match r with Top _ => true | _ => false end) refs = true ->
  Inv (add_top st refs).
Proof.
  intros [Hw Hi Ho] Hn Hv Ht. unfold add_top. constructor; cbn [b_plan b_ids b_open].
  - unfold wf_plan in *. rewrite wf_from_app, Hw. cbn [t_num t_refs t_subs wf_subs sid_eqb].
    simpl Nat.add. rewrite Nat.eqb_refl, (tops_ok _ _ Hv Ht). reflexivity.
  - apply Forall_app. split.
    + eapply Forall_impl; [|exact Hi]. intros s. apply valid_app.
    + constructor; [|constructor]. simpl. rewrite app_length. simpl. lia.
  - rewrite Hn. discriminate.
Qed.

(* adding a sub-step to the last (open) container *)
Lemma add_sub_at_last pre t refs i :
  t_num t = Top i ->
  add_sub_at (pre ++ [t]) (length pre) refs =
  (pre ++ [mkTop (t_num t) (t_refs t) (t_subs t ++ [(Sub i (length (t_subs t)), refs)])], Sub i (length (t_subs t))).
Proof.
  intros Ht. induction pre as [|x r IH]; cbn [app length add_sub_at].
  - now rewrite Ht.
  - now rewrite IH.
Qed.

Lemma last_split (p : plan) q : S q = length p -> exists pre t, p = pre ++ [t] /\ length pre = q.
Proof.
  intros H. destruct (exists_last (l := p)) as (pre & t & ->).
  - intros ->. discriminate.
  - exists pre, t. split; auto. rewrite app_length in H. simpl in H. lia.
Qed.

Lemma wf_last_num pre t : wf_plan (pre ++ [t]) = true -> t_num t = Top (length pre).
Proof.
  unfold wf_plan. rewrite wf_from_app. intros H. apply andb_true_iff in H as [_ H].
  apply andb_true_iff in H as [H _]. apply andb_true_iff in H as [H _].
  destruct (t_num t); simpl in H; try discriminate. apply Nat.eqb_eq in H; now subst.
Qed.

Lemma add_sub_inv st q refs :
  Inv st -> b_open st = Some q -> Forall (valid_id (b_plan st)) refs ->
  forallb (fun r => match r with Top k => Nat.ltb k q | Sub k _ => Nat.eqb k q | Bad => false end) refs = true ->
  Inv (add_sub st q refs).
Proof.
  intros [Hw Hi Ho] Hq Hv Hr. pose proof (Ho q Hq) as Hlen.
  destruct (last_split _ _ Hlen) as (pre & t & Hp & Hpre).
  unfold add_sub. rewrite Hp in *. pose proof (wf_last_num _ _ Hw) as Hnum. rewrite Hpre in Hnum.
  rewrite <- Hpre. rewrite (add_sub_at_last pre t refs q) by exact Hnum.
  rewrite ?Hpre.
  assert (Hrefs : forallb (ref_ok_sub q (length (t_subs t))) refs = true).
  { apply forallb_forall. intros r Hin. rewrite forallb_forall in Hr. specialize (Hr r Hin).
    rewrite Forall_forall in Hv. specialize (Hv r Hin). destruct r as [k|k l|]; simpl in *; auto.
    apply Nat.eqb_eq in Hr. subst k. rewrite Nat.eqb_refl. simpl.
    destruct Hv as (x & Hx & Hl). rewrite nth_error_app2 in Hx by lia.
    rewrite Hpre, Nat.sub_diag in Hx. simpl in Hx. injection Hx as <-. now apply Nat.ltb_lt. }
  constructor; cbn [b_plan b_ids b_open].
  - unfold wf_plan in *. rewrite wf_from_app in *. apply andb_true_iff in Hw as [Hw1 Hw2].
    rewrite Hw1. cbn [t_num t_refs t_subs]. simpl Nat.add in *. rewrite Hpre in *.
    apply andb_true_iff in Hw2 as [Hw2 Hw3]. rewrite Hw2. rewrite wf_subs_app, Hw3. simpl Nat.add.
    simpl sid_eqb. rewrite !Nat.eqb_refl, Hrefs. reflexivity.
  - apply Forall_app. split.
    + eapply Forall_impl; [|exact Hi]. intros s Hs. destruct s as [k|k l|]; simpl in *; auto.
      * rewrite app_length in *. simpl in *. lia.
      * destruct Hs as (x & Hx & Hl).
        destruct (Nat.eq_dec k (length pre)) as [->|Hne].
        -- rewrite nth_error_app2 in Hx by lia. rewrite Nat.sub_diag in Hx. simpl in Hx. injection Hx as <-.
           eexists. split; [rewrite nth_error_app2 by lia; rewrite Nat.sub_diag; reflexivity|].
           cbn [t_subs]. rewrite app_length. simpl. lia.
        -- assert (k < length pre).
           { assert (k < length (pre ++ [t])) by (apply nth_error_Some; congruence).
             rewrite app_length in *. simpl in *. lia. }
           exists x. split; auto. rewrite nth_error_app1 in * by lia. exact Hx.
    + constructor; [|constructor]. simpl. eexists. split.
      * rewrite nth_error_app2 by lia. rewrite Hpre, Nat.sub_diag. reflexivity.
      * cbn [t_subs]. rewrite app_length. simpl. lia.
  - intros q' Hq'. rewrite Hq in Hq'. injection Hq' as <-. rewrite !app_length in *. simpl in *. lia.
Qed.

Lemma step_inv st c : Inv st -> call_ok st c = true -> Inv (bstep st c).
Proof.
  intros HI Hok. destruct c as [s|s psize|]; cbn [bstep call_ok] in *.
  - apply andb_true_iff in Hok as [Hok Ht]. apply andb_true_iff in Hok as [Ho Hr].
    destruct (b_open st) eqn:E; [discriminate|].
    apply add_top_inv; auto. apply resolve_valid; auto. apply HI.
  - apply andb_true_iff in Hok as [Hr Hok].
    pose proof (resolve_valid _ _ _ (i_ids _ HI) Hr) as Hv.
    destruct (b_open st) as [q|] eqn:E.
    + apply andb_true_iff in Hok as [Hk Ht]. rewrite Hk. now apply add_sub_inv.
    + destruct psize.
      * (* open a partition *)
        set (m := length (b_plan st)).
        set (refs := resolve (b_ids st) (n_refs s)) in *.
        assert (HI1 : Inv (mkB (b_plan st ++ [mkTop (Top m) refs []]) (Some m) (b_ids st ++ [Top m]))).
        { destruct HI as [Hw Hi Ho]. constructor; cbn [b_plan b_ids b_open].
          - unfold wf_plan in *. rewrite wf_from_app, Hw. cbn [t_num t_refs t_subs wf_subs sid_eqb]. simpl Nat.add.
            unfold m. rewrite Nat.eqb_refl, (tops_ok _ _ Hv Hok). reflexivity.
          - apply Forall_app. split; [eapply Forall_impl; [|exact Hi]; intros x; apply valid_app|].
            constructor; [|constructor]. simpl. rewrite app_length. simpl. unfold m. lia.
          - intros q [= <-]. rewrite app_length. simpl. unfold m. lia. }
        apply add_sub_inv; auto; cbn [b_plan b_open].
        -- eapply Forall_impl; [|exact Hv]. intros x. apply valid_app.
        -- apply forallb_forall. intros r Hin. rewrite forallb_forall in Hok. specialize (Hok r Hin).
           rewrite Forall_forall in Hv. specialize (Hv r Hin). destruct r; try discriminate.
           simpl in Hv. now apply Nat.ltb_lt.
      * apply add_top_inv; auto.
  - destruct HI as [Hw Hi Ho]. constructor; cbn [b_plan b_ids b_open]; auto. discriminate.
Qed.

Lemma run_inv cs : forall st, Inv st -> run_ok st cs = true -> Inv (fold_left bstep cs st).
Proof.
  induction cs as [|c r IH]; intros st HI Hok; [exact HI|].
  cbn [run_ok fold_left] in *. apply andb_true_iff in Hok as [H1 H2]. apply IH; auto. now apply step_inv.
Qed.

Theorem build_wf cs : run_ok binit cs = true -> wf_plan (b_plan (brun cs)) = true.
Proof.
  intros H. apply (run_inv cs binit); auto. constructor; simpl; auto. discriminate.
Qed.

(* the planner's own call sequence for  t JOIN model JOIN t2 USING partition_size=N  breaks it *)
Definition partition_calls : list call :=
  [ CAddPlan (mkNew KOther []) false;              (* fetch t                 -> step 0            *)
    CAddPlan (mkNew KPredictor [0]) true;          (* apply model, partitioned -> map-reduce 1, 1_0 *)
    CAddPlan (mkNew KOther []) false;              (* fetch t2                -> step 2 (partition still open) *)
    CAddPlan (mkNew KJoin [2; 3]) false;           (* join                    -> 1_1, reads step 2 *)
    CClose ].
Theorem partition_refuted : wf_plan (b_plan (brun partition_calls)) = false.
Proof. vm_compute. reflexivity. Qed.

Example discipline_inhabited :
  run_ok binit [CAddPlan (mkNew KOther []) false; CAddPlan (mkNew KPredictor [0]) true;
                CAddPlan (mkNew KJoin [0; 2]) false; CClose; CAdd (mkNew KOther [1])] = true.
Proof. vm_compute. reflexivity. Qed.
