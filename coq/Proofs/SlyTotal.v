(* Facts about the engine model used by C02: its result does not depend on the fuel once it is
   enough, and under the table certificate a reduction never needs more stack than there is. *)
From Coq Require Import PArith List Bool FMapPositive Arith Lia.
From MSV Require Import Model.Sly Proofs.SlySound.
Import ListNotations.

Lemma run_loop_mono T cb f : forall s o k,
  run_loop T cb f s = o -> o <> OFuel -> run_loop T cb (f + k) s = o.
Proof.
  induction f as [|f IH]; intros s o k H Hne; simpl in *; [congruence|].
  destruct (step T cb s) as [s'|o']; auto.
Qed.

Theorem run_fuel_mono T cb f k toks o :
  run T cb f toks = o -> o <> OFuel -> run T cb (f + k) toks = o.
Proof.
  unfold run. destruct (existsb bad_type toks); auto. apply run_loop_mono.
Qed.

(* in the normal phase, with certified tables, a reduce action always finds its right-hand side
   on the stack: no IndexError / slicing past the bottom *)
Theorem reduce_never_underflows T toks s p lhs rhs :
  K_tables T = true -> NInv T toks s ->
  chk_reduce T (top_state (stack s)) p = true -> prod T p = Some (lhs, rhs) ->
  (length rhs <= length (stack s))%nat.
Proof.
  intros HK HN Hc Hp. destruct HN as [HS _ _ _ _ _ _].
  now destruct (reduce_children T HK (stack s) p lhs rhs HS Hc Hp) as [H _].
Qed.
