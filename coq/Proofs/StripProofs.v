(* The rewriting of Model/Strip.v keeps the meaning of a query (C11): for every query, every
   database and every fuel, evaluating the rewritten query inside the integration gives the frame
   the original gives outside, under the syntactic conditions `ok`. *)
From Coq Require Import ZArith PArith List Bool Lia.
From MSV Require Import Lib.Rel Model.SqlEval Model.Strip.
Import ListNotations.

(* ---------- the SELECT case of eval_q as a function of the expression evaluator ---------- *)
Section Sel.
Variable ev : schema -> row -> option rel -> expr -> val.
Definition sel_rows (sch : schema) (rows : rel) (wh : option expr) : rel :=
  match wh with Some w => filter_v (fun r => ev sch r None w) rows | None => rows end.
Definition sel_units (sch : schema) (rows : rel) (ag : bool) (group : list expr) : list (row * option rel) :=
  if ag || match group with [] => false | _ => true end then
    match group with
    | [] => [(hd (nulls (length sch)) rows, Some rows)]
    | _ => map (fun g => (hd [] (snd g), Some (snd g)))
               (fold_left (fun gs r => group_ins (map (ev sch r None) group) r gs) rows [])
    end
  else map (fun r => (r, None)) rows.
Definition sel_hv (sch : schema) (units : list (row * option rel)) (having : option expr) : list val :=
  match having with Some h => map (fun u => ev sch (fst u) (snd u) h) units | None => [] end.
Definition sel_keep (sch : schema) (units : list (row * option rel)) (having : option expr) :=
  match having with Some h => filter (fun u => is_true (ev sch (fst u) (snd u) h)) units | None => units end.
Definition sel_proj (sch : schema) (targets : list target) (u : row * option rel) : row :=
  flat_map (fun t => match t with
                     | TStar None => fst u
                     | TStar (Some q) => pick_cols sch (fst u) q
                     | TExpr e _ => [ev sch (fst u) (snd u) e]
                     end) targets.
Definition sel_outs (sch osch : schema) (targets : list target) (order : list (expr * (bool * bool)))
           (units : list (row * option rel)) : list (row * list val) :=
  map (fun u => let o := sel_proj sch targets u in
                (o, map (fun k => ev (osch ++ sch) (o ++ fst u) (snd u) (fst k)) order)) units.
Definition sel_body (src : frame) (dist ag : bool) (targets : list target) (wh : option expr) (group : list expr)
           (having : option expr) (order : list (expr * (bool * bool))) (limit offset : option nat) : frame :=
  if frame_err src then err_frame else
  let sch := fst src in
  let rows := sel_rows sch (snd src) wh in
  if frame_err (sch, rows) then err_frame else
  let units := sel_units sch rows ag group in
  let hv := sel_hv sch units having in
  if existsb is_err hv then err_frame else
  let units := sel_keep sch units having in
  let osch := out_schema sch targets in
  let outs := sel_outs sch osch targets order units in
  if existsb (fun o => existsb is_err (snd o)) outs then err_frame else
  let outs := if dist then dedup_fst [] outs else outs in
  let srt := match order with
             | [] => outs
             | _ => isort (fun a b => kle (map snd order) (snd a) (snd b)) outs end in
  (osch, take_drop limit offset (map fst srt)).
End Sel.

Lemma eval_q_sel f' cx dist ag targets frm wh group having order limit offset :
  eval_q (S f') cx (QSel dist ag targets frm wh group having order limit offset) =
  sel_body (eval_e f' cx) (match frm with Some fr => eval_f f' cx fr | None => ([], [[]]) end)
           dist ag targets wh group having order limit offset.
Proof. reflexivity. Qed.

(* ---------- extensionality helpers (no axiom) ---------- *)
Lemma existsb_ext' {A} (f g : A -> bool) l : (forall x, f x = g x) -> existsb f l = existsb g l.
Proof. intros H. induction l as [|x l IH]; cbn; [reflexivity|]. rewrite H, IH. reflexivity. Qed.
Lemma fold_left_ext' {A B} (f g : A -> B -> A) l : (forall a b, f a b = g a b) -> forall a, fold_left f l a = fold_left g l a.
Proof. intros H. induction l as [|x l IH]; intros a; cbn; [reflexivity|]. rewrite H. apply IH. Qed.
Lemma filter_v_ext p q rows : (forall r, p r = q r) -> filter_v p rows = filter_v q rows.
Proof.
  intros H. unfold filter_v. rewrite (existsb_ext' _ (fun r => is_err (q r))) by (intros; rewrite H; reflexivity).
  rewrite (filter_ext _ (fun r => is_true (q r))) by (intros; rewrite H; reflexivity). reflexivity.
Qed.

Definition om {A B} (f : A -> B) (o : option A) : option B := match o with Some x => Some (f x) | None => None end.
Definition oP {A} (P : A -> Prop) (o : option A) : Prop := match o with Some x => P x | None => True end.

Section SelTr.
Variables (ds : option name) (ka : bool).
Variables (ev1 ev2 : schema -> row -> option rel -> expr -> val) (P : expr -> Prop).
Hypothesis H : forall sch r g e, P e -> ev1 sch r g (tr_e ds ka e) = ev2 sch r g e.
Notation s := (tr_e ds ka).
Notation st := (tr_t ds ka).
Definition so (o : expr * (bool * bool)) : expr * (bool * bool) := let '(k, sp) := o in (s k, sp).
Definition tP (t : target) : Prop := match t with TStar _ => True | TExpr e _ => P e end.

Lemma map_s_ev sch r g l : Forall P l -> map (ev1 sch r g) (map s l) = map (ev2 sch r g) l.
Proof.
  intros Hl. rewrite map_map. apply map_ext_in. intros a Ha. apply H. rewrite Forall_forall in Hl. auto.
Qed.

Lemma sel_rows_tr sch rows wh : oP P wh -> sel_rows ev1 sch rows (om s wh) = sel_rows ev2 sch rows wh.
Proof. destruct wh as [w|]; cbn; intros Hw; [|reflexivity]. apply filter_v_ext. intros r. apply H, Hw. Qed.

Lemma sel_units_tr sch rows ag group : Forall P group ->
  sel_units ev1 sch rows ag (map s group) = sel_units ev2 sch rows ag group.
Proof.
  intros Hg. unfold sel_units. destruct group as [|g0 gr]; [reflexivity|].
  cbn [map]. destruct (ag || true); [|reflexivity]. f_equal.
  apply fold_left_ext'. intros gs r. f_equal. exact (map_s_ev sch r None (g0 :: gr) Hg).
Qed.

Lemma sel_hv_tr sch units having : oP P having -> sel_hv ev1 sch units (om s having) = sel_hv ev2 sch units having.
Proof. destruct having as [h|]; cbn; intros Hh; [|reflexivity]. apply map_ext. intros u. apply H, Hh. Qed.

Lemma sel_keep_tr sch units having : oP P having -> sel_keep ev1 sch units (om s having) = sel_keep ev2 sch units having.
Proof. destruct having as [h|]; cbn; intros Hh; [|reflexivity]. apply filter_ext. intros u. rewrite H by exact Hh. reflexivity. Qed.

Lemma sel_proj_tr sch ts u : Forall tP ts -> sel_proj ev1 sch (map st ts) u = sel_proj ev2 sch ts u.
Proof.
  unfold sel_proj. induction ts as [|t ts IH]; intros Ht; [reflexivity|].
  inversion Ht as [|? ? Ht1 Ht2]; subst. cbn [map flat_map]. rewrite IH by exact Ht2. f_equal.
  destruct t as [x|e al]; [reflexivity|]. cbn [tr_t]. cbn in Ht1. rewrite H by exact Ht1. reflexivity.
Qed.

Lemma out_schema_tr sch ts : out_schema sch (map st ts) = out_schema sch ts.
Proof.
  unfold out_schema. induction ts as [|t ts IH]; [reflexivity|]. cbn [map flat_map]. rewrite IH. f_equal.
  destruct t as [x|e al]; [reflexivity|]. cbn [tr_t].
  destruct e; cbn [tr_e keep_alias]; try reflexivity.
  destruct al as [a|]; [reflexivity|]. destruct ka; reflexivity.
Qed.

Lemma map_so_order sch r g order : Forall (fun o => P (fst o)) order ->
  map (fun k : expr * (bool * bool) => ev1 sch r g (fst k)) (map so order) = map (fun k => ev2 sch r g (fst k)) order.
Proof.
  intros Ho. rewrite map_map. apply map_ext_in. intros [k sp] Hin. cbn. apply H.
  rewrite Forall_forall in Ho. apply (Ho _ Hin).
Qed.

Lemma sel_outs_tr sch osch ts order units : Forall tP ts -> Forall (fun o => P (fst o)) order ->
  sel_outs ev1 sch osch (map st ts) (map so order) units = sel_outs ev2 sch osch ts order units.
Proof.
  intros Ht Ho. unfold sel_outs. apply map_ext. intros u. cbv zeta. rewrite sel_proj_tr by exact Ht.
  f_equal. apply map_so_order, Ho.
Qed.

Lemma map_snd_so order : map snd (map so order) = map snd order.
Proof. rewrite map_map. apply map_ext. intros [k sp]. reflexivity. Qed.

Lemma sel_body_tr src dist ag ts wh group having order limit offset :
  Forall tP ts -> oP P wh -> Forall P group -> oP P having -> Forall (fun o => P (fst o)) order ->
  sel_body ev1 src dist ag (map st ts) (om s wh) (map s group) (om s having) (map so order) limit offset =
  sel_body ev2 src dist ag ts wh group having order limit offset.
Proof.
  intros Ht Hw Hg Hh Ho. unfold sel_body. cbv zeta.
  rewrite !sel_rows_tr by exact Hw. rewrite !sel_units_tr by exact Hg.
  rewrite !sel_hv_tr by exact Hh. rewrite !sel_keep_tr by exact Hh.
  rewrite !out_schema_tr. rewrite !sel_outs_tr by assumption. rewrite map_snd_so.
  destruct order as [|o order']; reflexivity.
Qed.
End SelTr.

(* ---------- joins depend on the condition pointwise ---------- *)
Lemma join_ext k th1 th2 nr ns R S : (forall x y, th1 x y = th2 x y) -> join k th1 nr ns R S = join k th2 nr ns R S.
Proof.
  intros H.
  assert (Hf : forall r, filter (th1 r) S = filter (th2 r) S) by (intros r; apply filter_ext; intros; apply H).
  assert (Hi : join_inner th1 R S = join_inner th2 R S).
  { unfold join_inner. apply flat_map_ext. intros r. rewrite Hf. reflexivity. }
  assert (Hl : join_left th1 ns R S = join_left th2 ns R S).
  { unfold join_left. apply flat_map_ext. intros r. rewrite Hf. reflexivity. }
  assert (Hu : unmatched_right th1 nr R S = unmatched_right th2 nr R S).
  { unfold unmatched_right. f_equal. apply filter_ext. intros s0. f_equal. apply existsb_ext'. intros r. apply H. }
  destruct k; cbn [join]; rewrite ?Hi, ?Hl, ?Hu; reflexivity.
Qed.

(* ---------- the context inside the integration ---------- *)
Lemma inside_res ds cx : c_res (inside_o ds cx) = c_res cx. Proof. destruct ds; reflexivity. Qed.
Lemma inside_vars ds cx : c_vars (inside_o ds cx) = c_vars cx. Proof. destruct ds; reflexivity. Qed.
Lemma inside_ctes ds cx : c_ctes (inside_o ds cx) = c_ctes cx. Proof. destruct ds; reflexivity. Qed.
Lemma inside_db ds cx : c_db (inside_o ds cx) = c_db cx. Proof. destruct ds; reflexivity. Qed.

Lemma lookup_cte_none n l : memn n (map fst l) = false -> lookup_cte n l = None.
Proof.
  induction l as [|[m f] l IH]; cbn; [reflexivity|]. intros Hm. apply orb_false_iff in Hm. destruct Hm as [Hn Hr].
  rewrite Hn. apply IH, Hr.
Qed.
Lemma lookup_cte_some n l : memn n (map fst l) = true -> exists f, lookup_cte n l = Some f.
Proof.
  induction l as [|[m f] l IH]; cbn; [discriminate|]. intros Hm. destruct (Pos.eqb n m); [eexists; reflexivity|].
  apply IH. exact Hm.
Qed.

Lemma forallb_Forall {A} (p : A -> bool) l : forallb p l = true -> Forall (fun x => p x = true) l.
Proof. intros Hf. apply Forall_forall. intros x Hx. rewrite forallb_forall in Hf. auto. Qed.

(* the syntactic forms of tr_q / ok_q used below *)
Lemma tr_q_sel ds ka dist ag ts frm wh group having order limit offset :
  tr_q ds ka (QSel dist ag ts frm wh group having order limit offset) =
  QSel dist ag (map (tr_t ds ka) ts) (om (tr_f ds ka) frm) (om (tr_e ds ka) wh) (map (tr_e ds ka) group)
       (om (tr_e ds ka) having) (map (so ds ka) order) limit offset.
Proof. reflexivity. Qed.

Lemma ok_q_with_nil ds sc q' : ok_q ds sc (QWith [] q') = ok_q ds sc q'.
Proof. reflexivity. Qed.
Lemma ok_q_with_cons ds sc n cq r q' : ok_q ds sc (QWith ((n, cq) :: r) q') = ok_q ds sc cq && ok_q ds (n :: sc) (QWith r q').
Proof. reflexivity. Qed.

Definition with_step (f' : nat) (c : ctx) (nq : name * query) : ctx :=
  mkCtx (c_db c) (c_prefix c) (c_res c) ((fst nq, eval_q f' c (snd nq)) :: c_ctes c) (c_vars c).
Lemma eval_q_with f' cx ctes q' :
  eval_q (S f') cx (QWith ctes q') = eval_q f' (fold_left (with_step f') ctes cx) q'.
Proof. reflexivity. Qed.
Definition trc (ds : option name) (ka : bool) (nq : name * query) : name * query := let '(n, cq) := nq in (n, tr_q ds ka cq).
Lemma tr_q_with ds ka ctes q' : tr_q ds ka (QWith ctes q') = QWith (map (trc ds ka) ctes) (tr_q ds ka q').
Proof. reflexivity. Qed.

(* ---------- main theorem ---------- *)
Section Main.
Variables (ds : option name) (ka : bool).
Notation okE cx e := (ok_e ds (map fst (c_ctes cx)) e = true).

Definition Pe (f : nat) : Prop := forall cx sch rw grp e, pref_ok ds cx -> okE cx e ->
  eval_e f (inside_o ds cx) sch rw grp (tr_e ds ka e) = eval_e f cx sch rw grp e.
Definition Pq (f : nat) : Prop := forall cx q, pref_ok ds cx -> ok_q ds (map fst (c_ctes cx)) q = true ->
  eval_q f (inside_o ds cx) (tr_q ds ka q) = eval_q f cx q.
Definition Pf (f : nat) : Prop := forall cx fr, pref_ok ds cx -> ok_f ds (map fst (c_ctes cx)) fr = true ->
  eval_f f (inside_o ds cx) (tr_f ds ka fr) = eval_f f cx fr.

Lemma map_tr_ev f' cx sch rw grp l : Pe f' -> pref_ok ds cx -> forallb (ok_e ds (map fst (c_ctes cx))) l = true ->
  map (eval_e f' (inside_o ds cx) sch rw grp) (map (tr_e ds ka) l) = map (eval_e f' cx sch rw grp) l.
Proof.
  intros IHe Hp Hl. rewrite map_map. apply map_ext_in. intros a Ha. apply IHe; [exact Hp|].
  rewrite forallb_forall in Hl. auto.
Qed.

Lemma step_e f' : Pe f' -> Pq f' -> Pe (S f').
Proof.
  intros IHe IHq cx sch rw grp e Hp Hok.
  destruct e; cbn [tr_e ok_e] in *.
  - reflexivity.
  - reflexivity.
  - cbn [eval_e]. rewrite IHe by assumption. reflexivity.
  - apply andb_true_iff in Hok. destruct Hok as [H1 H2]. cbn [eval_e]. rewrite !IHe by assumption. reflexivity.
  - apply andb_true_iff in Hok. destruct Hok as [H12 H3]. apply andb_true_iff in H12. destruct H12 as [H1 H2].
    cbn [eval_e]. rewrite !IHe by assumption. reflexivity.
  - apply andb_true_iff in Hok. destruct Hok as [H1 H2]. cbn [eval_e]. rewrite IHe by assumption.
    rewrite map_tr_ev by assumption. reflexivity.
  - (* ECase *)
    apply andb_true_iff in Hok. destruct Hok as [Hw He]. cbn [eval_e].
    induction whens as [|[c v] ws IHw].
    + cbn [map]. destruct els as [x|]; [apply IHe; assumption|reflexivity].
    + cbn [forallb] in Hw. apply andb_true_iff in Hw. destruct Hw as [Hcv Hws].
      apply andb_true_iff in Hcv. destruct Hcv as [Hc Hv].
      cbn [map]. rewrite !IHe by assumption. rewrite IHw by exact Hws. reflexivity.
  - cbn [eval_e]. rewrite map_tr_ev by assumption. reflexivity.
  - cbn [eval_e]. destruct grp as [rows|]; [|reflexivity]. destruct a as [x|]; [|reflexivity].
    f_equal. apply map_ext. intros r. apply IHe; assumption.
  - apply andb_true_iff in Hok. destruct Hok as [H1 H2]. cbn [eval_e]. rewrite IHq, IHe by assumption. reflexivity.
  - cbn [eval_e]. rewrite IHq by assumption. reflexivity.
  - cbn [eval_e]. rewrite IHq by assumption. reflexivity.
  - cbn [eval_e]. rewrite inside_res, IHe by assumption. reflexivity.
  - cbn [eval_e]. rewrite inside_res. reflexivity.
  - cbn [eval_e]. rewrite inside_vars. reflexivity.
Qed.

Lemma step_f f' : Pe f' -> Pq f' -> Pf f' -> Pf (S f').
Proof.
  intros IHe IHq IHf cx fr Hp Hok.
  destruct fr as [parts al|k l r on|q al|k al]; cbn [tr_f ok_f] in *.
  - (* FTab: the only place where the rewriting acts *)
    unfold ok_parts in Hok. destruct ds as [d|]; [|reflexivity].
    cbn in Hp. cbn [eval_f strip_parts inside_o c_ctes c_prefix c_db]. rewrite Hp.
    destruct parts as [|x [|y rest]]; [discriminate| |].
    + (* a CTE in scope: looked up by its one-part name on both sides *)
      destruct (lookup_cte_some _ _ Hok) as [fr Hfr]. rewrite Hfr. reflexivity.
    + apply andb_true_iff in Hok. destruct Hok as [Hx Hc]. rewrite Hx.
      apply Pos.eqb_eq in Hx. subst x.
      destruct rest as [|z rest'].
      * apply negb_true_iff in Hc. rewrite (lookup_cte_none _ _ Hc). reflexivity.
      * reflexivity.
  - apply andb_true_iff in Hok. destruct Hok as [Hlr Hon]. apply andb_true_iff in Hlr. destruct Hlr as [Hl Hr].
    cbn [eval_f]. rewrite !IHf by assumption.
    destruct (frame_err (eval_f f' cx l) || frame_err (eval_f f' cx r)); [reflexivity|].
    destruct on as [c|].
    + assert (Hth : forall x y, eval_e f' (inside_o ds cx) (fst (eval_f f' cx l) ++ fst (eval_f f' cx r)) (x ++ y) None (tr_e ds ka c)
                              = eval_e f' cx (fst (eval_f f' cx l) ++ fst (eval_f f' cx r)) (x ++ y) None c)
        by (intros; apply IHe; assumption).
      rewrite (existsb_ext' _ (fun x => existsb (fun y => is_err (eval_e f' cx (fst (eval_f f' cx l) ++ fst (eval_f f' cx r)) (x ++ y) None c))
                                              (snd (eval_f f' cx r))))
        by (intros x; apply existsb_ext'; intros y; rewrite Hth; reflexivity).
      rewrite (join_ext k _ (fun x y => is_true (eval_e f' cx (fst (eval_f f' cx l) ++ fst (eval_f f' cx r)) (x ++ y) None c)))
        by (intros x y; rewrite Hth; reflexivity).
      reflexivity.
    + reflexivity.
  - cbn [eval_f]. rewrite IHq by assumption. reflexivity.
  - cbn [eval_f]. rewrite inside_res. reflexivity.
Qed.

Lemma with_fold f' q' : Pq f' -> forall ctes cx, pref_ok ds cx ->
  ok_q ds (map fst (c_ctes cx)) (QWith ctes q') = true ->
  let cxf := fold_left (with_step f') ctes cx in
  fold_left (with_step f') (map (trc ds ka) ctes) (inside_o ds cx) = inside_o ds cxf /\
  pref_ok ds cxf /\ ok_q ds (map fst (c_ctes cxf)) q' = true.
Proof.
  intros IHq. induction ctes as [|[n cq] r IH]; intros cx Hp Hok.
  - rewrite ok_q_with_nil in Hok. cbn. auto.
  - rewrite ok_q_with_cons in Hok. apply andb_true_iff in Hok. destruct Hok as [Hcq Hr].
    cbn [map fold_left trc].
    assert (E : with_step f' (inside_o ds cx) (n, tr_q ds ka cq) = inside_o ds (with_step f' cx (n, cq))).
    { unfold with_step. cbn [fst snd]. rewrite IHq by assumption. destruct ds; reflexivity. }
    rewrite E. apply IH.
    + destruct ds; [exact Hp|exact I].
    + exact Hr.
Qed.

Lemma step_q f' : Pe f' -> Pq f' -> Pf f' -> Pq (S f').
Proof.
  intros IHe IHq IHf cx q Hp Hok.
  destruct q as [dist ag ts frm wh group having order limit offset|all a b|op all a b|ctes q'].
  - rewrite tr_q_sel, !eval_q_sel.
    cbn [ok_q] in Hok.
    repeat (apply andb_true_iff in Hok; let H := fresh "Hc" in destruct Hok as [Hok H]).
    assert (Esrc : match om (tr_f ds ka) frm with Some fr => eval_f f' (inside_o ds cx) fr | None => ([], [[]]) end =
                   match frm with Some fr => eval_f f' cx fr | None => ([], [[]]) end).
    { destruct frm as [fr|]; cbn [om]; [apply IHf; assumption|reflexivity]. }
    rewrite Esrc.
    apply (sel_body_tr ds ka _ _ (fun e => ok_e ds (map fst (c_ctes cx)) e = true)).
    + intros sch r g e He. apply IHe; assumption.
    + apply Forall_forall. intros t Ht. rewrite forallb_forall in Hok. specialize (Hok t Ht).
      destruct t; [exact I|exact Hok].
    + destruct wh; [assumption|exact I].
    + apply forallb_Forall. assumption.
    + destruct having; [assumption|exact I].
    + apply Forall_forall. intros [k sp] Ho.
      match goal with Hx : forallb (fun o => let '(k, _) := o in _) order = true |- _ =>
        rewrite forallb_forall in Hx; exact (Hx _ Ho) end.
  - cbn [ok_q tr_q] in *. apply andb_true_iff in Hok. destruct Hok as [Ha Hb].
    cbn [eval_q]. rewrite !IHq by assumption. reflexivity.
  - cbn [ok_q tr_q] in *. apply andb_true_iff in Hok. destruct Hok as [Ha Hb].
    cbn [eval_q]. rewrite !IHq by assumption. reflexivity.
  - rewrite tr_q_with, !eval_q_with.
    destruct (with_fold f' q' IHq ctes cx Hp Hok) as [E [Hp' Hok']].
    rewrite E. apply IHq; assumption.
Qed.

Theorem tr_sound_all : forall f, Pe f /\ Pq f /\ Pf f.
Proof.
  induction f as [|f' [IHe [IHq IHf]]].
  - repeat split; intros cx; intros; reflexivity.
  - repeat split; [apply step_e|apply step_q|apply step_f]; assumption.
Qed.
End Main.

(* The rewriting keeps the meaning. *)
Theorem tr_q_sound ds ka fuel cx q :
  pref_ok ds cx -> ok_q ds (map fst (c_ctes cx)) q = true ->
  eval_q fuel (inside_o ds cx) (tr_q ds ka q) = eval_q fuel cx q.
Proof. intros. apply (proj1 (proj2 (tr_sound_all ds ka fuel))); assumption. Qed.

(* with nothing to strip there is no condition *)
Fixpoint ok_none_e sc e {struct e} : ok_e None sc e = true
with ok_none_q sc q {struct q} : ok_q None sc q = true
with ok_none_f sc f {struct f} : ok_f None sc f = true.
Proof.
  - destruct e; cbn [ok_e]; rewrite ?ok_none_e, ?ok_none_q; try reflexivity.
    + cbn. induction l as [|a l IHl]; cbn; [reflexivity|]. rewrite ok_none_e. exact IHl.
    + apply andb_true_iff. split.
      * induction whens as [|[c v] ws IHw]; cbn; [reflexivity|]. rewrite !ok_none_e. exact IHw.
      * destruct els; [apply ok_none_e|reflexivity].
    + induction args as [|a l IHl]; cbn; [reflexivity|]. rewrite ok_none_e. exact IHl.
    + destruct a; [apply ok_none_e|reflexivity].
  - destruct q as [dist ag ts frm wh group having order limit offset|all a b|op all a b|ctes q']; cbn [ok_q].
    + repeat (apply andb_true_iff; split).
      * induction ts as [|t ts IHt]; cbn; [reflexivity|]. destruct t; [exact IHt|]. rewrite ok_none_e. exact IHt.
      * destruct frm; [apply ok_none_f|reflexivity].
      * destruct wh; [apply ok_none_e|reflexivity].
      * induction group as [|a l IHl]; cbn; [reflexivity|]. rewrite ok_none_e. exact IHl.
      * destruct having; [apply ok_none_e|reflexivity].
      * induction order as [|[k sp] l IHl]; cbn; [reflexivity|]. rewrite ok_none_e. exact IHl.
    + rewrite !ok_none_q. reflexivity.
    + rewrite !ok_none_q. reflexivity.
    + revert sc. induction ctes as [|[n cq] r IHr]; intros sc; [apply ok_none_q|]. rewrite ok_none_q. apply IHr.
  - destruct f; cbn [ok_f]; rewrite ?ok_none_f, ?ok_none_q; try reflexivity.
    destruct on; [cbn; apply ok_none_e|reflexivity].
Qed.

(* What is sent to integration d for a query q all of whose tables are qualified with d, evaluated
   inside d, is what q means outside, for every database; and a query q2 that coincides with the
   rewritten q up to name-keeping aliases means the same too. *)
Theorem pushdown_sound d q q2 :
  ok_q (Some d) [] q = true -> alias_norm q2 = pushed d q ->
  forall fuel db, eval_q fuel (mkCtx db [d] [] [] []) q2 = eval_q fuel (mkCtx db [] [] [] []) q.
Proof.
  intros Hok Heq fuel db.
  rewrite <- (tr_q_sound None true fuel (mkCtx db [d] [] [] []) q2 I (ok_none_q _ _)).
  cbn [inside_o]. fold (alias_norm q2). rewrite Heq. unfold pushed.
  rewrite (tr_q_sound None true fuel (mkCtx db [d] [] [] []) _ I (ok_none_q _ _)). cbn [inside_o].
  exact (tr_q_sound (Some d) false fuel (mkCtx db [] [] [] []) q eq_refl Hok).
Qed.
