(* The engine, run on the real tables, groups every expression of the fragment as the
   decision table [g_dec] says -- for all expressions, by induction; the only table facts
   used come from [K_prec T G = true]. *)
From Coq Require Import PArith List Bool FMapPositive Arith Lia.
From MSV Require Import Model.Sly Model.OpPrec Proofs.SlySound.
Import ListNotations.
Local Open Scope positive_scope.

Section S.
Variable T : tables.
Variable G : pgram.

(* ---------- runs of the machine ---------- *)
Inductive reach (b : bool) : conf -> conf -> Prop :=
| r_refl c : reach b c c
| r_step c c' c'' : astep T b c = Some c' -> reach b c' c'' -> reach b c c''.

Lemma reach_trans b c1 c2 c3 : reach b c1 c2 -> reach b c2 c3 -> reach b c1 c3.
Proof. induction 1; auto. intros. econstructor; eauto. Qed.

Lemma reach_one b c c' : astep T b c = Some c' -> reach b c c'.
Proof. intros. econstructor; eauto. constructor. Qed.

Lemma top_state_app (stk base : list (positive * tree)) :
  stk <> [] -> top_state (stk ++ base) = top_state stk.
Proof. destruct stk; [congruence|reflexivity]. Qed.

Lemma ared_frame stk p stk' base :
  ared T true stk p = Some stk' -> ared T true (stk ++ base) p = Some (stk' ++ base).
Proof.
  unfold ared. destruct (prod T p) as [[lhs rhs]|]; [|discriminate].
  destruct (Nat.ltb (length rhs) (length stk)) eqn:L; [|discriminate].
  apply Nat.ltb_lt in L.
  assert (L2 : Nat.ltb (length rhs) (length (stk ++ base)) = true).
  { apply Nat.ltb_lt. rewrite app_length. lia. }
  rewrite L2.
  rewrite skipn_app. replace (length rhs - length stk)%nat with 0%nat by lia. simpl skipn.
  rewrite top_state_app.
  2:{ intros E. apply (f_equal (@length _)) in E. rewrite skipn_length in E. simpl in E. lia. }
  destruct (goto T (top_state (skipn (length rhs) stk)) lhs) as [t|]; [|discriminate].
  intros [= <-]. simpl. rewrite firstn_app.
  replace (length rhs - length stk)%nat with 0%nat by lia. simpl firstn. now rewrite app_nil_r.
Qed.

Lemma astep_frame stk toks stk' toks' base :
  astep T true (stk, toks) = Some (stk', toks') ->
  astep T true (stk ++ base, toks) = Some (stk' ++ base, toks').
Proof.
  unfold astep. destruct stk as [|c stk]; [discriminate|].
  simpl andb. cbn iota.
  rewrite top_state_app by discriminate.
  destruct (eact T (top_state (c :: stk)) (la toks)) as [[u|p| |]|]; try discriminate.
  - destruct toks as [|k r]; [discriminate|]. intros [= <- <-]. reflexivity.
  - destruct (ared T true (c :: stk) p) as [s1|] eqn:E; [|discriminate].
    intros [= <- <-]. rewrite (ared_frame _ _ _ base E). reflexivity.
Qed.

Lemma reach_frame stk toks stk' toks' base :
  reach true (stk, toks) (stk', toks') -> reach true (stk ++ base, toks) (stk' ++ base, toks').
Proof.
  intros H. remember (stk, toks) as c1. remember (stk', toks') as c2.
  revert stk toks Heqc1. induction H as [c|c c' c'' Hs Hr IH]; intros stk toks E1; subst.
  - injection E1 as -> ->. constructor.
  - destruct c' as [s1 t1]. econstructor; [apply astep_frame; eauto|]. apply IH; auto.
Qed.

(* ---------- single moves ---------- *)
Lemma shift_move c stk k r u :
  eact T (top_state (c :: stk)) (ttype k) = Some (Sh u) ->
  astep T true (c :: stk, k :: r) = Some ((u, Leaf k) :: c :: stk, r).
Proof. unfold astep. simpl andb. cbn iota. simpl la. intros ->. reflexivity. Qed.

Lemma reduce_move top base toks p lhs rhs t :
  base <> [] ->
  eact T (top_state (top ++ base)) (la toks) = Some (Rd p) ->
  prod T p = Some (lhs, rhs) -> length top = length rhs ->
  goto T (top_state base) lhs = Some t ->
  astep T true (top ++ base, toks) = Some ((t, Node p lhs (rev (map snd top))) :: base, toks).
Proof.
  intros Hb He Hp Hl Hg. unfold astep.
  replace (match top ++ base with [] => true | _ => false end) with false
    by (destruct top; destruct base; simpl; congruence).
  simpl andb. cbn iota. rewrite He. unfold ared. rewrite Hp.
  assert (L : Nat.ltb (length rhs) (length (top ++ base)) = true).
  { apply Nat.ltb_lt. rewrite app_length. destruct base; [congruence|]. simpl. lia. }
  rewrite L. rewrite <- Hl.
  rewrite skipn_app, skipn_all, Nat.sub_diag. cbn [skipn app]. rewrite Hg.
  rewrite firstn_app, firstn_all, Nat.sub_diag. cbn [firstn]. now rewrite app_nil_r.
Qed.

(* shifting the tokens of an operator *)
Lemma chain_reach toks : forall st u stk ks R,
  chain T st toks = Some u -> stk <> [] -> top_state stk = st -> map ttype ks = toks ->
  exists cells, reach true (stk, ks ++ R) (cells ++ stk, R) /\
                map snd cells = rev (map Leaf ks) /\ top_state (cells ++ stk) = u.
Proof.
  induction toks as [|a toks IH]; intros st u stk ks R Hc Hne Ht Hm.
  - destruct ks; [|discriminate]. simpl in Hc. injection Hc as <-.
    exists []. simpl. repeat split; auto. constructor.
  - destruct ks as [|k ks]; [discriminate|]. simpl in Hm. injection Hm as Hk Hm.
    simpl in Hc. destruct (eact T st a) as [[x| | |]|] eqn:E; try discriminate.
    destruct stk as [|c stk]; [congruence|].
    assert (Hs : astep T true (c :: stk, (k :: ks) ++ R) = Some ((x, Leaf k) :: c :: stk, ks ++ R)).
    { simpl app. apply shift_move. rewrite Ht, Hk. exact E. }
    destruct (IH x u ((x, Leaf k) :: c :: stk) ks R Hc ltac:(discriminate) eq_refl Hm)
      as [cells [Hr [Hs2 Ht2]]].
    exists (cells ++ [(x, Leaf k)]). rewrite <- app_assoc. simpl app. repeat split; auto.
    + econstructor; eauto.
    + rewrite map_app, Hs2. simpl. reflexivity.
Qed.

(* ---------- facts from K_prec ---------- *)
Hypothesis HK : K_prec T G = true.

Lemma mem_in x l : mem x l = true -> In x l.
Proof.
  unfold mem. intros H. apply existsb_exists in H as [y [Hi He]].
  apply Pos.eqb_eq in He. now subst.
Qed.

Lemma list_eqb_refl l : list_eqb l l = true.
Proof. induction l; simpl; auto. now rewrite Pos.eqb_refl. Qed.

Lemma K_all :
  (forall s ts, tsof T G s = Some ts -> chk_state T G s ts = true) /\
  forallb (is_op G) (g_ops G) = true /\
  forallb (fun o => mem (otok o) (g_optoks G)) (g_ops G) = true /\
  mem (g_btw G) (g_optoks G) = true /\ mem (g_and G) (g_optoks G) = true /\
  mem (g_rpar G) (g_terms G) = true /\ g_pneg G <> g_pnot G.
Proof.
  pose proof HK as H. unfold K_prec in H.
  repeat (apply andb_true_iff in H; destruct H as [H ?]).
  repeat split; auto.
  2:{ intros E. rewrite E, Pos.eqb_refl in *. discriminate. }
  intros s ts Hs. unfold tsof, goto in Hs.
  destruct (PositiveMap.find s (t_goto T)) as [r|] eqn:E; [|discriminate].
  apply PositiveMap.elements_correct in E. rewrite forallb_forall in H.
  specialize (H _ E). simpl in H. now rewrite Hs in H.
Qed.

Lemma K_state s ts : tsof T G s = Some ts -> chk_state T G s ts = true.
Proof. apply K_all. Qed.

Lemma is_op_in o : is_op G o = true -> In o (g_ops G) /\ find_op G (o_prod o) = Some o.
Proof.
  unfold is_op. intros H. apply andb_true_iff in H as [H _].
  destruct (find_op G (o_prod o)) as [o'|] eqn:E; [|discriminate].
  unfold binop_eqb in H. apply andb_true_iff in H as [H1 H2].
  apply list_eqb_eq in H1. apply Pos.eqb_eq in H2.
  assert (o = o') by (destruct o, o'; simpl in *; congruence). subst o'.
  split; auto. unfold find_op in E. now apply find_some in E.
Qed.

Lemma K_otok o : In o (g_ops G) -> In (otok o) (g_optoks G).
Proof.
  intros Hi. destruct K_all as (_ & _ & H & _). rewrite forallb_forall in H.
  apply mem_in. now apply H.
Qed.

(* what a completed rule does on the next token *)
Lemma red_ok_use ts tu p a :
  red_ok T G ts tu p = true -> defd T ts a = true ->
  (mem a (g_terms G) = true \/ (mem a (g_optoks G) = true /\ red_in (dec G) p a = true)) ->
  eact T tu a = Some (Rd p).
Proof.
  unfold red_ok. intros H Hd Hc. apply andb_true_iff in H as [H1 H2].
  assert (E : act_eqb (eact T tu a) (Rd p) = true).
  { destruct Hc as [Ht | [Ho Hr]].
    - rewrite forallb_forall in H2. specialize (H2 a (mem_in _ _ Ht)). now rewrite Hd in H2.
    - rewrite forallb_forall in H1. specialize (H1 a (mem_in _ _ Ho)).
      unfold red_in in Hr. destruct (dec G p a) as [[|]|]; try discriminate. exact H1. }
  unfold act_eqb in E. destruct (eact T tu a) as [[x|x| |]|]; try discriminate.
  apply Pos.eqb_eq in E. now subst.
Qed.

Lemma closes_case e a :
  closes G e a = true ->
  mem a (g_terms G) = true \/
  (mem a (g_optoks G) = true /\ forallb (fun q => red_in (dec G) q a) (rsp G e) = true).
Proof.
  unfold closes. intros H. apply orb_true_iff in H as [H|H]; auto.
  apply andb_true_iff in H. auto.
Qed.

Lemma closes_looks e a : closes G e a = true -> In a (looks G).
Proof.
  intros H. apply closes_case in H as [H | [H _]]; apply mem_in in H;
  unfold looks; apply in_or_app; auto.
Qed.

Lemma defd_of_act st a p : eact T st a = Some (Rd p) -> defd T st a = true.
Proof. unfold defd. now intros ->. Qed.
Lemma defd_of_sh st a u : eact T st a = Some (Sh u) -> defd T st a = true.
Proof. unfold defd. now intros ->. Qed.

Definition lsp_ok (s : positive) (e : ex) : Prop :=
  forallb (fun b => match b with
                    | LOp o => issome (okop T G s o)
                    | LBtw => issome (okbtw T G s)
                    end) (lsp e) = true.

Lemma wf_lsp_isop e : wf_dec G e = true -> forall o, In (LOp o) (lsp e) -> is_op G o = true.
Proof.
  unfold wf_dec. induction e; simpl; intros Hw o' Hi; try contradiction.
  - repeat (apply andb_true_iff in Hw; destruct Hw as [Hw ?]).
    destruct Hi as [Hi|Hi]; [injection Hi as <-; unfold is_op; apply andb_true_iff; split; assumption|]. apply IHe1; assumption.
  - repeat (apply andb_true_iff in Hw; destruct Hw as [Hw ?]).
    destruct Hi as [Hi|Hi]; [discriminate|]. apply IHe1; assumption.
Qed.

Lemma closure_lsp p u r :
  closure T G p u = true -> wf_dec G r = true ->
  forallb (fun b => shf_in (dec G) p (ltok G b)) (lsp r) = true -> lsp_ok u r.
Proof.
  intros Hc Hw Hs. unfold lsp_ok. apply forallb_forall. intros b Hb.
  rewrite forallb_forall in Hs. specialize (Hs b Hb).
  unfold closure in Hc. apply andb_true_iff in Hc as [Hc1 Hc2].
  destruct b as [o|].
  - pose proof (wf_lsp_isop r Hw o Hb) as Ho. apply is_op_in in Ho as [Hin _].
    rewrite forallb_forall in Hc1. specialize (Hc1 o Hin). simpl in Hs. now rewrite Hs in Hc1.
  - simpl in Hs. now rewrite Hs in Hc2.
Qed.

Lemma fresh_lsp l r :
  forallb (fun o => issome (okop T G l o)) (g_ops G) = true -> issome (okbtw T G l) = true ->
  wf_dec G r = true -> lsp_ok l r.
Proof.
  intros H1 H2 Hw. unfold lsp_ok. apply forallb_forall. intros b Hb. destruct b as [o|]; auto.
  pose proof (wf_lsp_isop r Hw o Hb) as Ho. apply is_op_in in Ho as [Hin _].
  rewrite forallb_forall in H1. now apply H1.
Qed.

(* ---------- atoms ---------- *)
Lemma unit_chain_reach fuel : forall s ts q a t x rest,
  unit_chain T G fuel s q a = true -> tsof T G s = Some ts -> la rest = a ->
  exists t', reach true ([(q, t); (s, x)], rest) ([(ts, t'); (s, x)], rest) /\
             abs G t' = abs G t /\ (exists p l cs, t' = Node p l cs).
Proof.
  induction fuel as [|f IH]; intros s ts q a t x rest H Hts Hla; [discriminate|].
  simpl in H. destruct (eact T q a) as [[|p| |]|] eqn:Ea; try discriminate.
  destruct (prod T p) as [[lhs rhs]|] eqn:Ep; [|discriminate].
  destruct rhs as [|r0 [|? ?]]; try discriminate.
  destruct (goto T s lhs) as [q'|] eqn:Eg; [|discriminate].
  assert (Hm : astep T true ([(q, t)] ++ [(s, x)], rest)
               = Some ((q', Node p lhs (rev (map snd [(q, t)]))) :: [(s, x)], rest)).
  { apply reduce_move with (rhs := [r0]); auto; try discriminate. simpl. now rewrite Hla. }
  cbn [app rev map snd] in Hm.
  destruct (Pos.eqb lhs (g_expr G)) eqn:El.
  - apply Pos.eqb_eq in El. subst lhs. unfold tsof in Hts. rewrite Hts in Eg. injection Eg as <-.
    exists (Node p (g_expr G) [t]). split; [now apply reach_one|]. split; [reflexivity|eauto].
  - destruct (IH s ts q' a (Node p lhs [t]) x rest H Hts Hla) as [t' [Hr [Ha Hn]]].
    exists t'. split; [econstructor; eauto|]. split; auto.
Qed.

(* ---------- unfolding the table predicates ---------- *)
Lemma prod_is_inv p rhs : prod_is T G p rhs = true -> prod T p = Some (g_expr G, rhs).
Proof.
  unfold prod_is. destruct (prod T p) as [[lhs r]|]; [|discriminate].
  intros H. apply andb_true_iff in H as [H1 H2]. apply Pos.eqb_eq in H1. apply list_eqb_eq in H2.
  now subst.
Qed.

Lemma okop_inv s o u :
  okop T G s o = Some u ->
  exists ts tu, tsof T G s = Some ts /\ o_toks o <> [] /\ chain T ts (o_toks o) = Some u /\
                tsof T G u = Some tu /\
                prod T (o_prod o) = Some (g_expr G, g_expr G :: o_toks o ++ [g_expr G]) /\
                red_ok T G ts tu (o_prod o) = true.
Proof.
  unfold okop. destruct (tsof T G s) as [ts|]; [|discriminate].
  destruct (o_toks o) as [|a toks] eqn:Et; [discriminate|].
  destruct (chain T ts (a :: toks)) as [u'|] eqn:Ec; [|discriminate].
  destruct (tsof T G u') as [tu|] eqn:Eu; [|discriminate].
  destruct (prod_is T G (o_prod o) _ && red_ok T G ts tu (o_prod o)) eqn:E; [|discriminate].
  intros [= <-]. apply andb_true_iff in E as [E1 E2]. apply prod_is_inv in E1.
  exists ts, tu. repeat split; auto. discriminate.
Qed.

Lemma okbtw_inv s b1 b3 :
  okbtw T G s = Some (b1, b3) ->
  exists ts tb1 tb3, tsof T G s = Some ts /\ eact T ts (g_btw G) = Some (Sh b1) /\
    tsof T G b1 = Some tb1 /\ eact T tb1 (g_and G) = Some (Sh b3) /\ tsof T G b3 = Some tb3 /\
    prod T (g_pbtw G) = Some (g_expr G, [g_expr G; g_btw G; g_expr G; g_and G; g_expr G]) /\
    red_ok T G ts tb3 (g_pbtw G) = true.
Proof.
  unfold okbtw. destruct (tsof T G s) as [ts|]; [|discriminate].
  destruct (eact T ts (g_btw G)) as [[x1| | |]|] eqn:E1; try discriminate.
  destruct (tsof T G x1) as [tb1|] eqn:E2; [|discriminate].
  destruct (eact T tb1 (g_and G)) as [[x3| | |]|] eqn:E3; try discriminate.
  destruct (tsof T G x3) as [tb3|] eqn:E4; [|discriminate].
  destruct (prod_is T G (g_pbtw G) _ && red_ok T G ts tb3 (g_pbtw G)) eqn:E; [|discriminate].
  intros [= <- <-]. apply andb_true_iff in E as [Ea Eb]. apply prod_is_inv in Ea.
  exists ts, tb1, tb3. repeat split; auto.
Qed.

Lemma chk_parts s ts :
  tsof T G s = Some ts ->
  forallb (okatom T G s ts) (g_atoms G) = true /\
  okprefix T G s ts (g_neg G) (g_pneg G) = true /\
  okprefix T G s ts (g_not G) (g_pnot G) = true /\
  okpar T G s ts = true /\
  (forall o u, In o (g_ops G) -> okop T G s o = Some u -> closure T G (o_prod o) u = true) /\
  (forall b1 b3, okbtw T G s = Some (b1, b3) ->
                 closure T G (g_pbtw G) b1 = true /\ closure T G (g_pbtw G) b3 = true).
Proof.
  intros Hts. pose proof (K_state s ts Hts) as H. unfold chk_state in H.
  apply andb_true_iff in H as [H H6]. apply andb_true_iff in H as [H H5].
  apply andb_true_iff in H as [H H4]. apply andb_true_iff in H as [H H3].
  apply andb_true_iff in H as [H1 H2].
  split; [exact H1|]. split; [exact H2|]. split; [exact H3|]. split; [exact H4|]. split.
  - intros o u Hin Ho. rewrite forallb_forall in H5. specialize (H5 o Hin). now rewrite Ho in H5.
  - intros b1 b3 Hb. rewrite Hb in H6. now apply andb_true_iff in H6.
Qed.

Lemma okprefix_inv s ts tok p :
  okprefix T G s ts tok p = true ->
  exists m tm, eact T s tok = Some (Sh m) /\ tsof T G m = Some tm /\
               prod T p = Some (g_expr G, [tok; g_expr G]) /\
               red_ok T G ts tm p = true /\ closure T G p m = true.
Proof.
  unfold okprefix. destruct (eact T s tok) as [[m| | |]|] eqn:E1; try discriminate.
  destruct (tsof T G m) as [tm|] eqn:E2; [|discriminate].
  intros H. apply andb_true_iff in H as [H H3]. apply andb_true_iff in H as [H1 H2].
  apply prod_is_inv in H1. exists m, tm.
  split; [reflexivity|]. split; [exact E2|]. split; [exact H1|]. split; [exact H2|exact H3].
Qed.

Lemma okpar_inv s ts :
  okpar T G s ts = true ->
  exists l tl l3, eact T s (g_lpar G) = Some (Sh l) /\ tsof T G l = Some tl /\
    forallb (fun o => issome (okop T G l o)) (g_ops G) = true /\ issome (okbtw T G l) = true /\
    eact T tl (g_rpar G) = Some (Sh l3) /\
    prod T (g_ppar G) = Some (g_expr G, [g_lpar G; g_expr G; g_rpar G]) /\
    (forall a, In a (looks G) -> defd T ts a = true -> eact T l3 a = Some (Rd (g_ppar G))).
Proof.
  unfold okpar. destruct (eact T s (g_lpar G)) as [[l| | |]|] eqn:E1; try discriminate.
  destruct (tsof T G l) as [tl|] eqn:E2; [|discriminate].
  intros H. apply andb_true_iff in H as [H H3]. apply andb_true_iff in H as [H1 H2].
  destruct (eact T tl (g_rpar G)) as [[l3| | |]|] eqn:E3; try discriminate.
  apply andb_true_iff in H3 as [H3 H4]. apply prod_is_inv in H3.
  exists l, tl, l3.
  split; [reflexivity|]. split; [exact E2|]. split; [exact H1|]. split; [exact H2|].
  split; [exact E3|]. split; [exact H3|].
  intros a Hin Hd. rewrite forallb_forall in H4. specialize (H4 a Hin). rewrite Hd in H4. simpl in H4.
  unfold act_eqb in H4. destruct (eact T l3 a) as [[y|y| |]|]; try discriminate.
  apply Pos.eqb_eq in H4. now subst.
Qed.

Lemma la_app_ne ks rest : ks <> [] -> la (ks ++ rest) = ttype (hd (mkTok END 1) ks).
Proof. destruct ks; [congruence|reflexivity]. Qed.

Definition isnode (t : tree) : Prop := exists p l cs, t = Node p l cs.

Lemma abs_bin1 p e t1 k t2 :
  isnode t1 -> abs G (Node p e [t1; Leaf k; t2]) = bin_of G p [ttype k] (abs G t1) (abs G t2).
Proof. intros (p1 & l1 & cs1 & ->). reflexivity. Qed.
Lemma abs_bin2 p e t1 k1 k2 t2 :
  abs G (Node p e [t1; Leaf k1; Leaf k2; t2]) = bin_of G p [ttype k1; ttype k2] (abs G t1) (abs G t2).
Proof. reflexivity. Qed.
Lemma abs_neg e k t : abs G (Node (g_pneg G) e [Leaf k; t]) = option_map ENeg (abs G t).
Proof. cbn [abs]. now rewrite Pos.eqb_refl. Qed.
Lemma abs_not e k t : abs G (Node (g_pnot G) e [Leaf k; t]) = option_map ENot (abs G t).
Proof.
  cbn [abs]. destruct (Pos.eqb (g_pnot G) (g_pneg G)) eqn:E.
  - apply Pos.eqb_eq in E. destruct K_all as (_ & _ & _ & _ & _ & _ & Hne). congruence.
  - now rewrite Pos.eqb_refl.
Qed.
Lemma abs_par e k1 t k2 : abs G (Node (g_ppar G) e [Leaf k1; t; Leaf k2]) = option_map EPar (abs G t).
Proof. cbn [abs]. now rewrite Pos.eqb_refl. Qed.
Lemma abs_btw e t1 k1 t2 k2 t3 :
  abs G (Node (g_pbtw G) e [t1; Leaf k1; t2; Leaf k2; t3]) =
  match abs G t1, abs G t2, abs G t3 with
  | Some x, Some lo, Some hi => Some (EBtw x lo hi)
  | _, _, _ => None
  end.
Proof. cbn [abs]. now rewrite Pos.eqb_refl. Qed.

(* ---------- the main theorem ---------- *)
Theorem parse_ex : forall e s ts x ks rest,
  tsof T G s = Some ts -> wf_dec G e = true -> lsp_ok s e ->
  map ttype ks = syms G e ->
  defd T ts (la rest) = true -> closes G e (la rest) = true ->
  exists t, reach true ([(s, x)], ks ++ rest) ([(ts, t); (s, x)], rest) /\
            abs G t = Some e /\ isnode t.
Proof.
  induction e as [k | o l IHl r IHr | e IHe | e IHe | e IHe | ex IHx lo IHlo hi IHhi];
    intros s ts x ks rest Hts Hw Hl Hm Hd Hc; unfold wf_dec in *.
  - (* atom *)
    simpl in Hm. destruct ks as [|k0 [|? ?]]; try discriminate. injection Hm as Hk.
    destruct (chk_parts s ts Hts) as (Hat & _).
    simpl in Hw. apply mem_in in Hw. rewrite forallb_forall in Hat. specialize (Hat k Hw).
    unfold okatom in Hat. destruct (eact T s k) as [[q| | |]|] eqn:Es; try discriminate.
    rewrite forallb_forall in Hat. specialize (Hat _ (closes_looks _ _ Hc)). rewrite Hd in Hat.
    simpl in Hat.
    destruct (unit_chain_reach 8 s ts q (la rest) (Leaf k0) x rest Hat Hts eq_refl)
      as (t' & Hr & Ha & Hn).
    exists t'. split; [|split; auto].
    + simpl app. econstructor; [|exact Hr]. apply shift_move. simpl. now rewrite Hk.
    + rewrite Ha. simpl. now rewrite Hk.
  - (* binary operator *)
    simpl in Hw.
    apply andb_true_iff in Hw as [Hw Hsr]. apply andb_true_iff in Hw as [Hw Hrl].
    apply andb_true_iff in Hw as [Hw Hwr]. apply andb_true_iff in Hw as [Hop Hwl].
    unfold lsp_ok in Hl. simpl in Hl. apply andb_true_iff in Hl as [Ho Hl].
    destruct (okop T G s o) as [u|] eqn:Eo; [|discriminate].
    destruct (okop_inv s o u Eo) as (ts' & tu & Hts' & Hne & Hch & Htu & Hp & Hro).
    rewrite Hts in Hts'. injection Hts' as <-.
    destruct (is_op_in o Hop) as [Hin Hfind].
    simpl in Hm. apply map_eq_app in Hm as (kl & k2 & -> & Hml & Hm2).
    apply map_eq_app in Hm2 as (ko & kr & -> & Hmo & Hmr).
    assert (Hkone : ko <> []) by (intros ->; simpl in Hmo; congruence).
    assert (Hla : la (ko ++ kr ++ rest) = otok o).
    { rewrite la_app_ne by auto. unfold otok. rewrite <- Hmo. destruct ko; [congruence|reflexivity]. }
    assert (Hsh : exists x1, eact T ts (otok o) = Some (Sh x1)).
    { unfold otok. destruct (o_toks o) as [|a toks]; [congruence|]. simpl in *.
      destruct (eact T ts a) as [[x1| | |]|]; try discriminate. eauto. }
    destruct Hsh as [x1 Hsh].
    (* left operand *)
    destruct (IHl s ts x kl (ko ++ kr ++ rest) Hts Hwl Hl Hml) as (tl & Hr1 & Ha1 & Hn1).
    { rewrite Hla. eapply defd_of_sh; eauto. }
    { rewrite Hla. unfold closes. apply orb_true_iff. right. apply andb_true_iff. split; auto.
      apply existsb_exists. exists (otok o). split; [now apply K_otok|apply Pos.eqb_refl]. }
    (* the operator *)
    destruct (chain_reach (o_toks o) ts u [(ts, tl); (s, x)] ko (kr ++ rest) Hch
                ltac:(discriminate) eq_refl Hmo) as (cells & Hr2 & Hs2 & Ht2).
    destruct cells as [|[u' lf] cells'].
    { simpl in Hs2. destruct ko; [congruence|]. simpl in Hs2.
      apply (f_equal (@length _)) in Hs2. rewrite app_length in Hs2. simpl in Hs2. lia. }
    simpl in Ht2. subst u'.
    (* right operand *)
    destruct (chk_parts s ts Hts) as (_ & _ & _ & _ & Hclo & _).
    specialize (Hclo o u Hin Eo).
    assert (Hred : eact T tu (la rest) = Some (Rd (o_prod o))).
    { apply red_ok_use with (ts := ts); auto.
      apply closes_case in Hc as [Hc | [Hc1 Hc2]]; auto.
      right. split; auto. simpl in Hc2. now apply andb_true_iff in Hc2. }
    destruct (IHr u tu lf kr rest Htu Hwr (closure_lsp _ _ _ Hclo Hwr Hsr) Hmr)
      as (tr & Hr3 & Ha3 & Hn3).
    { eapply defd_of_act; eauto. }
    { apply closes_case in Hc as [Hc | [Hc1 Hc2]]; unfold closes.
      - now rewrite Hc.
      - rewrite Hc1. simpl in Hc2. apply andb_true_iff in Hc2 as [_ Hc2]. rewrite Hc2.
        apply orb_true_r. }
    apply reach_frame with (base := cells' ++ [(ts, tl); (s, x)]) in Hr3. simpl app in Hr3.
    (* reduce *)
    assert (Hmv : astep T true (((tu, tr) :: (u, lf) :: cells' ++ [(ts, tl)]) ++ [(s, x)], rest)
              = Some ((ts, Node (o_prod o) (g_expr G)
                              (rev (map snd ((tu, tr) :: (u, lf) :: cells' ++ [(ts, tl)]))))
                        :: [(s, x)], rest)).
    { apply reduce_move with (rhs := g_expr G :: o_toks o ++ [g_expr G]); auto; try discriminate.
      simpl. rewrite !app_length. simpl. f_equal.
      apply (f_equal (@length _)) in Hs2. simpl in Hs2. rewrite rev_length, !map_length in Hs2.
      rewrite <- Hmo, map_length. lia. }
    assert (Hch2 : rev (map snd ((tu, tr) :: (u, lf) :: cells' ++ [(ts, tl)]))
                   = tl :: map Leaf ko ++ [tr]).
    { simpl map. rewrite map_app. simpl map.
      change (lf :: map snd cells' ++ [tl]) with ((lf :: map snd cells') ++ [tl]).
      simpl in Hs2. rewrite Hs2. simpl rev. rewrite rev_app_distr. simpl. now rewrite rev_involutive. }
    rewrite Hch2 in Hmv.
    exists (Node (o_prod o) (g_expr G) (tl :: map Leaf ko ++ [tr])).
    split; [|split; [|unfold isnode; eauto]].
    + rewrite <- !app_assoc.
      eapply reach_trans; [exact Hr1|]. eapply reach_trans; [exact Hr2|].
      simpl app. eapply reach_trans; [exact Hr3|].
      apply reach_one. simpl app in Hmv. rewrite <- app_assoc in Hmv. simpl app in Hmv. exact Hmv.
    + unfold is_op in Hop. apply andb_true_iff in Hop as [_ Hlen]. apply Nat.leb_le in Hlen.
      rewrite <- Hmo, map_length in Hlen.
      destruct ko as [|k1 [|k2 [|? ?]]]; simpl in Hlen; try lia; try congruence.
      * cbn [map app]. rewrite abs_bin1 by auto. unfold bin_of. rewrite Hfind, Ha1, Ha3.
        simpl in Hmo. rewrite <- Hmo. now rewrite list_eqb_refl.
      * cbn [map app]. rewrite abs_bin2. unfold bin_of. rewrite Hfind, Ha1, Ha3.
        simpl in Hmo. rewrite <- Hmo. now rewrite list_eqb_refl.
  - (* unary minus *)
    simpl in Hw. apply andb_true_iff in Hw as [Hwe Hse].
    simpl in Hm. destruct ks as [|k0 ks']; [discriminate|]. simpl in Hm. injection Hm as Hk Hm.
    destruct (chk_parts s ts Hts) as (_ & Hng & _).
    destruct (okprefix_inv _ _ _ _ Hng) as (m & tm & Hsm & Htm & Hp & Hro & Hclo).
    assert (Hred : eact T tm (la rest) = Some (Rd (g_pneg G))).
    { apply red_ok_use with (ts := ts); auto.
      apply closes_case in Hc as [Hc | [Hc1 Hc2]]; auto.
      right. split; auto. simpl in Hc2. now apply andb_true_iff in Hc2. }
    destruct (IHe m tm (Leaf k0) ks' rest Htm Hwe (closure_lsp _ _ _ Hclo Hwe Hse) Hm)
      as (t' & Hr & Ha & Hn).
    { eapply defd_of_act; eauto. }
    { apply closes_case in Hc as [Hc | [Hc1 Hc2]]; unfold closes.
      - now rewrite Hc.
      - rewrite Hc1. simpl in Hc2. apply andb_true_iff in Hc2 as [_ Hc2]. rewrite Hc2.
        apply orb_true_r. }
    apply reach_frame with (base := [(s, x)]) in Hr. simpl app in Hr.
    assert (Hmv : astep T true ([(tm, t'); (m, Leaf k0)] ++ [(s, x)], rest)
              = Some ((ts, Node (g_pneg G) (g_expr G) (rev (map snd [(tm, t'); (m, Leaf k0)])))
                        :: [(s, x)], rest)).
    { apply reduce_move with (rhs := [g_neg G; g_expr G]); auto; discriminate. }
    cbn [app rev map snd] in Hmv.
    exists (Node (g_pneg G) (g_expr G) [Leaf k0; t']). split; [|split].
    + simpl app. econstructor; [apply shift_move; simpl; rewrite Hk; exact Hsm|].
      eapply reach_trans; [exact Hr|]. apply reach_one. exact Hmv.
    + rewrite abs_neg, Ha. reflexivity.
    + unfold isnode; eauto.
  - (* NOT *)
    simpl in Hw. apply andb_true_iff in Hw as [Hwe Hse].
    simpl in Hm. destruct ks as [|k0 ks']; [discriminate|]. simpl in Hm. injection Hm as Hk Hm.
    destruct (chk_parts s ts Hts) as (_ & _ & Hng & _).
    destruct (okprefix_inv _ _ _ _ Hng) as (m & tm & Hsm & Htm & Hp & Hro & Hclo).
    assert (Hred : eact T tm (la rest) = Some (Rd (g_pnot G))).
    { apply red_ok_use with (ts := ts); auto.
      apply closes_case in Hc as [Hc | [Hc1 Hc2]]; auto.
      right. split; auto. simpl in Hc2. now apply andb_true_iff in Hc2. }
    destruct (IHe m tm (Leaf k0) ks' rest Htm Hwe (closure_lsp _ _ _ Hclo Hwe Hse) Hm)
      as (t' & Hr & Ha & Hn).
    { eapply defd_of_act; eauto. }
    { apply closes_case in Hc as [Hc | [Hc1 Hc2]]; unfold closes.
      - now rewrite Hc.
      - rewrite Hc1. simpl in Hc2. apply andb_true_iff in Hc2 as [_ Hc2]. rewrite Hc2.
        apply orb_true_r. }
    apply reach_frame with (base := [(s, x)]) in Hr. simpl app in Hr.
    assert (Hmv : astep T true ([(tm, t'); (m, Leaf k0)] ++ [(s, x)], rest)
              = Some ((ts, Node (g_pnot G) (g_expr G) (rev (map snd [(tm, t'); (m, Leaf k0)])))
                        :: [(s, x)], rest)).
    { apply reduce_move with (rhs := [g_not G; g_expr G]); auto; discriminate. }
    cbn [app rev map snd] in Hmv.
    exists (Node (g_pnot G) (g_expr G) [Leaf k0; t']). split; [|split].
    + simpl app. econstructor; [apply shift_move; simpl; rewrite Hk; exact Hsm|].
      eapply reach_trans; [exact Hr|]. apply reach_one. exact Hmv.
    + rewrite abs_not, Ha. reflexivity.
    + unfold isnode; eauto.
  - (* parentheses *)
    simpl in Hw. simpl in Hm.
    destruct ks as [|k0 ks1]; [discriminate|]. simpl in Hm. injection Hm as Hk Hm.
    apply map_eq_app in Hm as (ke & kr & -> & Hme & Hmr).
    destruct kr as [|k1 [|? ?]]; try discriminate. simpl in Hmr. injection Hmr as Hk1.
    destruct (chk_parts s ts Hts) as (_ & _ & _ & Hpa & _).
    destruct (okpar_inv s ts Hpa) as (l & tl & l3 & Hsl & Htl & Hf1 & Hf2 & Hs3 & Hp & Hrd).
    destruct K_all as (_ & _ & _ & _ & _ & Hrp & _).
    destruct (IHe l tl (Leaf k0) ke (k1 :: rest) Htl Hw (fresh_lsp _ _ Hf1 Hf2 Hw) Hme)
      as (t' & Hr & Ha & Hn).
    { simpl la. rewrite Hk1. eapply defd_of_sh; eauto. }
    { simpl la. rewrite Hk1. unfold closes. now rewrite Hrp. }
    apply reach_frame with (base := [(s, x)]) in Hr. simpl app in Hr.
    assert (Hmv : astep T true ([(l3, Leaf k1); (tl, t'); (l, Leaf k0)] ++ [(s, x)], rest)
              = Some ((ts, Node (g_ppar G) (g_expr G)
                              (rev (map snd [(l3, Leaf k1); (tl, t'); (l, Leaf k0)])))
                        :: [(s, x)], rest)).
    { apply reduce_move with (rhs := [g_lpar G; g_expr G; g_rpar G]); auto; try discriminate.
      simpl top_state. apply Hrd; auto. eapply closes_looks; eauto. }
    cbn [app rev map snd] in Hmv.
    exists (Node (g_ppar G) (g_expr G) [Leaf k0; t'; Leaf k1]). split; [|split].
    + simpl app. rewrite <- app_assoc. simpl app.
      econstructor; [apply shift_move; simpl; rewrite Hk; exact Hsl|].
      eapply reach_trans; [exact Hr|].
      econstructor; [apply shift_move; simpl; rewrite Hk1; exact Hs3|].
      apply reach_one. exact Hmv.
    + rewrite abs_par, Ha. reflexivity.
    + unfold isnode; eauto.
  - (* BETWEEN *)
    simpl in Hw.
    apply andb_true_iff in Hw as [Hw Hshi]. apply andb_true_iff in Hw as [Hw Hrlo].
    apply andb_true_iff in Hw as [Hw Hslo]. apply andb_true_iff in Hw as [Hw Hrx].
    apply andb_true_iff in Hw as [Hw Hwhi]. apply andb_true_iff in Hw as [Hwx Hwlo].
    unfold lsp_ok in Hl. simpl in Hl. apply andb_true_iff in Hl as [Hb Hl].
    destruct (okbtw T G s) as [[b1 b3]|] eqn:Eb; [|discriminate].
    rewrite <- Eb in Hl. change (lsp_ok s ex) in Hl.
    destruct (okbtw_inv s b1 b3 Eb) as (ts' & tb1 & tb3 & Hts' & Hs1 & Ht1 & Hs3 & Ht3 & Hp & Hro).
    rewrite Hts in Hts'. injection Hts' as <-.
    destruct (chk_parts s ts Hts) as (_ & _ & _ & _ & _ & Hclo).
    destruct (Hclo b1 b3 Eb) as [Hc1 Hc3].
    destruct K_all as (_ & _ & _ & Hbo & Hao & _).
    simpl in Hm. apply map_eq_app in Hm as (kx & k2 & -> & Hmx & Hm2).
    destruct k2 as [|kb k3]; [discriminate|]. simpl in Hm2. injection Hm2 as Hkb Hm2.
    apply map_eq_app in Hm2 as (klo & k4 & -> & Hmlo & Hm4).
    destruct k4 as [|ka khi]; [discriminate|]. simpl in Hm4. injection Hm4 as Hka Hmhi.
    (* x *)
    destruct (IHx s ts x kx (kb :: klo ++ ka :: khi ++ rest) Hts Hwx Hl Hmx) as (tx & Hr1 & Ha1 & Hn1).
    { simpl la. rewrite Hkb. eapply defd_of_sh; eauto. }
    { simpl la. rewrite Hkb. unfold closes. rewrite Hbo, Hrx. apply orb_true_r. }
    (* lo *)
    destruct (IHlo b1 tb1 (Leaf kb) klo (ka :: khi ++ rest) Ht1 Hwlo
                (closure_lsp _ _ _ Hc1 Hwlo Hslo) Hmlo) as (tlo & Hr2 & Ha2 & Hn2).
    { simpl la. rewrite Hka. eapply defd_of_sh; eauto. }
    { simpl la. rewrite Hka. unfold closes. rewrite Hao, Hrlo. apply orb_true_r. }
    apply reach_frame with (base := [(ts, tx); (s, x)]) in Hr2. simpl app in Hr2.
    (* hi *)
    assert (Hred : eact T tb3 (la rest) = Some (Rd (g_pbtw G))).
    { apply red_ok_use with (ts := ts); auto.
      apply closes_case in Hc as [Hc | [Hc1' Hc2]]; auto.
      right. split; auto. simpl in Hc2. now apply andb_true_iff in Hc2. }
    destruct (IHhi b3 tb3 (Leaf ka) khi rest Ht3 Hwhi (closure_lsp _ _ _ Hc3 Hwhi Hshi) Hmhi)
      as (thi & Hr3 & Ha3 & Hn3).
    { eapply defd_of_act; eauto. }
    { apply closes_case in Hc as [Hc | [Hc1' Hc2]]; unfold closes.
      - now rewrite Hc.
      - rewrite Hc1'. simpl in Hc2. apply andb_true_iff in Hc2 as [_ Hc2]. rewrite Hc2.
        apply orb_true_r. }
    apply reach_frame with (base := [(tb1, tlo); (b1, Leaf kb); (ts, tx); (s, x)]) in Hr3.
    simpl app in Hr3.
    assert (Hmv : astep T true ([(tb3, thi); (b3, Leaf ka); (tb1, tlo); (b1, Leaf kb); (ts, tx)]
                                  ++ [(s, x)], rest)
              = Some ((ts, Node (g_pbtw G) (g_expr G)
                         (rev (map snd [(tb3, thi); (b3, Leaf ka); (tb1, tlo); (b1, Leaf kb); (ts, tx)])))
                        :: [(s, x)], rest)).
    { apply reduce_move with (rhs := [g_expr G; g_btw G; g_expr G; g_and G; g_expr G]);
        auto; discriminate. }
    cbn [app rev map snd] in Hmv.
    exists (Node (g_pbtw G) (g_expr G) [tx; Leaf kb; tlo; Leaf ka; thi]). split; [|split].
    + rewrite <- app_assoc. simpl app. rewrite <- app_assoc. simpl app.
      eapply reach_trans; [exact Hr1|].
      econstructor; [apply shift_move; simpl; rewrite Hkb; exact Hs1|].
      eapply reach_trans; [exact Hr2|].
      econstructor; [apply shift_move; simpl; rewrite Hka; exact Hs3|].
      eapply reach_trans; [exact Hr3|]. apply reach_one. exact Hmv.
    + rewrite abs_btw, Ha1, Ha2, Ha3. reflexivity.
    + unfold isnode; eauto.
Qed.

End S.
