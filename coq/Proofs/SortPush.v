(* ORDER BY + LIMIT through a LEFT JOIN: when the sort keys are columns of the first table, sorting
   the join is joining the sorted first table (the sort is stable and the join keeps the rows of one
   left row together), so ORDER BY ... LIMIT n may follow the first table into its fetch -- provided
   the fetch sorts by the SAME comparison (direction and NULL placement).  With another NULL
   placement in the fetch the law fails (refutation by a witness). *)
From Coq Require Import ZArith PArith List Bool Lia.
From MSV Require Import Lib.Rel Proofs.RelLaws.
Import ListNotations.

Section Groups.
  Context {A B : Type} (leA : A -> A -> bool) (key : B -> A).
  Definition leB (x y : B) : bool := leA (key x) (key y).
  Hypothesis leA_refl : forall a, leA a a = true.

  (* where a block of rows with key a goes in a list *)
  Fixpoint ins_group (a : A) (xs : list B) (l : list B) : list B :=
    match l with
    | [] => xs
    | y :: t => if leA a (key y) then xs ++ l else y :: ins_group a xs t
    end.

  Lemma ins_group_nil a l : ins_group a [] l = l.
  Proof. induction l as [|y t IH]; cbn [ins_group]; [reflexivity|]. destruct (leA a (key y)); [reflexivity|]. now rewrite IH. Qed.

  Lemma insert_ins_group a x xs l :
    key x = a -> (forall z, In z xs -> key z = a) ->
    insert leB x (ins_group a xs l) = ins_group a (x :: xs) l.
  Proof.
    intros Hx Hxs. induction l as [|y t IH]; cbn [ins_group].
    - destruct xs as [|z xs']; cbn [insert]; [reflexivity|].
      unfold leB at 1. rewrite Hx, (Hxs z (or_introl eq_refl)), leA_refl. reflexivity.
    - destruct (leA a (key y)) eqn:E.
      + destruct xs as [|z xs']; cbn [app insert].
        * unfold leB at 1. rewrite Hx, E. reflexivity.
        * unfold leB at 1. rewrite Hx, (Hxs z (or_introl eq_refl)), leA_refl. reflexivity.
      + cbn [insert]. unfold leB at 1. rewrite Hx, E. now rewrite IH.
  Qed.

  Lemma fold_insert_group a xs l :
    (forall z, In z xs -> key z = a) ->
    fold_right (insert leB) l xs = ins_group a xs l.
  Proof.
    induction xs as [|x xs IH]; intros H; cbn [fold_right].
    - now rewrite ins_group_nil.
    - rewrite IH by (intros z Hz; apply H; now right).
      apply insert_ins_group; [apply H; now left | intros z Hz; apply H; now right].
  Qed.

  Lemma ins_group_skip a xs ys rest b :
    (forall z, In z ys -> key z = b) -> leA a b = false ->
    ins_group a xs (ys ++ rest) = ys ++ ins_group a xs rest.
  Proof.
    intros Hys E. induction ys as [|y ys IH]; cbn [app ins_group]; [reflexivity|].
    rewrite (Hys y (or_introl eq_refl)), E. rewrite IH; [reflexivity|]. intros z Hz. apply Hys. now right.
  Qed.

  Variable P : A -> Prop.                    (* the keys the statement is about (rows of the right width) *)
  Variable g : A -> list B.
  Hypothesis g_key : forall a z, P a -> In z (g a) -> key z = a.
  Hypothesis g_nonempty : forall a, P a -> g a <> [].

  Lemma ins_group_flat_map a L :
    Forall P L ->
    ins_group a (g a) (flat_map g L) = flat_map g (insert leA a L).
  Proof.
    induction L as [|b L IH]; intros HL; cbn [flat_map insert ins_group].
    - now rewrite app_nil_r.
    - inversion HL as [|? ? Hb HL']; subst. destruct (leA a b) eqn:E.
      + cbn [flat_map]. destruct (g b) as [|y ys] eqn:G; [exfalso; now apply (g_nonempty b Hb)|].
        cbn [app ins_group]. rewrite (g_key b y Hb) by (rewrite G; now left). rewrite E. reflexivity.
      + cbn [flat_map]. rewrite (ins_group_skip a (g a) (g b) (flat_map g L) b); [|intros z Hz; exact (g_key b z Hb Hz)|exact E].
        now rewrite IH.
  Qed.

  Lemma isort_app xs l : isort leB (xs ++ l) = fold_right (insert leB) (isort leB l) xs.
  Proof. unfold isort. now rewrite fold_right_app. Qed.

  Lemma insert_Forall a L : P a -> Forall P L -> Forall P (insert leA a L).
  Proof.
    intros Ha. induction L as [|y t IH]; intros HL; cbn [insert]; [now constructor|].
    destruct (leA a y); [now constructor|]. inversion HL; subst. constructor; [assumption|]. now apply IH.
  Qed.
  Lemma isort_Forall L : Forall P L -> Forall P (isort leA L).
  Proof.
    induction L as [|a L IH]; intros HL; [constructor|]. inversion HL; subst.
    change (isort leA (a :: L)) with (insert leA a (isort leA L)). apply insert_Forall; [assumption|]. now apply IH.
  Qed.

  (* sorting the concatenated groups = concatenating the groups of the sorted keys *)
  Theorem isort_flat_map L : Forall P L -> isort leB (flat_map g L) = flat_map g (isort leA L).
  Proof.
    induction L as [|a L IH]; intros HL; [reflexivity|]. inversion HL as [|? ? Ha HL']; subst.
    cbn [flat_map]. rewrite isort_app, (IH HL').
    rewrite (fold_insert_group a) by (intros z Hz; exact (g_key a z Ha Hz)). change (isort leA (a :: L)) with (insert leA a (isort leA L)).
    apply ins_group_flat_map. now apply isort_Forall.
  Qed.
End Groups.

Lemma In_firstn {A} n (l : list A) x : In x (firstn n l) -> In x l.
Proof.
  revert l. induction n as [|n IH]; intros l H; [destruct H|]. destruct l as [|y l]; [destruct H|].
  cbn [firstn] in H. destruct H as [->|H]; [now left|right; now apply IH].
Qed.

Section SortedPrefix.
  Context {A : Type} (le : A -> A -> bool).
  Hypothesis le_total : forall a b, le a b = false -> le b a = true.

  Lemma insert_sorted_ x l : sorted le l = true -> sorted le (insert le x l) = true.
  Proof.
    induction l as [|y t IH]; intros H; [reflexivity|]. cbn [insert].
    destruct (le x y) eqn:E.
    - cbn [sorted]. rewrite E. exact H.
    - cbn [sorted] in H. destruct t as [|z t'].
      + cbn [insert sorted]. now rewrite (le_total _ _ E).
      + apply andb_true_iff in H as [Hyz Ht]. specialize (IH Ht). cbn [insert] in *.
        destruct (le x z) eqn:E2; cbn [sorted] in *.
        * rewrite (le_total _ _ E), E2. exact Ht.
        * rewrite Hyz. exact IH.
  Qed.
  Lemma isort_sorted_ l : sorted le (isort le l) = true.
  Proof. induction l as [|x l IH]; [reflexivity|]. apply insert_sorted_. exact IH. Qed.
  Lemma sorted_tail x l : sorted le (x :: l) = true -> sorted le l = true.
  Proof. cbn [sorted]. destruct l; [reflexivity|]. intros H. now apply andb_true_iff in H as [_ H]. Qed.
  Lemma isort_of_sorted l : sorted le l = true -> isort le l = l.
  Proof.
    induction l as [|x l IH]; intros H; [reflexivity|].
    change (isort le (x :: l)) with (insert le x (isort le l)). rewrite IH by (eapply sorted_tail; exact H).
    destruct l as [|y t]; [reflexivity|]. cbn [sorted] in H. apply andb_true_iff in H as [Hxy _]. cbn [insert]. now rewrite Hxy.
  Qed.
  Lemma sorted_firstn n l : sorted le l = true -> sorted le (firstn n l) = true.
  Proof.
    revert l. induction n as [|n IH]; intros l H; [reflexivity|]. destruct l as [|x l]; [reflexivity|].
    cbn [firstn]. specialize (IH l (sorted_tail _ _ H)). destruct l as [|y t]; [destruct n; reflexivity|].
    destruct n as [|n]; [reflexivity|]. cbn [firstn sorted] in *. apply andb_true_iff in H as [Hxy _]. now rewrite Hxy.
  Qed.
End SortedPrefix.

(* ---- the law for LEFT JOIN ---- *)
Section LeftJoin.
  Variable w : nat.                          (* width of the first table *)
  Variable leR : row -> row -> bool.         (* the comparison ORDER BY denotes, on rows of the first table *)
  Hypothesis leR_refl : forall a, leR a a = true.
  Definition le_joined (x y : row) : bool := leR (firstn w x) (firstn w y).
  Definition width_ok (R : rel) : Prop := Forall (fun r : row => length r = w) R.

  Lemma firstn_w_app (r s : row) : length r = w -> firstn w (r ++ s) = r.
  Proof. intros H. rewrite firstn_app, <- H, Nat.sub_diag, firstn_all. cbn [firstn]. apply app_nil_r. Qed.

  Definition grp th ns (S : rel) (r : row) : rel :=
    match filter (th r) S with [] => [r ++ nulls ns] | m => map (fun s => r ++ s) m end.

  Lemma grp_key th ns S r z : length r = w -> In z (grp th ns S r) -> firstn w z = r.
  Proof.
    intros Hr. unfold grp. destruct (filter (th r) S) as [|s m].
    - intros [<-|[]]. now apply firstn_w_app.
    - intros Hz. apply in_map_iff in Hz as [s' [<- _]]. now apply firstn_w_app.
  Qed.
  Lemma grp_nonempty th ns S r : grp th ns S r <> [].
  Proof. unfold grp. destruct (filter (th r) S); discriminate. Qed.

  (* ORDER BY on columns of the first table commutes with a LEFT JOIN *)
  Theorem sort_through_left_join th ns (R S : rel) :
    width_ok R -> isort le_joined (join_left th ns R S) = join_left th ns (isort leR R) S.
  Proof.
    intros HW. unfold join_left.
    exact (isort_flat_map leR (firstn w) leR_refl (fun r => length r = w) (grp th ns S)
             (fun a z Ha Hz => grp_key th ns S a z Ha Hz) (fun a _ => grp_nonempty th ns S a) R HW).
  Qed.

  Hypothesis leR_total : forall a b, leR a b = false -> leR b a = true.

  (* ORDER BY <columns of the first table> LIMIT n over a LEFT JOIN: the fetch of the first table may sort and cut first,
     the outer step sorts and cuts again *)
  Theorem order_limit_through_left_join th ns n (R S : rel) :
    width_ok R ->
    firstn n (isort le_joined (join_left th ns (firstn n (isort leR R)) S)) =
    firstn n (isort le_joined (join_left th ns R S)).
  Proof.
    intros HW.
    assert (HW' : width_ok (firstn n (isort leR R))).
    { unfold width_ok. apply Forall_forall. intros r Hr. apply In_firstn in Hr.
      pose proof (isort_Forall leR (fun r => length r = w) R HW) as H. rewrite Forall_forall in H. now apply H. }
    rewrite (sort_through_left_join th ns _ S HW'), (sort_through_left_join th ns R S HW).
    rewrite (isort_of_sorted leR) by (apply sorted_firstn, isort_sorted_; exact leR_total).
    apply limit_through_left_join.
  Qed.
End LeftJoin.

(* the comparison of the fetch matters: NULLS LAST in the statement, the engine's default (NULLs first) in the fetch *)
Definition le_spec (spec : list (bool * bool)) (a b : row) : bool := kle spec a b.
Theorem order_limit_needs_the_same_comparison_refuted :
  exists th ns n (R S : rel),
    (* statement: ORDER BY c NULLS LAST LIMIT n; fetch: ORDER BY c (NULLs first, the default) LIMIT n *)
    firstn n (isort (le_joined 1 (le_spec [(false, false)])) (join_left th ns (firstn n (isort (le_spec [(false, true)]) R)) S)) <>
    firstn n (isort (le_joined 1 (le_spec [(false, false)])) (join_left th ns R S)).
Proof.
  exists (fun _ _ => true), 1, 1, [[VNull]; [VInt 1]], [[VInt 7]]. vm_compute. discriminate.
Qed.

(* ---- the comparison ORDER BY denotes (Lib/Rel.kle: direction and NULL placement per key) meets the hypotheses ---- *)
Lemma key_cmp_refl d nf x : key_cmp d nf x x = Eq.
Proof.
  destruct x as [|z|s|]; cbn; try reflexivity.
  - rewrite Z.compare_refl. now destruct d.
  - rewrite Pos.compare_refl. now destruct d.
Qed.
Lemma key_cmp_antisym d nf x y : key_cmp d nf y x = CompOpp (key_cmp d nf x y).
Proof.
  destruct x as [|a|a|], y as [|b|b|]; cbn; try reflexivity; try (now destruct nf).
  - rewrite (Z.compare_antisym a b). destruct d, (a ?= b)%Z; reflexivity.
  - rewrite (Pos.compare_antisym a b). destruct d, (a ?= b)%positive; reflexivity.
Qed.
Lemma keys_cmp_refl spec a : keys_cmp spec a a = Eq.
Proof.
  revert a. induction spec as [|[d nf] sp IH]; intros a; [reflexivity|]. destruct a as [|x a]; [reflexivity|].
  cbn [keys_cmp]. rewrite key_cmp_refl. apply IH.
Qed.
Lemma keys_cmp_antisym spec a b : keys_cmp spec b a = CompOpp (keys_cmp spec a b).
Proof.
  revert a b. induction spec as [|[d nf] sp IH]; intros a b; [reflexivity|].
  destruct a as [|x a], b as [|y b]; try reflexivity.
  cbn [keys_cmp]. rewrite (key_cmp_antisym d nf x y). destruct (key_cmp d nf x y); cbn [CompOpp]; [apply IH|reflexivity|reflexivity].
Qed.
Lemma kle_refl spec a : kle spec a a = true.
Proof. unfold kle. now rewrite keys_cmp_refl. Qed.
Lemma kle_total spec a b : kle spec a b = false -> kle spec b a = true.
Proof. unfold kle. rewrite (keys_cmp_antisym spec a b). destruct (keys_cmp spec a b); cbn; congruence. Qed.

(* keyf: the sort-key expressions of ORDER BY evaluated on a row of the first table *)
Definition le_keys (spec : list (bool * bool)) (keyf : row -> list val) (a b : row) : bool := kle spec (keyf a) (keyf b).
Theorem order_limit_through_left_join_kle spec keyf w th ns n (R S : rel) :
  width_ok w R ->
  firstn n (isort (le_joined w (le_keys spec keyf)) (join_left th ns (firstn n (isort (le_keys spec keyf) R)) S)) =
  firstn n (isort (le_joined w (le_keys spec keyf)) (join_left th ns R S)).
Proof.
  apply order_limit_through_left_join; unfold le_keys; [intros a; apply kle_refl | intros a b; apply kle_total].
Qed.
Theorem sort_through_left_join_kle spec keyf w th ns (R S : rel) :
  width_ok w R ->
  isort (le_joined w (le_keys spec keyf)) (join_left th ns R S) = join_left th ns (isort (le_keys spec keyf) R) S.
Proof. apply sort_through_left_join. intros a. apply kle_refl. Qed.

(* non-vacuity: a table of width 2 with a NULL key, NULLS LAST, LIMIT 2 *)
Example order_limit_example :
  let R := [[VInt 3; VInt 10]; [VInt 2; VNull]; [VInt 5; VInt 20]] in
  width_ok 2 R /\
  let le := le_keys [(false, false)] (fun r => [nth 1 r VNull]) in      (* ORDER BY <second column> NULLS LAST *)
  firstn 2 (isort (le_joined 2 le) (join_left (fun r s => val_eqb (hd VNull r) (hd VNull s)) 1 (firstn 2 (isort le R)) [[VInt 3]; [VInt 3]])) =
  [[VInt 3; VInt 10; VInt 3]; [VInt 3; VInt 10; VInt 3]].
Proof. split; [repeat constructor | vm_compute; reflexivity]. Qed.
Print Assumptions order_limit_through_left_join_kle.
