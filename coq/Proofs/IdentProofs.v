From Coq Require Import NArith List Bool Lia.
From MSV Require Import Lib.PyStr Model.IdentPrint.
Import ListNotations.
Local Open Scope N_scope.

Lemma take_until_app c p rest : ~ In c p -> take_until c (p ++ c :: rest) = (p, c :: rest).
Proof.
  induction p as [|x p IH]; simpl; intros H.
  - now rewrite N.eqb_refl.
  - destruct (x =? c) eqn:E; [apply N.eqb_eq in E; subst; exfalso; apply H; now left|].
    rewrite IH; [reflexivity|]. intros Hin. apply H. now right.
Qed.
Lemma take_until_end c p : ~ In c p -> take_until c p = (p, []).
Proof.
  induction p as [|x p IH]; simpl; intros H; [reflexivity|].
  destruct (x =? c) eqn:E; [apply N.eqb_eq in E; subst; exfalso; apply H; now left|].
  rewrite IH; [reflexivity|]. intros Hin. apply H. now right.
Qed.

Lemma alpha_not_special c : is_alpha_us c = true -> c <> cBT /\ c <> cDOT.
Proof. unfold is_alpha_us, cBT, cDOT, cUS. intros H. split; intros ->; vm_compute in H; discriminate. Qed.
Lemma word_not_special c : is_alpha_us c || is_digit c = true -> c <> cBT /\ c <> cDOT.
Proof. unfold is_alpha_us, is_digit, cBT, cDOT, cUS. intros H. split; intros ->; vm_compute in H; discriminate. Qed.

Lemma plain_facts p : plain p = true ->
  p <> [] /\ ~ In cDOT p /\ ~ In cBT p /\ (exists c r, p = c :: r /\ c <> cBT).
Proof.
  destruct p as [|c r]; [discriminate|]. simpl. intros H. apply andb_true_iff in H as [Hc Hr].
  destruct (alpha_not_special c Hc) as [Hb Hd]. rewrite forallb_forall in Hr.
  repeat split.
  - discriminate.
  - intros [->|Hin]; [now apply Hd|]. destruct (word_not_special _ (Hr _ Hin)) as [_ H]. now apply H.
  - intros [->|Hin]; [now apply Hb|]. destruct (word_not_special _ (Hr _ Hin)) as [H _]. now apply H.
  - exists c, r. split; [reflexivity|exact Hb].
Qed.

Section RoundTrip.
  Variable reserved : str -> bool.
  Definition ok_part (p : str) : Prop := p <> [] /\ ~ In cBT p.

  (* one part followed by the rest of the name *)
  Lemma split_step f p rest :
    ok_part p -> rest <> [] ->
    split_fuel (S f) (print_part reserved p ++ cDOT :: rest) = p :: split_fuel f rest.
  Proof.
    intros [Hne Hbt] Hr. unfold print_part. destruct (plain p && negb (reserved p)) eqn:E.
    - apply andb_true_iff in E as [Hp _]. destruct (plain_facts p Hp) as (_ & Hd & _ & c & r & -> & Hc).
      cbn [split_fuel app]. destruct (c =? cBT) eqn:Ec; [apply N.eqb_eq in Ec; congruence|].
      change (c :: r ++ cDOT :: rest) with ((c :: r) ++ cDOT :: rest). rewrite (take_until_app cDOT (c :: r) rest Hd). reflexivity.
    - cbn [split_fuel app]. rewrite N.eqb_refl. rewrite <- app_assoc. cbn [app].
      rewrite (take_until_app cBT p (cDOT :: rest) Hbt). now rewrite N.eqb_refl.
  Qed.
  Lemma split_last f p : ok_part p -> split_fuel (S f) (print_part reserved p) = [p].
  Proof.
    intros [Hne Hbt]. unfold print_part. destruct (plain p && negb (reserved p)) eqn:E.
    - apply andb_true_iff in E as [Hp _]. destruct (plain_facts p Hp) as (_ & Hd & _ & c & r & -> & Hc).
      cbn [split_fuel]. destruct (c =? cBT) eqn:Ec; [apply N.eqb_eq in Ec; congruence|].
      now rewrite (take_until_end cDOT (c :: r) Hd).
    - cbn [split_fuel]. rewrite N.eqb_refl. rewrite (take_until_app cBT p [] Hbt). reflexivity.
  Qed.

  Lemma print_parts_nonempty ps : ps <> [] -> Forall ok_part ps -> print_parts reserved ps <> [].
  Proof.
    destruct ps as [|p r]; [congruence|]. intros _ H. inversion H as [|? ? [Hne _] _]; subst.
    assert (print_part reserved p <> []) as Hp.
    { unfold print_part. destruct (plain p && negb (reserved p)); [exact Hne|discriminate]. }
    destruct r; simpl; [exact Hp|]. destruct (print_part reserved p); [congruence|discriminate].
  Qed.

  Lemma roundtrip_fuel ps : forall f, (length ps <= f)%nat -> Forall ok_part ps ->
    split_fuel f (print_parts reserved ps) = ps.
  Proof.
    induction ps as [|p r IH]; intros f Hf H.
    - destruct f; reflexivity.
    - inversion H as [|? ? Hp Hr]; subst. destruct f as [|f]; [simpl in Hf; lia|].
      destruct r as [|q r'].
      + simpl. now apply split_last.
      + change (print_parts reserved (p :: q :: r')) with (print_part reserved p ++ cDOT :: print_parts reserved (q :: r')).
        rewrite split_step; [|exact Hp|apply print_parts_nonempty; [discriminate|exact Hr]].
        rewrite IH; [reflexivity|simpl in *; lia|exact Hr].
  Qed.

  Lemma length_print_part p : (1 <= length (print_part reserved p))%nat \/ p = [].
  Proof. unfold print_part. destruct (plain p && negb (reserved p)); [destruct p; [now right|left; simpl; lia]|left; simpl; lia]. Qed.

  Lemma length_parts ps : Forall ok_part ps -> (length ps <= length (print_parts reserved ps))%nat.
  Proof.
    induction ps as [|p r IH]; intros H; [simpl; lia|]. inversion H as [|? ? [Hne _] Hr]; subst.
    destruct (length_print_part p) as [Hl|He]; [|congruence].
    destruct r as [|q r']; [simpl; lia|].
    change (print_parts reserved (p :: q :: r')) with (print_part reserved p ++ cDOT :: print_parts reserved (q :: r')).
    rewrite app_length. cbn [length]. specialize (IH Hr). cbn [length] in *. lia.
  Qed.

  (* printing a name and reading it back gives the same parts, for EVERY list of non-empty parts
     without a back quote: keywords, spaces, dots, digits first, any other character *)
  Theorem print_then_read ps : Forall ok_part ps -> split_parts (print_parts reserved ps) = ps.
  Proof. intros H. unfold split_parts. apply roundtrip_fuel; [|exact H]. pose proof (length_parts ps H). lia. Qed.
End RoundTrip.

(* a back quote inside a part cannot be printed: the name reads back differently *)
Theorem backquote_in_part_refuted :
  exists reserved ps, split_parts (print_parts reserved ps) <> ps.
Proof. exists (fun _ => false), [[97; 96; 98]]. vm_compute. discriminate. Qed.

Example print_example :
  print_parts (fun p => str_eqb p [115; 101; 108; 101; 99; 116]) [[97]; [115; 101; 108; 101; 99; 116]; [97; 32; 46; 98]] =
  [97; 46; 96; 115; 101; 108; 101; 99; 116; 96; 46; 96; 97; 32; 46; 98; 96].
Proof. reflexivity. Qed.
