From Coq Require Import NArith ZArith List Bool Lia ZifyBool.
From MSV Require Import Lib.PyStr Model.LexErr.
Import ListNotations.

Lemma scan_past lines : forall idx shift i acc, (idx < shift)%Z -> scan lines idx shift i acc = acc.
Proof.
  induction lines as [|x r IH]; intros idx shift i acc H; cbn [scan]; [reflexivity|].
  destruct (0 <=? idx - shift)%Z eqn:E; [lia|]. cbn [andb]. apply IH. lia.
Qed.

Lemma scan_finds lines : forall l c shift i acc,
  l < length lines -> c < length (nth l lines []) ->
  scan lines (shift + Z.of_nat (pos_of lines l c)) shift i acc = ((i + l)%nat, Z.of_nat c).
Proof.
  induction lines as [|x r IH]; intros l c shift i acc Hl Hc; [cbn in Hl; lia|].
  destruct l as [|l'].
  - cbn [pos_of nth] in *. cbn [scan].
    replace (shift + Z.of_nat c - shift)%Z with (Z.of_nat c) by lia.
    destruct (0 <=? Z.of_nat c)%Z eqn:E1; [|lia].
    destruct (Z.of_nat c <? Z.of_nat (length x))%Z eqn:E2; [|lia]. cbn [andb].
    rewrite scan_past by lia. f_equal. lia.
  - cbn [pos_of nth] in *. cbn [scan]. cbn [length] in Hl.
    destruct ((0 <=? shift + Z.of_nat (length x + 1 + pos_of r l' c) - shift)%Z &&
              (shift + Z.of_nat (length x + 1 + pos_of r l' c) - shift <? Z.of_nat (length x))%Z) eqn:E.
    + apply andb_true_iff in E. destruct E as [_ E]. lia.
    + replace (shift + Z.of_nat (length x + 1 + pos_of r l' c))%Z
        with ((shift + Z.of_nat (length x) + 1) + Z.of_nat (pos_of r l' c))%Z by lia.
      rewrite IH by lia. f_equal. lia.
Qed.

(* the character at that absolute index of the joined text is the character at (l, c) *)
Lemma join_nth lines : forall l c, l < length lines -> c < length (nth l lines []) ->
  nth_error (join_nl lines) (pos_of lines l c) = nth_error (nth l lines []) c.
Proof.
  induction lines as [|x r IH]; intros l c Hl Hc; [cbn in Hl; lia|].
  destruct l as [|l'].
  - cbn [pos_of nth] in *. destruct r as [|y r']; cbn [join_nl]; [reflexivity|].
    rewrite nth_error_app1 by lia. reflexivity.
  - cbn [pos_of nth] in *. cbn [length] in Hl.
    destruct r as [|y r']; [cbn in Hl; lia|].
    change (join_nl (x :: y :: r')) with (x ++ cNL :: join_nl (y :: r')).
    rewrite nth_error_app2 by lia.
    replace (length x + 1 + pos_of (y :: r') l' c - length x) with (S (pos_of (y :: r') l' c)) by lia.
    cbn [nth_error]. apply IH; lia.
Qed.

(* split undoes join on lines that contain no newline *)
Lemma split_aux_app cur x : forall rest, no_nl x = true ->
  split_nl_aux cur (x ++ cNL :: rest) = (rev cur ++ x) :: split_nl_aux [] rest.
Proof.
  revert cur. induction x as [|c x IH]; intros cur rest H.
  - cbn. rewrite app_nil_r. reflexivity.
  - cbn [no_nl forallb] in H. apply andb_true_iff in H. destruct H as [Hc Hx].
    cbn [app split_nl_aux]. destruct (N.eqb c cNL); [discriminate|].
    rewrite IH by exact Hx. cbn [rev]. rewrite <- app_assoc. reflexivity.
Qed.

Lemma split_aux_last cur x : no_nl x = true -> split_nl_aux cur x = [rev cur ++ x].
Proof.
  revert cur. induction x as [|c x IH]; intros cur H.
  - cbn. rewrite app_nil_r. reflexivity.
  - cbn [no_nl forallb] in H. apply andb_true_iff in H. destruct H as [Hc Hx].
    cbn [split_nl_aux]. destruct (N.eqb c cNL); [discriminate|].
    rewrite IH by exact Hx. cbn [rev]. rewrite <- app_assoc. reflexivity.
Qed.

Lemma split_join lines : lines <> [] -> forallb no_nl lines = true -> split_nl (join_nl lines) = lines.
Proof.
  induction lines as [|x r IH]; intros Hne H; [congruence|].
  cbn [forallb] in H. apply andb_true_iff in H. destruct H as [Hx Hr].
  destruct r as [|y r'].
  - cbn [join_nl]. unfold split_nl. rewrite split_aux_last by exact Hx. reflexivity.
  - change (join_nl (x :: y :: r')) with (x ++ cNL :: join_nl (y :: r')).
    unfold split_nl. rewrite split_aux_app by exact Hx. cbn [rev app]. f_equal.
    apply IH; [congruence|exact Hr].
Qed.

(* the text shown: the line of the error is the last line shown, the line before it is shown when there is one *)
Lemma context_last lines el : el < length lines ->
  exists pre, context lines el = pre ++ [nth el lines []] /\
              (el = 0 -> pre = []) /\ (0 < el -> pre = [nth (el - 1) lines []]).
Proof.
  intros H. unfold context. destruct el as [|e].
  - cbn [Nat.sub skipn]. destruct lines as [|x r]; [cbn in H; lia|]. exists []. cbn. repeat split; auto; lia.
  - replace (S (S e) - (S e - 1)) with 2 by lia. replace (S e - 1) with e by lia.
    revert lines H. induction e as [|e IH]; intros lines H.
    + destruct lines as [|x [|y r]]; cbn in H; try lia. exists [x]. cbn. repeat split; auto; lia.
    + destruct lines as [|x r]; [cbn in H; lia|]. cbn [length] in H.
      destruct (IH r ltac:(lia)) as [pre [E [_ P]]].
      exists pre. cbn [skipn]. split; [rewrite E; reflexivity|]. split; [lia|].
      intros _. rewrite (P ltac:(lia)). replace (S e - 0) with (S e) by lia.
      replace (S (S e) - 1) with (S e) by lia. cbn [nth]. replace (S e - 1) with e by lia. reflexivity.
Qed.

Lemma nth_error_repeat_app {A} (a b : A) n : nth_error (repeat a n ++ [b]) n = Some b.
Proof. rewrite nth_error_app2 by (rewrite repeat_length; lia). rewrite repeat_length, Nat.sub_diag. reflexivity. Qed.

(* Main statement.  For a text made of lines without newline characters and an offending character at
   column c of line l: the report ends with the line of the error behind '>', preceded by the line before
   it when there is one, then the caret line; the caret stands exactly under the offending character. *)
Theorem lexer_report_points_at_the_character lines l c ch :
  forallb no_nl lines = true -> l < length lines -> nth_error (nth l lines []) c = Some ch ->
  let text := join_nl lines in
  let idx := pos_of lines l c in
  nth_error text idx = Some ch /\
  exists pre caret,
    report text idx = map (fun x => cGT :: x) pre ++ [cGT :: nth l lines []; caret] /\
    (l = 0 -> pre = []) /\ (0 < l -> pre = [nth (l - 1) lines []]) /\
    nth_error caret (S c) = Some cCARET /\ nth_error (cGT :: nth l lines []) (S c) = Some ch /\
    length caret = S (S c).
Proof.
  intros Hnl Hl Hch text idx.
  assert (Hc : c < length (nth l lines [])) by (apply nth_error_Some; congruence).
  split; [unfold text, idx; rewrite join_nth by assumption; exact Hch|].
  assert (Hne : lines <> []) by (destruct lines; [cbn in Hl; lia|congruence]).
  unfold report, locate. unfold text at 1 2. rewrite split_join by assumption.
  unfold idx. pose proof (scan_finds lines l c 0%Z O (O, 0%Z) Hl Hc) as Hs.
  cbn [Z.add Nat.add] in Hs. rewrite Hs.
  destruct (context_last lines l Hl) as [pre [E [P0 P1]]].
  exists pre, (repeat cDASH (Z.to_nat (Z.of_nat c) + 1) ++ [cCARET]).
  rewrite E, map_app, <- app_assoc. cbn [map app].
  rewrite Nat2Z.id. replace (c + 1) with (S c) by lia.
  repeat split; auto.
  - apply nth_error_repeat_app.
  - rewrite app_length, repeat_length. cbn. lia.
Qed.

Example report_example :
  report [115;101;108;32;35;10;102;114;111;109]%N 4 = [[62;115;101;108;32;35]%N; [45;45;45;45;45;94]%N].
Proof. vm_compute. reflexivity. Qed.
