From Coq Require Import PArith NArith List Bool Lia.
From MSV Require Import Lib.PyStr Model.Resolve Model.ModelJoin.
Import ListNotations.
Local Open Scope positive_scope.

(* ---------- WHERE: fetch filters ---------- *)
Lemma of_alias_In a l x : In x (of_alias a l) <-> In x l /\ cmp_alias x = a.
Proof. unfold of_alias. rewrite filter_In. now rewrite Pos.eqb_eq. Qed.

Lemma conj_cmps_In c x :
  In x (conj_cmps c) <-> In (CCmp (fst (fst (fst x))) (snd (fst (fst x))) (snd (fst x)) (snd x)) (conjuncts c).
Proof.
  unfold conj_cmps. rewrite in_flat_map. destruct x as [[[op a] col] v]. simpl. split.
  - intros [y [Hy Hx]]. destruct y; try contradiction. destruct Hx as [[= -> -> -> ->]|[]]. exact Hy.
  - intros H. eexists. split; [exact H|]. now left.
Qed.

(* every filter pushed into a table's fetch is a top-level conjunct of WHERE on that table's alias *)
Theorem pushed_sound c a op al col v :
  In (op, al, col, v) (pushed c a) -> In (CCmp op al col v) (conjuncts c) /\ al = a.
Proof.
  unfold pushed. destruct (has_or c); [contradiction|]. intros H. apply filter_In in H as [H _]. apply of_alias_In in H as [H Ha].
  apply conj_cmps_In in H. simpl in H. split; [exact H|exact Ha].
Qed.

(* and when no OR occurs anywhere, all of them are pushed, except IS NULL *)
Theorem pushed_complete c a : has_or c = false -> pushed c a = filter not_isnull (pushed_spec c a).
Proof. intros H. unfold pushed, pushed_spec. now rewrite H. Qed.

(* ---------- WHERE: model arguments ---------- *)
Lemma consumed_spec tgt m op a col v :
  consumed tgt m (op, a, col, v) = true <-> op = OEq /\ a = m /\ ~ In col tgt.
Proof.
  unfold consumed. split.
  - destruct op; try discriminate. intros H. apply andb_true_iff in H as [Ha Ht].
    apply Pos.eqb_eq in Ha. repeat split; auto. intros Hin. apply negb_true_iff in Ht.
    assert (existsb (Pos.eqb col) tgt = true) as E.
    { apply existsb_exists. exists col. split; [exact Hin|apply Pos.eqb_refl]. }
    congruence.
  - intros (-> & -> & Ht). rewrite Pos.eqb_refl. simpl. apply negb_true_iff.
    destruct (existsb (Pos.eqb col) tgt) eqn:E; [|reflexivity]. exfalso. apply Ht.
    apply existsb_exists in E as [y [Hy Hc]]. apply Pos.eqb_eq in Hc. now subst.
Qed.

(* the arguments are exactly the top-level `col = const` conjuncts on the model's own alias whose
   column is not the predicted one: nothing under NOT / OR / a function, nothing on a table alias *)
Theorem args_characterised c m tgt col v :
  In (col, v) (row_dict c m tgt) <-> In (CCmp OEq m col v) (conjuncts c) /\ ~ In col tgt.
Proof.
  unfold row_dict. rewrite in_map_iff. split.
  - intros [[[[op a] c'] v'] [Hx Hin]]. simpl in Hx. injection Hx as <- <-.
    apply filter_In in Hin as [Hin Hc]. apply consumed_spec in Hc as (-> & -> & Ht).
    apply conj_cmps_In in Hin. simpl in Hin. auto.
  - intros [Hin Ht]. exists (OEq, m, col, v). split; [reflexivity|]. apply filter_In. split.
    + apply conj_cmps_In. exact Hin.
    + apply consumed_spec. auto.
Qed.

Theorem table_conditions_never_args c m tgt col v :
  In (col, v) (row_dict c m tgt) -> forall op a v', a <> m -> (op, a, col, v') <> (OEq, m, col, v).
Proof. intros _ op a v' Hne [= _ Ha _]. contradiction. Qed.

(* ---------- WHERE: the outer condition ---------- *)
Lemma tv_and_TT_l x : tv_and TT x = x.  Proof. destruct x; reflexivity. Qed.
Lemma tv_and_TT_r x : tv_and x TT = x.  Proof. destruct x; reflexivity. Qed.
Lemma tv_and_assoc x y z : tv_and x (tv_and y z) = tv_and (tv_and x y) z.
Proof. destruct x, y, z; reflexivity. Qed.

Definition conj_eval (l : list tv) : tv := fold_right tv_and TT l.
Lemma conj_eval_app l1 l2 : conj_eval (l1 ++ l2) = tv_and (conj_eval l1) (conj_eval l2).
Proof.
  induction l1 as [|x l1 IH].
  - change (conj_eval ([] ++ l2)) with (conj_eval l2). change (conj_eval []) with TT. now rewrite tv_and_TT_l.
  - change (conj_eval ((x :: l1) ++ l2)) with (tv_and x (conj_eval (l1 ++ l2))).
    change (conj_eval (x :: l1)) with (tv_and x (conj_eval l1)). now rewrite IH, tv_and_assoc.
Qed.

(* after process_predictor the outer condition evaluates as the conjunction of exactly the
   conjuncts that were not consumed: consumed ones no longer filter, all others still do *)
Theorem neutralised_evaluates_remaining env cols oth w1 w2 c m tgt :
  ceval env cols oth w1 w2 (neutralise c m tgt) =
  conj_eval (map (ceval env cols oth w1 w2) (remaining c m tgt)).
Proof.
  unfold remaining. induction c; cbn [neutralise ceval conjuncts filter consumed_conj negb map conj_eval fold_right];
    try (now rewrite tv_and_TT_r).
  - rewrite IHc1, IHc2, filter_app, map_app, conj_eval_app. reflexivity.
  - destruct (consumed tgt m (op, alias, col, val)); cbn; [reflexivity|now rewrite tv_and_TT_r].
Qed.

(* and syntactically: the remaining conjuncts of the neutralised condition are the original ones *)
Definition is_true_c (c : cond) : bool := match c with CTrue => true | _ => false end.
Theorem neutralised_conjuncts c m tgt :
  (forall x, In x (conjuncts c) -> x <> CTrue) ->
  filter (fun x => negb (is_true_c x)) (conjuncts (neutralise c m tgt)) = remaining c m tgt.
Proof.
  unfold remaining. induction c; intros H; cbn [neutralise conjuncts]; try reflexivity.
  - rewrite !filter_app. cbn [conjuncts] in H. rewrite IHc1, IHc2; auto; intros x Hx; apply H, in_app_iff; auto.
  - cbn [filter consumed_conj]. destruct (consumed tgt m (op, alias, col, val)); reflexivity.
  - exfalso. apply (H CTrue); [now left|reflexivity].
Qed.

(* ---------- ON clauses ---------- *)
Theorem pushed_on_sound j c a op al col v :
  In (op, al, col, v) (pushed_on j c a) ->
  push_safe j = true /\ In (CCmp op al col v) (conjuncts c) /\ al = a /\ (op = OEq \/ op = OEqRev).
Proof.
  unfold pushed_on. destruct (push_safe j); [|contradiction]. destruct (on_blocked c); [contradiction|].
  cbn [andb negb]. intros H. apply of_alias_In in H as [H Ha]. apply filter_In in H as [H He].
  apply conj_cmps_In in H. simpl in H. repeat split; auto.
  destruct op; simpl in He; auto; discriminate.
Qed.

Lemma eq_and_tree_not_blocked c : eq_and_tree c = true -> on_blocked c = false.
Proof.
  induction c; simpl; intros H; try discriminate; auto.
  - apply andb_true_iff in H as [H1 H2]. now rewrite IHc1, IHc2.
  - destruct op; auto; discriminate.
  - destruct eq; auto; discriminate.
  - destruct blocks; auto; discriminate.
Qed.
Theorem pushed_on_complete j c a : eq_and_tree c = true -> pushed_on j c a = pushed_on_spec j c a.
Proof.
  intros H. unfold pushed_on, pushed_on_spec. rewrite (eq_and_tree_not_blocked c H).
  destruct (push_safe j); reflexivity.
Qed.

Lemma colpairs_eq_and_tree c : eq_and_tree c = true -> colpairs c = conj_colpairs c.
Proof.
  induction c; simpl; intros H; try discriminate; try reflexivity.
  - apply andb_true_iff in H as [H1 H2]. unfold conj_colpairs in *. simpl.
    rewrite flat_map_app. now rewrite IHc1, IHc2.
  - destruct eq; [reflexivity|discriminate].
Qed.
Theorem colmap_is_top_equalities c m : eq_and_tree c = true -> colmap c m = colmap_spec c m.
Proof. intros H. unfold colmap, colmap_spec. now rewrite (colpairs_eq_and_tree c H). Qed.
(* (the mapping is built from every column-column operator anywhere in the ON clause) *)
Example colmap_takes_any_operator : colmap (CCols false 1 2 9 3) 9 = [(3, (1, 2))].
Proof. reflexivity. Qed.

(* non-vacuity *)
Example where_example :
  let c := CAnd (CCmp OEq 9 2 3) (CAnd (CNot (CCmp OEq 9 4 5)) (CAnd (CCmp OBin 1 4 5) (COther 7 false))) in
  row_dict c 9 [] = [(2, 3)] /\ pushed c 1 = [(OBin, 1, 4, 5)] /\
  remaining c 9 [] = [CNot (CCmp OEq 9 4 5); CCmp OBin 1 4 5; COther 7 false].
Proof. repeat split; reflexivity. Qed.

(* ---------- USING ---------- *)
Theorem using_plain_key_reaches_model al opts k v :
  In (k, v) opts -> split_dot k = None -> str_eqb (lower k) partition_size = false ->
  In (lower k, v) (model_params al opts).
Proof.
  intros Hin Hd Hp. unfold model_params. apply filter_In. split.
  - unfold using_all. apply in_flat_map. exists (k, v). split; [exact Hin|].
    unfold using_one. simpl. rewrite Hd. now left.
  - simpl. now rewrite Hp.
Qed.

Theorem using_params_come_from_options al opts k' v :
  In (k', v) (model_params al opts) ->
  exists k, In (k, v) opts /\
    ((split_dot k = None /\ k' = lower k) \/
     (exists a r, split_dot k = Some (a, r) /\ mem_str a al = true /\ k' = lower r)).
Proof.
  unfold model_params. intros H. apply filter_In in H as [H _]. unfold using_all in H.
  apply in_flat_map in H as [[k v0] [Hin H]]. unfold using_one in H. simpl in H.
  destruct (split_dot k) as [[a r]|] eqn:E.
  - destruct (mem_str a al) eqn:Em; [|contradiction]. destruct H as [[= <- <-]|[]].
    exists k. split; [exact Hin|]. right. exists a, r. auto.
  - destruct H as [[= <- <-]|[]]. exists k. split; [exact Hin|]. now left.
Qed.

(* ---------- which data a model is applied to ---------- *)
Inductive cov (steps : list step) : nat -> list nat -> Prop :=
| cov_fetch k r : nth_error steps k = Some (SFetch r) -> cov steps k [r]
| cov_apply k r i : nth_error steps k = Some (SApply r i) -> cov steps k [r]
| cov_join k l r cl cr : nth_error steps k = Some (SJoin l r) -> cov steps l cl -> cov steps r cr ->
                         cov steps k (cl ++ cr).

Lemma nth_error_app_some {A} (l l' : list A) k v : nth_error l k = Some v -> nth_error (l ++ l') k = Some v.
Proof.
  intros H. rewrite nth_error_app1; [exact H|]. apply nth_error_Some. congruence.
Qed.
Lemma cov_app steps extra k l : cov steps k l -> cov (steps ++ extra) k l.
Proof.
  induction 1.
  - eapply cov_fetch. now apply nth_error_app_some.
  - eapply cov_apply. eapply nth_error_app_some; eassumption.
  - eapply cov_join; eauto. now apply nth_error_app_some.
Qed.
Lemma nth_error_last {A} (l : list A) x : nth_error (l ++ [x]) (length l) = Some x.
Proof. rewrite nth_error_app2 by lia. now rewrite PeanoNat.Nat.sub_diag. Qed.

Definition PInv (s : pstate) : Prop :=
  let '(steps, stack, nref) := s in
  (exists top, stack = [top] /\ cov steps top (seq 0 nref)) /\
  (forall k r i, nth_error steps k = Some (SApply r i) -> cov steps i (seq 0 r)).

Lemma applies_app steps x :
  (forall k r i, nth_error steps k = Some (SApply r i) -> cov steps i (seq 0 r)) ->
  (forall r i, x = SApply r i -> cov steps i (seq 0 r)) ->
  forall k r i, nth_error (steps ++ [x]) k = Some (SApply r i) -> cov (steps ++ [x]) i (seq 0 r).
Proof.
  intros Hold Hnew k r i Hk. destruct (PeanoNat.Nat.lt_ge_cases k (length steps)) as [Hlt|Hge].
  - rewrite nth_error_app1 in Hk by exact Hlt. apply cov_app. eapply Hold; eauto.
  - rewrite nth_error_app2 in Hk by exact Hge. destruct (k - length steps)%nat as [|n] eqn:E; simpl in Hk.
    + injection Hk as ->. apply cov_app. now apply Hnew.
    + destruct n; discriminate.
Qed.

Lemma pair_preserves s b :
  PInv s -> exists s', prun s [ref_item b; IJoin] = Some s' /\ PInv s'.
Proof.
  destruct s as [[steps stack] nref]. intros [[top [-> Hc]] Happ]. destruct b; cbn [ref_item prun pstep].
  - (* model *)
    rewrite app_length. cbn [length]. eexists. split; [reflexivity|]. split.
    + eexists. split; [reflexivity|]. rewrite seq_S. simpl.
      replace (length steps + 1)%nat with (length (steps ++ [SApply nref top])) by (rewrite app_length; reflexivity).
      eapply cov_join; [apply nth_error_last| |].
      * apply cov_app, cov_app. exact Hc.
      * apply cov_app. eapply cov_apply. apply nth_error_last.
    + apply applies_app; [|discriminate]. apply applies_app; [exact Happ|].
      intros r i [= <- <-]. exact Hc.
  - (* table *)
    rewrite app_length. cbn [length]. eexists. split; [reflexivity|]. split.
    + eexists. split; [reflexivity|]. rewrite seq_S. simpl.
      replace (length steps + 1)%nat with (length (steps ++ [SFetch nref])) by (rewrite app_length; reflexivity).
      eapply cov_join; [apply nth_error_last| |].
      * apply cov_app, cov_app. exact Hc.
      * apply cov_app. eapply cov_fetch. apply nth_error_last.
    + apply applies_app; [|discriminate]. apply applies_app; [exact Happ|discriminate].
Qed.

Lemma prun_app s a b : prun s (a ++ b) = match prun s a with Some s' => prun s' b | None => None end.
Proof. revert s; induction a as [|x a IH]; intros s; simpl; [reflexivity|]. destruct (pstep s x); auto. Qed.

Lemma pairs_preserve rest : forall s, PInv s ->
  exists s', prun s (flat_map (fun b => [ref_item b; IJoin]) rest) = Some s' /\ PInv s'.
Proof.
  induction rest as [|b rest IH]; intros s H.
  - exists s. split; [reflexivity|exact H].
  - cbn [flat_map]. rewrite prun_app. destruct (pair_preserves s b H) as [s1 [E1 H1]]. rewrite E1. now apply IH.
Qed.

(* every model reference of a join that starts with a table is applied to exactly the join of all
   the references before it *)
Theorem model_input_is_preceding_data rest :
  exists steps top n, prun ([], [], O) (join_seq false rest) = Some (steps, [top], n) /\
    forall k r i, nth_error steps k = Some (SApply r i) -> cov steps i (seq 0 r).
Proof.
  unfold join_seq. cbn [ref_item prun pstep length app].
  assert (PInv ([SFetch 0], [0%nat], 1%nat)) as H0.
  { split.
    - exists 0%nat. split; [reflexivity|]. simpl. eapply cov_fetch. reflexivity.
    - intros [|[|k]] r i Hk; simpl in Hk; discriminate. }
  destruct (pairs_preserve rest _ H0) as [[[steps stack] n] [E [[top [-> Hc]] Happ]]].
  exists steps, top, n. split; [exact E|exact Happ].
Qed.

(* one apply step per model reference *)
Definition is_apply (s : step) : bool := match s with SApply _ _ => true | _ => false end.
Lemma pair_counts s b s' : prun s [ref_item b; IJoin] = Some s' ->
  length (filter is_apply (fst (fst s'))) = (length (filter is_apply (fst (fst s))) + if b then 1 else 0)%nat.
Proof.
  destruct s as [[steps stack] nref]. destruct b; cbn [ref_item prun pstep]; destruct stack as [|t [|t2 r]];
    try discriminate; cbn; intros [= <-]; cbn; rewrite !filter_app; cbn; rewrite !app_length; cbn; lia.
Qed.
Theorem one_apply_per_model rest : forall s s',
  prun s (flat_map (fun b => [ref_item b; IJoin]) rest) = Some s' ->
  length (filter is_apply (fst (fst s'))) = (length (filter is_apply (fst (fst s))) + length (filter (fun b => b) rest))%nat.
Proof.
  induction rest as [|b rest IH]; intros s s' H.
  - cbn in H. injection H as <-. cbn. lia.
  - cbn [flat_map] in H. rewrite prun_app in H. destruct (prun s [ref_item b; IJoin]) as [s1|] eqn:E; [|discriminate].
    rewrite (IH _ _ H), (pair_counts _ _ _ E). destruct b; cbn; lia.
Qed.
