From Coq Require Import PArith List Bool Arith Lia.
From MSV Require Import Model.Walk Model.Params Proofs.WalkProofs.
Import ListNotations.

Theorem params_textual cP S Q t :
  okb S Q t = true -> is_none t = false -> params cP S t = params_spec cP t.
Proof. intros H1 H2. unfold params, params_spec. now rewrite (walk_is_spec S Q t H1 H2). Qed.

Theorem fill_textual cP cC vb S Q t :
  okb S Q t = true -> is_none t = false -> fill cP cC vb S t = fill_spec cP cC vb t.
Proof. intros H1 H2. unfold fill, fill_spec. now rewrite (params_textual cP S Q t H1 H2). Qed.

(* protocol: a wrong number of values is always answered with PlanningException, whatever
   happened before, and the statement stays prepared *)
Lemma wrong_count again s n k :
  s = PPrepared n -> k <> n -> pstep again s (CExecute (Some k)) = (PPrepared n, OutPlanningException).
Proof. intros -> H. simpl. destruct (Nat.eqb k n) eqn:E; [apply Nat.eqb_eq in E; contradiction|reflexivity]. Qed.

(* if re-executing an executed statement raises PlanningException, no call sequence ever ends in
   an internal error *)
Theorem no_internal_error h : forall s,
  Forall (fun o => o <> OutInternalError) (prun OutPlanningException s h).
Proof.
  induction h as [|c r IH]; intros s; simpl; [constructor|].
  destruct (pstep OutPlanningException s c) as [s' o] eqn:E. constructor; [|apply IH].
  destruct c as [n|[k|]]; simpl in E.
  - injection E as _ <-. discriminate.
  - destruct s as [|n|]; try (destruct (Nat.eqb k n)); injection E as _ <-; discriminate.
  - destruct s; injection E as _ <-; discriminate.
Qed.

Theorem internal_error_refuted :
  exists h, In OutInternalError (prun OutInternalError PNone h).
Proof. exists [CPrepare 1; CExecute (Some 1); CExecute (Some 1)]. simpl. auto. Qed.
