From Coq Require Import PArith List Bool.
From MSV Require Import Model.Fallback.
Import ListNotations.

Lemma exc_eqb_eq a b : exc_eqb a b = true <-> a = b.
Proof.
  destruct a, b; simpl; split; intros H; try discriminate; try reflexivity; try congruence.
  - apply Pos.eqb_eq in H. now subst.
  - injection H as ->. apply Pos.eqb_refl.
Qed.
Lemma mem_exc_in e l : mem_exc e l = true <-> In e l.
Proof.
  unfold mem_exc. rewrite existsb_exists. split.
  - intros [x [Hx He]]. apply exc_eqb_eq in He. now subst.
  - intros H. exists e. split; [exact H|]. now apply exc_eqb_eq.
Qed.

(* with fallback the call raises exactly when the (converted) exception is outside the tuple *)
Theorem fallback_raises_iff caught raw e :
  outer caught true raw = Raises e <-> raw = Some e /\ ~ In e caught.
Proof.
  unfold outer. destruct raw as [x|]; [|split; [discriminate|intros [H _]; discriminate]].
  destruct (mem_exc x caught) eqn:E.
  - split; [discriminate|]. intros [[= ->] Hn]. apply mem_exc_in in E. contradiction.
  - split.
    + intros [= ->]. split; [reflexivity|]. intros Hin. apply mem_exc_in in Hin. congruence.
    + intros [[= ->] _]. reflexivity.
Qed.

(* the contract for EVERY outcome of the translation, whatever class it raises: with the inner
   handler converting unknown classes and the tuple (SQLAlchemyError, NotImplementedError) *)
Definition std := [ESqlAlchemy; ENotImplemented].
Theorem contract_holds raw :
  allowed_with_fallback (get_string std true std true raw) = true /\
  allowed_without_fallback (get_string std true std false raw) = true.
Proof. destruct raw as [[| |c]|]; split; reflexivity. Qed.

(* without the conversion the contract holds only if the translation raises nothing else *)
Theorem contract_without_conversion raw :
  (forall c, raw <> Some (EOther c)) ->
  allowed_with_fallback (get_string std false std true raw) = true /\
  allowed_without_fallback (get_string std false std false raw) = true.
Proof.
  intros H. destruct raw as [[| |c]|]; try (split; reflexivity). exfalso. now apply (H c).
Qed.
Theorem other_class_escapes_without_conversion c fb :
  get_string std false std fb (Some (EOther c)) = Raises (EOther c).
Proof. destruct fb; reflexivity. Qed.
