From Coq Require Import NArith List Bool Lia.
From MSV Require Import Lib.PyStr Spec.Literal Model.Literal.
Import ListNotations.
Local Open Scope N_scope.

(* replace with a one-character pattern is a character-wise map *)
Lemma replace1 c new s :
  replace [c] new s = flat_map (fun x => if N.eqb c x then new else [x]) s.
Proof.
  unfold replace. induction s as [|x s IH]; simpl; auto.
  destruct (N.eqb c x); simpl; now rewrite IH.
Qed.

Lemma str_eqb_eq a b : str_eqb a b = true -> a = b.
Proof.
  revert b. induction a as [|x a IH]; intros [|y b] H; simpl in H; try discriminate; auto.
  apply andb_true_iff in H as [H1 H2]. apply N.eqb_eq in H1. subst. f_equal. auto.
Qed.

Lemma K_doubling_ok p : K_doubling p = true -> p = ([cQ], [cQ; cQ]).
Proof.
  unfold K_doubling, pair_eqb. destruct p as [a b]. simpl. intros H.
  apply andb_true_iff in H as [H1 H2]. apply str_eqb_eq in H1. apply str_eqb_eq in H2. now subst.
Qed.
Lemma K_backslash_ok p : K_backslash p = true -> p = ([cQ], [cBS; cQ]).
Proof.
  unfold K_backslash, pair_eqb. destruct p as [a b]. simpl. intros H.
  apply andb_true_iff in H as [H1 H2]. apply str_eqb_eq in H1. apply str_eqb_eq in H2. now subst.
Qed.

Opaque cQ cBS cDQ.

Definition not_quote_next (rest : str) : Prop :=
  match rest with c :: _ => c <> cQ | [] => True end.

(* ---------- quote doubling vs the standard scanner: all values ---------- *)
Lemma std_body v : forall acc rest, not_quote_next rest ->
  scan_std_body (flat_map (fun x => if N.eqb cQ x then [cQ; cQ] else [x]) v ++ cQ :: rest) acc
  = Some (rev acc ++ v, rest).
Proof.
  induction v as [|x v IH]; intros acc rest Hr.
  - simpl. destruct rest as [|c r]; [now rewrite app_nil_r|].
    simpl in Hr. destruct (N.eqb c cQ) eqn:E; [apply N.eqb_eq in E; contradiction|].
    now rewrite app_nil_r.
  - simpl flat_map. destruct (N.eqb cQ x) eqn:E.
    + apply N.eqb_eq in E. subst x. simpl. rewrite IH by auto. simpl. now rewrite <- app_assoc.
    + simpl. rewrite N.eqb_sym, E. rewrite IH by auto. simpl. now rewrite <- app_assoc.
Qed.

Theorem std_inert v rest :
  not_quote_next rest -> scan_std (render_sa v ++ rest) = Some (v, rest).
Proof.
  intros Hr. unfold render_sa, quote_with. simpl. rewrite replace1.
  rewrite <- app_assoc. simpl. now rewrite std_body.
Qed.

(* ---------- quote doubling vs a backslash-aware scanner ---------- *)
Lemma cq_bs : N.eqb cQ cBS = false. Proof. reflexivity. Qed.
Lemma cq_cq : N.eqb cQ cQ = true. Proof. reflexivity. Qed.

Lemma bs_body_end acc rest : not_quote_next rest ->
  scan_bs_body cQ (cQ :: rest) acc = Some (rev acc, rest).
Proof.
  intros Hr. cbn [scan_bs_body]. rewrite cq_bs, cq_cq.
  destruct rest as [|c r]; [reflexivity|].
  simpl in Hr. destruct (N.eqb c cQ) eqn:E; [apply N.eqb_eq in E; contradiction|]. reflexivity.
Qed.

Lemma bs_body_dbl v : forall acc rest, ~ In cBS v -> not_quote_next rest ->
  scan_bs_body cQ (flat_map (fun x => if N.eqb cQ x then [cQ; cQ] else [x]) v ++ cQ :: rest) acc
  = Some (rev acc ++ v, rest).
Proof.
  induction v as [|x v IH]; intros acc rest Hb Hr.
  - cbn [flat_map app]. rewrite bs_body_end by auto. now rewrite app_nil_r.
  - assert (Hx : x <> cBS) by (intros ->; apply Hb; now left).
    assert (Hv : ~ In cBS v) by (intros H; apply Hb; now right).
    cbn [flat_map]. destruct (N.eqb cQ x) eqn:E.
    + apply N.eqb_eq in E. subst x. cbn [app scan_bs_body]. rewrite cq_bs, cq_cq.
      cbn [andb]. rewrite IH by auto. cbn [rev]. now rewrite <- app_assoc.
    + cbn [app scan_bs_body].
      destruct (N.eqb x cBS) eqn:E2; [apply N.eqb_eq in E2; contradiction|].
      rewrite N.eqb_sym, E. rewrite IH by auto. cbn [rev]. now rewrite <- app_assoc.
Qed.

Theorem bs_inert_guarded v rest :
  ~ In cBS v -> not_quote_next rest -> scan_bs (render_sa v ++ rest) = Some (v, rest).
Proof.
  intros Hb Hr. unfold render_sa, quote_with, scan_bs. cbn [app]. rewrite cq_cq, replace1.
  rewrite <- app_assoc. cbn [app]. now rewrite bs_body_dbl.
Qed.

Transparent cQ cBS cDQ.
(* the value  \' OR 1=1 --   (the witness in the property text) *)
Definition evil : str := [92; 39; 32; 79; 82; 32; 49; 61; 49; 32; 45; 45; 32].

Theorem bs_inert_refuted :
  exists v rest, not_quote_next rest /\ scan_bs (render_sa v ++ rest) <> Some (v, rest).
Proof. exists evil, []. split; [exact I|]. vm_compute. discriminate. Qed.

(* what the backslash-aware scanner actually sees: the literal ends after one character and
   the rest of the value is outside it *)
Example bs_evil_reads :
  scan_bs (render_sa evil) = Some ([39], [32; 79; 82; 32; 49; 61; 49; 32; 45; 45; 32; 39]).
Proof. vm_compute. reflexivity. Qed.

Opaque cQ cBS cDQ.
(* ---------- backslash-escaping (Constant.get_string) vs the backslash-aware scanner ---------- *)
Lemma bs_body_ts v : forall acc rest, ~ In cBS v -> not_quote_next rest ->
  scan_bs_body cQ (flat_map (fun x => if N.eqb cQ x then [cBS; cQ] else [x]) v ++ cQ :: rest) acc
  = Some (rev acc ++ v, rest).
Proof.
  induction v as [|x v IH]; intros acc rest Hb Hr.
  - cbn [flat_map app]. rewrite bs_body_end by auto. now rewrite app_nil_r.
  - assert (Hx : x <> cBS) by (intros ->; apply Hb; now left).
    assert (Hv : ~ In cBS v) by (intros H; apply Hb; now right).
    cbn [flat_map]. destruct (N.eqb cQ x) eqn:E.
    + apply N.eqb_eq in E. subst x. cbn [app scan_bs_body]. rewrite N.eqb_refl.
      unfold unescape. rewrite cq_cq. cbn [orb rev app]. rewrite IH by auto.
      cbn [rev]. now rewrite <- app_assoc.
    + cbn [app scan_bs_body].
      destruct (N.eqb x cBS) eqn:E2; [apply N.eqb_eq in E2; contradiction|].
      rewrite N.eqb_sym, E. rewrite IH by auto. cbn [rev]. now rewrite <- app_assoc.
Qed.

Theorem ts_inert_guarded v rest :
  ~ In cBS v -> not_quote_next rest -> scan_bs (render_ts v ++ rest) = Some (v, rest).
Proof.
  intros Hb Hr. unfold render_ts, quote_with, scan_bs. cbn [app]. rewrite cq_cq, replace1.
  rewrite <- app_assoc. cbn [app]. now rewrite bs_body_ts.
Qed.

Transparent cQ cBS cDQ.
Theorem ts_inert_refuted :
  exists v rest, not_quote_next rest /\ scan_bs (render_ts v ++ rest) <> Some (v, rest).
Proof. exists [97; 92], []. split; [exact I|]. vm_compute. discriminate. Qed.

(* non-vacuity of the guards *)
Example guard_inhabited : ~ In cBS [105; 116; 39; 115; 32; 39; 39] /\ not_quote_next [32; 102].
Proof. split; [|simpl; discriminate]. simpl. intuition discriminate. Qed.
