From Coq Require Import PArith List Bool Arith Lia.
From MSV Require Import Model.Copy.
Import ListNotations.
Local Open Scope positive_scope.

Lemma onode_ind' (P : onode -> Prop) :
  (forall id cls mut ch, Forall (fun fc => P (snd fc)) ch -> P (N id cls mut ch)) -> forall n, P n.
Proof.
  intros H. fix IH 1. intros [id cls mut ch]. apply H.
  induction ch as [|[f c] r IHr]; constructor; [apply IH|apply IHr].
Qed.

(* a deep copy has the same shape: it prints the same and compares equal *)
Theorem copy_same_shape CS off : forall n, all_deep CS n = true -> erase (gcopy CS off n) = erase n.
Proof.
  induction n as [id cls mut ch IH] using onode_ind'. intros H.
  cbn [gcopy]. destruct mut; [|reflexivity]. cbn [erase]. f_equal.
  cbn [all_deep] in H. apply andb_true_iff in H as [_ H].
  induction ch as [|[f c] r IHr]; [reflexivity|].
  inversion IH as [|? ? IHc IHrest]; subst. cbn [snd] in IHc.
  apply andb_true_iff in H as [H Hr]. apply andb_true_iff in H as [Hm Hc].
  destruct (mode_of CS cls f); try discriminate.
  rewrite IHc by exact Hc. rewrite IHr by assumption. reflexivity.
Qed.

(* every mutable object of a deep copy is new: its identity is an old one shifted by [off] *)
Theorem copy_ids_shifted CS off : forall n, all_deep CS n = true ->
  mut_ids (gcopy CS off n) = map (fun i => i + off) (mut_ids n).
Proof.
  induction n as [id cls mut ch IH] using onode_ind'. intros H.
  cbn [gcopy]. cbn [all_deep] in H. apply andb_true_iff in H as [Ha H]. destruct mut.
  - cbn [mut_ids]. cbn [app map]. f_equal.
    induction ch as [|[f c] r IHr]; [reflexivity|].
    inversion IH as [|? ? IHc IHrest]; subst. cbn [snd] in IHc.
    apply andb_true_iff in H as [H Hr]. apply andb_true_iff in H as [Hm Hc].
    destruct (mode_of CS cls f); try discriminate.
    rewrite map_app. rewrite <- IHc by exact Hc. rewrite <- IHr by assumption. reflexivity.
  - cbn [orb] in Ha. destruct ch; [reflexivity|discriminate].
Qed.

Lemma mut_ids_le : forall n i, In i (mut_ids n) -> (i <= max_id n).
Proof.
  induction n as [id cls mut ch IH] using onode_ind'. intros i Hi.
  cbn [mut_ids] in Hi. cbn [max_id]. apply in_app_or in Hi as [Hi|Hi].
  - destruct mut; [|contradiction]. destruct Hi as [<-|[]]. lia.
  - assert (G : i <= (fix go (l : list (positive * onode)) : positive :=
                        match l with [] => 1 | (_, c) :: r => Pos.max (max_id c) (go r) end) ch).
    { clear - IH Hi. induction ch as [|[f c] r IHr]; [contradiction|].
      inversion IH as [|? ? IHc IHrest]; subst. cbn [snd] in IHc.
      apply in_app_or in Hi as [Hi|Hi].
      - specialize (IHc i Hi). lia.
      - specialize (IHr IHrest Hi). lia. }
    lia.
Qed.

(* independence: a deep copy shares no mutable object with the original *)
Theorem copy_disjoint CS off n :
  all_deep CS n = true -> (max_id n <= off) ->
  forall i, In i (mut_ids (gcopy CS off n)) -> ~ In i (mut_ids n).
Proof.
  intros H Hoff i Hi Hn. rewrite copy_ids_shifted in Hi by exact H.
  apply in_map_iff in Hi as [j [<- Hj]].
  apply mut_ids_le in Hn. apply mut_ids_le in Hj. lia.
Qed.

(* ---------- equality laws ---------- *)
Section E.
Context {A B : Type} (tree_of : onode -> A) (str_of : onode -> B) (eqA : A -> A -> bool) (eqB : B -> B -> bool).
Hypothesis eqA_refl : forall a, eqA a a = true.
Hypothesis eqB_refl : forall b, eqB b b = true.
Hypothesis eqA_sym : forall a b, eqA a b = eqA b a.
Hypothesis eqB_sym : forall a b, eqB a b = eqB b a.

Theorem ast_eq_refl x : ast_eq tree_of str_of eqA eqB x x = true.
Proof. unfold ast_eq. now rewrite eqA_refl, eqB_refl. Qed.
Theorem ast_eq_sym x y : ast_eq tree_of str_of eqA eqB x y = ast_eq tree_of str_of eqA eqB y x.
Proof. unfold ast_eq. now rewrite eqA_sym, eqB_sym. Qed.
Theorem ast_eq_same_sql x y : ast_eq tree_of str_of eqA eqB x y = true -> eqB (str_of x) (str_of y) = true.
Proof. unfold ast_eq. intros H. now apply andb_true_iff in H. Qed.
End E.

Lemma passoc_self {A} k (v : A) l : passoc k ((k, v) :: l) = Some v.
Proof. simpl. now rewrite Pos.eqb_refl. Qed.

Fixpoint nodup_keys (l : list (positive * positive)) : bool :=
  match l with [] => true | (k, _) :: r => negb (existsb (fun p => Pos.eqb k (fst p)) r) && nodup_keys r end.

Lemma step_attrs_refl_aux l : forall o, (forall k v, In (k, v) l -> passoc k o = Some v) ->
  step_attrs_eq l o = ETrue.
Proof.
  induction l as [|[k v] r IH]; intros o H; [reflexivity|].
  cbn [step_attrs_eq]. rewrite (H k v (or_introl eq_refl)), Pos.eqb_refl. apply IH.
  intros k' v' Hi. apply H. now right.
Qed.

Lemma passoc_in_nodup l : nodup_keys l = true -> forall k v, In (k, v) l -> passoc k l = Some v.
Proof.
  induction l as [|[k0 v0] r IH]; intros Hn k v Hi; [contradiction|].
  cbn [nodup_keys] in Hn. apply andb_true_iff in Hn as [H1 H2].
  destruct Hi as [Hi|Hi]; [injection Hi as -> ->; apply passoc_self|].
  cbn [passoc]. destruct (Pos.eqb k k0) eqn:E.
  - apply Pos.eqb_eq in E. subst. apply negb_true_iff in H1.
    assert (existsb (fun p => Pos.eqb k0 (fst p)) r = true).
    { apply existsb_exists. exists (k0, v). split; auto. apply Pos.eqb_refl. }
    congruence.
  - now apply IH.
Qed.

Theorem step_eq_refl s : nodup_keys (st_attrs s) = true -> step_eq s s = ETrue.
Proof.
  intros H. unfold step_eq. rewrite Pos.eqb_refl. apply step_attrs_refl_aux.
  now apply passoc_in_nodup.
Qed.

Theorem step_eq_sym_refuted : exists a b, step_eq a b = ETrue /\ step_eq b a <> ETrue.
Proof.
  exists (mkStep 1 [(1, 5)]), (mkStep 1 [(1, 5); (2, 7)]). split; [reflexivity|]. vm_compute. discriminate.
Qed.
