(* Level theory (table-free): an expression parenthesised minimally by the standard levels is
   well-formed for any decision table that refines the level-based decisions. *)
From Coq Require Import PArith List Bool Arith Lia.
From MSV Require Import Model.Sly Model.OpPrec Proofs.SlySound.
Import ListNotations.
Local Open Scope positive_scope.

Section Std.
Variable G : pgram.
Variable L : stdlv.
Hypothesis Hlv : lv_ok G L = true.
Hypothesis Hst : g_struct G = true.

Lemma mem_in' x l : mem x l = true -> In x l.
Proof.
  unfold mem. intros H. apply existsb_exists in H as [y [Hi He]].
  apply Pos.eqb_eq in He. now subst.
Qed.

Lemma is_op_in' o : is_op G o = true -> In o (g_ops G).
Proof.
  unfold is_op. intros H. apply andb_true_iff in H as [H _].
  destruct (find_op G (o_prod o)) as [o'|] eqn:E; [|discriminate].
  unfold binop_eqb in H. apply andb_true_iff in H as [H1 H2].
  apply list_eqb_eq in H1. apply Pos.eqb_eq in H2.
  assert (o = o') by (destruct o, o'; simpl in *; congruence). subst o'.
  unfold find_op in E. now apply find_some in E.
Qed.

Definition lneg := lvl_of L (g_pneg G).
Definition lnot := lvl_of L (g_pnot G).
Definition lbtw := lvl_of L (g_pbtw G).

Lemma lv_parts :
  (forall o, In o (g_ops G) ->
     exists lf, plv L (o_prod o) = Some (lvl_of L (o_prod o), lf) /\
                tlv L (otok o) = Some (lvl_of L (o_prod o)) /\
                lvl_of L (o_prod o) <> lneg /\ lvl_of L (o_prod o) <> lnot) /\
  tlv L (g_btw G) = Some lbtw /\ lbtw <> lneg /\ lbtw <> lnot /\
  (exists la, tlv L (g_and G) = Some la /\ (la <= lbtw)%nat) /\
  (forall p1 p2 l b1 b2, plv L p1 = Some (l, b1) -> plv L p2 = Some (l, b2) -> b1 = b2) /\
  (exists b, plv L (g_pneg G) = Some (lneg, b)) /\ (exists b, plv L (g_pnot G) = Some (lnot, b)) /\
  (exists b, plv L (g_pbtw G) = Some (lbtw, b)).
Proof.
  pose proof Hlv as H. unfold lv_ok in H.
  apply andb_true_iff in H as [H H9]. apply andb_true_iff in H as [H H8].
  apply andb_true_iff in H as [H H7]. apply andb_true_iff in H as [H H6].
  apply andb_true_iff in H as [H H5]. apply andb_true_iff in H as [H H4].
  apply andb_true_iff in H as [H H3]. apply andb_true_iff in H as [H1 H2].
  assert (Hsome : forall p, issome (plv L p) = true -> exists b, plv L p = Some (lvl_of L p, b)).
  { intros p Hp. unfold lvl_of. destruct (plv L p) as [[l b]|]; [eauto|discriminate]. }
  assert (Heq : forall a n, some_nat_eqb a n = true -> a = Some n).
  { intros a n Ha. unfold some_nat_eqb in Ha. destruct a; [|discriminate].
    apply Nat.eqb_eq in Ha. now subst. }
  split; [|split; [|split; [|split; [|split; [|split; [|split; [|split]]]]]]].
  - intros o Hin. rewrite forallb_forall in H1. specialize (H1 o Hin).
    apply andb_true_iff in H1 as [H1 Hd]. apply andb_true_iff in H1 as [H1 Hc].
    apply andb_true_iff in H1 as [Ha Hb].
    destruct (Hsome _ Ha) as [lf Hlf]. exists lf. split; [exact Hlf|]. split; [now apply Heq|].
    split.
    + intros E. unfold lneg in E. rewrite E, Nat.eqb_refl in Hc. discriminate.
    + intros E. unfold lnot in E. rewrite E, Nat.eqb_refl in Hd. discriminate.
  - now apply Heq.
  - intros E. unfold lbtw, lneg in E. rewrite E, Nat.eqb_refl in H6. discriminate.
  - intros E. unfold lbtw, lnot in E. rewrite E, Nat.eqb_refl in H7. discriminate.
  - destruct (tlv L (g_and G)) as [la|]; [|discriminate]. exists la. split; auto.
    now apply Nat.leb_le.
  - intros p1 p2 l b1 b2 E1 E2. unfold plv in E1, E2.
    apply assoc_in in E1. apply assoc_in in E2.
    rewrite forallb_forall in H9. specialize (H9 _ E1). rewrite forallb_forall in H9.
    specialize (H9 _ E2). simpl in H9. rewrite Nat.eqb_refl in H9. simpl in H9.
    now apply Bool.eqb_prop in H9.
  - now apply Hsome.
  - now apply Hsome.
  - now apply Hsome.
Qed.

Lemma elevel_bin o l r : elevel G L (EBin o l r) = lvl_of L (o_prod o).
Proof. reflexivity. Qed.

(* rules open on the right edge bind at least as tightly as the expression itself *)
Lemma rsp_lv e : wf_lvl G L e = true ->
  forall q, In q (rsp G e) -> exists lq b, plv L q = Some (lq, b) /\ (elevel G L e <= lq)%nat.
Proof.
  destruct lv_parts as (Hop & _ & _ & _ & _ & _ & (bn & Hn) & (bt & Ht) & (bb & Hb)).
  induction e as [k | o l IHl r IHr | e IHe | e IHe | e IHe | x IHx lo IHlo hi IHhi];
    simpl; intros Hw q Hq; try contradiction.
  - apply andb_true_iff in Hw as [Hw Hr]. apply andb_true_iff in Hw as [Hw Hlc].
    apply andb_true_iff in Hw as [Hw Hwr]. apply andb_true_iff in Hw as [Ho Hwl].
    destruct Hq as [<- | Hq].
    + destruct (Hop o (is_op_in' o Ho)) as (lf & Hp & _). eauto.
    + destruct (IHr Hwr q Hq) as (lq & b & Hp & Hle). exists lq, b. split; auto.
      apply Nat.ltb_lt in Hr. lia.
  - apply andb_true_iff in Hw as [Hw Hle]. apply Nat.leb_le in Hle.
    destruct Hq as [<- | Hq]; [fold lneg; eauto|].
    destruct (IHe Hw q Hq) as (lq & b & Hp & Hl2). exists lq, b. split; auto. lia.
  - apply andb_true_iff in Hw as [Hw Hle]. apply Nat.leb_le in Hle.
    destruct Hq as [<- | Hq]; [fold lnot; eauto|].
    destruct (IHe Hw q Hq) as (lq & b & Hp & Hl2). exists lq, b. split; auto. lia.
  - apply andb_true_iff in Hw as [Hw H3]. apply andb_true_iff in Hw as [Hw H2].
    apply andb_true_iff in Hw as [Hw H1]. apply andb_true_iff in Hw as [Hw Hwhi].
    destruct Hq as [<- | Hq]; [fold lbtw; eauto|].
    destruct (IHhi Hwhi q Hq) as (lq & b & Hp & Hl2). exists lq, b. split; auto.
    apply Nat.ltb_lt in H3. lia.
Qed.

(* operators on the left edge bind at least as tightly as the expression itself *)
Lemma lsp_lv e : wf_lvl G L e = true ->
  forall b, In b (lsp e) ->
  exists lb, tlv L (ltok G b) = Some lb /\ (elevel G L e <= lb)%nat /\ lb <> lneg /\ lb <> lnot.
Proof.
  destruct lv_parts as (Hop & Hbt & Hbn1 & Hbn2 & _).
  induction e as [k | o l IHl r IHr | e IHe | e IHe | e IHe | x IHx lo IHlo hi IHhi];
    simpl; intros Hw b Hb; try contradiction.
  - apply andb_true_iff in Hw as [Hw Hr]. apply andb_true_iff in Hw as [Hw Hlc].
    apply andb_true_iff in Hw as [Hw Hwr]. apply andb_true_iff in Hw as [Ho Hwl].
    destruct Hb as [<- | Hb].
    + destruct (Hop o (is_op_in' o Ho)) as (lf & Hp & Ht & H1 & H2). simpl. eauto.
    + destruct (IHl Hwl b Hb) as (lb & Ht & Hle & H1 & H2). exists lb. repeat split; auto.
      destruct (left_of L (o_prod o)); [apply Nat.leb_le in Hlc|apply Nat.ltb_lt in Hlc]; lia.
  - apply andb_true_iff in Hw as [Hw H3]. apply andb_true_iff in Hw as [Hw H2].
    apply andb_true_iff in Hw as [Hw H1]. apply andb_true_iff in Hw as [Hw Hwhi].
    apply andb_true_iff in Hw as [Hwx Hwlo].
    destruct Hb as [<- | Hb].
    + simpl. exists lbtw. repeat split; auto.
    + destruct (IHx Hwx b Hb) as (lb & Ht & Hle & H4 & H5). exists lb. repeat split; auto.
      apply Nat.ltb_lt in H1. unfold lbtw. lia.
Qed.

Lemma std_red q b lq bq lb :
  plv L q = Some (lq, bq) -> tlv L b = Some lb -> (lb < lq)%nat -> red_in (std_dec L) q b = true.
Proof.
  intros Hq Hb Hlt. unfold red_in, std_dec. rewrite Hq, Hb.
  apply Nat.ltb_lt in Hlt. now rewrite Hlt.
Qed.

Lemma std_red_eq q b lq lb :
  plv L q = Some (lq, true) -> tlv L b = Some lb -> (lb <= lq)%nat -> red_in (std_dec L) q b = true.
Proof.
  intros Hq Hb Hle. unfold red_in, std_dec. rewrite Hq, Hb.
  destruct (Nat.ltb lb lq) eqn:E1; auto.
  apply Nat.ltb_ge in E1. assert (lq = lb) by lia. subst. now rewrite Nat.ltb_irrefl.
Qed.

Lemma std_shf q b lq bq lb :
  plv L q = Some (lq, bq) -> tlv L b = Some lb -> (lq < lb)%nat -> shf_in (std_dec L) q b = true.
Proof.
  intros Hq Hb Hlt. unfold shf_in, std_dec. rewrite Hq, Hb.
  assert (E1 : Nat.ltb lb lq = false) by (apply Nat.ltb_ge; lia). rewrite E1.
  apply Nat.ltb_lt in Hlt. now rewrite Hlt.
Qed.

Theorem wf_lvl_std e : wf_lvl G L e = true -> wf_decg G (std_dec L) e = true.
Proof.
  destruct lv_parts as (Hop & Hbt & Hbn1 & Hbn2 & (la & Hand & Hla) & Hsame & (bn & Hn) & (bt & Ht) & (bb & Hb)).
  induction e as [k | o l IHl r IHr | e IHe | e IHe | e IHe | x IHx lo IHlo hi IHhi];
    simpl; intros Hw; auto.
  - pose proof Hw as Hw0.
    apply andb_true_iff in Hw as [Hw Hr]. apply andb_true_iff in Hw as [Hw Hlc].
    apply andb_true_iff in Hw as [Hw Hwr]. apply andb_true_iff in Hw as [Ho Hwl].
    destruct (Hop o (is_op_in' o Ho)) as (lf & Hp & Hto & H1 & H2).
    rewrite Ho, (IHl Hwl), (IHr Hwr). simpl.
    apply andb_true_iff. split.
    + apply forallb_forall. intros q Hq.
      destruct (rsp_lv l Hwl q Hq) as (lq & bq & Hpq & Hle).
      unfold left_of in Hlc. rewrite Hp in Hlc. destruct lf.
      * apply Nat.leb_le in Hlc.
        destruct (Nat.eq_dec lq (lvl_of L (o_prod o))) as [E|E].
        -- subst lq. assert (bq = true) by (eapply Hsame; eauto). subst bq.
           eapply std_red_eq; eauto.
        -- eapply std_red; eauto. lia.
      * apply Nat.ltb_lt in Hlc. eapply std_red; eauto. lia.
    + apply forallb_forall. intros b Hbb.
      destruct (lsp_lv r Hwr b Hbb) as (lb & Htb & Hle & _).
      apply Nat.ltb_lt in Hr. eapply std_shf; eauto. lia.
  - apply andb_true_iff in Hw as [Hw Hle]. apply Nat.leb_le in Hle.
    rewrite (IHe Hw). simpl. apply forallb_forall. intros b Hbb.
    destruct (lsp_lv e Hw b Hbb) as (lb & Htb & Hl2 & H1 & H2).
    eapply std_shf; eauto. fold lneg in Hle. lia.
  - apply andb_true_iff in Hw as [Hw Hle]. apply Nat.leb_le in Hle.
    rewrite (IHe Hw). simpl. apply forallb_forall. intros b Hbb.
    destruct (lsp_lv e Hw b Hbb) as (lb & Htb & Hl2 & H1 & H2).
    eapply std_shf; eauto. fold lnot in Hle. lia.
  - apply andb_true_iff in Hw as [Hw H3]. apply andb_true_iff in Hw as [Hw H2].
    apply andb_true_iff in Hw as [Hw H1]. apply andb_true_iff in Hw as [Hw Hwhi].
    apply andb_true_iff in Hw as [Hwx Hwlo].
    apply Nat.ltb_lt in H1. apply Nat.ltb_lt in H2. apply Nat.ltb_lt in H3.
    fold lbtw in H1, H2, H3.
    rewrite (IHx Hwx), (IHlo Hwlo), (IHhi Hwhi). simpl.
    repeat (apply andb_true_iff; split).
    + apply forallb_forall. intros q Hq.
      destruct (rsp_lv x Hwx q Hq) as (lq & bq & Hpq & Hle). eapply std_red; eauto. lia.
    + apply forallb_forall. intros b Hbb.
      destruct (lsp_lv lo Hwlo b Hbb) as (lb & Htb & Hle & _). eapply std_shf; eauto. lia.
    + apply forallb_forall. intros q Hq.
      destruct (rsp_lv lo Hwlo q Hq) as (lq & bq & Hpq & Hle). eapply std_red; eauto. lia.
    + apply forallb_forall. intros b Hbb.
      destruct (lsp_lv hi Hwhi b Hbb) as (lb & Htb & Hle & _). eapply std_shf; eauto. lia.
Qed.

(* ---------- from the level-based decisions to a refining table ---------- *)
Hypothesis Href : refines G L = true.

Lemma refines_use p b d : In b (g_optoks G) -> std_dec L p b = Some d -> dec G p b = Some d.
Proof.
  intros Hb Hs. pose proof Href as H. unfold refines in H.
  assert (Hin : exists v, In (p, v) (sl_prod L)).
  { unfold std_dec, plv in Hs. destruct (assoc p (sl_prod L)) as [v|] eqn:E; [|discriminate].
    apply assoc_in in E. eauto. }
  destruct Hin as [v Hin]. rewrite forallb_forall in H. specialize (H _ Hin).
  rewrite forallb_forall in H. specialize (H b Hb). simpl in H. rewrite Hs in H.
  unfold opt_bool_eqb in H. destruct (dec G p b) as [x|]; [|discriminate].
  apply Bool.eqb_prop in H. now subst.
Qed.

Lemma struct_parts :
  (forall o, In o (g_ops G) -> In (otok o) (g_optoks G)) /\
  In (g_btw G) (g_optoks G) /\ In (g_and G) (g_optoks G).
Proof.
  pose proof Hst as H. unfold g_struct in H.
  apply andb_true_iff in H as [H H3]. apply andb_true_iff in H as [H1 H2].
  split; [|split; now apply mem_in'].
  intros o Ho. rewrite forallb_forall in H1. now apply mem_in', H1.
Qed.

Lemma wfg_lsp_isop d e : wf_decg G d e = true -> forall o, In (LOp o) (lsp e) -> is_op G o = true.
Proof.
  induction e; simpl; intros Hw o' Hi; try contradiction.
  - repeat (apply andb_true_iff in Hw; destruct Hw as [Hw ?]).
    destruct Hi as [Hi|Hi]; [injection Hi as <-; unfold is_op; apply andb_true_iff; split; assumption|]. apply IHe1; assumption.
  - repeat (apply andb_true_iff in Hw; destruct Hw as [Hw ?]).
    destruct Hi as [Hi|Hi]; [discriminate|]. apply IHe1; assumption.
Qed.

Lemma ltok_optok d e b : wf_decg G d e = true -> In b (lsp e) -> In (ltok G b) (g_optoks G).
Proof.
  intros Hw Hb. destruct struct_parts as (H1 & H2 & _). destruct b as [o|]; simpl; auto.
  apply H1, is_op_in'. eapply wfg_lsp_isop; eauto.
Qed.

Lemma red_mono q b : In b (g_optoks G) -> red_in (std_dec L) q b = true -> red_in (dec G) q b = true.
Proof.
  unfold red_in. intros Hb H. destruct (std_dec L q b) as [[|]|] eqn:E; try discriminate.
  now rewrite (refines_use _ _ _ Hb E).
Qed.
Lemma shf_mono q b : In b (g_optoks G) -> shf_in (std_dec L) q b = true -> shf_in (dec G) q b = true.
Proof.
  unfold shf_in. intros Hb H. destruct (std_dec L q b) as [[|]|] eqn:E; try discriminate.
  now rewrite (refines_use _ _ _ Hb E).
Qed.

Lemma forallb_impl {A} (f g : A -> bool) l :
  (forall x, In x l -> f x = true -> g x = true) -> forallb f l = true -> forallb g l = true.
Proof.
  intros H Hf. apply forallb_forall. intros x Hx. rewrite forallb_forall in Hf. auto.
Qed.

Theorem wf_std_dec e : wf_decg G (std_dec L) e = true -> wf_dec G e = true.
Proof.
  destruct struct_parts as (Hs1 & Hs2 & Hs3).
  unfold wf_dec.
  induction e as [k | o l IHl r IHr | e IHe | e IHe | e IHe | x IHx lo IHlo hi IHhi];
    simpl; intros Hw; auto.
  - apply andb_true_iff in Hw as [Hw Hr]. apply andb_true_iff in Hw as [Hw Hlc].
    apply andb_true_iff in Hw as [Hw Hwr]. apply andb_true_iff in Hw as [Ho Hwl].
    rewrite Ho, (IHl Hwl), (IHr Hwr). simpl. apply andb_true_iff. split.
    + eapply forallb_impl; [|exact Hlc]. intros q _. apply red_mono. apply Hs1. apply is_op_in'. exact Ho.
    + eapply forallb_impl; [|exact Hr]. intros b Hb. apply shf_mono. apply (ltok_optok (std_dec L) r); auto.
  - apply andb_true_iff in Hw as [Hw Hs]. rewrite (IHe Hw). simpl.
    eapply forallb_impl; [|exact Hs]. intros b Hb. apply shf_mono. eapply ltok_optok; eauto.
  - apply andb_true_iff in Hw as [Hw Hs]. rewrite (IHe Hw). simpl.
    eapply forallb_impl; [|exact Hs]. intros b Hb. apply shf_mono. eapply ltok_optok; eauto.
  - apply andb_true_iff in Hw as [Hw H4]. apply andb_true_iff in Hw as [Hw H3].
    apply andb_true_iff in Hw as [Hw H2]. apply andb_true_iff in Hw as [Hw H1].
    apply andb_true_iff in Hw as [Hw Hwhi]. apply andb_true_iff in Hw as [Hwx Hwlo].
    rewrite (IHx Hwx), (IHlo Hwlo), (IHhi Hwhi). simpl.
    repeat (apply andb_true_iff; split).
    + eapply forallb_impl; [|exact H1]. intros q _. apply red_mono. exact Hs2.
    + eapply forallb_impl; [|exact H2]. intros b Hb. apply shf_mono. apply (ltok_optok (std_dec L) lo); auto.
    + eapply forallb_impl; [|exact H3]. intros q _. apply red_mono. exact Hs3.
    + eapply forallb_impl; [|exact H4]. intros b Hb. apply shf_mono. apply (ltok_optok (std_dec L) hi); auto.
Qed.

End Std.
