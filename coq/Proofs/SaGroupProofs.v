From Coq Require Import ZArith PArith List Bool Lia.
From MSV Require Import Lib.Rel Model.SaGroup Proofs.RenderLaws.
Import ListNotations.

Section WF.
  Variable T : satable.
  Hypothesis HK : K_sa T = true.

  Lemma K_parts ki :
    (forall k, In k [KAdd; KMul; KAnd; KOr] -> kind_eqb ki k = false -> lv ki <= lv k -> is_prec T ki k = true) /\
    (lv ki <= lv KSub -> is_prec T ki KSub = true) /\ (lv ki <= lv KCmp -> is_prec T ki KCmp = true) /\
    (lv ki <= lv KNeg -> is_prec T ki KNeg = true) /\ (lv ki <= lv KInv -> is_prec T ki KInv = true) /\
    (lv ki <= lv KBetween -> is_prec T ki KBetween = true).
  Proof.
    unfold K_sa in HK. apply andb_true_iff in HK as [H _]. rewrite forallb_forall in H.
    assert (In ki all_kinds) as Hin by (destruct ki; simpl; tauto).
    specialize (H ki Hin). cbv beta in H. do 5 (apply andb_true_iff in H as [H ?]).
    rewrite forallb_forall in H.
    assert (forall a b kb, negb (Nat.leb a b) || is_prec T ki kb = true -> a <= b -> is_prec T ki kb = true) as Huse.
    { intros a b kb Hor Hle. apply orb_true_iff in Hor as [Hn|Hp]; [|exact Hp].
      apply negb_true_iff in Hn. apply Nat.leb_gt in Hn. lia. }
    split; [|repeat split; intros Hle; eapply Huse; eauto].
    intros k Hk Hne Hle. specialize (H k Hk). rewrite Hne in H. simpl in H. eapply Huse; eauto.
  Qed.
  Lemma K_natural k : In k [KAdd; KMul; KAnd; KOr] -> sa_natural T k = true.
  Proof. unfold K_sa in HK. apply andb_true_iff in HK as [_ H]. rewrite forallb_forall in H. apply H. Qed.

  Lemma wf_group p against : wf p = true -> wf (group T p against) = true.
  Proof. intros H. unfold group. destruct (kind_of p); [destruct (is_prec T k against)|]; simpl; exact H. Qed.

  (* an operand that was (or was not) grouped is above the required level *)
  Lemma level_group p against n :
    (forall ki, kind_of p = Some ki -> lv ki <= n -> is_prec T ki against = true) -> n < 9 ->
    n < level (group T p against).
  Proof.
    intros H Hn. unfold group, level. destruct (kind_of p) as [ki|] eqn:E; [|rewrite E; exact Hn].
    destruct (is_prec T ki against) eqn:Ep; simpl; [exact Hn|]. rewrite E.
    destruct (Nat.le_gt_cases (lv ki) n) as [Hle|Hgt]; [|exact Hgt]. rewrite (H ki eq_refl Hle) in Ep. discriminate.
  Qed.

  Lemma clauses_ok k p :
    In k [KAdd; KMul; KAnd; KOr] -> wf p = true ->
    forallb wf (clauses T k p) = true /\ forallb (fun c => Nat.ltb (lv k) (level c)) (clauses T k p) = true /\ 1 <= length (clauses T k p).
  Proof.
    intros Hk Hw. unfold clauses.
    assert (forallb wf [group T p k] = true /\ forallb (fun c => Nat.ltb (lv k) (level c)) [group T p k] = true /\ 1 <= length [group T p k] ->
            forall cs, (exists k', p = PChain k' cs /\ kind_eqb k k' = false) \/ (forall k' cs', p <> PChain k' cs') -> True) as _ by auto.
    assert (kind_of p <> Some k -> forallb wf [group T p k] = true /\ forallb (fun c => Nat.ltb (lv k) (level c)) [group T p k] = true /\
                                   1 <= length [group T p k]) as Hsingle.
    { intros Hne. simpl. rewrite (wf_group p k Hw). repeat split; auto. rewrite andb_true_r. apply Nat.ltb_lt.
      apply level_group.
      - intros ki Hki Hle. destruct (K_parts ki) as [Hc _]. apply Hc; [exact Hk| |exact Hle].
        destruct (kind_eqb ki k) eqn:E; [|reflexivity]. exfalso. apply Hne. rewrite Hki. destruct ki, k; simpl in E; try discriminate; reflexivity.
      - destruct k; simpl; lia. }
    destruct p; try (apply Hsingle; simpl; try discriminate; intros [= <-]; simpl in Hk; intuition discriminate).
    destruct (kind_eqb k k0) eqn:E.
    - assert (k = k0) by (destruct k, k0; simpl in E; try discriminate; reflexivity). subst k0.
      cbn [wf] in Hw. apply andb_true_iff in Hw as [Hw Hlen]. apply andb_true_iff in Hw as [Hw1 Hw2].
      repeat split; auto. apply Nat.leb_le in Hlen. lia.
    - apply Hsingle. simpl. intros [= ->]. destruct k; simpl in E; discriminate.
  Qed.

  Lemma chain_wf k pl p2 :
    In k [KAdd; KMul; KAnd; KOr] -> wf pl = true -> wf p2 = true ->
    wf (PChain k (clauses T k pl ++ clauses T k p2)) = true.
  Proof.
    intros Hk H1 H2. destruct (clauses_ok k pl Hk H1) as (A1 & B1 & C1). destruct (clauses_ok k p2 Hk H2) as (A2 & B2 & C2).
    cbn [wf]. rewrite !forallb_app, A1, A2, B1, B2. cbn [andb]. apply Nat.leb_le. rewrite app_length. lia.
  Qed.

  Lemma lvl_ctx p against n :
    (forall ki, lv ki <= n -> is_prec T ki against = true) -> n < 9 -> Nat.ltb n (level (group T p against)) = true.
  Proof. intros H Hn. apply Nat.ltb_lt. apply level_group; [intros ki _; apply H|exact Hn]. Qed.

  Lemma arith_level e p : is_arith e = true -> pr T e = Some p -> wf p = true -> lv KBetween < level (group T p KAnd).
  Proof.
    intros Ha Hp Hw. unfold group, level.
    assert (kind_of p = None \/ exists k, kind_of p = Some k /\ 4 < lv k) as Hk.
    { destruct e; simpl in Ha; try discriminate; simpl in Hp.
      - injection Hp as <-. now left.
      - destruct (pr T e1), (pr T e2); try discriminate. destruct op; injection Hp as <-; right; eexists; split; try reflexivity; simpl; lia.
      - destruct (pr T e); try discriminate. injection Hp as <-. right. eexists; split; try reflexivity; simpl; lia. }
    destruct Hk as [Hn|[k [Hk Hl]]].
    - rewrite Hn. rewrite Hn. simpl. lia.
    - rewrite Hk. destruct (is_prec T k KAnd); simpl; [lia|]. rewrite Hk. simpl. exact Hl.
  Qed.

  (* EVERY expression tree (with arithmetic BETWEEN bounds): what SQLAlchemy prints reads back, under
     the standard operator levels, with exactly the structure it was printed from *)
  Theorem printed_is_unambiguous e : bounds_arith e = true -> forall p, pr T e = Some p -> wf p = true.
  Proof.
    induction e as [n|op l IHl r IHr|op l IHl r IHr|op l IHl r IHr|a IHa|a IHa|a IHa lo IHlo hi IHhi]; intros Hb p Hp.
    - injection Hp as <-. reflexivity.
    - simpl in Hb. apply andb_true_iff in Hb as [Hb1 Hb2]. simpl in Hp.
      destruct (pr T l) as [pl|] eqn:El; [|discriminate]. destruct (pr T r) as [p2|] eqn:Er; [|discriminate].
      specialize (IHl Hb1 pl eq_refl). specialize (IHr Hb2 p2 eq_refl).
      destruct op; injection Hp as <-.
      + apply chain_wf; simpl; auto.
      + cbn [wf]. rewrite (wf_group pl KSub IHl), (wf_group p2 KSub IHr). cbn [andb].
        assert (forall ki, lv ki <= lv KSub -> is_prec T ki KSub = true) as Hs by (intros ki; apply (K_parts ki)).
        rewrite (lvl_ctx p2 KSub (lv KSub) Hs) by (simpl; lia). rewrite andb_true_r. apply Nat.leb_le.
        pose proof (lvl_ctx pl KSub (lv KSub) Hs ltac:(simpl; lia)) as H. apply Nat.ltb_lt in H. lia.
      + apply chain_wf; simpl; auto.
    - simpl in Hb. apply andb_true_iff in Hb as [Hb1 Hb2]. simpl in Hp.
      destruct (pr T l) as [pl|] eqn:El; [|discriminate]. destruct (pr T r) as [p2|] eqn:Er; [|discriminate].
      injection Hp as <-. cbn [wf]. rewrite (wf_group pl KCmp (IHl Hb1 pl eq_refl)), (wf_group p2 KCmp (IHr Hb2 p2 eq_refl)). cbn [andb].
      assert (forall ki, lv ki <= lv KCmp -> is_prec T ki KCmp = true) as Hs by (intros ki; apply (K_parts ki)).
      rewrite (lvl_ctx pl KCmp (lv KCmp) Hs), (lvl_ctx p2 KCmp (lv KCmp) Hs) by (simpl; lia). reflexivity.
    - simpl in Hb. apply andb_true_iff in Hb as [Hb1 Hb2]. simpl in Hp.
      destruct (pr T l) as [pl|] eqn:El; [|discriminate]. destruct (pr T r) as [p2|] eqn:Er; [|discriminate].
      injection Hp as <-. destruct op; apply chain_wf; simpl; auto.
    - simpl in Hb. simpl in Hp. destruct (pr T a) as [pa|] eqn:Ea; [|discriminate]. injection Hp as <-.
      cbn [wf]. rewrite (wf_group pa KNeg (IHa Hb pa eq_refl)). cbn [andb].
      apply lvl_ctx; [intros ki; apply (K_parts ki)|simpl; lia].
    - (* NOT *)
      simpl in Hb. destruct a as [n|op l r|op l r|op l r|x|x|x lo hi]; simpl in Hp.
      + injection Hp as <-. reflexivity.
      + assert (exists pa, pr T (XArith op l r) = Some pa /\ p = PNot (group T pa KInv)) as [pa [Epa ->]].
        { simpl. destruct (pr T l), (pr T r); try discriminate. destruct op; injection Hp as <-; eexists; split; reflexivity. }
        cbn [wf]. rewrite (wf_group pa KInv (IHa Hb pa Epa)). cbn [andb]. apply lvl_ctx; [intros ki; apply (K_parts ki)|simpl; lia].
      + simpl in Hb. apply andb_true_iff in Hb as [Hb1 Hb2].
        destruct (pr T l) as [pl|] eqn:El; [|discriminate]. destruct (pr T r) as [p2|] eqn:Er; [|discriminate]. injection Hp as <-.
        assert (wf (PCmp op (group T pl KCmp) (group T p2 KCmp)) = true) as Hc.
        { apply IHa; [simpl; now rewrite Hb1, Hb2|simpl; now rewrite El, Er]. }
        exact Hc.
      + assert (exists pa, pr T (XLog op l r) = Some pa /\ p = PNot (group T pa KInv)) as [pa [Epa ->]].
        { simpl. destruct (pr T l), (pr T r); try discriminate. injection Hp as <-. eexists; split; reflexivity. }
        cbn [wf]. rewrite (wf_group pa KInv (IHa Hb pa Epa)). cbn [andb]. apply lvl_ctx; [intros ki; apply (K_parts ki)|simpl; lia].
      + assert (exists pa, pr T (XNeg x) = Some pa /\ p = PNot (group T pa KInv)) as [pa [Epa ->]].
        { simpl. destruct (pr T x); try discriminate. injection Hp as <-. eexists; split; reflexivity. }
        cbn [wf]. rewrite (wf_group pa KInv (IHa Hb pa Epa)). cbn [andb]. apply lvl_ctx; [intros ki; apply (K_parts ki)|simpl; lia].
      + discriminate.
      + destruct (pr T x) as [px|] eqn:Ex; [|discriminate]. destruct (pr T lo) as [pl|] eqn:El; [|discriminate].
        destruct (pr T hi) as [ph|] eqn:Eh; [|discriminate]. injection Hp as <-.
        assert (wf (PBtw false (group T px KBetween) (group T pl KAnd) (group T ph KAnd)) = true) as Hc.
        { apply IHa; [exact Hb|simpl; now rewrite Ex, El, Eh]. }
        exact Hc.
    - simpl in Hb. repeat (apply andb_true_iff in Hb as [Hb ?]). simpl in Hp.
      destruct (pr T a) as [pa|] eqn:Ea; [|discriminate]. destruct (pr T lo) as [pl|] eqn:El; [|discriminate].
      destruct (pr T hi) as [ph|] eqn:Eh; [|discriminate]. injection Hp as <-.
      specialize (IHa Hb pa eq_refl). specialize (IHlo H2 pl eq_refl). specialize (IHhi H1 ph eq_refl).
      cbn [wf]. rewrite (wf_group pa KBetween IHa), (wf_group pl KAnd IHlo), (wf_group ph KAnd IHhi). cbn [andb].
      rewrite (lvl_ctx pa KBetween (lv KBetween)) by (try (intros ki; apply (K_parts ki)); simpl; lia). cbn [andb].
      pose proof (arith_level lo pl H0 El IHlo) as L1. pose proof (arith_level hi ph H Eh IHhi) as L2.
      apply Nat.ltb_lt in L1, L2. now rewrite L1, L2.
  Qed.
End WF.

(* ---------- meaning ---------- *)
Section Meaning.
  Variable T : satable.
  Variable env : positive -> val.
  Hypothesis Henv : forall n, no_str (env n) = true.      (* columns hold numbers or NULL *)

  Lemma psem_group p k : psem env (group T p k) = psem env p.
  Proof. unfold group. destruct (kind_of p); [destruct (is_prec T k0 k)|]; reflexivity. Qed.

  Definition chain_kind (k : kind) : Prop := k = KAdd \/ k = KMul \/ k = KAnd \/ k = KOr.
  Lemma opk_no_str k a b : chain_kind k -> no_str (opk k a b) = true.
  Proof.
    intros [-> | [-> | [-> | ->]]]; simpl.
    - destruct a, b; reflexivity.
    - destruct a, b; reflexivity.
    - unfold v_and. destruct (is_err a || is_err b); [reflexivity|]. destruct (truth a), (truth b); reflexivity.
    - unfold v_or. destruct (is_err a || is_err b); [reflexivity|]. destruct (truth a), (truth b); reflexivity.
  Qed.
  Lemma opk_assoc k a b c : chain_kind k -> no_str a = true -> no_str b = true -> no_str c = true ->
    opk k (opk k a b) c = opk k a (opk k b c).
  Proof.
    intros [-> | [-> | [-> | ->]]] Ha Hb Hc; simpl.
    - now apply add_assoc. - now apply mul_assoc. - apply and_assoc. - apply or_assoc.
  Qed.

  Lemma fold_no_str k l v : chain_kind k -> no_str v = true -> no_str (fold_left (opk k) l v) = true.
  Proof. intros Hk. revert v. induction l as [|x l IH]; intros v Hv; [exact Hv|]. simpl. apply IH. now apply opk_no_str. Qed.

  Lemma fold_shift k A r v : chain_kind k -> no_str A = true -> no_str v = true -> Forall (fun x => no_str x = true) r ->
    fold_left (opk k) r (opk k A v) = opk k A (fold_left (opk k) r v).
  Proof.
    intros Hk HA. revert v. induction r as [|x r IH]; intros v Hv Hr; [reflexivity|].
    inversion Hr as [|? ? Hx Hr']; subst. simpl. rewrite (opk_assoc k A v x Hk HA Hv Hx). apply IH; [now apply opk_no_str|exact Hr'].
  Qed.

  Lemma chain_app k a b : chain_kind k -> a <> [] -> b <> [] ->
    Forall (fun x => no_str x = true) a -> Forall (fun x => no_str x = true) b ->
    chain_val k (a ++ b) = opk k (chain_val k a) (chain_val k b).
  Proof.
    intros Hk Ha Hb Fa Fb. destruct a as [|v1 r1]; [congruence|]. destruct b as [|v2 r2]; [congruence|].
    inversion Fa as [|? ? Hv1 Fr1]; subst. inversion Fb as [|? ? Hv2 Fr2]; subst.
    unfold chain_val. cbn [app]. rewrite fold_left_app. cbn [fold_left].
    apply fold_shift; auto. now apply fold_no_str.
  Qed.

  (* invariant of what pr produces *)
  Definition Inv (e : sex) (p : pex) : Prop :=
    psem env p = sem env e /\
    (forall k cs, p = PChain k cs -> cs <> [] /\ Forall (fun c => no_str (psem env c) = true) cs).

  Lemma sem_no_str e : no_str (sem env e) = true.
  Proof.
    destruct e; simpl; try apply Henv.
    - destruct op; destruct (sem env e1), (sem env e2); reflexivity.
    - unfold v_rel. destruct (sem env e1), (sem env e2); try reflexivity; simpl; destruct (cmpf op _); reflexivity.
    - destruct op; [apply (opk_no_str KAnd); right; right; now left|apply (opk_no_str KOr); right; right; now right].
    - destruct (sem env e); reflexivity.
    - destruct (sem env e) as [|z| |]; try reflexivity. simpl. destruct z; reflexivity.
    - unfold btw_val. apply (opk_no_str KAnd). right; right; now left.
  Qed.

  Lemma clauses_inv k e p : Inv e p ->
    clauses T k p <> [] /\ Forall (fun c => no_str (psem env c) = true) (clauses T k p) /\
    chain_val k (map (psem env) (clauses T k p)) = sem env e.
  Proof.
    intros [Hs Hc]. unfold clauses.
    assert ([group T p k] <> [] /\ Forall (fun c => no_str (psem env c) = true) [group T p k] /\
            chain_val k (map (psem env) [group T p k]) = sem env e) as Hsingle.
    { repeat split; [discriminate| |simpl; now rewrite psem_group].
      constructor; [|constructor]. rewrite psem_group, Hs. apply sem_no_str. }
    destruct p; try exact Hsingle. destruct (kind_eqb k k0) eqn:E; [|exact Hsingle].
    assert (k = k0) by (destruct k, k0; simpl in E; try discriminate; reflexivity). subst k0.
    destruct (Hc k cs eq_refl) as [Hne Hf]. repeat split; auto.
  Qed.

  Lemma chain_inv k l r pl p2 : chain_kind k -> Inv l pl -> Inv r p2 ->
    psem env (PChain k (clauses T k pl ++ clauses T k p2)) = opk k (sem env l) (sem env r) /\
    (clauses T k pl ++ clauses T k p2 <> [] /\
     Forall (fun c => no_str (psem env c) = true) (clauses T k pl ++ clauses T k p2)).
  Proof.
    intros Hk H1 H2. destruct (clauses_inv k l pl H1) as (N1 & F1 & S1). destruct (clauses_inv k r p2 H2) as (N2 & F2 & S2).
    split.
    - cbn [psem]. rewrite map_app, chain_app; auto.
      + now rewrite S1, S2.
      + destruct (clauses T k pl); [congruence|discriminate].
      + destruct (clauses T k p2); [congruence|discriminate].
      + apply Forall_map. exact F1.
      + apply Forall_map. exact F2.
    - split; [destruct (clauses T k pl); [congruence|discriminate]|]. apply Forall_app. now split.
  Qed.

  Lemma negc_sem op a b : v_not (v_rel (cmpf op) a b) = v_rel (cmpf (negc op)) a b.
  Proof. destruct op; simpl; [apply not_eq|apply not_ne|apply not_lt|apply not_le|apply not_gt|apply not_ge]. Qed.

  Ltac no_chain := let k := fresh in let cs := fresh in intros k cs; discriminate.

  (* EVERY expression tree over numeric columns: the structure SQLAlchemy prints has the value of
     the tree it was printed from (flattened chains, flipped negations and parentheses included) *)
  Theorem printed_means_the_same e : forall p, pr T e = Some p -> Inv e p.
  Proof.
    induction e as [n|op l IHl r IHr|op l IHl r IHr|op l IHl r IHr|a IHa|a IHa|a IHa lo IHlo hi IHhi]; intros p Hp.
    - injection Hp as <-. split; [reflexivity|no_chain].
    - simpl in Hp. destruct (pr T l) as [pl|] eqn:El; [|discriminate]. destruct (pr T r) as [p2|] eqn:Er; [|discriminate].
      specialize (IHl pl eq_refl). specialize (IHr p2 eq_refl). destruct op; injection Hp as <-.
      + destruct (chain_inv KAdd l r pl p2 (or_introl eq_refl) IHl IHr) as [Hs Hc]. split; [exact Hs|].
        intros k cs [= <- <-]. exact Hc.
      + split; [|no_chain]. simpl. rewrite !psem_group. destruct IHl as [-> _], IHr as [-> _]. reflexivity.
      + destruct (chain_inv KMul l r pl p2 (or_intror (or_introl eq_refl)) IHl IHr) as [Hs Hc]. split; [exact Hs|].
        intros k cs [= <- <-]. exact Hc.
    - simpl in Hp. destruct (pr T l) as [pl|] eqn:El; [|discriminate]. destruct (pr T r) as [p2|] eqn:Er; [|discriminate].
      injection Hp as <-. split; [|no_chain]. simpl. rewrite !psem_group.
      destruct (IHl pl eq_refl) as [-> _], (IHr p2 eq_refl) as [-> _]. reflexivity.
    - simpl in Hp. destruct (pr T l) as [pl|] eqn:El; [|discriminate]. destruct (pr T r) as [p2|] eqn:Er; [|discriminate].
      injection Hp as <-. specialize (IHl pl eq_refl). specialize (IHr p2 eq_refl). destruct op.
      + destruct (chain_inv KAnd l r pl p2 (or_intror (or_intror (or_introl eq_refl))) IHl IHr) as [Hs Hc]. split; [exact Hs|].
        intros k cs [= <- <-]. exact Hc.
      + destruct (chain_inv KOr l r pl p2 (or_intror (or_intror (or_intror eq_refl))) IHl IHr) as [Hs Hc]. split; [exact Hs|].
        intros k cs [= <- <-]. exact Hc.
    - simpl in Hp. destruct (pr T a) as [pa|] eqn:Ea; [|discriminate]. injection Hp as <-.
      split; [|no_chain]. simpl. rewrite psem_group. now destruct (IHa pa eq_refl) as [-> _].
    - (* NOT *)
      destruct a as [n|op l r|op l r|op l r|x|x|x lo hi]; simpl in Hp.
      + injection Hp as <-. split; [reflexivity|no_chain].
      + assert (exists pa, pr T (XArith op l r) = Some pa /\ p = PNot (group T pa KInv)) as [pa [Epa ->]].
        { simpl. destruct (pr T l), (pr T r); try discriminate. destruct op; injection Hp as <-; eexists; split; reflexivity. }
        split; [|no_chain]. cbn [psem sem]. rewrite psem_group. now destruct (IHa pa Epa) as [-> _].
      + destruct (pr T l) as [pl|] eqn:El; [|discriminate]. destruct (pr T r) as [p2|] eqn:Er; [|discriminate]. injection Hp as <-.
        split; [|no_chain]. destruct (IHa (PCmp op (group T pl KCmp) (group T p2 KCmp))) as [Hs _]; [simpl; now rewrite El, Er|].
        cbn [psem sem] in *. rewrite <- Hs. symmetry. apply negc_sem.
      + assert (exists pa, pr T (XLog op l r) = Some pa /\ p = PNot (group T pa KInv)) as [pa [Epa ->]].
        { simpl. destruct (pr T l), (pr T r); try discriminate. injection Hp as <-. eexists; split; reflexivity. }
        split; [|no_chain]. cbn [psem]. rewrite psem_group. destruct (IHa pa Epa) as [-> _]. reflexivity.
      + assert (exists pa, pr T (XNeg x) = Some pa /\ p = PNot (group T pa KInv)) as [pa [Epa ->]].
        { simpl. destruct (pr T x); try discriminate. injection Hp as <-. eexists; split; reflexivity. }
        split; [|no_chain]. cbn [psem]. rewrite psem_group. destruct (IHa pa Epa) as [-> _]. reflexivity.
      + discriminate.
      + destruct (pr T x) as [px|] eqn:Ex; [|discriminate]. destruct (pr T lo) as [pl|] eqn:El; [|discriminate].
        destruct (pr T hi) as [ph|] eqn:Eh; [|discriminate]. injection Hp as <-.
        split; [|no_chain].
        destruct (IHa (PBtw false (group T px KBetween) (group T pl KAnd) (group T ph KAnd))) as [Hs _]; [simpl; now rewrite Ex, El, Eh|].
        cbn [psem sem] in *. rewrite <- Hs. reflexivity.
    - simpl in Hp. destruct (pr T a) as [pa|] eqn:Ea; [|discriminate]. destruct (pr T lo) as [pl|] eqn:El; [|discriminate].
      destruct (pr T hi) as [ph|] eqn:Eh; [|discriminate]. injection Hp as <-.
      split; [|no_chain]. cbn [psem sem]. rewrite !psem_group.
      destruct (IHa pa eq_refl) as [-> _], (IHlo pl eq_refl) as [-> _], (IHhi ph eq_refl) as [-> _]. reflexivity.
  Qed.
End Meaning.

(* the typing guard is needed: a comparison as a bound of BETWEEN is printed without parentheses *)
Theorem between_bound_comparison_refuted :
  exists T e p, K_sa T = true /\ pr T e = Some p /\ wf p = false.
Proof.
  exists (mkSA (fun k => match k with KMul | KNeg => 8 | KAdd | KSub => 7 | KCmp | KBetween | KInv => 5 | KAnd => 3 | KOr => 2 end)
               (fun k => match k with KAdd | KMul | KAnd | KOr => true | _ => false end)),
         (XBtw (XAtom 1) (XCmp CEq (XAtom 2) (XAtom 3)) (XAtom 4)).
  eexists. split; [vm_compute; reflexivity|]. split; [reflexivity|]. vm_compute. reflexivity.
Qed.
