(* Facts about the reference evaluator used by C11: removing the integration qualifier of a
   table and evaluating inside that integration reads the same table, unless the remaining name
   is captured by a CTE in scope. *)
From Coq Require Import ZArith PArith List Bool.
From MSV Require Import Lib.Rel Model.SqlEval.
Import ListNotations.

Definition inside (d : name) (cx : ctx) : ctx := mkCtx (c_db cx) [d] (c_res cx) (c_ctes cx) (c_vars cx).

Lemma lookup_strip d rest db : lookup_tab ([] ++ d :: rest) db = lookup_tab ([d] ++ rest) db.
Proof. reflexivity. Qed.

Definition cte_free (rest : list name) (cx : ctx) : Prop :=
  match rest with [n] => lookup_cte n (c_ctes cx) = None | _ => True end.

Theorem strip_table_sound fuel d rest al cx :
  c_prefix cx = [] -> rest <> [] -> cte_free rest cx ->
  eval_f fuel (inside d cx) (FTab rest al) = eval_f fuel cx (FTab (d :: rest) al).
Proof.
  intros Hp Hr Hc. destruct fuel as [|f]; [reflexivity|]. cbn [eval_f]. rewrite Hp.
  destruct rest as [|n [|m rest']]; [congruence| |].
  - cbn in Hc. cbn [inside c_ctes c_prefix c_db app last]. rewrite Hc. reflexivity.
  - reflexivity.
Qed.

(* the remaining name can be captured by a CTE of the query: then the meaning changes *)
Theorem strip_table_cte_capture_refuted :
  exists fuel d rest al cx,
    c_prefix cx = [] /\ rest <> [] /\
    eval_f fuel (inside d cx) (FTab rest al) <> eval_f fuel cx (FTab (d :: rest) al).
Proof.
  exists 2%nat, 5%positive, [7%positive], None,
    (mkCtx [([5; 7]%positive, ([9%positive], [[VInt 1]]))] [] [] [(7%positive, ([(None, 9%positive)], [[VInt 2]]))] []).
  split; [reflexivity|]. split; [discriminate|]. vm_compute. discriminate.
Qed.

(* a column qualified by an alias that coincides with the integration name loses its qualifier:
   with two tables in scope it then resolves to the first column of that name *)
Theorem strip_alias_like_integration_refuted :
  exists fuel cx sch rw c d,
    eval_e fuel cx sch rw None (ECol None c) <> eval_e fuel cx sch rw None (ECol (Some d) c).
Proof.
  exists 1%nat, (mkCtx [] [] [] [] []), [(Some 3%positive, 9%positive); (Some 5%positive, 9%positive)], [VInt 1; VInt 2],
         9%positive, 5%positive. vm_compute. discriminate.
Qed.
