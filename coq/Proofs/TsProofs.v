From Coq Require Import ZArith PArith List Bool Lia Sorting.Sorted Sorting.Permutation.
From MSV Require Import Lib.Rel Model.TsSpec.
Import ListNotations.

(* ---------- the branch table ---------- *)
Theorem context_disjoint_from_selection c t : context c t = true -> selects c t = false.
Proof. destruct c; simpl; try discriminate; try reflexivity; lia. Qed.

(* for a lower-bounded condition every time is either selected or may serve as context;
   for BETWEEN every time up to the upper bound *)
Theorem lower_bound_complete c t :
  match c with
  | TGt _ | TGe _ => context c t || selects c t = true
  | TBetween _ hi => (t <= hi)%Z -> context c t || selects c t = true
  | _ => True
  end.
Proof. destruct c; simpl; try exact I; lia. Qed.

(* ---------- sorting ---------- *)
Section SortFacts.
  Context {A : Type} (le : A -> A -> bool).
  Hypothesis le_total : forall a b, le a b = true \/ le b a = true.
  Hypothesis le_trans : forall a b c, le a b = true -> le b c = true -> le a c = true.

  Lemma insert_perm x l : Permutation (insert le x l) (x :: l).
  Proof.
    induction l as [|y l IH]; simpl; [reflexivity|]. destruct (le x y); [reflexivity|].
    rewrite IH. apply perm_swap.
  Qed.
  Lemma isort_perm l : Permutation (isort le l) l.
  Proof. induction l as [|x l IH]; simpl; [reflexivity|]. unfold isort in *. simpl. rewrite insert_perm. now constructor. Qed.

  Lemma insert_sorted x l :
    StronglySorted (fun a b => le a b = true) l -> StronglySorted (fun a b => le a b = true) (insert le x l).
  Proof.
    induction 1 as [|y l Hs IH Hall]; simpl; [repeat constructor|].
    destruct (le x y) eqn:E.
    - constructor; [constructor; assumption|]. constructor; [exact E|].
      apply Forall_forall. intros z Hz. rewrite Forall_forall in Hall. eapply le_trans; [exact E|]. now apply Hall.
    - constructor; [exact IH|]. apply Forall_forall. intros z Hz.
      apply (Permutation_in _ (insert_perm x l)) in Hz. destruct Hz as [<-|Hz].
      + destruct (le_total y x) as [H|H]; [exact H|congruence].
      + rewrite Forall_forall in Hall. now apply Hall.
  Qed.
  Lemma isort_sorted l : StronglySorted (fun a b => le a b = true) (isort le l).
  Proof. induction l as [|x l IH]; [constructor|]. unfold isort in *. simpl. now apply insert_sorted. Qed.

  Lemma sorted_split a b :
    StronglySorted (fun x y => le x y = true) (a ++ b) -> forall x y, In x a -> In y b -> le x y = true.
  Proof.
    induction a as [|z a IH]; simpl; intros H x y Hx Hy; [contradiction|].
    inversion H as [|? ? Hs Hall]; subst. destruct Hx as [<-|Hx].
    - rewrite Forall_forall in Hall. apply Hall. apply in_or_app. now right.
    - now apply IH.
  Qed.

  (* the first w elements of the sorted list: a prefix such that everything left out sorts after it *)
  Theorem top_w l w :
    Permutation (firstn w (isort le l) ++ skipn w (isort le l)) l /\
    forall x y, In x (firstn w (isort le l)) -> In y (skipn w (isort le l)) -> le x y = true.
  Proof.
    split.
    - rewrite firstn_skipn. apply isort_perm.
    - apply sorted_split. rewrite firstn_skipn. apply isort_sorted.
  Qed.
End SortFacts.

Lemma newer_total tcol a b : newer tcol a b = true \/ newer tcol b a = true.
Proof. unfold newer. lia. Qed.
Lemma newer_trans tcol a b c : newer tcol a b = true -> newer tcol b c = true -> newer tcol a c = true.
Proof. unfold newer. lia. Qed.

Lemma in_firstn {A} (x : A) n l : In x (firstn n l) -> In x l.
Proof. intros H. rewrite <- (firstn_skipn n l). apply in_or_app. now left. Qed.

(* ---------- what is fetched ---------- *)
(* the window part: at most w rows, all context rows with a time, and every context row left out
   is not more recent than any row taken *)
Theorem window_is_most_recent tcol w c rows :
  let cand := filter (on_time tcol (context c)) rows in
  let W := window_part tcol w c rows in
  length W = Nat.min w (length cand) /\
  (exists rest, Permutation (W ++ rest) cand /\ forall x y, In x W -> In y rest -> (tz tcol y <= tz tcol x)%Z).
Proof.
  intros cand W. unfold W, window_part. fold cand. split.
  - rewrite firstn_length. rewrite (Permutation_length (isort_perm (newer tcol) cand)). reflexivity.
  - exists (skipn w (isort (newer tcol) cand)).
    destruct (top_w (newer tcol) (newer_total tcol) (newer_trans tcol) cand w) as [Hp Hle]. split; [exact Hp|].
    intros x y Hx Hy. specialize (Hle x y Hx Hy). unfold newer in Hle. lia.
Qed.

(* the selected part: exactly the rows that satisfy the user's condition (and have a time) *)
Theorem select_is_all_selected tcol c rows :
  Permutation (select_part tcol c rows) (filter (on_time tcol (selects c)) rows).
Proof. apply isort_perm. Qed.

(* every fetched row has a time, and no row is fetched twice as context and as selected *)
Theorem fetched_rows_have_time tcol w c rows r : In r (fetched tcol w c rows) -> time_of tcol r <> None.
Proof.
  unfold fetched. intros H. apply in_app_or in H.
  assert (forall f l, In r (filter (on_time tcol f) l) -> time_of tcol r <> None) as Hf.
  { intros f l Hin. apply filter_In in Hin as [_ Hin]. unfold on_time in Hin. destruct (time_of tcol r); [discriminate|discriminate]. }
  destruct H as [H|H].
  - destruct (has_window c); [|contradiction]. unfold window_part in H. apply in_firstn in H.
    apply (Permutation_in _ (isort_perm _ _)) in H. eapply Hf; eauto.
  - destruct (has_select c); [|contradiction]. unfold select_part in H.
    apply (Permutation_in _ (isort_perm _ _)) in H. eapply Hf; eauto.
Qed.

Example fetched_example :
  fetched 0 2 (TGt 5) [[VInt 1]; [VInt 7]; [VNull]; [VInt 5]; [VInt 3]; [VInt 9]] =
  [[VInt 5]; [VInt 3]; [VInt 9]; [VInt 7]].
Proof. reflexivity. Qed.
Example ts_ok_example :
  ts_ok 0 2 (TGt 5) [[VInt 1]; [VInt 7]; [VNull]; [VInt 5]; [VInt 3]; [VInt 9]] [[VInt 5]; [VInt 3]; [VInt 9]; [VInt 7]] = true /\
  ts_ok 0 2 (TGt 5) [[VInt 1]; [VInt 7]; [VNull]; [VInt 5]; [VInt 3]; [VInt 9]] [[VInt 5]; [VInt 1]; [VInt 9]; [VInt 7]] = false.
Proof. split; reflexivity. Qed.
