(* Pushdown laws over ALL relations (lists of rows of any length, with NULLs and duplicates).
   Equality of lists: the laws fix the order of the rows as well as their multiplicity. *)
From Coq Require Import ZArith PArith List Bool Lia.
From MSV Require Import Lib.Rel.
Import ListNotations.

Section Lists.
  Context {A B : Type}.
  Lemma filter_flat_map (p : B -> bool) (f : A -> list B) l :
    filter p (flat_map f l) = flat_map (fun x => filter p (f x)) l.
  Proof. induction l as [|x l IH]; simpl; [reflexivity|]. now rewrite filter_app, IH. Qed.
  Lemma filter_map_comm (p : B -> bool) (g : A -> B) l :
    filter p (map g l) = map g (filter (fun x => p (g x)) l).
  Proof. induction l as [|x l IH]; simpl; [reflexivity|]. destruct (p (g x)); simpl; now rewrite IH. Qed.
  Lemma flat_map_ext_in (f g : A -> list B) l :
    (forall x, In x l -> f x = g x) -> flat_map f l = flat_map g l.
  Proof.
    induction l as [|x l IH]; simpl; intros H; [reflexivity|].
    rewrite (H x (or_introl eq_refl)), IH; [reflexivity|]. intros y Hy. apply H. now right.
  Qed.
  Lemma flat_map_filter (q : A -> bool) (f : A -> list B) l :
    flat_map f (filter q l) = flat_map (fun x => if q x then f x else []) l.
  Proof. induction l as [|x l IH]; simpl; [reflexivity|]. destruct (q x); simpl; now rewrite IH. Qed.
  Lemma filter_ext_in_ (p q : A -> bool) l : (forall x, In x l -> p x = q x) -> filter p l = filter q l.
  Proof.
    induction l as [|x l IH]; simpl; intros H; [reflexivity|].
    rewrite (H x (or_introl eq_refl)), IH; [reflexivity|]. intros y Hy. apply H. now right.
  Qed.
  Lemma filter_filter (p q : A -> bool) l : filter p (filter q l) = filter (fun x => q x && p x) l.
  Proof. induction l as [|x l IH]; simpl; [reflexivity|]. destruct (q x); simpl; [destruct (p x)|]; now rewrite IH. Qed.
  Lemma filter_none (p : A -> bool) l : (forall x, In x l -> p x = false) -> filter p l = [].
  Proof.
    induction l as [|x l IH]; simpl; intros H; [reflexivity|].
    rewrite (H x (or_introl eq_refl)). apply IH. intros y Hy. apply H. now right.
  Qed.
End Lists.

Section Join.
  (* p : the WHERE of the outer query (on joined rows); pR / pS : what is pushed into the fetch
     of the left / right table; inS : the semi-join restriction of the right table *)
  Variables (th : row -> row -> bool) (p : row -> bool) (pR pS inS : row -> bool) (R S : rel).

  (* what the outer WHERE accepts satisfies everything that was pushed *)
  Hypothesis HR : forall r x, p (r ++ x) = true -> pR r = true.
  Hypothesis HS : forall r s, In s S -> p (r ++ s) = true -> pS s = true.
  (* the semi-join restriction keeps every row that joins a fetched left row *)
  Hypothesis Hin : forall r s, In r R -> pR r = true -> th r s = true -> inS s = true.

  Lemma matches_same r :
    In r R -> pR r = true ->
    filter (fun s => p (r ++ s)) (filter (th r) (filter (fun s => pS s && inS s) S)) =
    filter (fun s => p (r ++ s)) (filter (th r) S).
  Proof.
    intros Hr Hp. rewrite !filter_filter. apply filter_ext_in_. intros s Hs.
    destruct (th r s) eqn:Et; [|now rewrite !andb_false_r].
    destruct (p (r ++ s)) eqn:Ep; [|now rewrite !andb_false_r].
    rewrite (HS r s Hs Ep), (Hin r s Hr Hp Et). reflexivity.
  Qed.

  (* INNER JOIN: filters pushed into both fetches + semi-join restriction, WHERE re-applied *)
  Theorem inner_join_pushdown :
    sel p (join_inner th (sel pR R) (sel (fun s => pS s && inS s) S)) = sel p (join_inner th R S).
  Proof.
    unfold sel, join_inner. rewrite !filter_flat_map, flat_map_filter. apply flat_map_ext_in.
    intros r Hr. rewrite !filter_map_comm. destruct (pR r) eqn:Ep.
    - now rewrite (matches_same r Hr Ep).
    - rewrite (filter_none (fun s => p (r ++ s))); [reflexivity|].
      intros s _. destruct (p (r ++ s)) eqn:E; [|reflexivity]. rewrite (HR r s E) in Ep. discriminate.
  Qed.

  (* LEFT JOIN: a filter on the preserved (left) table and the semi-join restriction of the right table *)
  Lemma semi_same r : In r R -> pR r = true -> filter (th r) (filter inS S) = filter (th r) S.
  Proof.
    intros Hr Hp. rewrite filter_filter. apply filter_ext_in_. intros s _.
    destruct (th r s) eqn:Et; [|now rewrite andb_false_r]. now rewrite (Hin r s Hr Hp Et).
  Qed.
  Theorem left_join_pushdown ns :
    sel p (join_left th ns (sel pR R) (sel inS S)) = sel p (join_left th ns R S).
  Proof.
    unfold sel, join_left. rewrite !filter_flat_map, flat_map_filter. apply flat_map_ext_in.
    intros r Hr. destruct (pR r) eqn:Ep.
    - now rewrite (semi_same r Hr Ep).
    - apply eq_sym, filter_none. intros x Hx.
      assert (exists y, x = r ++ y) as [y ->].
      { destruct (filter (th r) S) as [|s0 m].
        - destruct Hx as [Hx|[]]. exists (nulls ns). now rewrite Hx.
        - apply in_map_iff in Hx. destruct Hx as [s [Hx _]]. exists s. now rewrite <- Hx. }
      destruct (p (r ++ y)) eqn:E; [|reflexivity]. rewrite (HR r y E) in Ep. discriminate.
  Qed.

  (* LEFT JOIN: a filter on the null-supplied (right) table, sound when the WHERE rejects the
     NULL-extended rows (it contains a null-rejecting condition on that table) *)
  Hypothesis Hnull : forall ns r, In r R -> p (r ++ nulls ns) = false.
  Theorem left_join_right_pushdown ns :
    sel p (join_left th ns R (sel pS S)) = sel p (join_left th ns R S).
  Proof.
    unfold sel, join_left. rewrite !filter_flat_map. apply flat_map_ext_in. intros r Hr.
    assert (forall l, (forall s, In s l -> In s S) ->
              filter p (match filter (th r) (filter pS l) with [] => [r ++ nulls ns] | m => map (fun s => r ++ s) m end) =
              filter p (match filter (th r) l with [] => [r ++ nulls ns] | m => map (fun s => r ++ s) m end)) as Hgen.
    { intros l Hl.
      assert (filter p (map (fun s => r ++ s) (filter (th r) (filter pS l))) =
              filter p (map (fun s => r ++ s) (filter (th r) l))) as Hm.
      { rewrite !filter_map_comm. f_equal. rewrite !filter_filter. apply filter_ext_in_. intros s Hs.
        destruct (th r s); [|now rewrite !andb_false_r]. destruct (p (r ++ s)) eqn:Ep; [|now rewrite !andb_false_r].
        now rewrite (HS r s (Hl s Hs) Ep). }
      destruct (filter (th r) (filter pS l)) eqn:E1, (filter (th r) l) eqn:E2.
      - reflexivity.
      - simpl (filter p [r ++ nulls ns]). rewrite (Hnull ns r Hr). rewrite <- Hm. reflexivity.
      - rewrite Hm. simpl. now rewrite (Hnull ns r Hr).
      - exact Hm. }
    apply Hgen. auto.
  Qed.
End Join.

(* without the null-rejection hypothesis the last law fails: the anti-join *)
Theorem left_join_right_pushdown_needs_null_rejection :
  exists th p pS R S ns,
    (forall r s, In s S -> p (r ++ s) = true -> pS s = true) /\
    sel p (join_left th ns R (sel pS S)) <> sel p (join_left th ns R S).
Proof.
  exists (fun r s => row_eqb r s), (fun x => match x with [_; VNull] => true | _ => false end),
         (fun s => match s with [VNull] => true | _ => false end), [[VInt 1]], [[VInt 1]], 1%nat.
  split.
  - intros r s Hs H. simpl in Hs. destruct Hs as [Hs|[]]. subst s. exfalso.
    destruct r as [|a [|b r]]; simpl in H; try discriminate. destruct b; try discriminate. destruct r; discriminate.
  - vm_compute. discriminate.
Qed.

(* ---------- LIMIT ---------- *)
Lemma firstn_app_le {A} n (l1 l2 : list A) : n <= length l1 -> firstn n (l1 ++ l2) = firstn n l1.
Proof. intros H. rewrite firstn_app. replace (n - length l1) with 0 by lia. simpl. apply app_nil_r. Qed.

Lemma left_rows_nonempty th ns r S :
  1 <= length (match filter (th r) S with [] => [r ++ nulls ns] | m => map (fun s => r ++ s) m end).
Proof. destruct (filter (th r) S); simpl; lia. Qed.

(* a chain of LEFT JOINs gives at least one row per row of the first table, in its order: the
   first n rows of the join come from the first n rows of that table *)
Theorem limit_through_left_join th ns n R Q :
  firstn n (join_left th ns (firstn n R) Q) = firstn n (join_left th ns R Q).
Proof.
  unfold join_left. revert n. induction R as [|r R IH]; intros n.
  - now rewrite firstn_nil.
  - destruct n as [|n]; [reflexivity|]. change (firstn (S n) (r :: R)) with (r :: firstn n R). cbn [flat_map].
    set (m := match filter (th r) Q with [] => [r ++ nulls ns] | m => map (fun s => r ++ s) m end).
    assert (1 <= length m) as Hm by (unfold m; apply left_rows_nonempty).
    rewrite !firstn_app. f_equal.
    destruct (Nat.le_gt_cases (S n) (length m)) as [Hle|Hgt].
    + replace (S n - length m) with 0 by lia. reflexivity.
    + (* fewer than S n rows so far: the rest needs at most n more rows *)
      set (k := S n - length m). assert (k <= n) as Hk by (unfold k; lia).
      assert (forall X : rel, firstn k X = firstn k (firstn n X)) as Hf.
      { intros X. rewrite firstn_firstn. now rewrite PeanoNat.Nat.min_l by exact Hk. }
      rewrite (Hf (flat_map _ (firstn n R))), (Hf (flat_map _ R)). now rewrite IH.
Qed.

(* not so for an inner join, nor when a WHERE is applied after the join *)
Theorem limit_through_inner_join_refuted :
  exists th n R S, firstn n (join_inner th (firstn n R) S) <> firstn n (join_inner th R S).
Proof.
  exists (fun r s => row_eqb r s), 1%nat, [[VInt 1]; [VInt 2]], [[VInt 2]]. vm_compute. discriminate.
Qed.
Theorem limit_before_where_refuted :
  exists th p ns n R S,
    firstn n (sel p (join_left th ns (firstn n R) S)) <> firstn n (sel p (join_left th ns R S)).
Proof.
  exists (fun r s => row_eqb r s), (fun x => match x with [VInt 2; _] => true | _ => false end), 1%nat, 1%nat,
         [[VInt 1]; [VInt 2]], [[VInt 2]]. vm_compute. discriminate.
Qed.
(* OFFSET cannot be moved to the first table when a row can have several pairs *)
Theorem offset_through_left_join_refuted :
  exists th ns k R S, skipn k (join_left th ns R S) <> join_left th ns (skipn k R) S.
Proof.
  exists (fun _ _ => true), 1%nat, 1%nat, [[VInt 1]], [[VInt 1]; [VInt 2]]. vm_compute. discriminate.
Qed.

(* ---------- a filter does not commute with LIMIT ---------- *)
(* an outer condition may not move below the LIMIT of a derived table (or into the fetch of a sub-select that cuts its rows) *)
Theorem filter_below_limit_refuted :
  exists (p : row -> bool) n (R : rel), firstn n (filter p R) <> filter p (firstn n R).
Proof.
  exists (fun r => val_eqb (hd VNull r) (VInt 1)), 1%nat, [[VInt 0]; [VInt 1]]. vm_compute. discriminate.
Qed.
