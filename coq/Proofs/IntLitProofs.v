From Coq Require Import ZArith NArith List Bool Lia.
From MSV Require Import Lib.PyStr Model.IntLit.

Import ListNotations.
Local Open Scope N_scope.

Lemma read_digits_app p s a :
  read_digits (p ++ s) a = match read_digits p a with Some b => read_digits s b | None => None end.
Proof.
  revert a. induction p as [|c p IH]; intros a; cbn [app read_digits]; [reflexivity|].
  destruct (is_digit c); [apply IH|reflexivity].
Qed.

Lemma digit_ok d : d < 10 -> is_digit (digit d) = true /\ digit d - 48 = d.
Proof. unfold is_digit, digit. intros H. split; [apply andb_true_iff; split; apply N.leb_le; lia | lia]. Qed.

(* the digits put in front of acc read as n, whatever was read before *)
Lemma digits_fuel_spec f : forall n acc, n < 2 ^ N.of_nat f -> f <> O ->
  exists pre, digits_fuel f n acc = pre ++ acc /\ pre <> [] /\
              forall a, read_digits pre a = Some (a * 10 ^ N.of_nat (length pre) + n).
Proof.
  induction f as [|f IH]; intros n acc Hn Hf; [congruence|].
  cbn [digits_fuel].
  assert (Hm : n mod 10 < 10) by (apply N.mod_lt; lia).
  destruct (digit_ok _ Hm) as [Hd1 Hd2].
  destruct (N.eqb_spec (n / 10) 0) as [E|E].
  - exists [digit (n mod 10)]. split; [reflexivity|]. split; [discriminate|]. intros a.
    cbn [read_digits length]. rewrite Hd1, Hd2.
    assert (n = n mod 10) by (pose proof (N.div_mod n 10); lia).
    f_equal. change (N.of_nat 1) with 1. rewrite N.pow_1_r. lia.
  - assert (Hf' : f <> O).
    { intros ->. change (2 ^ N.of_nat 1) with 2 in Hn. apply E. apply N.div_small. lia. }
    assert (Hn' : n / 10 < 2 ^ N.of_nat f).
    { rewrite Nat2N.inj_succ, N.pow_succ_r' in Hn. apply N.div_lt_upper_bound; lia. }
    destruct (IH (n / 10) (digit (n mod 10) :: acc) Hn' Hf') as [pre [E1 [Hne Hr]]].
    exists (pre ++ [digit (n mod 10)]). split; [rewrite E1, <- app_assoc; reflexivity|].
    split; [destruct pre; discriminate|]. intros a.
    rewrite read_digits_app, Hr. cbn [read_digits]. rewrite Hd1, Hd2. f_equal.
    rewrite app_length. cbn [length]. rewrite Nat2N.inj_add. change (N.of_nat 1) with 1.
    rewrite N.pow_add_r, N.pow_1_r. pose proof (N.div_mod n 10). lia.
Qed.

Lemma log2_bound n : n < 2 ^ N.of_nat (S (N.to_nat (N.log2 n))).
Proof.
  rewrite Nat2N.inj_succ, N2Nat.id. destruct n as [|p]; [cbn; lia|].
  apply N.log2_spec. lia.
Qed.

Theorem read_print_nat n : read_nat (print_nat n) = Some n.
Proof.
  unfold print_nat.
  destruct (digits_fuel_spec _ n [] (log2_bound n) (Nat.neq_succ_0 _)) as [pre [E [Hne Hr]]].
  rewrite E, app_nil_r. unfold read_nat. destruct pre as [|c pre]; [congruence|]. rewrite Hr. f_equal; lia.
Qed.

(* the first character of a printed natural number is a digit, never the sign *)
Lemma print_nat_head n : exists c r, print_nat n = c :: r /\ is_digit c = true.
Proof.
  pose proof (read_print_nat n) as H. unfold read_nat in H.
  destruct (print_nat n) as [|c r]; [discriminate|]. exists c, r. split; [reflexivity|].
  cbn [read_digits] in H. destruct (is_digit c); [reflexivity|discriminate].
Qed.

Theorem read_print_int z : read_int (print_int z) = Some z.
Proof.
  destruct z as [|p|p]; cbn [print_int].
  - reflexivity.
  - destruct (print_nat_head (Z.to_N (Z.pos p))) as [c [r [E Hc]]].
    pose proof (read_print_nat (Z.to_N (Z.pos p))) as H. rewrite E in *. unfold read_int.
    destruct (N.eqb_spec c cMINUS) as [->|_]; [discriminate Hc|]. rewrite H. f_equal; lia.
  - unfold read_int. rewrite N.eqb_refl, read_print_nat. reflexivity.
Qed.

(* non-vacuity / sanity: concrete values, and what int() refuses *)
Example print_examples :
  print_int 0 = [48] /\ print_int 1203 = [49; 50; 48; 51] /\ print_int (-45) = [45; 52; 53] /\
  read_int [49; 50; 48; 51] = Some 1203%Z /\ read_int [] = None /\ read_int [45] = None /\ read_int [49; 46; 53] = None.
Proof. vm_compute. repeat split. Qed.
Print Assumptions read_print_int.
