(* Value-level laws that make the rewrites SQLAlchemy applies to the renderer's expression
   elements meaning-preserving under SQL's three-valued logic (all values: NULL, integers,
   strings, and the evaluator's error value). *)
From Coq Require Import ZArith PArith List Bool Lia.
From MSV Require Import Lib.Rel.
Import ListNotations.

(* ~(a = b) is rendered a != b, ~(a < b) is rendered a >= b, ... *)
Lemma v_not_of_bool b : v_not (of_bool b) = of_bool (negb b).
Proof. destruct b; reflexivity. Qed.
Lemma not_rel (f g : comparison -> bool) a b :
  (forall c, g c = negb (f c)) -> v_not (v_rel f a b) = v_rel g a b.
Proof.
  intros H. destruct a as [|x|x|], b as [|y|y|]; try reflexivity; unfold v_rel, v_cmp;
    rewrite v_not_of_bool, H; reflexivity.
Qed.

Theorem not_eq a b : v_not (v_rel c_eq a b) = v_rel c_ne a b.
Proof. apply not_rel. intros c; reflexivity. Qed.
Theorem not_ne a b : v_not (v_rel c_ne a b) = v_rel c_eq a b.
Proof. apply not_rel. intros c; unfold c_ne; now rewrite negb_involutive. Qed.
Theorem not_lt a b : v_not (v_rel c_lt a b) = v_rel c_ge a b.
Proof. apply not_rel. intros []; reflexivity. Qed.
Theorem not_le a b : v_not (v_rel c_le a b) = v_rel c_gt a b.
Proof. apply not_rel. intros []; reflexivity. Qed.
Theorem not_gt a b : v_not (v_rel c_gt a b) = v_rel c_le a b.
Proof. apply not_rel. intros []; reflexivity. Qed.
Theorem not_ge a b : v_not (v_rel c_ge a b) = v_rel c_lt a b.
Proof. apply not_rel. intros []; reflexivity. Qed.

(* NOT (x IS NULL) is rendered x IS NOT NULL *)
Definition is_null_v (x : val) : val := match x with VErr => VErr | VNull => VInt 1 | _ => VInt 0 end.
Definition not_null_v (x : val) : val := match x with VErr => VErr | VNull => VInt 0 | _ => VInt 1 end.
Theorem not_is_null x : v_not (is_null_v x) = not_null_v x.
Proof. destruct x; reflexivity. Qed.
Theorem not_not_null x : v_not (not_null_v x) = is_null_v x.
Proof. destruct x; reflexivity. Qed.

(* double negation is dropped only on truth values *)
Theorem not_not_truth x : truth (v_not (v_not x)) = truth x.
Proof. destruct x as [|z| |]; try reflexivity. destruct z; reflexivity. Qed.

(* AND / OR lists are flattened: a AND (b AND c) is rendered a AND b AND c *)
Theorem and_assoc a b c : v_and (v_and a b) c = v_and a (v_and b c).
Proof. destruct a as [|[|p|p]| |], b as [|[|q|q]| |], c as [|[|r|r]| |]; reflexivity. Qed.
Theorem or_assoc a b c : v_or (v_or a b) c = v_or a (v_or b c).
Proof. destruct a as [|[|p|p]| |], b as [|[|q|q]| |], c as [|[|r|r]| |]; reflexivity. Qed.

(* + and * chains are flattened: a + (b + c) is rendered a + b + c *)
Definition no_str (v : val) : bool := match v with VStr _ => false | _ => true end.
Theorem add_assoc a b c : no_str a = true -> no_str b = true -> no_str c = true ->
  v_arith Z.add (v_arith Z.add a b) c = v_arith Z.add a (v_arith Z.add b c).
Proof. destruct a, b, c; try reflexivity; try discriminate. intros _ _ _. unfold v_arith. f_equal. lia. Qed.
Theorem mul_assoc a b c : no_str a = true -> no_str b = true -> no_str c = true ->
  v_arith Z.mul (v_arith Z.mul a b) c = v_arith Z.mul a (v_arith Z.mul b c).
Proof.
  destruct a, b, c; try reflexivity; try discriminate. intros _ _ _. unfold v_arith. f_equal.
  symmetry. apply Z.mul_assoc.
Qed.
(* - is not: SQLAlchemy must keep (and does keep) the grouping of a - (b - c) *)
Theorem sub_not_assoc : exists a b c, v_arith Z.sub (v_arith Z.sub a b) c <> v_arith Z.sub a (v_arith Z.sub b c).
Proof. exists (VInt 1), (VInt 1), (VInt 1). vm_compute. discriminate. Qed.

