(* Facts about the tokenizer model that hold for every rule table. *)
From Coq Require Import NArith PArith List Bool Arith Lia.
From MSV Require Import Lib.PyStr Lib.Re Model.Lex.
Import ListNotations.

Definition rewrites (r : rule) : bool := match r_act r with ARewrite _ => true | _ => false end.
(* no rule rewrites token.value *)
Definition K_raw (rules : list rule) : bool := forallb (fun r => negb (rewrites r)) rules.

Section P.
Variable U : uenv.
Variable rules : list rule.
Variable ignore : list N.

Lemma first_match_in rs prev s r lexeme rest :
  first_match U rs prev s = inl (Some (r, lexeme, rest)) -> In r rs.
Proof.
  induction rs as [|x rs IH]; simpl; [discriminate|].
  destruct (match_at U true (r_re x) prev s) as [[[l rst]|]|]; try discriminate.
  - intros [= <- <- <-]. now left.
  - intros H. right. auto.
Qed.

Lemma lex_loop_values fuel : forall prev s idx line acc toks,
  K_raw rules = true ->
  Forall (fun t => lt_value t = lt_lexeme t) acc ->
  lex_loop U rules ignore fuel prev s idx line acc = LexOk toks ->
  Forall (fun t => lt_value t = lt_lexeme t) toks.
Proof.
  induction fuel as [|f IH]; intros prev s idx line acc toks HK Hacc H; [discriminate|].
  cbn [lex_loop] in H. destruct s as [|c s'].
  - injection H as <-. now apply Forall_rev.
  - destruct (memN c ignore); [eapply IH; eauto|].
    destruct (first_match U rules prev (c :: s')) as [[[[r lexeme] rest]|]|] eqn:Ef; try discriminate.
    pose proof (first_match_in _ _ _ _ _ _ Ef) as Hin.
    assert (Hr : negb (rewrites r) = true).
    { pose proof HK as HK0. unfold K_raw in HK0. rewrite forallb_forall in HK0. now apply HK0. }
    unfold rewrites in Hr.
    destruct (r_act r); try discriminate; try (eapply IH; eauto; fail).
    eapply IH; [exact HK| |exact H]. constructor; auto.
Qed.

Theorem lex_values_are_lexemes s toks :
  K_raw rules = true -> lex U rules ignore s = LexOk toks ->
  Forall (fun t => lt_value t = lt_lexeme t) toks.
Proof. intros HK H. unfold lex in H. eapply lex_loop_values; eauto. Qed.
End P.
