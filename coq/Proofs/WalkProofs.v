(* The walker engine, driven by a schedule that matches the schema on the classes that occur,
   visits every node exactly once, in pre-order, left to right, with the roles of the positions:
   walk = spec, for all trees. *)
From Coq Require Import PArith List Bool Arith Lia.
From MSV Require Import Model.Walk.
Import ListNotations.
Local Open Scope positive_scope.

Lemma node_ind' (P : node -> Prop) :
  (forall id cls ch, Forall (fun sc => P (snd sc)) ch -> P (Nd id cls ch)) -> forall n, P n.
Proof.
  intros H. fix IH 1. intros [id cls ch]. apply H.
  induction ch as [|[s c] r IHr]; constructor; [apply IH|apply IHr].
Qed.

Section W.
Variable S : sched.
Variable Q : schema.

(* the inner loops as flat_maps *)
Definition step_e (e : entry) (sc : slot * node) : list visit :=
  if Pos.eqb (s_field (fst sc)) (e_field e)
  then (if is_none (snd sc) && negb (e_none e) then [] else walk S (snd sc) (e_table e) (e_target e))
  else [].
Definition step_s (sc : slot * node) : list visit :=
  if is_none (snd sc) then [] else spec (snd sc) (s_table (fst sc)) (s_target (fst sc)).

Lemma walk_unfold id cls ch tb tg :
  walk S (Nd id cls ch) tb tg =
  (id, tb, tg) :: flat_map (fun e => flat_map (step_e e) ch) (entries_of S cls).
Proof.
  cbn [walk]. f_equal. apply flat_map_ext. intros e.
  induction ch as [|[s c] r IH]; [reflexivity|]. cbn [flat_map]. rewrite <- IH. reflexivity.
Qed.

Lemma spec_unfold id cls ch tb tg :
  spec (Nd id cls ch) tb tg = (id, tb, tg) :: flat_map step_s ch.
Proof.
  cbn [spec]. f_equal. induction ch as [|[s c] r IH]; [reflexivity|]. cbn [flat_map]. rewrite <- IH. reflexivity.
Qed.

Lemma slot_eqb_eq a b : slot_eqb a b = true -> a = b.
Proof.
  unfold slot_eqb. intros H. apply andb_true_iff in H as [H H3]. apply andb_true_iff in H as [H1 H2].
  apply Pos.eqb_eq in H1. apply Bool.eqb_prop in H2. apply Bool.eqb_prop in H3.
  destruct a, b; simpl in *; congruence.
Qed.
Lemma slot_eqb_refl a : slot_eqb a a = true.
Proof. unfold slot_eqb. now rewrite Pos.eqb_refl, !Bool.eqb_reflx. Qed.

(* split a child list at the end of the run of slot [f] *)
Fixpoint take_eq (f : slot) (l : list (slot * node)) : list (slot * node) :=
  match l with sc :: r => if slot_eqb (fst sc) f then sc :: take_eq f r else [] | [] => [] end.
Fixpoint skip_eq (f : slot) (l : list (slot * node)) : list (slot * node) :=
  match l with sc :: r => if slot_eqb (fst sc) f then skip_eq f r else l | [] => [] end.

Lemma take_skip f l : l = take_eq f l ++ skip_eq f l.
Proof. induction l as [|sc r IH]; [reflexivity|]. simpl. destruct (slot_eqb (fst sc) f); simpl; congruence. Qed.
Lemma skip_drop f l : map fst (skip_eq f l) = drop_eq f (map fst l).
Proof. induction l as [|sc r IH]; [reflexivity|]. simpl. destruct (slot_eqb (fst sc) f); auto. Qed.
Lemma take_all f l : Forall (fun sc => fst sc = f) (take_eq f l).
Proof.
  induction l as [|sc r IH]; simpl; [constructor|].
  destruct (slot_eqb (fst sc) f) eqn:E; constructor; auto. now apply slot_eqb_eq.
Qed.

(* the slots of a well-formed child list are slots of the schema *)
Lemma wf_slots_in fs : forall ss, wf_slots fs ss = true -> Forall (fun s => In s fs) ss.
Proof.
  induction fs as [|f fr IH]; intros ss H.
  - destruct ss; [constructor|discriminate].
  - cbn [wf_slots] in H. specialize (IH _ H).
    clear H. induction ss as [|s r IHs]; [constructor|].
    cbn [drop_eq] in IH. destruct (slot_eqb s f) eqn:E.
    + constructor; [left; symmetry; now apply slot_eqb_eq|]. apply IHs. exact IH.
    + eapply Forall_impl; [|exact IH]. intros a Ha. now right.
Qed.

Lemma nodupb_notin x l : nodupb (x :: l) = true -> ~ In x l /\ nodupb l = true.
Proof.
  cbn [nodupb]. intros H. apply andb_true_iff in H as [H1 H2]. split; auto.
  intros Hi. apply negb_true_iff in H1.
  assert (existsb (Pos.eqb x) l = true) by (apply existsb_exists; exists x; split; auto; apply Pos.eqb_refl).
  congruence.
Qed.

Lemma step_e_nomatch e l :
  Forall (fun sc => s_field (fst sc) <> e_field e) l -> flat_map (step_e e) l = [].
Proof.
  induction 1 as [|sc r H _ IH]; [reflexivity|]. cbn [flat_map]. rewrite IH. unfold step_e.
  destruct (Pos.eqb (s_field (fst sc)) (e_field e)) eqn:E; [apply Pos.eqb_eq in E; contradiction|reflexivity].
Qed.

Lemma entries_ok_fields es : forall fs, entries_ok es fs = true -> map e_field es = map s_field fs.
Proof.
  induction es as [|e es IH]; intros [|f fs] H; try discriminate; [reflexivity|].
  cbn [entries_ok] in H. apply andb_true_iff in H as [H1 H2]. cbn [map]. f_equal; auto.
  unfold entry_ok in H1. repeat (apply andb_true_iff in H1; destruct H1 as [H1 ?]). now apply Pos.eqb_eq.
Qed.

Lemma fm_ext_in {A B} (f g : A -> list B) l :
  (forall x, In x l -> f x = g x) -> flat_map f l = flat_map g l.
Proof.
  induction l as [|x r IH]; intros H; [reflexivity|]. cbn [flat_map].
  rewrite (H x (or_introl eq_refl)), IH; auto. intros y Hy. apply H. now right.
Qed.

Lemma main_lemma fs : forall es l,
  entries_ok es fs = true -> nodupb (map s_field fs) = true -> wf_slots fs (map fst l) = true ->
  (forall sc, In sc l -> is_none (snd sc) = false ->
              forall tb tg, walk S (snd sc) tb tg = spec (snd sc) tb tg) ->
  flat_map (fun e => flat_map (step_e e) l) es = flat_map step_s l.
Proof.
  induction fs as [|f fr IH]; intros es l Hes Hnd Hwf HI.
  - destruct es; [|discriminate]. destruct l; [reflexivity|discriminate].
  - destruct es as [|e er]; [discriminate|]. cbn [entries_ok] in Hes.
    apply andb_true_iff in Hes as [He Her]. cbn [map] in Hnd.
    destruct (nodupb_notin _ _ Hnd) as [Hnotin Hnd'].
    cbn [wf_slots] in Hwf.
    pose proof (take_skip f l) as Hsplit.
    set (l1 := take_eq f l) in *. set (l2 := skip_eq f l) in *.
    assert (Hwf2 : wf_slots fr (map fst l2) = true) by (unfold l2; now rewrite skip_drop).
    assert (Hl2 : Forall (fun sc => In (fst sc) fr) l2).
    { pose proof (wf_slots_in fr _ Hwf2) as H. rewrite Forall_map in H. exact H. }
    unfold entry_ok in He.
    apply andb_true_iff in He as [He Hrepl]. apply andb_true_iff in He as [He Hnone].
    apply andb_true_iff in He as [He Htg]. apply andb_true_iff in He as [Hfld Htb].
    apply Pos.eqb_eq in Hfld. apply Bool.eqb_prop in Htb. apply Bool.eqb_prop in Htg.
    apply negb_true_iff in Hnone.
    assert (Hin1 : forall sc, In sc l1 -> In sc l) by (intros sc H; rewrite Hsplit; apply in_or_app; now left).
    assert (Hin2 : forall sc, In sc l2 -> In sc l) by (intros sc H; rewrite Hsplit; apply in_or_app; now right).
    pose proof (take_all f l) as Hall1. fold l1 in Hall1.
    (* F1: entry e on the run of f behaves like the spec *)
    assert (F1 : flat_map (step_e e) l1 = flat_map step_s l1).
    { apply fm_ext_in. intros sc Hsc. rewrite Forall_forall in Hall1. pose proof (Hall1 sc Hsc) as Hf.
      unfold step_e, step_s. rewrite Hf, Hfld, Pos.eqb_refl, Hnone, Htb, Htg. cbn [negb]. rewrite andb_true_r.
      destruct (is_none (snd sc)) eqn:En; [reflexivity|]. apply HI; auto. }
    (* F2: entry e finds nothing after the run *)
    assert (F2 : flat_map (step_e e) l2 = []).
    { apply step_e_nomatch. eapply Forall_impl; [|exact Hl2]. intros sc Hsc Heq.
      apply Hnotin. rewrite <- Hfld, <- Heq. now apply in_map. }
    (* F3: the other entries find nothing inside the run *)
    assert (F3 : flat_map (fun e' => flat_map (step_e e') l) er = flat_map (fun e' => flat_map (step_e e') l2) er).
    { apply fm_ext_in. intros e' He'. rewrite Hsplit at 1. rewrite flat_map_app.
      rewrite (step_e_nomatch e' l1); [reflexivity|].
      eapply Forall_impl; [|exact Hall1]. intros sc Hf Heq. cbn beta in Hf. rewrite Hf in Heq.
      apply Hnotin. rewrite Heq. rewrite <- (entries_ok_fields er fr Her). now apply in_map. }
    cbn [flat_map]. rewrite F3. rewrite Hsplit at 1. rewrite flat_map_app, F1, F2. cbn [app].
    rewrite (IH er l2 Her Hnd' Hwf2); [|intros sc Hsc; apply HI; auto].
    rewrite app_nil_r. rewrite <- flat_map_app. now rewrite <- Hsplit.
Qed.

Theorem walk_is_spec : forall n, okb S Q n = true -> is_none n = false ->
  forall tb tg, walk S n tb tg = spec n tb tg.
Proof.
  induction n as [id cls ch IH] using node_ind'. intros Hok Hnn tb tg.
  rewrite walk_unfold, spec_unfold. f_equal.
  cbn [okb] in Hok. apply andb_true_iff in Hok as [Hc Hch].
  unfold is_none in Hnn. cbn [ncls] in Hnn. rewrite Hnn in Hc. cbn [orb] in Hc.
  apply andb_true_iff in Hc as [Hg Hwf]. unfold good_class in Hg. apply andb_true_iff in Hg as [Hes Hnd].
  apply (main_lemma (slots_of Q cls)); auto.
  intros sc Hsc Hn2 tb' tg'. rewrite Forall_forall in IH. apply (IH sc Hsc); auto.
  clear - Hch Hsc. induction ch as [|[s c] r IHr]; [contradiction|].
  apply andb_true_iff in Hch as [H1 H2]. destruct Hsc as [<-|Hsc]; auto.
Qed.
End W.

Section R.
Variable S : sched.
Variable Q : schema.

Lemma find_entry_ok es : forall fs s, entries_ok es fs = true -> In s fs ->
  exists e, find_entry es (s_field s) = Some e /\ e_none e = false /\ e_repl e = RSlot.
Proof.
  induction es as [|e es IH]; intros [|f fs] s H Hin; try discriminate; [contradiction|].
  cbn [entries_ok] in H. apply andb_true_iff in H as [He Hr].
  unfold entry_ok in He. apply andb_true_iff in He as [He Hrepl]. apply andb_true_iff in He as [He Hnone].
  apply andb_true_iff in He as [He _]. apply andb_true_iff in He as [Hfld _]. apply Pos.eqb_eq in Hfld.
  cbn [find_entry]. destruct (Pos.eqb (e_field e) (s_field s)) eqn:E.
  - exists e. split; [reflexivity|]. split; [now apply negb_true_iff in Hnone|].
    destruct (e_repl e); try discriminate; reflexivity.
  - destruct Hin as [<-|Hin]; [rewrite Hfld, Pos.eqb_refl in E; discriminate|]. eapply IH; eauto.
Qed.

Theorem wrepl_is_subst : forall n x r, okb S Q n = true -> is_none n = false ->
  wrepl S n x r = subst n x r.
Proof.
  induction n as [id cls ch IH] using node_ind'. intros x r Hok Hnn.
  cbn [okb] in Hok. apply andb_true_iff in Hok as [Hc Hch].
  unfold is_none in Hnn. cbn [ncls] in Hnn. rewrite Hnn in Hc. cbn [orb] in Hc.
  apply andb_true_iff in Hc as [Hg Hwf]. unfold good_class in Hg. apply andb_true_iff in Hg as [Hes Hnd].
  pose proof (wf_slots_in _ _ Hwf) as Hin. rewrite Forall_map in Hin.
  cbn [wrepl subst]. f_equal. clear Hwf Hnn.
  induction ch as [|[s c] rest IHr]; [reflexivity|].
  apply andb_true_iff in Hch as [Hc1 Hc2]. inversion IH as [|? ? IHc IHrest]; subst.
  inversion Hin as [|? ? Hs Hinr]; subst. cbn [fst snd] in *.
  rewrite IHr; auto. f_equal. f_equal.
  destruct (find_entry_ok _ _ s Hes Hs) as (e & Hf & Hn & Hm). rewrite Hf, Hn, Hm. cbn [negb].
  rewrite andb_true_r. destruct (is_none c) eqn:En; [reflexivity|].
  destruct (Pos.eqb (nid c) x); [reflexivity|]. apply IHc; auto.
Qed.
End R.
