From Coq Require Import NArith List Bool Arith Lia.
From MSV Require Import Lib.PyStr Spec.Literal Model.Literal Model.Lex Model.Decode
     Proofs.PyStrLemmas Proofs.LiteralProofs.
Import ListNotations.
Local Open Scope N_scope.

Definition nobs (v : str) : bool := negb (memN cBS v).
Definition noedge (v : str) : bool :=
  match v with c :: _ => negb (N.eqb c cQ) | [] => true end &&
  match rev v with c :: _ => negb (N.eqb c cQ) | [] => true end.
Fixpoint noadj (v : str) : bool :=
  match v with
  | a :: ((b :: _) as r) => negb (N.eqb a cQ && N.eqb b cQ) && noadj r
  | _ => true
  end.

Definition dbl (v : str) : str := flat_map (fun x => if N.eqb cQ x then [cQ; cQ] else [x]) v.
Definition bsq (v : str) : str := flat_map (fun x => if N.eqb cQ x then [cBS; cQ] else [x]) v.

Lemma nobs_notin v : nobs v = true -> ~ In cBS v.
Proof. unfold nobs. intros H Hi. apply memN_true in Hi. rewrite Hi in H. discriminate. Qed.

Lemma ops_eqb_eq a b : ops_eqb a b = true -> a = b.
Proof.
  revert b. induction a as [|x a IH]; intros [|y b] H; simpl in H; try discriminate; auto.
  apply andb_true_iff in H as [H1 H2]. f_equal; auto.
  destruct x, y; simpl in H1; try discriminate.
  - apply andb_true_iff in H1 as [A B]. apply str_eqb_eq in A. apply str_eqb_eq in B. now subst.
  - apply str_eqb_eq in H1. now subst.
  - apply str_eqb_eq in H1. now subst.
Qed.

Lemma K_mindsdb_ok ops d : K_decode_mindsdb ops d = true -> ops = ops_mindsdb_q /\ d = [cQ].
Proof.
  unfold K_decode_mindsdb. intros H. apply andb_true_iff in H as [H1 H2].
  apply ops_eqb_eq in H1. apply str_eqb_eq in H2. auto.
Qed.
Lemma K_plain_ok ops d : K_decode_plain ops d = true -> ops = [] /\ d = [cQ].
Proof.
  unfold K_decode_plain. intros H. apply andb_true_iff in H as [H1 H2].
  apply ops_eqb_eq in H1. apply str_eqb_eq in H2. auto.
Qed.

Opaque cQ cBS cDQ.
Lemma q_bs : N.eqb cQ cBS = false. Proof. reflexivity. Qed.
Lemma bs_q : N.eqb cBS cQ = false. Proof. reflexivity. Qed.
Lemma q_dq : N.eqb cQ cDQ = false. Proof. reflexivity. Qed.
Lemma bs_dq : N.eqb cBS cDQ = false. Proof. reflexivity. Qed.
Lemma dq_q : N.eqb cDQ cQ = false. Proof. reflexivity. Qed.

Lemma in_dbl x v : In x (dbl v) -> In x v.
Proof.
  unfold dbl. intros H. apply in_flat_map in H as [y [Hy Hx]].
  destruct (N.eqb cQ y) eqn:E.
  - apply N.eqb_eq in E. subst y. destruct Hx as [<-|[<-|[]]]; exact Hy.
  - destruct Hx as [<-|[]]. exact Hy.
Qed.

(* '' -> ' undoes the doubling, provided the text before does not end in a lone quote *)
Lemma undbl v : forall t, replace_aux [cQ; cQ] [cQ] 0 (dbl v ++ t) = v ++ replace_aux [cQ; cQ] [cQ] 0 t.
Proof.
  induction v as [|x v IH]; intros t; [reflexivity|].
  unfold dbl in *. cbn [flat_map]. destruct (N.eqb cQ x) eqn:E.
  - apply N.eqb_eq in E. subst x. cbn [app replace_aux is_prefix]. rewrite !N.eqb_refl.
    cbn [andb length Nat.sub app]. rewrite IH. reflexivity.
  - cbn [app replace_aux is_prefix]. rewrite E. cbn [andb]. now rewrite IH.
Qed.

Lemma noedge_parts v : noedge v = true ->
  (match v with c :: _ => c <> cQ | [] => True end) /\
  (match rev v with c :: _ => c <> cQ | [] => True end).
Proof.
  unfold noedge. intros H. apply andb_true_iff in H as [H1 H2]. split.
  - destruct v as [|c r]; auto. apply negb_true_iff in H1. now apply N.eqb_neq.
  - destruct (rev v) as [|c r]; auto. apply negb_true_iff in H2. now apply N.eqb_neq.
Qed.

Theorem decode_doubled v :
  nobs v = true -> noedge v = true -> decode ops_mindsdb_q [cQ] (render_sa v) = v.
Proof.
  intros Hb He. destruct (noedge_parts v He) as [Hh Hl]. apply nobs_notin in Hb.
  unfold decode, ops_mindsdb_q, apply_ops, render_sa, quote_with. cbn [fold_left apply_op].
  rewrite replace1. fold (dbl v).
  assert (Hnb : ~ In cBS ([cQ] ++ dbl v ++ [cQ])).
  { intros Hi. apply in_app_or in Hi as [[E|[]]|Hi]; [discriminate|].
    apply in_app_or in Hi as [Hi|[E|[]]]; [|discriminate]. apply Hb. now apply in_dbl. }
  rewrite (replace2_absent cBS cDQ) by exact Hnb. rewrite (replace2_absent cBS cQ) by exact Hnb.
  destruct v as [|c r].
  - reflexivity.
  - unfold replace. cbn [app]. unfold dbl at 1. cbn [flat_map].
    assert (Ec : N.eqb cQ c = false) by (apply N.eqb_neq; intros E; apply Hh; now subst).
    rewrite Ec. cbn [app replace_aux is_prefix]. rewrite N.eqb_refl, Ec. cbn [andb].
    try (rewrite Ec; cbn [andb]).
    change (flat_map (fun x => if N.eqb cQ x then [cQ; cQ] else [x]) r) with (dbl r).
    rewrite undbl. cbn [replace_aux is_prefix]. rewrite N.eqb_refl. cbn [andb].
    change (cQ :: c :: r ++ [cQ]) with (cQ :: (c :: r) ++ [cQ]).
    now apply strip_delims.
Qed.

(* \' -> ' undoes the backslash escaping of a backslash-free value *)
Lemma unbsq v : forall t, ~ In cBS v ->
  replace_aux [cBS; cQ] [cQ] 0 (bsq v ++ t) = v ++ replace_aux [cBS; cQ] [cQ] 0 t.
Proof.
  induction v as [|x v IH]; intros t Hb; [reflexivity|].
  assert (Hx : x <> cBS) by (intros ->; apply Hb; now left).
  assert (Hv : ~ In cBS v) by (intros H; apply Hb; now right).
  unfold bsq in *. cbn [flat_map]. destruct (N.eqb cQ x) eqn:E.
  - apply N.eqb_eq in E. subst x. cbn [app replace_aux is_prefix]. rewrite !N.eqb_refl.
    cbn [andb length Nat.sub app]. now rewrite IH.
  - cbn [app replace_aux is_prefix].
    assert (E2 : N.eqb cBS x = false) by (apply N.eqb_neq; congruence).
    rewrite E2. cbn [andb]. now rewrite IH.
Qed.

Lemma bsq_no_bsdq v : forall t, ~ In cBS v ->
  replace_aux [cBS; cDQ] [cDQ] 0 (bsq v ++ t) = bsq v ++ replace_aux [cBS; cDQ] [cDQ] 0 t.
Proof.
  induction v as [|x v IH]; intros t Hb; [reflexivity|].
  assert (Hx : x <> cBS) by (intros ->; apply Hb; now left).
  assert (Hv : ~ In cBS v) by (intros H; apply Hb; now right).
  unfold bsq in *. cbn [flat_map]. destruct (N.eqb cQ x) eqn:E.
  - cbn [app replace_aux is_prefix]. rewrite N.eqb_refl, dq_q. cbn [andb].
    cbn [replace_aux is_prefix]. rewrite bs_q. cbn [andb]. now rewrite IH.
  - cbn [app replace_aux is_prefix].
    assert (E2 : N.eqb cBS x = false) by (apply N.eqb_neq; congruence).
    rewrite E2. cbn [andb]. now rewrite IH.
Qed.

Lemma noadj_cons2 a b r : noadj (a :: b :: r) = negb (N.eqb a cQ && N.eqb b cQ) && noadj (b :: r).
Proof. reflexivity. Qed.

Lemma noadj_replace s : noadj s = true -> replace_aux [cQ; cQ] [cQ] 0 s = s.
Proof.
  induction s as [|a r IH]; intros H; [reflexivity|].
  cbn [replace_aux is_prefix]. destruct r as [|b r'].
  - destruct (N.eqb cQ a); reflexivity.
  - rewrite noadj_cons2 in H. apply andb_true_iff in H as [H1 H2].
    destruct (N.eqb cQ a) eqn:Ea; cbn [andb].
    + destruct (N.eqb cQ b) eqn:Eb; cbn [andb].
      * rewrite (N.eqb_sym a), (N.eqb_sym b), Ea, Eb in H1. discriminate.
      * f_equal. now apply IH.
    + f_equal. now apply IH.
Qed.

Lemma noadj_wrap v : v <> [] -> noadj v = true -> noedge v = true -> noadj (cQ :: v ++ [cQ]) = true.
Proof.
  intros Hne Ha He. destruct (noedge_parts v He) as [Hh Hl].
  assert (G : forall w, noadj w = true ->
              (match rev w with c :: _ => c <> cQ | [] => True end) -> noadj (w ++ [cQ]) = true).
  { induction w as [|a [|b r] IH]; intros Hw Hlast.
    - reflexivity.
    - simpl in Hlast. cbn [app noadj]. apply N.eqb_neq in Hlast. rewrite Hlast. reflexivity.
    - rewrite noadj_cons2 in Hw. apply andb_true_iff in Hw as [H1 H2].
      change ((a :: b :: r) ++ [cQ]) with (a :: b :: r ++ [cQ]). rewrite noadj_cons2. rewrite H1. cbn [andb].
      change (b :: r ++ [cQ]) with ((b :: r) ++ [cQ]). apply IH; auto.
      cbn [rev] in *. destruct (rev r ++ [b]) as [|z zs] eqn:Ez.
      + destruct (rev r); discriminate.
      + cbn [app] in Hlast. exact Hlast. }
  destruct v as [|c r].
  - congruence.
  - change (cQ :: (c :: r) ++ [cQ]) with (cQ :: c :: r ++ [cQ]). rewrite noadj_cons2.
    assert (Ec : N.eqb c cQ = false) by (now apply N.eqb_neq). rewrite Ec, andb_false_r. cbn [negb andb].
    change (c :: r ++ [cQ]) with ((c :: r) ++ [cQ]). now apply G.
Qed.

Lemma rep_skip_q b new s :
  replace_aux [cBS; b] new 0 (cQ :: s) = cQ :: replace_aux [cBS; b] new 0 s.
Proof. cbn [replace_aux is_prefix]. rewrite bs_q. reflexivity. Qed.
Lemma rep_end_q b new : replace_aux [cBS; b] new 0 [cQ] = [cQ].
Proof. cbn [replace_aux is_prefix]. rewrite bs_q. reflexivity. Qed.

Theorem decode_backslashed v :
  nobs v = true -> noedge v = true -> noadj v = true ->
  decode ops_mindsdb_q [cQ] (render_ts v) = v.
Proof.
  intros Hb He Ha. destruct (noedge_parts v He) as [Hh Hl]. apply nobs_notin in Hb.
  destruct (list_eq_dec N.eq_dec v []) as [->|Hne]; [reflexivity|].
  unfold decode, ops_mindsdb_q, apply_ops, render_ts, quote_with. cbn [fold_left apply_op].
  rewrite replace1. fold (bsq v). unfold replace.
  change ([cQ] ++ bsq v ++ [cQ]) with (cQ :: bsq v ++ [cQ]).
  rewrite rep_skip_q, bsq_no_bsdq, rep_end_q by exact Hb.
  rewrite rep_skip_q, unbsq, rep_end_q by exact Hb.
  rewrite noadj_replace by (now apply noadj_wrap).
  now apply strip_delims.
Qed.

(* sqlite / mysql dialects: no escapes at all; the lexeme is quote, quote-free body, quote *)
Theorem decode_plain body : ~ In cQ body -> decode [] [cQ] ([cQ] ++ body ++ [cQ]) = body.
Proof.
  intros Hq. unfold decode, apply_ops. cbn [fold_left app]. apply strip_delims.
  - destruct body as [|c r]; auto. intros ->. apply Hq. now left.
  - destruct (rev body) as [|c r] eqn:E; auto. intros ->. apply Hq. apply in_rev. rewrite E. now left.
Qed.

Transparent cQ cBS cDQ.
(* the full statement (decode = what the literal denotes, for every lexeme) is false of the
   faithful model: *)
Definition refute_witnesses : list (str * str) :=
  [ ([39; 39; 39; 39], [39]);                     (* ''''   denotes '   *)
    ([39; 39; 39; 97; 39], [39; 97]);             (* '''a'  denotes 'a  *)
    ([39; 97; 39; 39; 39], [97; 39]);             (* 'a'''  denotes a'  *)
    ([39; 92; 39; 92; 39; 39], [39; 39]);         (* '\'\'' denotes ''  *)
    ([39; 92; 92; 110; 39], [92; 110]) ].         (* '\\n'  denotes \n (backslash, n) *)
Theorem decode_refuted :
  forallb (fun p => match denote_q (fst p) with
                    | Some v => str_eqb v (snd p) && negb (str_eqb (decode ops_mindsdb_q [cQ] (fst p)) v)
                    | None => false end) refute_witnesses = true.
Proof. vm_compute. reflexivity. Qed.

(* printing side: a value ending in a backslash *)
Theorem encode_refuted : decode ops_mindsdb_q [cQ] (render_ts [97; 92]) <> [97; 92].
Proof. vm_compute. discriminate. Qed.

Example guards_inhabited : let v := [105; 116; 39; 115; 32; 34; 120; 34] in
  nobs v = true /\ noedge v = true /\ noadj v = true.
Proof. vm_compute. auto. Qed.
