From Coq Require Import NArith List Bool Arith Lia.
From MSV Require Import Lib.PyStr Model.Resolve Proofs.LiteralProofs.
Import ListNotations.
Local Open Scope N_scope.

Lemma str_eqb_refl s : str_eqb s s = true.
Proof. induction s; simpl; auto. now rewrite N.eqb_refl. Qed.

Lemma mems_in s l : mems s l = true <-> In s l.
Proof.
  unfold mems. rewrite existsb_exists. split.
  - intros [x [Hi He]]. apply str_eqb_eq in He. now subst.
  - intros H. exists s. split; auto. apply str_eqb_refl.
Qed.

(* resolve_database_table computes exactly the specified route *)
Theorem resolve_db_spec C parts db rest :
  resolve_db C parts = Some (db, rest) <-> routes C parts db rest.
Proof.
  unfold resolve_db, routes. split.
  - destruct parts as [|p0 [|p1 r]].
    + destruct (c_default C) eqn:E; [|discriminate]. intros [= <- <-]. right.
      split; [intros ? ? H; discriminate|auto].
    + destruct (c_default C) eqn:E; [|discriminate]. intros [= <- <-]. right.
      split; [|auto]. intros q r [= <- <-] Hr. congruence.
    + destruct (mems (lower p0) (c_databases C)) eqn:Em.
      * intros [= <- <-]. left. exists p0, (p1 :: r). repeat split; auto; try discriminate.
        now apply mems_in.
      * destruct (c_default C) eqn:E; [|discriminate]. intros [= <- <-]. right. split; [|auto].
        intros q r' [= <- <-] _ Hin. apply mems_in in Hin. congruence.
  - intros [(p0 & r & -> & Hr & Hin & -> & ->) | (Hno & Hd & ->)].
    + destruct r as [|p1 r]; [congruence|]. apply mems_in in Hin. now rewrite Hin.
    + destruct parts as [|p0 [|p1 r]]; try (now rewrite Hd).
      destruct (mems (lower p0) (c_databases C)) eqn:Em; [|now rewrite Hd].
      exfalso. apply (Hno p0 (p1 :: r) eq_refl); [discriminate|]. now apply mems_in.
Qed.

(* the route does not depend on how the qualifier is spelled *)
Lemma lowc_idem c : lowc (lowc c) = lowc c.
Proof.
  unfold lowc at 2 3. destruct (N.leb 65 c && N.leb c 90) eqn:E.
  - apply andb_true_iff in E as [E1 E2]. apply N.leb_le in E1. apply N.leb_le in E2.
    unfold lowc. assert (H : N.leb (c + 32) 90 = false) by (apply N.leb_gt; lia).
    rewrite H, andb_false_r. reflexivity.
  - unfold lowc. now rewrite E.
Qed.
Lemma lower_idem s : lower (lower s) = lower s.
Proof. unfold lower. rewrite map_map. apply map_ext. apply lowc_idem. Qed.

Theorem spelling_irrelevant C p0 p0' p1 r :
  lower p0 = lower p0' -> In (lower p0) (c_databases C) ->
  resolve_db C (p0 :: p1 :: r) = resolve_db C (p0' :: p1 :: r).
Proof.
  intros H Hin. unfold resolve_db. cbn [tl]. rewrite <- H. apply mems_in in Hin. now rewrite Hin.
Qed.

(* the two resolvers agree on names whose qualifier is written in lower case and that have a
   table part ... *)
Theorem resolvers_agree_guarded C p0 p1 r :
  lower p0 = p0 -> resolve_join C (p0 :: p1 :: r) = resolve_db C (p0 :: p1 :: r).
Proof. intros H. unfold resolve_join, resolve_db. rewrite H. reflexivity. Qed.

(* ... and disagree otherwise: INT1.t with integration int1 and default namespace mindsdb *)
Theorem resolvers_agree_refuted :
  exists C parts, resolve_join C parts <> resolve_db C parts.
Proof.
  exists (mkCat [[105; 110; 116; 49]] [] (Some [109])), [[73; 78; 84; 49]; [116]].
  vm_compute. discriminate.
Qed.

(* the catalog encoding (names or dicts of type data) does not matter *)
Theorem catalog_encoding_irrelevant names preds d :
  mk_catalog (map CName names) preds d = mk_catalog (map (fun n => CDict n true) names) preds d.
Proof.
  unfold mk_catalog.
  assert (H : forall acc, fold_left (fun acc e => match e with
               | CName n => (fst acc ++ [lower n], snd acc)
               | CDict n true => (fst acc ++ [lower n], snd acc)
               | CDict n false => (fst acc, snd acc ++ [lower n]) end) (map CName names) acc
             = fold_left (fun acc e => match e with
               | CName n => (fst acc ++ [lower n], snd acc)
               | CDict n true => (fst acc ++ [lower n], snd acc)
               | CDict n false => (fst acc, snd acc ++ [lower n]) end) (map (fun n => CDict n true) names) acc).
  { induction names as [|n r IH]; intros acc; [reflexivity|]. simpl. apply IH. }
  unfold norm_entries. now rewrite H.
Qed.

(* a version suffix is split off and kept *)
Theorem predictor_version_kept d ns name v :
  is_digits v = true ->
  predictor_key d [ns; name; v] = Some (lower ns ++ [46] ++ lower name, name, Some v).
Proof. intros H. unfold predictor_key. simpl. now rewrite H. Qed.
