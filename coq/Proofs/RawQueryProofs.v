From Coq Require Import NArith List Bool Arith Lia.
From MSV Require Import Lib.PyStr Model.RawQuery.
Import ListNotations.

Lemma spaces_len n : length (spaces n) = n.
Proof. apply repeat_length. Qed.

Lemma tts_layout items : forall content line ln shift last_pos g,
  shift + length line = last_pos ->
  (match items with j :: _ => N.eqb (it_line j) ln = true \/ 1 <= g | [] => True end) ->
  gaps_ok items = true ->
  tts (mk_toks (last_pos + g) items) content line ln shift last_pos
  = content ++ line ++ sep ln g items ++ blanked items.
Proof.
  induction items as [|i r IH]; intros content line ln shift last_pos g Hinv Hg Hok.
  - simpl. now rewrite !app_nil_r.
  - cbn [mk_toks tts rk_line rk_index rk_value sep blanked].
    assert (Hok' : gaps_ok r = true).
    { destruct r; [reflexivity|]. cbn [gaps_ok] in Hok. now apply andb_true_iff in Hok. }
    assert (Hg' : match r with j :: _ => N.eqb (it_line j) (it_line i) = true \/ 1 <= it_gap i | [] => True end).
    { destruct r as [|j r']; [exact I|]. cbn [gaps_ok] in Hok. apply andb_true_iff in Hok as [H _].
      apply orb_true_iff in H as [H|H]; [now left|right; now apply Nat.leb_le]. }
    destruct (N.eqb (it_line i) ln) eqn:El; cbn [negb].
    + (* same line *)
      replace (last_pos + g - shift - length line) with g by lia.
      replace (last_pos + g + length (it_val i) + it_gap i)
        with ((last_pos + g + length (it_val i)) + it_gap i) by lia.
      rewrite IH; auto.
      * rewrite <- !app_assoc. reflexivity.
      * rewrite !app_length, spaces_len. lia.
    + (* first token of a new line *)
      destruct Hg as [Hg|Hg]; [congruence|].
      replace (last_pos + g - (last_pos + 1) - length (@nil N)) with (g - 1) by (simpl; lia).
      replace (last_pos + g + length (it_val i) + it_gap i)
        with ((last_pos + g + length (it_val i)) + it_gap i) by lia.
      rewrite IH; auto.
      * cbn [app]. rewrite <- !app_assoc. cbn [app]. reflexivity.
      * cbn [app]. rewrite !app_length, spaces_len. lia.
Qed.

(* the stored text = the original with each gap blanked, for every token list laid out
   consistently (any number of lines, any gaps) whose values are the lexemes themselves *)
Theorem tokens_to_string_blanked start items :
  items <> [] -> gaps_ok items = true ->
  tokens_to_string (mk_toks start items) = Some (blanked items).
Proof.
  intros Hne Hok. destruct items as [|i r]; [congruence|].
  unfold tokens_to_string. cbn [mk_toks rk_line rk_index tts rk_value].
  rewrite N.eqb_refl. cbn [negb]. rewrite Nat.sub_diag. cbn [Nat.sub length spaces repeat app].
  assert (Hok' : gaps_ok r = true).
  { destruct r; [reflexivity|]. cbn [gaps_ok] in Hok. now apply andb_true_iff in Hok. }
  assert (Hg' : match r with j :: _ => N.eqb (it_line j) (it_line i) = true \/ 1 <= it_gap i | [] => True end).
  { destruct r as [|j r']; [exact I|]. cbn [gaps_ok] in Hok. apply andb_true_iff in Hok as [H _].
    apply orb_true_iff in H as [H|H]; [now left|right; now apply Nat.leb_le]. }
  rewrite (tts_layout r [] (it_val i) (it_line i) start (start + length (it_val i)) (it_gap i)); auto.
Qed.

Example layout_inhabited :
  gaps_ok [mkI [115%N] 2 1%N; mkI [39%N; 39%N] 3 1%N; mkI [120%N] 0 2%N] = true.
Proof. reflexivity. Qed.
