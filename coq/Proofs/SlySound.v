(* Soundness of the sly LALR engine model w.r.t. the grammar the tables were built from:
   if [run] accepts, the token stream is the yield of a derivation tree rooted at the
   start symbol.  Table-independent; the only table fact used is [K_tables T = true]. *)
From Coq Require Import PArith List Bool FMapPositive Arith Lia.
From MSV Require Import Model.Sly.
Import ListNotations.
Local Open Scope positive_scope.

(* ---------- the grammar as a derivation relation (the spec) ---------- *)
Inductive derives (T : tables) : tree -> Prop :=
| d_leaf k : derives T (Leaf k)
| d_node p lhs cs :
    prod T p = Some (lhs, map root cs) ->
    Forall (derives T) cs ->
    derives T (Node p lhs cs).

(* ---------- generic list facts ---------- *)
Definition suffix {A} (a b : list A) : Prop := exists pre, b = pre ++ a.

Lemma list_eqb_eq a b : list_eqb a b = true -> a = b.
Proof.
  revert b; induction a as [|x a IH]; intros [|y b] H; simpl in H; try discriminate; auto.
  apply andb_true_iff in H as [H1 H2]. apply Pos.eqb_eq in H1. subst. f_equal. auto.
Qed.

Lemma is_suffix_ok a b : is_suffix a b = true -> suffix a b.
Proof.
  unfold is_suffix. intros H. apply andb_true_iff in H as [_ H].
  apply list_eqb_eq in H. exists (firstn (length b - length a) b).
  rewrite H at 2. symmetry. apply firstn_skipn.
Qed.

Lemma suffix_app {A} (a b : list A) x : suffix a b -> suffix (a ++ [x]) (b ++ [x]).
Proof. intros [pre ->]. exists pre. now rewrite app_assoc. Qed.

Lemma suffix_trans {A} (a b c : list A) : suffix a b -> suffix b c -> suffix a c.
Proof. intros [p ->] [q ->]. exists (q ++ p). now rewrite app_assoc. Qed.

Lemma suffix_cons_notin {A} (a b : list A) x : suffix a (x :: b) -> ~ In x a -> suffix a b.
Proof.
  intros [pre H] Hn. destruct pre as [|y pre]; simpl in H.
  - subst a. exfalso. apply Hn. now left.
  - injection H as _ H. now exists pre.
Qed.

Lemma app_len_inj {A} (a b c d : list A) :
  a ++ b = c ++ d -> length b = length d -> a = c /\ b = d.
Proof.
  revert c. induction a as [|x a IH]; intros [|y c] H L; simpl in *.
  - auto.
  - subst b. simpl in L. rewrite app_length in L. lia.
  - subst d. simpl in L. rewrite app_length in L. lia.
  - injection H as -> H. destruct (IH _ H L) as [-> ->]. auto.
Qed.

Lemma mem_false x l : mem x l = false -> ~ In x l.
Proof.
  unfold mem. intros H Hi. assert (existsb (Pos.eqb x) l = true).
  { apply existsb_exists. exists x. split; auto. apply Pos.eqb_refl. }
  congruence.
Qed.

Lemma assoc_in {A} k (l : list (positive * A)) v : assoc k l = Some v -> In (k, v) l.
Proof.
  induction l as [|[k' v'] l IH]; simpl; [discriminate|].
  destruct (Pos.eqb k k') eqn:E.
  - intros [= ->]. apply Pos.eqb_eq in E. subst. now left.
  - intros H. right. auto.
Qed.

(* ---------- extracting facts from K_tables ---------- *)
Section K.
Variable T : tables.
Hypothesis HK : K_tables T = true.

Lemma K_parts :
  (forall s r, PositiveMap.find s (t_action T) = Some r -> forallb (chk_act T s) r = true) /\
  (forall s p, PositiveMap.find s (t_default T) = Some p -> chk_reduce T s p = true) /\
  (forall s r, PositiveMap.find s (t_goto T) = Some r ->
               forallb (fun At => chk_edge T s (fst At) (snd At)) r = true) /\
  past T 1 = Some [END] /\ (action T 1 END = None \/ action T 1 END = Some Er) /\ PositiveMap.find 1 (t_default T) = None.
Proof.
  pose proof HK as H. unfold K_tables in H.
  apply andb_true_iff in H as [H H6]. apply andb_true_iff in H as [H H5].
  apply andb_true_iff in H as [H H4]. apply andb_true_iff in H as [H H3].
  apply andb_true_iff in H as [H1 H2].
  repeat split.
  - intros s r Hf. apply PositiveMap.elements_correct in Hf.
    rewrite forallb_forall in H1. apply (H1 _ Hf).
  - intros s p Hf. apply PositiveMap.elements_correct in Hf.
    rewrite forallb_forall in H2. apply (H2 _ Hf).
  - intros s r Hf. apply PositiveMap.elements_correct in Hf.
    rewrite forallb_forall in H3. apply (H3 _ Hf).
  - destruct (past T 1) as [ps|]; [|discriminate].
    apply list_eqb_eq in H4. now subst.
  - destruct (action T 1 END) as [[]|]; try discriminate; auto.
  - destruct (PositiveMap.find 1 (t_default T)); [discriminate|reflexivity].
Qed.

Lemma K_act s a x : action T s a = Some x -> chk_act T s (a, x) = true.
Proof.
  unfold action, row. destruct (PositiveMap.find s (t_action T)) as [r|] eqn:E; [|discriminate].
  intros H. apply assoc_in in H. destruct K_parts as [K1 _].
  specialize (K1 _ _ E). rewrite forallb_forall in K1. now apply K1.
Qed.

Lemma K_def s p : PositiveMap.find s (t_default T) = Some p -> chk_reduce T s p = true.
Proof. destruct K_parts as [_ [K2 _]]. apply K2. Qed.

Lemma K_goto s A t : goto T s A = Some t -> chk_edge T s A t = true.
Proof.
  unfold goto. destruct (PositiveMap.find s (t_goto T)) as [r|] eqn:E; [|discriminate].
  intros H. apply assoc_in in H. destruct K_parts as [_ [_ [K3 _]]].
  specialize (K3 _ _ E). rewrite forallb_forall in K3. now apply (K3 _ H).
Qed.

Lemma K_past1 : past T 1 = Some [END].
Proof. apply K_parts. Qed.
Lemma K_act1 : action T 1 END = None \/ action T 1 END = Some Er.
Proof. apply K_parts. Qed.
Lemma K_def1 : PositiveMap.find 1 (t_default T) = None.
Proof. apply K_parts. Qed.

Lemma K_no_err s x : action T s ERR = Some x -> False.
Proof.
  intros H. apply K_act in H. unfold chk_act in H. rewrite Pos.eqb_refl in H. discriminate.
Qed.

(* ---------- stack invariant ---------- *)
Definition trees (stk : list (positive * tree)) : list tree := map snd stk.
Definition yields (stk : list (positive * tree)) : list token :=
  concat (map yield (rev (trees stk))).
Definition symsof (stk : list (positive * tree)) : list sym :=
  END :: map root (rev (trees stk)).

Fixpoint shape (stk : list (positive * tree)) : Prop :=
  match stk with
  | [] => True
  | c :: r => (exists ps, past T (fst c) = Some ps /\ suffix ps (symsof (c :: r))) /\ shape r
  end.

Record SInv (stk : list (positive * tree)) : Prop := {
  s_der : Forall (derives T) (trees stk);
  s_shape : shape stk;
  s_roots : Forall (fun t => root t <> END) (trees stk)
}.

Lemma trees_cons c r : trees (c :: r) = snd c :: trees r.
Proof. reflexivity. Qed.

Lemma yield_node p l cs : yield (Node p l cs) = concat (map yield cs).
Proof. simpl. induction cs as [|c cs IH]; simpl; [reflexivity|]. now rewrite IH. Qed.

Lemma symsof_cons c stk : symsof (c :: stk) = symsof stk ++ [root (snd c)].
Proof. unfold symsof, trees. simpl. now rewrite map_app. Qed.

Lemma yields_cons c stk : yields (c :: stk) = yields stk ++ yield (snd c).
Proof.
  unfold yields, trees. simpl. rewrite map_app, concat_app. simpl. now rewrite app_nil_r.
Qed.

Lemma top_past stk : shape stk ->
  exists ps, past T (top_state stk) = Some ps /\ suffix ps (symsof stk).
Proof.
  destruct stk as [|[s t] r]; simpl.
  - intros _. exists [END]. split; [apply K_past1|]. now exists [].
  - intros [H _]. exact H.
Qed.

Lemma shape_skipn n stk : shape stk -> shape (skipn n stk).
Proof.
  revert stk. induction n as [|n IH]; intros stk H; [exact H|].
  destruct stk as [|c r]; [exact I|]. simpl. apply IH. apply H.
Qed.

Lemma push_shape stk X t :
  shape stk -> chk_edge T (top_state stk) X t = true ->
  forall tr, root tr = X -> shape ((t, tr) :: stk).
Proof.
  intros Hs Hc tr Hr. simpl. split; [|exact Hs].
  unfold chk_edge in Hc. destruct (top_past stk Hs) as [ps [Hp Hsuf]].
  rewrite Hp in Hc. destruct (past T t) as [pt|]; [|discriminate].
  exists pt. split; [reflexivity|].
  apply is_suffix_ok in Hc. rewrite symsof_cons. cbn [snd]. rewrite Hr.
  eapply suffix_trans; [exact Hc|]. now apply suffix_app.
Qed.

Lemma reduce_children stk p lhs rhs :
  SInv stk -> chk_reduce T (top_state stk) p = true -> prod T p = Some (lhs, rhs) ->
  (length rhs <= length stk)%nat /\
  map root (rev (trees (firstn (length rhs) stk))) = rhs /\ lhs <> END.
Proof.
  intros [Hd Hs Hr] Hc Hp. unfold chk_reduce in Hc. rewrite Hp in Hc.
  destruct (top_past stk Hs) as [ps [Hps Hsuf]]. rewrite Hps in Hc.
  apply andb_true_iff in Hc as [Hc Hl]. apply andb_true_iff in Hc as [Hc Hm].
  apply is_suffix_ok in Hc.
  assert (Hsf : suffix rhs (map root (rev (trees stk)))).
  { apply suffix_cons_notin with (x := END).
    - eapply suffix_trans; eauto.
    - apply mem_false. now destruct (mem END rhs). }
  destruct Hsf as [pre Hpre].
  assert (Hlen : (length rhs <= length stk)%nat).
  { apply (f_equal (@length _)) in Hpre.
    rewrite map_length, rev_length, app_length in Hpre. unfold trees in Hpre.
    rewrite map_length in Hpre. lia. }
  split; [exact Hlen|]. split.
  - set (n := length rhs) in *.
    assert (E : trees stk = trees (firstn n stk) ++ trees (skipn n stk)).
    { unfold trees. rewrite <- map_app. now rewrite firstn_skipn. }
    rewrite E, rev_app_distr, map_app in Hpre.
    apply app_len_inj in Hpre.
    + apply Hpre.
    + rewrite map_length, rev_length. unfold trees. rewrite map_length, firstn_length. lia.
  - intros ->. now rewrite Pos.eqb_refl in Hl.
Qed.

Lemma reduce_stack stk p lhs rhs t :
  SInv stk -> chk_reduce T (top_state stk) p = true -> prod T p = Some (lhs, rhs) ->
  goto T (top_state (skipn (length rhs) stk)) lhs = Some t ->
  let new := (t, Node p lhs (rev (trees (firstn (length rhs) stk)))) :: skipn (length rhs) stk in
  SInv new /\ yields new = yields stk.
Proof.
  intros HS Hc Hp Hg new.
  destruct (reduce_children stk p lhs rhs HS Hc Hp) as [Hlen [Hch Hne]].
  destruct HS as [Hd Hs Hr].
  set (n := length rhs) in *.
  assert (E : trees stk = trees (firstn n stk) ++ trees (skipn n stk)).
  { unfold trees. rewrite <- map_app. now rewrite firstn_skipn. }
  assert (Hd1 : Forall (derives T) (trees (firstn n stk)) /\ Forall (derives T) (trees (skipn n stk))).
  { rewrite E in Hd. now apply Forall_app in Hd. }
  assert (Hr1 : Forall (fun t => root t <> END) (trees (skipn n stk))).
  { rewrite E in Hr. now apply Forall_app in Hr. }
  split.
  - constructor.
    + unfold new. rewrite trees_cons. cbn [snd]. constructor.
      * constructor; [now rewrite Hch|]. apply Forall_rev. apply Hd1.
      * apply Hd1.
    + unfold new. apply push_shape with (X := lhs); auto.
      * now apply shape_skipn.
      * now apply K_goto.
    + unfold new. rewrite trees_cons. cbn [snd]. constructor; [exact Hne|exact Hr1].
  - unfold new. rewrite yields_cons. simpl snd. rewrite yield_node.
    unfold yields. rewrite E, rev_app_distr, map_app, concat_app. reflexivity.
Qed.

(* ---------- the invariants of the loop ---------- *)
Definition pending (s : pst) : list token :=
  match lookah s with Some (LTok t) => t :: input s | _ => input s end.

Record NInv (toks : list token) (s : pst) : Prop := {
  n_stack : SInv (stack s);
  n_yield : yields (stack s) ++ pending s = toks;
  n_ls : lstack s = [];
  n_look : lookah s <> Some LErr;
  n_end : lookah s = Some LEnd -> input s = [];
  n_cnt : errcount s = 0%nat;
  n_inp : Forall (fun t => ttype t <> END) (pending s)
}.

Definition EInv (s : pst) : Prop :=
  input s = [] /\ errok s = false /\ errcount s <> 0%nat /\
  (lookah s = Some LErr \/ (lookah s = None /\ lstack s = [] /\ stack s = [])).

Definition Inv (cb : cbkind) (toks : list token) (s : pst) : Prop :=
  NInv toks s \/ (cb = CbDrain /\ EInv s).

Definition good (toks : list token) (o : outcome) : Prop :=
  match o with
  | OAccept d _ => derives T d /\ root d = t_start T /\ yield d = toks
  | _ => True
  end.

Lemma do_reduce_inl s p s' :
  do_reduce T s p = inl s' ->
  exists lhs rhs t,
    prod T p = Some (lhs, rhs) /\ (length rhs <= length (stack s))%nat /\
    goto T (top_state (skipn (length rhs) (stack s))) lhs = Some t /\
    stack s' = (t, Node p lhs (rev (trees (firstn (length rhs) (stack s))))) :: skipn (length rhs) (stack s) /\
    lookah s' = lookah s /\ lstack s' = lstack s /\ input s' = input s /\
    errcount s' = errcount s /\ errok s' = errok s.
Proof.
  unfold do_reduce. destruct (prod T p) as [[lhs rhs]|]; [|discriminate].
  destruct (Nat.leb (length rhs) (length (stack s))) eqn:L; [|discriminate].
  destruct (goto T _ lhs) as [t|] eqn:G; [|discriminate].
  intros [= <-]. exists lhs, rhs, t. apply Nat.leb_le in L. simpl. repeat split; auto.
Qed.

Lemma do_reduce_not_accept s p d tr : do_reduce T s p <> inr (OAccept d tr).
Proof.
  unfold do_reduce. destruct (prod T p) as [[lhs rhs]|]; [|discriminate].
  destruct (Nat.leb _ _); [|discriminate]. destruct (goto T _ lhs); discriminate.
Qed.

Lemma reduce_NInv toks s p s' :
  NInv toks s -> chk_reduce T (top_state (stack s)) p = true ->
  do_reduce T s p = inl s' -> NInv toks s'.
Proof.
  intros [HS Hy Hls Hlk He Hc Hi] Hchk Hred.
  apply do_reduce_inl in Hred as (lhs & rhs & t & Hp & Hlen & Hg & Hst & E1 & E2 & E3 & E4 & E5).
  destruct (reduce_stack _ _ _ _ _ HS Hchk Hp Hg) as [HS' Hy'].
  assert (Ep : pending s' = pending s) by (unfold pending; now rewrite E1, E3).
  constructor.
  - now rewrite Hst.
  - rewrite Hst, Hy', Ep. exact Hy.
  - congruence.
  - congruence.
  - intros H. rewrite E3. apply He. congruence.
  - congruence.
  - now rewrite Ep.
Qed.

Lemma reduce_EInv s p s' : EInv s -> do_reduce T s p = inl s' ->
  lookah s = Some LErr -> EInv s'.
Proof.
  intros (H1 & H2 & H3 & H4) Hred Hl.
  apply do_reduce_inl in Hred as (lhs & rhs & t & Hp & Hlen & Hg & Hst & E1 & E2 & E3 & E4 & E5).
  unfold EInv. rewrite E1, E3, E4, E5. repeat split; auto.
Qed.

Lemma fetch_NInv toks s lk s1 :
  NInv toks s -> fetch s = (lk, s1) ->
  NInv toks s1 /\ lookah s1 = Some lk /\ stack s1 = stack s.
Proof.
  intros HN. pose proof HN as [HS Hy Hls Hlk He Hc Hi]. unfold fetch.
  destruct (lookah s) as [l|] eqn:El.
  - intros [= <- <-]. auto.
  - rewrite Hls. destruct (input s) as [|t r] eqn:Ei.
    + intros [= <- <-]. split; [|split; reflexivity].
      unfold pending in *. rewrite El, Ei in *.
      constructor; simpl; auto; try discriminate.
    + intros [= <- <-]. split; [|split; reflexivity].
      unfold pending in *. rewrite El, Ei in *.
      constructor; simpl; auto; try discriminate.
Qed.

Lemma suffix_two_end (x : sym) l :
  suffix [END; x] (END :: l) -> ~ In END l -> l = [x].
Proof.
  intros [pre H] Hn. destruct pre as [|y pre]; simpl in H.
  - now injection H as ->.
  - injection H as _ H. exfalso. apply Hn. rewrite H. apply in_or_app. right. now left.
Qed.

Definition noaccept (o : outcome) : Prop :=
  match o with OAccept _ _ => False | _ => True end.

Lemma step_EInv s :
  EInv s ->
  match step T CbDrain s with
  | inl s' => EInv s'
  | inr o => noaccept o
  end.
Proof.
  intros (Hi & Hok & Hcnt & Hph).
  unfold step.
  destruct Hph as [Hl | (Hl & Hls & Hst)].
  - (* error symbol is the lookahead *)
    destruct (PositiveMap.find (top_state (stack s)) (t_default T)) as [p|] eqn:Ed.
    { destruct (do_reduce T s p) as [s'|o] eqn:Er.
      - eapply reduce_EInv; eauto. unfold EInv; repeat split; auto.
      - destruct o; simpl; auto. eapply do_reduce_not_accept; eauto. }
    unfold fetch. rewrite Hl. simpl look_sym.
    destruct (action T (top_state (stack s)) ERR) as [x|] eqn:Ea.
    { exfalso. eapply K_no_err; eauto. }
    unfold do_error. rewrite Hok.
    destruct (Nat.eqb (errcount s) 0) eqn:E0; [apply Nat.eqb_eq in E0; contradiction|].
    simpl orb. cbn iota. cbn [stack lookah lstack input errcount errok ncalls einfo trace].
    destruct (stack s) as [|c rest] eqn:Es; simpl.
    + unfold EInv. simpl. repeat split; auto.
    + unfold EInv. simpl. repeat split; auto.
  - (* stack reset, nothing left to read *)
    rewrite Hst. simpl top_state. rewrite K_def1.
    unfold fetch. rewrite Hl, Hls, Hi. simpl look_sym.
    assert (HE1 : match action T 1 END with Some Er | None => True | _ => False end)
      by (destruct K_act1 as [-> | ->]; exact I).
    destruct (action T 1 END) as [[]|]; try contradiction;
    unfold do_error; simpl; rewrite Hok;
    (destruct (Nat.eqb (errcount s) 0) eqn:E0; [apply Nat.eqb_eq in E0; contradiction|]);
    simpl; destruct (stack s); exact I.
Qed.
(*
    destruct (Nat.eqb (errcount s) 0) eqn:E0; [apply Nat.eqb_eq in E0; contradiction|].
*)

Lemma error_NInv cb toks s1 lk :
  cb <> CbIgnore -> NInv toks s1 -> lookah s1 = Some lk ->
  match do_error T cb s1 lk with
  | inl s' => Inv cb toks s'
  | inr o => good toks o
  end.
Proof.
  intros Hcb HN1 Hl1.
      pose proof HN1 as [HS Hy Hls Hlk He Hc Hi].
      unfold do_error. rewrite Hc. simpl orb.
      destruct cb; [simpl; auto| |contradiction].
      destruct (is_end lk) eqn:Ee; [simpl; auto|].
      cbn [stack lookah lstack input errcount errok].
      destruct (stack s1) as [|c rest] eqn:Es.
      * right. split; [reflexivity|]. unfold EInv. simpl. repeat split; auto.
      * destruct (is_err lk) eqn:Eerr.
        { destruct lk; try discriminate. congruence. }
        right. split; [reflexivity|]. unfold EInv. simpl. repeat split; auto.
Qed.

Lemma step_inv cb toks s :
  cb <> CbIgnore -> Inv cb toks s ->
  match step T cb s with
  | inl s' => Inv cb toks s'
  | inr o => good toks o
  end.
Proof.
  intros Hcb [HN | [Hd HE]].
  - (* normal phase *)
    unfold step.
    destruct (PositiveMap.find (top_state (stack s)) (t_default T)) as [p|] eqn:Ed.
    { destruct (do_reduce T s p) as [s'|o] eqn:Er.
      - left. eapply reduce_NInv; eauto. now apply K_def.
      - destruct o; simpl; auto. exfalso. eapply do_reduce_not_accept; eauto. }
    destruct (fetch s) as [lk s1] eqn:Ef.
    destruct (fetch_NInv _ _ _ _ HN Ef) as [HN1 [Hl1 Hst1]].
    rewrite <- Hst1.
    destruct (action T (top_state (stack s1)) (look_sym lk)) as [[t|p| |]|] eqn:Ea.
    + (* shift *)
      destruct lk as [k| |]; [|exact I|exact I].
      left.
      pose proof HN1 as [HS Hy Hls Hlk He Hc Hi].
      apply K_act in Ea. unfold chk_act in Ea. apply andb_true_iff in Ea as [_ Ea].
      unfold pending in Hy, Hi. rewrite Hl1 in Hy, Hi.
      destruct HS as [Hder Hsh Hrt].
      constructor; unfold pending; cbn [stack lookah lstack input errcount errok].
      * constructor.
        -- rewrite trees_cons. cbn [snd]. constructor; [constructor|exact Hder].
        -- apply push_shape with (X := ttype k); auto.
        -- rewrite trees_cons. cbn [snd]. constructor; [|exact Hrt]. simpl. now inversion Hi.
      * rewrite yields_cons. cbn [snd yield]. rewrite <- app_assoc. exact Hy.
      * exact Hls.
      * discriminate.
      * discriminate.
      * rewrite Hc. reflexivity.
      * now inversion Hi.
    + (* reduce *)
      destruct (do_reduce T s1 p) as [s'|o] eqn:Er.
      * left. eapply reduce_NInv; eauto.
        apply K_act in Ea. unfold chk_act in Ea. now apply andb_true_iff in Ea as [_ Ea].
      * destruct o; simpl; auto. exfalso. eapply do_reduce_not_accept; eauto.
    + (* accept *)
      destruct (stack s1) as [|[st d] rest] eqn:Es; simpl; auto.
      pose proof HN1 as [HS Hy Hls Hlk He Hc Hi].
      apply K_act in Ea. unfold chk_act in Ea. apply andb_true_iff in Ea as [_ Ea].
      apply andb_true_iff in Ea as [Ea1 Ea2]. apply Pos.eqb_eq in Ea1.
      rewrite Es in HS. destruct HS as [Hder Hsh Hrt].
      destruct (top_past _ Hsh) as [ps [Hps Hsuf]]. simpl top_state in *.
      rewrite Hps in Ea2. apply list_eqb_eq in Ea2. subst ps.
      apply suffix_two_end in Hsuf.
      2:{ intros Hin. apply in_map_iff in Hin as [x [Hx Hin]]. apply in_rev in Hin.
          rewrite Forall_forall in Hrt. now apply (Hrt x Hin). }
      assert (Hrest : rest = []).
      { apply (f_equal (@length _)) in Hsuf. rewrite map_length, rev_length in Hsuf.
        unfold trees in Hsuf. simpl in Hsuf. rewrite map_length in Hsuf.
        destruct rest; [reflexivity|simpl in Hsuf; lia]. }
      subst rest. unfold trees in Hsuf. simpl in Hsuf. injection Hsuf as Hroot.
      split; [now inversion Hder|]. split; [exact Hroot|].
      assert (Hlk' : lk = LEnd).
      { destruct lk as [k| |]; simpl in Ea1; auto; try discriminate.
        exfalso. unfold pending in Hi. rewrite Hl1 in Hi. inversion Hi. contradiction. }
      subst lk. unfold pending in Hy. rewrite Hl1 in Hy. rewrite (He Hl1) in Hy.
      rewrite Es in Hy. unfold yields, trees in Hy. simpl in Hy.
      now rewrite !app_nil_r in Hy.
    + eapply error_NInv; eauto.
    + eapply error_NInv; eauto.
  - (* recovery phase, callback drains the input *)
    subst cb. pose proof (step_EInv s HE) as H.
    destruct (step T CbDrain s) as [s'|o].
    + right. auto.
    + destruct o; simpl; auto. contradiction.
Qed.

Lemma run_loop_inv cb toks fuel s :
  cb <> CbIgnore -> Inv cb toks s -> good toks (run_loop T cb fuel s).
Proof.
  intros Hcb. revert s. induction fuel as [|f IH]; intros s HI; simpl; [exact I|].
  pose proof (step_inv cb toks s Hcb HI) as H.
  destruct (step T cb s) as [s'|o]; auto.
Qed.

Theorem run_sound cb fuel toks d tr :
  cb <> CbIgnore ->
  run T cb fuel toks = OAccept d tr ->
  derives T d /\ root d = t_start T /\ yield d = toks.
Proof.
  intros Hcb. unfold run. destruct (existsb bad_type toks) eqn:Eb; [discriminate|].
  intros H. pose proof (run_loop_inv cb toks fuel (init toks) Hcb) as G.
  rewrite H in G. apply G. left.
  constructor; simpl; auto; try discriminate.
  - constructor; simpl; auto.
  - unfold pending. simpl. apply Forall_forall. intros t Hin Ht.
    assert (existsb bad_type toks = true).
    { apply existsb_exists. exists t. split; auto. unfold bad_type. rewrite Ht. reflexivity. }
    congruence.
Qed.

(* after the callback has run (and drained the input), the parse can no longer succeed *)
Theorem recovery_rejects fuel s :
  EInv s -> noaccept (run_loop T CbDrain fuel s).
Proof.
  revert s. induction fuel as [|f IH]; intros s HE; simpl; [exact I|].
  pose proof (step_EInv s HE) as H.
  destruct (step T CbDrain s) as [s'|o]; auto.
Qed.

End K.
