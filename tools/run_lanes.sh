#!/bin/bash
# run every registered check on the current tree in three lanes (different properties side by side); usage: run_lanes.sh [quick|thorough] [seed]
cd /verif
tier=${1:-quick}; seed=${2:-0}
PROPS="C01 C02 C03" LANE=a ./tools/run_all.sh $tier $seed &
PROPS="C04 C05 C06 C07 C08 C09 C10" LANE=b ./tools/run_all.sh $tier $seed &
PROPS="C11 C12 C13 C14 C15 C16 C17 C18 C19 C20" LANE=c ./tools/run_all.sh $tier $seed &
wait
cat .scratch/run_all_${tier}_${seed}_a.log .scratch/run_all_${tier}_${seed}_b.log .scratch/run_all_${tier}_${seed}_c.log | grep -v '^done' > .scratch/run_all_${tier}_${seed}.log
grep -v "rc=0 .* viol=0" .scratch/run_all_${tier}_${seed}.log | sed 's/^/ALARM: /'
echo "lanes done: $(grep -c 'rc=0' .scratch/run_all_${tier}_${seed}.log) of 20 rc=0"
