"""debug helper: python tools/c08_debug.py <replay.json>  -> steps, reference rows, plan rows (per step)"""
import sys, json, copy, subprocess
sys.path.insert(0, '/verif/harness'); sys.path.insert(0, '/repo')
import sqlcoq, plangen, c08
from mindsdb_sql import parse_sql
from mindsdb_sql.planner import plan_query
rp = json.load(open(sys.argv[1]))
sql = rp['sql']; cat = dict(plangen.catalogs())[rp.get('catalog', 'names')]
db = {tuple(k.split('.')): (v['columns'], v['rows']) for k, v in rp['database'].items()}
for t in c08.ALL_TABLES:
    db.setdefault(t, (c08.COLS, []))
N = sqlcoq.Names(); tr = sqlcoq.Tr(N)
q0 = parse_sql(sql, 'mindsdb')
qfull = tr.query(q0, strip_limit=True) if hasattr(q0, 'targets') else tr.query(q0)
plan = plan_query(parse_sql(sql, 'mindsdb'), **copy.deepcopy(cat))
for s in plan.steps: print('  ', s)
steps = [tr.step(s) for s in plan.steps]
lines = c08.HEADER + [f'Definition d := {sqlcoq.db_term(db, N)}.', f'Definition q := {qfull}.', f'Definition p := {sqlcoq.lst(steps)}.',
   'Eval vm_compute in snd (eval_top 40 d q).',
   'Eval vm_compute in map snd (fold_left (fun res s => res ++ [exec_step 40 d res [] s]) p []).']
open('/verif/.scratch/dbg.v', 'w').write('\n'.join(lines) + '\n')
r = subprocess.run(['coqc', '-Q', '/verif/coq', 'MSV', '/verif/.scratch/dbg.v'], capture_output=True, text=True)
print('sqlite:', c08.sqlite_rows(c08.strip_limit(sql), db))
print(r.stdout[-3000:], r.stderr[-2000:])
