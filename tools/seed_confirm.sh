#!/bin/bash
# usage: seed_confirm.sh <PROP> <name> <worktree>   -- confirm a seeded change and store it under /verif/seeded/<PROP>_<name>/
# (no git stash: the stash is shared between worktrees)
set -u
P=$1; NAME=$2; WT=$3
D=/verif/seeded/${P}_${NAME}
mkdir -p $D
cd $WT || exit 2
git diff -- mindsdb_sql sly > $D/patch.diff
cp demo.py $D/demo.py
T=$( /venv/bin/python -m pytest -q -p no:cacheprovider 2>&1 | tail -1 )
PYTHONPATH=$WT /venv/bin/python demo.py > /tmp/demo_with_$P.log 2>&1; RW=$?
git apply -R $D/patch.diff
PYTHONPATH=$WT /venv/bin/python demo.py > /tmp/demo_without_$P.log 2>&1; RO=$?
git apply $D/patch.diff
echo "pytest with change: $T"
echo "demo with change rc=$RW ; without change rc=$RO"
echo "{\"pytest_with_change\": \"$T\", \"demo_rc_with_change\": $RW, \"demo_rc_without_change\": $RO}" > $D/confirm.json
