#!/bin/bash
# tools/seeded_run.sh [dir ...]: apply each seeded change to /repo, run the check of its property (quick tier), undo it.
# Prints one line per change: DETECTED (a concrete failing input), NOINPUT (only no-failing-input-found), MISSED.
# /repo must be clean; it is restored after every change.
cd /verif
if [ -n "$(git -C /repo status --porcelain)" ]; then echo "/repo is not clean" >&2; exit 2; fi
dirs=("$@"); [ ${#dirs[@]} -eq 0 ] && dirs=(seeded/*/)
mkdir -p .scratch/seeded
for d in "${dirs[@]}"; do
  d=${d%/}; name=$(basename "$d"); prop=${name%%_*}
  if ! git -C /repo apply "/verif/$d/patch.diff" 2>/dev/null; then echo "$name NOAPPLY"; continue; fi
  ./check "$prop" > ".scratch/seeded/$name.txt" 2>&1
  git -C /repo checkout -- . ; git -C /repo clean -fdq
  if grep "^VIOLATION" ".scratch/seeded/$name.txt" | grep -qv "no-failing-input-found"; then echo "$name DETECTED"
  elif grep -q "^VIOLATION" ".scratch/seeded/$name.txt"; then echo "$name NOINPUT"
  else echo "$name MISSED"; fi
done
