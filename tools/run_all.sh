#!/bin/bash
# run every registered check on the current tree; log rc and time.  usage: [PROPS='C04 C05'] [LANE=a] run_all.sh [quick|thorough] [seed]
# (different properties may run at the same time in separate lanes; never the same property twice)
cd /verif
tier=${1:-quick}
seed=${2:-0}
log=.scratch/run_all_${tier}_$seed${LANE:+_$LANE}.log
: > $log
for p in ${PROPS:-C01 C02 C03 C04 C05 C06 C07 C08 C09 C10 C11 C12 C13 C14 C15 C16 C17 C18 C19 C20}; do
  s=$(date +%s)
  VERIF_SEED=$seed ./check $p --tier $tier > .scratch/out_${p}_${tier}_$seed.txt 2>&1
  rc=$?
  e=$(date +%s)
  echo "$p rc=$rc $((e-s))s viol=$(grep -c '^VIOLATION' .scratch/out_${p}_${tier}_$seed.txt) known=$(grep -c '^KNOWN-FINDING' .scratch/out_${p}_${tier}_$seed.txt)" >> $log
done
echo done >> $log
