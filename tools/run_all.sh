#!/bin/bash
# run every registered quick check on the current tree; log rc and time
cd /verif
tier=${1:-quick}
: > .scratch/run_all_$tier.log
for p in C01 C02 C03 C04 C05 C06 C07 C08 C09 C10 C11 C12 C13 C14 C15 C16 C17 C18 C19 C20; do
  s=$(date +%s)
  ./check $p --tier $tier > .scratch/out_${p}_$tier.txt 2>&1
  rc=$?
  e=$(date +%s)
  echo "$p rc=$rc $((e-s))s viol=$(grep -c '^VIOLATION' .scratch/out_${p}_$tier.txt) known=$(grep -c '^KNOWN-FINDING' .scratch/out_${p}_$tier.txt)" >> .scratch/run_all_$tier.log
done
echo done >> .scratch/run_all_$tier.log
