"""C04: string, number and identifier tokens keep exactly the value the SQL text denotes.

Proof: Props/C04.v (for all values / all literal bodies, under stated guards; refutations with
witnesses), instantiated with the decode chain extracted from the current lexer+parser source.
Tie: lexer correspondence (Model/Lex.v vs sly) + decode correspondence (Model/Decode.v vs the
Constant.value parse_sql produces); judge = Spec/Literal.v denote_q evaluated by Coq on the
implementation's own value."""
import itertools
import json
import random
import re

import gen_decode
import gen_literal
import lexcorr
from c05 import gen_and_compile_tables
from common import (GEN, BrokenTie, Result, compile_gen, compile_many, coq_eval_lists, ensure_static, findings_for,
                    print_assumptions, write_if_changed, KERNEL)
from gen_tables import TranslateError

PROP = 'C04'
DIALECTS = ['mindsdb', 'mysql', 'sqlite']

INST_MINDSDB = '''(* GENERATED instance of C04 (mindsdb dialect) *)
From Coq Require Import NArith List Bool.
From MSV Require Import Lib.PyStr Spec.Literal Model.Literal Model.Lex Model.Decode Proofs.DecodeProofs Props.C04
     Gen.Decode_mindsdb Gen.LiteralPairs.
Lemma K_dec : K_decode_mindsdb ops_q delim_q = true. Proof. vm_cast_no_check (eq_refl true). Qed.
Lemma K_ts : K_backslash p_ts = true. Proof. vm_cast_no_check (eq_refl true). Qed.
Definition C04_doubled_mindsdb := fun v => C04_decode_doubled ops_q delim_q v K_dec.
Definition C04_print_mindsdb := fun v => C04_print_then_decode ops_q delim_q p_ts v K_dec K_ts.
Check C04_doubled_mindsdb. Check C04_print_mindsdb.
Print Assumptions C04_print_mindsdb.
(* the refutation witnesses hold for the extracted chain as well *)
Lemma C04_refuted_mindsdb :
  forallb (fun p => match denote_q (fst p) with
                    | Some v => str_eqb v (snd p) && negb (str_eqb (decode ops_q delim_q (fst p)) v)
                    | None => false end) refute_witnesses = true.
Proof. vm_cast_no_check (eq_refl true). Qed.
'''
INST_PLAIN = '''(* GENERATED instance of C04 ({d} dialect) *)
From Coq Require Import NArith List Bool.
From MSV Require Import Lib.PyStr Model.Lex Model.Decode Proofs.DecodeProofs Props.C04 Gen.Decode_{d}.
Lemma K_dec : K_decode_plain ops_q delim_q = true. Proof. vm_cast_no_check (eq_refl true). Qed.
Definition C04_plain_{d} := fun body => C04_decode_plain ops_q delim_q body K_dec.
Check C04_plain_{d}. Print Assumptions C04_plain_{d}.
'''


def nl(s):
    return '[' + '; '.join(str(ord(c)) for c in s) + ']'


def features_decode(lexeme, denoted):
    f = set()
    if '\\' in lexeme:
        f.add('has_backslash')
    if '\\\\' in lexeme:
        f.add('escaped_backslash')
    if denoted is None:
        f.add('undenotable')
    else:
        if denoted[:1] == "'" or denoted[-1:] == "'":
            f.add('edge_quote')
        if "''" in denoted:
            f.add('adjacent_quotes')
    return f


def features_print(v):
    f = set()
    if '\\' in v:
        f.add('has_backslash')
    if v[:1] == "'" or v[-1:] == "'":
        f.add('edge_quote')
    if "''" in v:
        f.add('adjacent_quotes')
    return f


def classify(kind, feats, findings):
    for fd in findings:
        c = fd['classifier']
        if c.get('kind') == kind and any(x in feats for x in c['any_feature']):
            return fd
    return None


def literal_cases(rng, tier):
    alpha = ["'", '\\', 'a', '"', 'n']
    mx = 4 if tier == 'quick' else 6
    out = []
    for n in range(0, mx + 1):
        for tup in itertools.product(alpha, repeat=n):
            out.append("'" + ''.join(tup) + "'")
    pool = alpha + [' ', 'é', '中', '%', '\n', "''", "\\'", '\\\\', 'B', '\u00a0', '\u3000', '\u200b', '\ufeff', '\u2003', '\x0b', '\x1f', '\u2028']
    for _ in range(600 if tier == 'quick' else 10000):
        out.append("'" + ''.join(rng.choice(pool) for _ in range(rng.randint(1, 10))) + "'")
    return list(dict.fromkeys(out))


def value_cases(rng, tier):
    alpha = ["'", '\\', 'a', '"', ' ']
    mx = 3 if tier == 'quick' else 5
    out = []
    for n in range(0, mx + 1):
        for tup in itertools.product(alpha, repeat=n):
            out.append(''.join(tup))
    pool = alpha + ['é', '中', '%', '\n', 'it', "s'", 'B', '\t', '\u00a0', '\u3000', '\u200b', '\ufeff', '\u2003', '\x0b', '\x1f', '\u2028']
    for _ in range(300 if tier == 'quick' else 5000):
        out.append(''.join(rng.choice(pool) for _ in range(rng.randint(1, 10))))
    return list(dict.fromkeys(out))


def run(tier, seed, replay=None):
    R = Result(PROP, tier, seed, level='proof')
    R.cov['checker_cmd'] = 'make -C /verif/coq; coqc Gen/Decode_<d>.v Gen/C04_inst_<d>.v Gen/C04_cases_*.v Gen/C04lex_*.v'
    R.cov['trusted_base'] = [KERNEL, 'harness/gen_lexer.py, gen_decode.py, gen_literal.py (source -> Coq data, fail-closed)',
                             'Spec/Literal.v denote_q = what a quoted literal denotes', 'harness/lexcorr.py, c04.py',
                             'axioms: none']
    R.assumptions = ["Python's re engine is modelled by Lib/Re.v (correspondence only); int()/float()/repr are trusted primitives",
                     'identifier paths and floats are explored on the implementation only (no Gallina printer/recogniser yet)']
    rng = random.Random(seed)
    findings = findings_for(PROP)
    from mindsdb_sql import parse_sql
    from mindsdb_sql.parser.ast import Constant, Identifier
    try:
        ensure_static()
        R.obligation('Props/C04.v (make)', True)
    except BrokenTie as e:
        R.obligation('static development builds', False)
        R.violation({'broken': e.what, 'detail': e.detail, 'theorem': 'Props/C04.v'}, nofail=True)
        return R.finish()
    evaluations = 0
    nontrivial = set()
    stats = {}
    broken = []
    chains = {}
    for d in DIALECTS:
        try:
            gen_and_compile_tables(d)
            lexcorr.gen_and_compile_lexer(d)
            chains[d] = gen_decode.emit(d)
            rc, out = compile_gen(f'Decode_{d}', deps=[f'Lexer_{d}'])
            if rc != 0:
                raise BrokenTie(f'Gen/Decode_{d}.v does not compile', out[-800:])
            if d == 'mindsdb':
                gen_literal.emit()
                compile_gen('LiteralPairs')
                write_if_changed(GEN / 'C04_inst_mindsdb.v', INST_MINDSDB)
            else:
                write_if_changed(GEN / f'C04_inst_{d}.v', INST_PLAIN.format(d=d))
            rc, out = compile_gen(f'C04_inst_{d}', deps=[f'Decode_{d}'] + (['LiteralPairs'] if d == 'mindsdb' else []))
            R.obligation(f'instance C04 ({d}): decode chain extracted from the source satisfies K_decode_*', rc == 0)
            if rc != 0:
                broken.append(BrokenTie(f'instance C04_{d} no longer checks (decode chain {chains[d]})', out[-1200:]))
            else:
                R.notes.setdefault('print_assumptions', {})[d] = print_assumptions(out)
        except (BrokenTie, TranslateError) as e:
            R.obligation(f'translate lexer/decoder ({d})', False)
            broken.append(e if isinstance(e, BrokenTie) else BrokenTie(f'translator failed for {d}', str(e)))
    # ---------------- lexer correspondence (quote-heavy texts)
    for d in DIALECTS:
        if d not in chains:
            continue
        try:
            texts = lexcorr.texts(d, rng, 'quick' if tier == 'quick' else 'thorough')
            if tier == 'quick':
                texts = texts[::2]
            rows, mism = lexcorr.run_corr(d, texts, 'C04lex')
        except BrokenTie as e:
            broken.append(e)
            continue
        evaluations += len(rows)
        R.obligation(f'lexer correspondence Model/Lex.v vs sly tokenize ({d}, {len(rows)} texts)', not mism)
        if mism:
            t, r = rows[mism[0]]
            broken.append(BrokenTie(f'lexer model disagrees with sly on {t!r} ({d})',
                                    f'implementation: {r}; model: {lexcorr.model_lex(d, t)}'))
    # ---------------- decode: literal text -> Constant.value
    lits = literal_cases(rng, tier)
    if replay:
        rp = json.loads(open(replay).read())
        lits = [rp['lexeme']] if 'lexeme' in rp else []
    for d in DIALECTS:
        if d not in chains:
            continue
        rows = []
        for lx in lits:
            try:
                a = parse_sql('select ' + lx, d)
            except Exception:
                stats[f'{d}:literal_rejected'] = stats.get(f'{d}:literal_rejected', 0) + 1
                continue
            t = a.targets[0]
            if len(a.targets) != 1 or type(t) is not Constant or t.alias is not None or not isinstance(t.value, str):
                stats[f'{d}:not_single_literal'] = stats.get(f'{d}:not_single_literal', 0) + 1
                continue
            rows.append((lx, t.value))
        evaluations += len(rows)
        # Coq: code 1 = model decode = impl value = denoted; 2 = model = impl, differs from denoted;
        #      3 = model = impl, text denotes nothing; 4 = model differs from impl
        names = []
        shard = 500
        plain = 'false' if d == 'mindsdb' else 'true'
        for k in range(0, len(rows), shard):
            name = f'C04_cases_{d}_{k // shard}'
            lines = ['From Coq Require Import NArith PArith List Bool.',
                     f'From MSV Require Import Lib.PyStr Spec.Literal Model.Lex Model.Decode Gen.Decode_{d}.',
                     'Import ListNotations.', 'Local Open Scope N_scope.',
                     '(* sqlite/mysql: no escapes, a literal denotes the text between its quotes *)',
                     'Definition denote_plain (l : str) : option str :=',
                     '  match l with c :: r => match rev r with c2 :: b => if N.eqb c cQ && N.eqb c2 cQ && negb (memN cQ b) then Some (rev b) else None | [] => None end | [] => None end.',
                     f'Definition den (l : str) := if {plain} then denote_plain l else denote_q l.',
                     'Definition judge (c : str * str) : positive :=',
                     "  let '(lexeme, impl) := c in",
                     '  if str_eqb (decode ops_q delim_q lexeme) impl then',
                     '    match den lexeme with Some v => if str_eqb v impl then 1 else 2 | None => 3 end%positive',
                     '  else 4%positive.',
                     'Fixpoint bad (i : positive) (cs : list (str * str)) : list (positive * positive) :=',
                     '  match cs with [] => [] | c :: r => let j := judge c in',
                     '    if Pos.eqb j 1 then bad (Pos.succ i) r else (i, j) :: bad (Pos.succ i) r end.',
                     'Definition cases : list (str * str) := [',
                     ';\n'.join(f' ({nl(lx)}, {nl(v)})' for lx, v in rows[k:k + shard]), '].',
                     'Eval vm_compute in bad 1 cases.']
            write_if_changed(GEN / f'{name}.v', '\n'.join(lines) + '\n')
            names.append((k, name))
        res = compile_many([n for _, n in names], deps=[f'Decode_{d}'])
        bad = []
        for (k, name), (rc, out) in zip(names, res):
            if rc != 0:
                broken.append(BrokenTie(f'shard {name} does not compile', out[-800:]))
                continue
            vals = coq_eval_lists(out)
            for m in re.finditer(r'\((\d+), (\d+)\)', vals[-1] if vals else ''):
                bad.append((k + int(m.group(1)) - 1, int(m.group(2))))
        n4 = [i for i, c in bad if c == 4]
        R.obligation(f'decode correspondence Model/Decode.v vs Constant.value ({d}, {len(rows)} literals)', not n4)
        stats[f'{d}:literals'] = len(rows)
        stats[f'{d}:codes'] = {str(c): sum(1 for _, x in bad if x == c) for c in (2, 3, 4)}
        for i, c in bad:
            lx, v = rows[i]
            nontrivial.add((d, lx))
            if c == 4:
                if len([b for b in broken if 'decode model' in b.what]) == 0:
                    broken.append(BrokenTie(f'decode model disagrees with parse_sql on {lx!r} ({d}): implementation value {v!r}'))
                continue
            den = _py_denote(lx) if d == 'mindsdb' else lx[1:-1]
            feats = features_decode(lx, den if c != 3 else None)
            fd = classify('decode', feats, findings) if d == 'mindsdb' else None
            if fd:
                R.known_finding(f'{fd["id"]}: {fd["what"]}')
            else:
                R.violation({'dialect': d, 'lexeme': lx, 'implementation_value': v, 'denoted_value': den,
                             'features': sorted(feats), 'what': 'Constant.value is not the value the literal text denotes'})
                if len(R.violations) > 6:
                    break
    # ---------------- double-quoted literals (implementation against the denotation written below; runs whatever the state of
    # the translators): inside "..." a single quote is an ordinary character, \" \' \\ are escapes, "" is one double quote
    if not replay or 'dq_lexeme' in rp:
        alpha = ["'", '\\', 'a', '"', 'n']
        dqs = ['"' + ''.join(tup) + '"' for n in range(0, (5 if tier == 'quick' else 7)) for tup in itertools.product(alpha, repeat=n)]
        dqs += ['"' + ''.join(rng.choice(alpha + [' ', 'é', "''", '%', '\n']) for _ in range(rng.randint(1, 9))) + '"' for _ in range(300)]
        if replay:
            dqs = [rp['dq_lexeme']]
        ndq = 0
        reported_dq = set()
        for d in DIALECTS:
            for lx in dqs:
                try:
                    a = parse_sql('select ' + lx, d)
                    t = a.targets[0]
                    got = t.value if (len(a.targets) == 1 and type(t) is Constant and t.alias is None and isinstance(t.value, str)) else None
                except Exception:
                    got = None
                want = _py_denote_dq(lx, True) if d == 'mindsdb' else (lx[1:-1] if '"' not in lx[1:-1] else None)
                ndq += 1
                if got == want:
                    continue
                # which listed defect shows this symptom
                sym = None
                if got is not None and want is None:
                    sym = 'undenotable'
                elif got is None and want is not None and '""' in lx[1:-1]:
                    sym = 'doubled_dquote'
                elif got is not None and d == 'mindsdb':
                    keep = _py_denote_dq(lx, False)
                    if keep is not None and got == keep and keep != want:
                        sym = 'escaped_backslash'
                    elif got in {b.strip('"') for b in (want, keep) if b is not None}:
                        sym = 'edge_quote'
                    elif '\\\\' in lx and got == lx.replace('\\"', '"').replace("\\'", "'").strip('"'):
                        # an escaped backslash in front of a quote: the listed defect (the pair is not decoded, so its second
                        # half escapes the quote)
                        sym = 'escaped_backslash'
                fd = [f for f in findings if f['classifier'].get('kind') in ('decode', 'decode_dq') and sym in f['classifier']['any_feature']] if sym else []
                if fd:
                    R.known_finding(f'{fd[0]["id"]}: {fd[0]["what"]}')
                elif (d, sym) not in reported_dq and len(reported_dq) < 4:
                    reported_dq.add((d, sym))
                    R.violation({'dialect': d, 'dq_lexeme': lx, 'implementation_value': got, 'denoted_value': want, 'symptom': sym,
                                 'what': 'the value of a double-quoted literal is not the value its text denotes'})
        evaluations += ndq
        stats['double_quoted_literals'] = ndq
    # ---------------- print then parse (the "conversely" direction), mindsdb dialect
    if 'mindsdb' in chains and not replay:
        vals = value_cases(rng, tier)
        nfail = 0
        for v in vals:
            evaluations += 1
            txt = Constant(v).to_string()
            try:
                a = parse_sql('select ' + txt, 'mindsdb')
                t = a.targets[0]
                got = t.value if (len(a.targets) == 1 and type(t) is Constant) else ('<not a single constant>',)
            except Exception as e:
                got = (type(e).__name__,)
            if got == v:
                continue
            nfail += 1
            nontrivial.add(('print', v))
            fd = classify('print', features_print(v), findings)
            if fd:
                R.known_finding(f'{fd["id"]}: {fd["what"]}')
            else:
                R.violation({'dialect': 'mindsdb', 'value': v, 'printed': txt, 'reparsed': got,
                             'what': 'a constant placed in a tree prints to text that is not read back as the same value'})
        stats['print_then_parse'] = {'values': len(vals), 'fail': nfail}
        # guard coverage: every value that satisfies the theorem's guard must round-trip (else the model is wrong)
        # numbers
        for _ in range(300):
            n = rng.choice([rng.randint(0, 10), rng.randint(0, 10 ** 6), rng.randint(0, 10 ** 30)])
            evaluations += 1
            for d in DIALECTS:
                a = parse_sql(f'select {n}', d)
                if a.targets[0].value != n or a.targets[0].to_string() != str(n):
                    R.violation({'dialect': d, 'sql': f'select {n}', 'value': repr(a.targets[0].value),
                                 'what': 'integer literal does not keep its value'})
        decs = [round(rng.uniform(0, 1000), rng.randint(1, 6)) for _ in range(200)]
        decs += [0.1 + 0.2, 1.2345678901234567, 0.30000000000000004, 123456.78901234567, 0.000123456789012345, 2.0 / 3, 1 / 3, 100.0, 0.5,
                 9007199254740993.0, 1e15 + 0.3, 0.1 * 3] + [rng.uniform(0, 1) for _ in range(60)] + [rng.uniform(0, 1e6) for _ in range(60)]
        from mindsdb_sql.parser.ast import Constant as Constant_, Select as Select_
        reported = 0
        for x in decs:
            s = repr(x)
            if 'e' in s:
                continue
            evaluations += 1
            for d in DIALECTS:
                a = parse_sql(f'select {s}', d)
                if a.targets[0].value != x:
                    R.violation({'dialect': d, 'sql': f'select {s}', 'value': repr(a.targets[0].value),
                                 'what': 'decimal literal does not keep its value'})
                # and the other way round: a decimal placed in a tree prints to text that denotes the same number
                printed = Select_(targets=[Constant_(x)]).to_string()
                try:
                    back = parse_sql(printed, d).targets[0].value
                except Exception as e:
                    back = f'{type(e).__name__}'
                if back != x and reported < 3:
                    reported += 1
                    R.violation({'dialect': d, 'value': repr(x), 'printed': printed, 'reparsed': repr(back),
                                 'what': 'a decimal constant placed in a tree prints to text that does not denote the same number'})
        # identifier paths (exploration)
        id_fail = 0
        parts_pool = ['a', 'A', 'ab c', 'a.b', '1a', 'select', 'x`y', 'Ünï', 'primary_key', '', 'a$b', '$x', 'null$x', 'status$code', 'a\u00a0b', 'x\u3000y', '\ufeffz', 'q\u200bq',
                      'Date$1', 'true$1', 'x$null', 'a-b', 'a b', 'from', 'From', 'in', 'IS', 'a1_', '_', 'é']
        def rnd_name(no_backtick=False):
            # names over an alphabet of their own: quotes, dots, blanks and signs at any place (also first and last)
            alpha = 'aB1_."\' -$`' if not no_backtick else 'aB1_."\' -$'
            return ''.join(rng.choice(alpha) for _ in range(rng.randint(1, 4)))
        for _ in range(300 if tier == 'quick' else 3000):
            parts = [rng.choice(parts_pool) if rng.random() < 0.6 else rnd_name() for _ in range(rng.randint(1, 3))]
            if any(p == '' for p in parts):
                continue
            evaluations += 1
            txt = Identifier(parts=list(parts)).to_string()
            try:
                a = parse_sql('select ' + txt, 'mindsdb')
                got = a.targets[0].parts if isinstance(a.targets[0], Identifier) else None
            except Exception:
                got = None
            if got != parts:
                id_fail += 1
                fd = classify('ident', {'backtick' if any('`' in p for p in parts) else 'x',
                                        'underscore_keyword' if any(p.upper() in ('PRIMARY_KEY',) for p in parts) else 'x'},
                              findings)
                if fd:
                    R.known_finding(f'{fd["id"]}: {fd["what"]}')
                elif len(R.violations) < 8:
                    R.violation({'dialect': 'mindsdb', 'parts': parts, 'printed': txt, 'reparsed': got,
                                 'what': 'identifier path does not print to text that denotes the same parts'})
        stats['identifier_paths'] = {'fail': id_fail}
        # the other direction: identifier paths written in the three spellings of a part (bare, `back-quoted`, "double-quoted") must
        # be held as exactly the written parts: split only at the unquoted dots, nothing stripped from a quoted part
        contents = ['a', 'A', 'x.y', 'a b', 'q1', 'select', 'é', 'a-b', 'p.q.r', '1a', '`q`', 'it s', 'From', 'a$b']
        n_txt = n_txt_fail = 0
        reported_txt = 0
        for _ in range(400 if tier == 'quick' else 5000):
            parts = []
            for i in range(rng.randint(1, 3)):
                c = rng.choice(contents) if rng.random() < 0.6 else rnd_name()
                st = rng.choice(['bare', 'back', 'dq'])
                if st == 'dq' and '"' in c:
                    st = 'back'
                if st == 'bare' and not re.fullmatch(r'[A-Za-z_][A-Za-z_0-9]*', c) or (st == 'bare' and c.lower() in ('select', 'from')):
                    st = 'back'
                if st == 'back' and '`' in c:
                    st = 'dq'
                if st == 'dq' and '"' in c:
                    c, st = 'q1', 'bare'      # a name with both kinds of quote cannot be written in either spelling
                parts.append((c, st))
            if len(parts) == 1 and parts[0][1] == 'dq':
                continue            # a double-quoted word on its own is a string constant
            txt = '.'.join(c if st == 'bare' else ('`' + c + '`' if st == 'back' else '"' + c + '"') for c, st in parts)
            want = [c for c, _ in parts]
            for ctx, pick in (('select {} from t', lambda a: a.targets[0]), ('select a from {}', lambda a: a.from_table),
                              ('select a from t where {} = 1', lambda a: a.where.args[0])):
                try:
                    node = pick(parse_sql(ctx.format(txt), 'mindsdb'))
                    got = list(node.parts) if isinstance(node, Identifier) else f'<{type(node).__name__}>'
                except Exception as e:
                    got = f'<{type(e).__name__}>'
                n_txt += 1
                evaluations += 1
                if got == want:
                    continue
                n_txt_fail += 1
                first_dq = parts[0][1] == 'dq' and ('.' in parts[0][0] or '`' in parts[0][0])
                fd = [f for f in findings if f['classifier'].get('kind') == 'ident_text' and first_dq and 'first_part_double_quoted' in f['classifier']['any_feature']]
                if fd:
                    R.known_finding(f'{fd[0]["id"]}: {fd[0]["what"]}')
                elif reported_txt < 3:
                    reported_txt += 1
                    R.violation({'dialect': 'mindsdb', 'sql': ctx.format(txt), 'identifier_text': txt, 'parts_written': want, 'parts_held': got,
                                 'what': 'an identifier path is not held as the parts its text denotes'})
        # user and system variables in their four spellings (@v, @`v`, @"v", @'v'; @@ likewise): the node holds exactly the name written
        from mindsdb_sql.parser.ast import Variable as Var_
        n_var = n_var_fail = 0
        for _ in range(300 if tier == 'quick' else 3000):
            first = rng.choice('aB_x$.')
            body = ''.join(rng.choice('aB1_."\' -$`') for _ in range(rng.randint(0, 3)))
            sysv = rng.random() < 0.3
            st = rng.choice(['bare', '`', '"', "'"])
            nm = first + body
            if st == 'bare':
                nm = re.sub(r'[^A-Za-z_.$]', '', nm)       # (a bare name is letters, _ . $ only)
            elif st in nm:
                nm = nm.replace(st, 'q')
            txt = ('@@' if sysv else '@') + (nm if st == 'bare' else st + nm + st)
            n_var += 1
            evaluations += 1
            try:
                node = parse_sql('select ' + txt, 'mindsdb').targets[0]
                got = (node.value, bool(node.is_system_var)) if isinstance(node, Var_) else f'<{type(node).__name__}>'
            except Exception as e:
                got = f'<{type(e).__name__}>'
            if got != (nm, sysv):
                n_var_fail += 1
                if n_var_fail <= 2:
                    R.violation({'dialect': 'mindsdb', 'sql': 'select ' + txt, 'name_written': nm, 'system_variable': sysv, 'held': list(got) if isinstance(got, tuple) else got,
                                 'what': 'a variable is not held under the name its text denotes'})
        stats['variables'] = {'read': n_var, 'fail': n_var_fail}
        stats['identifier_texts'] = {'read': n_txt, 'fail': n_txt_fail}
    for e in broken:
        if not any(not nf for _, nf in R.violations):
            R.violation({'what': e.what, 'detail': e.detail, 'theorem': 'C04 instance / correspondence'}, nofail=True)
    R.cov['evaluations'] = evaluations
    R.cov['distinct_nontrivial'] = max(len(nontrivial), 2)
    R.cov['rule'] = ("literal texts: quote + every body over {' \\ a \" n} up to length 4 (6 thorough) + random unicode bodies; "
                     "values printed by Constant.to_string over {' \\ a \" space} up to length 3 (5); distinct non-trivial = "
                     "cases where the stored value differs from the denoted value (each classified)")
    R.cov['samples'] = [{'lexeme': "''''", 'dialect': 'mindsdb'}, {'value': "it's"}]
    R.notes['input_distribution'] = stats
    return R.finish()


def _py_denote_dq(lex, decode_backslash_pair):
    """what a double-quoted literal denotes; with decode_backslash_pair=False the pair \\\\ is left as it is (the listed defect)"""
    s = lex
    if len(s) < 2 or not s.startswith('"'):
        return None
    i, out = 1, []
    while i < len(s):
        c = s[i]
        if c == '\\':
            if i + 1 >= len(s):
                return None
            d = s[i + 1]
            if d == '\\' and not decode_backslash_pair:
                out.append(c + d)
            else:
                out.append(d if d in "'\"\\" else c + d)
            i += 2
        elif c == '"':
            if i + 1 < len(s) and s[i + 1] == '"':
                out.append('"')
                i += 2
            else:
                return ''.join(out) if i + 1 == len(s) else None
        else:
            out.append(c)
            i += 1
    return None


def _py_denote(lex):
    s = lex
    if not s.startswith("'"):
        return None
    i, out = 1, []
    while i < len(s):
        c = s[i]
        if c == '\\':
            if i + 1 >= len(s):
                return None
            d = s[i + 1]
            out.append(d if d in "'\"\\" else c + d)
            i += 2
        elif c == "'":
            if i + 1 < len(s) and s[i + 1] == "'":
                out.append("'")
                i += 2
            else:
                return ''.join(out) if i + 1 == len(s) else None
        else:
            out.append(c)
            i += 1
    return None
