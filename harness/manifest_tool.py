"""Small helper used while building: add / replace a check entry in MANIFEST.json."""
import json
import sys


def add(pid, text, note, technique, category='proof', design=None):
    p = '/verif/MANIFEST.json'
    m = json.load(open(p))
    m['checks'] = [c for c in m['checks'] if c['property_id'] != pid]
    m['checks'].append({
        "property_id": pid, "quick_cmd": f"./check {pid} --tier quick", "thorough_cmd": f"./check {pid} --tier thorough",
        "evidence_file": f"/verif/evidence/{pid}.json", "replay_cmd_template": f"./check {pid} --replay {{path}}",
        "engine": "coq",
        "level_claimed": {"category": category, "text": text, "design_ref": design or f"DESIGN.md §4 {pid}"},
        "level_note": note, "technique": technique})
    m['checks'].sort(key=lambda c: c['property_id'])
    m['not_applicable'] = [x for x in m.get('not_applicable', []) if x['property_id'] != pid]
    sp = set(m['engines'][0]['serves_properties']) | {pid}
    m['engines'][0]['serves_properties'] = sorted(sp)
    json.dump(m, open(p, 'w'), indent=1)
