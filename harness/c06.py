"""C06: SQL rendered through SQLAlchemy means the same as the parsed statement.

Judge: generated SELECT statements are parsed by mindsdb_sql; the meaning of the AST is
computed by the Coq reference semantics (Model/SqlEval.v) on generated databases; the text
rendered by SqlalchemyRender for sqlite / mysql / postgres is executed by sqlite3 (the reference
engine of the property) on the same databases; Model/SqlJudge.verdict compares (bag, order by
the ORDER BY keys, LIMIT / OFFSET as any valid prefix).  DML / DDL: the original text and the
rendered text are both executed by sqlite3 and the table contents compared (exploration only:
the Coq semantics has no DML).
Proof: Props/C06.v -- the grouping rule of SQLAlchemy (model of self_group / is_precedent with
the precedence table read from the installed library on every run) makes every expression tree
read back with the same grouping under the standard operator levels, for ALL trees."""
import copy
import json
import random
import re
import sqlite3

import c08
import sqlcoq
from common import (GEN, BrokenTie, Result, compile_many, coq_eval_lists, ensure_static, findings_for, write_if_changed, KERNEL)

PROP = 'C06'
COLS = c08.COLS


def ex(rng, aliases, depth=0):
    """arithmetic expression"""
    r = rng.random()
    if depth < 3 and r < 0.45:
        op = rng.choice(['+', '-', '*', '-', '+'])
        return f'({ex(rng, aliases, depth + 1)} {op} {ex(rng, aliases, depth + 1)})' if rng.random() < 0.5 else \
            f'{ex(rng, aliases, depth + 1)} {op} {ex(rng, aliases, depth + 1)}'
    if depth < 3 and r < 0.52:
        return f'-({ex(rng, aliases, depth + 1)})'
    if depth < 3 and r < 0.57:
        return f'coalesce({ex(rng, aliases, depth + 1)}, {rng.randint(0, 3)})'
    if depth < 3 and r < 0.61:
        return f'abs({ex(rng, aliases, depth + 1)})'
    if depth < 2 and r < 0.66:
        return f'case when {bex(rng, aliases, depth + 2)} then {ex(rng, aliases, depth + 1)} else {ex(rng, aliases, depth + 1)} end'
    if r < 0.85:
        return f'{rng.choice(aliases)}.{rng.choice(COLS)}'
    if r < 0.89:
        return 'null'            # the NULL literal wherever an operand may stand (x = null is not x is null)
    return str(rng.randint(0, 3))


def bex(rng, aliases, depth=0):
    """boolean expression"""
    r = rng.random()
    if depth < 3 and r < 0.22:
        return f'{bex(rng, aliases, depth + 1)} and {bex(rng, aliases, depth + 1)}'
    if depth < 3 and r < 0.36:
        return f'({bex(rng, aliases, depth + 1)} or {bex(rng, aliases, depth + 1)})'
    if depth < 3 and r < 0.40:
        return f'{bex(rng, aliases, depth + 1)} or {bex(rng, aliases, depth + 1)}'
    if depth < 3 and r < 0.52:
        return f'not ({bex(rng, aliases, depth + 1)})'
    if depth < 3 and r < 0.56:
        return f'not {bex(rng, aliases, depth + 2)}'
    k = rng.random()
    a = ex(rng, aliases, depth + 1)
    if k < 0.45:
        return f'{a} {rng.choice(["=", "!=", "<", "<=", ">", ">=", "<>"])} {ex(rng, aliases, depth + 1)}'
    if k < 0.58:
        return f'{a} {rng.choice(["between", "between"])} {ex(rng, aliases, depth + 2)} and {ex(rng, aliases, depth + 2)}'
    if k < 0.70:
        return f'{a} {rng.choice(["in", "not in"])} ({rng.randint(0, 1)}, {rng.randint(1, 3)}, {ex(rng, aliases, depth + 2)})'
    if k < 0.82:
        return f'{a} is {rng.choice(["", "not "])}null'
    if k < 0.90:
        return f'({a} = {rng.randint(0, 3)}) = ({ex(rng, aliases, depth + 1)} > 1)'
    if k < 0.94:
        # a comparison with the NULL literal (never true, not the same as IS [NOT] NULL), on either side, for every operator
        op_ = rng.choice(["=", "!=", "<>", "<", ">="])
        return f'{a} {op_} null' if rng.random() < 0.7 else f'null {op_} {a}'
    return f'{a} = {rng.randint(0, 3)}'


def gen_select(rng):
    njoin = rng.choice([0, 0, 1, 1, 2])
    tabs = []
    for i in range(njoin + 1):
        ig, t = rng.choice(c08.ALL_TABLES)
        used = [a for _, a, _ in tabs]
        alias = f'x{i}' if (rng.random() < 0.4 or t in used) else None
        tabs.append((f'{ig}.{t}', alias or t, alias))
    aliases = [a for _, a, _ in tabs]
    frm = tabs[0][0] + (f' as {tabs[0][2]}' if tabs[0][2] else '')
    jts = ['join', 'left join', 'inner join', 'right join', 'full join', 'left outer join', 'full outer join', 'LEFT JOIN',
           'cross join']
    for i in range(1, len(tabs)):
        j = rng.choice(jts)
        t = tabs[i][0] + (f' as {tabs[i][2]}' if tabs[i][2] else '')
        if j == 'cross join':
            frm += f' cross join {t}'
            continue
        on = f'{rng.choice(aliases[:i])}.a = {aliases[i]}.a'
        if rng.random() < 0.3:
            on += f' and {bex(rng, aliases[:i + 1], 2)}'
        frm += f' {j} {t} on {on}'
    if rng.random() < 0.06 and len(tabs) == 1:
        ig, t = rng.choice(c08.ALL_TABLES)
        frm += f', {ig}.{t} as y9'
        aliases.append('y9')
    star = rng.random() < 0.3
    tl = []
    for i in range(rng.randint(1, 3)):
        e = ex(rng, aliases, 1)
        tl.append(f'{e} as c{i}' if rng.random() < 0.7 or not re.fullmatch(r'\w+\.\w+', e) else e)
    if rng.random() < 0.15:
        tl.append(f'{bex(rng, aliases, 2)} as p')
    if rng.random() < 0.2:
        # string constants: what the rendered literal denotes on the target must be the value in the tree
        tl.append(rng.choice(["'x'", "'a b'", "'C:\\tmp'", "'it''s'", "'100%'", "':p'", "'a\\\\b'", "'%(x)s'", "'tab\there'", "'q?'"]) + ' as k')
    targets = '*' if star else ', '.join(tl)
    distinct = 'distinct ' if rng.random() < 0.12 else ''
    sql = f'select {distinct}{targets} from {frm}'
    if rng.random() < 0.75:
        sql += ' where ' + bex(rng, aliases)
    grouped = False
    if rng.random() < 0.18:
        g = f'{aliases[0]}.{rng.choice(COLS)}'
        agg = rng.choice(['count(*)', f'sum({ex(rng, aliases, 2)})', f'max({aliases[-1]}.c)', f'count(distinct {aliases[-1]}.b)', f'min({aliases[0]}.a)'])
        sql = sql.replace(f'select {distinct}{targets}', f'select {g} as g, {agg} as n') + f' group by {g}'
        if rng.random() < 0.4:
            sql += f' having {agg} {rng.choice([">", ">=", "=", "<"])} {rng.randint(0, 2)}'
        grouped = True
    if rng.random() < 0.45:
        if grouped:
            keys = ['g']
        elif star:
            keys = [f'{rng.choice(aliases)}.{c}' for c in rng.sample(COLS, rng.randint(1, 2))]
        else:
            keys = [f'{rng.choice(aliases)}.{c}' for c in rng.sample(COLS, rng.randint(1, 2))]
        sql += ' order by ' + ', '.join(k + rng.choice(['', '', ' desc', ' asc', ' nulls last', ' desc nulls first', ' asc nulls first',
                                                        ' desc nulls last']) for k in keys)
    if rng.random() < 0.3:
        sql += f' limit {rng.choice([0, 1, 1, 2, 3])}'          # (0 is a limit too)
        if rng.random() < 0.4:
            sql += f' offset {rng.randint(0, 2)}'
    return sql


def gen_statement(rng):
    k = rng.random()
    if k < 0.08:
        c = rng.choice(COLS)
        fix = lambda s: re.sub(r'^select (distinct )?.*? from', f'select {c}, a from', s, count=1)
        s1 = re.sub(r' (order by|limit) .*$', '', gen_select(rng))
        s2 = re.sub(r' (order by|limit) .*$', '', gen_select(rng))
        if ' group by ' in s1 or ' group by ' in s2 or ' join ' in s1 or ' join ' in s2 or ', int' in s1 or ', int' in s2:
            return gen_select(rng)
        return f'{fix(s1)} union {rng.choice(["", "all "])}{fix(s2)}'
    if 0.08 <= k < 0.11:
        # chains of set operations that mix the plain and the ALL form
        c = rng.choice(COLS)
        parts = []
        for _ in range(3):
            ig, t = rng.choice(c08.ALL_TABLES)
            parts.append(f'select {c} from {ig}.{t}')
        ops = rng.choice([['union', 'union all'], ['union all', 'union'], ['union', 'union'], ['union all', 'union all']])
        return f'{parts[0]} {ops[0]} {parts[1]} {ops[1]} {parts[2]}'
    if k < 0.14:
        ig, t = rng.choice(c08.ALL_TABLES)
        return f'with c1 as (select * from {ig}.{t} where {bex(rng, [t], 2)}) select * from c1 where {bex(rng, ["c1"], 2)}'
    if k < 0.20:
        ig, t = rng.choice(c08.ALL_TABLES)
        return (f'select s.a, s.c from (select * from {ig}.{t} where {bex(rng, [t], 2)}) as s' +
                rng.choice(['', ' where s.b = 1', ' order by s.a limit 2', ' order by s.c desc nulls last']))
    if k < 0.28:
        ig, t = rng.choice(c08.ALL_TABLES)
        ig2, t2 = rng.choice(c08.ALL_TABLES)
        sub = f'select {rng.choice(COLS)} from {ig2}.{t2} where {bex(rng, [t2], 2)}'
        return f'select * from {ig}.{t} where {t}.a {rng.choice(["in", "not in"])} ({sub})' + rng.choice(['', f' and {bex(rng, [t], 2)}'])
    if k < 0.32:
        ig, t = rng.choice(c08.ALL_TABLES)
        ig2, t2 = rng.choice(c08.ALL_TABLES)
        return f'select * from {ig}.{t} where {rng.choice(["", "not "])}exists (select * from {ig2}.{t2} where {bex(rng, [t2], 2)})'
    return gen_select(rng)


EDGE = [
    "select t1.a - (t1.b - t1.c) as x from int1.t1",
    "select (t1.a - t1.b) - t1.c as x, t1.a - t1.b - t1.c as y from int1.t1",
    "select t1.a * (t1.b + t1.c) as x, -(t1.a + t1.b) as y, - t1.a + t1.b as z from int1.t1",
    "select * from int1.t1 where not (t1.a = 1 or t1.b = 2) and t1.c = 3",
    "select * from int1.t1 where not (t1.a = 1 and t1.b = 2) or t1.c = 3",
    "select * from int1.t1 where (t1.a = 1 or t1.b = 2) and (t1.c = 3 or t1.a = 0)",
    "select * from int1.t1 where not t1.a between 1 and 2",
    "select * from int1.t1 where t1.a between t1.b - 1 and t1.b + 1",
    "select * from int1.t1 where not (t1.a in (1, 2))",
    "select * from int1.t1 where not (t1.a is null)",
    "select * from int1.t1 where (t1.a = 1) = (t1.b = 2)",
    "select * from int1.t1 right join int2.t2 on t1.a = t2.a",
    "select * from int1.t1 left outer join int2.t2 on t1.a = t2.a",
    "select * from int1.t1 full outer join int2.t2 on t1.a = t2.a",
    "select * from int1.t1 LEFT JOIN int2.t2 on t1.a = t2.a",
    "select * from int1.t1 Left Join int2.t2 on t1.a = t2.a",
    "select * from int1.t1 cross join int2.t2",
    "select * from int1.t1, int2.t2 where t1.a = t2.a",
    "select * from int1.t1 order by t1.a desc nulls first, t1.b asc nulls last",
    "select * from int1.t1 order by t1.a nulls last",
    "select distinct t1.a, t1.b from int1.t1 order by t1.a limit 2 offset 1",
    "select t1.a as g, count(*) as n from int1.t1 group by t1.a having count(*) > 1 order by g",
    "select case when t1.a > 1 then t1.b else t1.c end as x from int1.t1",
    "select a, b from int1.t1 union select a, b from int2.t2",
    "select a, b from int1.t1 union all select a, b from int2.t2",
    "select * from int1.t1 where t1.a - -t1.b > 0",
    "select * from int1.t1 where -(-t1.a) = 1",
    "select a from int1.t1 union select a from int2.t2 union all select a from int3.t3", "select a from int1.t1 union all select a from int1.t1 union select a from int1.t1",
    "select a from int1.t1 union select a from int1.t1 union all select a from int1.t1",
    # a sub-select whose FROM lists (comma join) a table that the enclosing query reads too: it is a table of its own there
    "select a from int1.t1 where exists (select 1 from int1.t1, int2.t2 where t1.a = t2.a)",
    "select a from int1.t1 where not exists (select 1 from int1.t1, int2.t2 where t1.a = t2.a and t2.b = 1)",
    "select a, (select max(t2.b) from int1.t1, int2.t2 where t1.a = t2.a) as m from int1.t1",
    "select a from int1.t1 where a in (select t2.a from int2.t2, int1.t1 where t1.b = t2.b)",
    "select x.a from int1.t1 as x where exists (select 1 from int1.t1 as x, int2.t2 where x.a = t2.a) order by x.a",
    "select a from int1.t1 where b > (select min(u1.b) from int1.u1, int1.t1 where u1.a = t1.a)",
    "select 'C:\\tmp' as k, t1.a from int1.t1", "select 'it''s' as k, 'a\\\\b' as j from int1.t1 where t1.a = 1",
]

DML = [
    ("insert into int1.t1 (a, b, c) values (1, 2, 3), (4, 5, null)", 't1'),
    ("insert into int1.t1 (a, b) values (7, 8)", 't1'),
    ("insert into int1.t1 (a, b, c) select a, b, c from int1.u1 where a > 0", 't1'),
    ("update int1.t1 set a = 5 where b = 1", 't1'),
    ("update int1.t1 set a = a + 1, b = null where c is not null and (a = 1 or b = 2)", 't1'),
    ("update int1.t1 set c = b - (a - 1)", 't1'),
    ("delete from int1.t1 where a = 1", 't1'),
    ("delete from int1.t1 where not (a = 1 or b = 2) and c is null", 't1'),
    ("delete from int1.t1 where a in (select a from int1.u1)", 't1'),
    ("delete from int1.t1", 't1'),
    ("create table int1.n1 (x int, y varchar(10))", 'n1'),
    ("drop table int1.u1", 'u1'),
    ("drop table if exists int1.zz", 'zz'),
]


def sqlite_db(db):
    con = sqlite3.connect(':memory:')
    for ig in {p[0] for p in db}:
        con.execute(f"attach ':memory:' as {ig}")
    for (ig, t), (cols, rows) in db.items():
        con.execute(f'create table {ig}.{t} ({", ".join(c + " integer" for c in cols)})')
        con.executemany(f'insert into {ig}.{t} values ({", ".join("?" * len(cols))})', rows)
    return con


def gen_outside(rng):
    """statements with constructs the Coq evaluator does not model (window functions, LIKE, CAST, division, string functions,
    simple CASE, concatenation): judged sqlite-vs-sqlite (original text against rendered text)"""
    ig, t = rng.choice(c08.ALL_TABLES)
    c1, c2, c3 = (rng.choice(COLS) for _ in range(3))
    k = rng.randrange(16)
    if k == 15:
        # boundary values of LIMIT / OFFSET at every level (top, derived table, EXISTS, scalar sub-select)
        l0, o0 = rng.choice([0, 0, 1, 2]), rng.choice(['', '', ' offset 0', ' offset 1'])
        return rng.choice([f'select * from {ig}.{t} order by {c1}, {c2}, {c3} limit {l0}{o0}',
                           f'select count(*) as n from (select * from {ig}.{t} limit {l0}{o0}) as s',
                           f'select {c1} from {ig}.{t} where exists (select 1 from {ig}.{t} limit {l0})',
                           f'select {c1}, (select count(*) from (select 1 from {ig}.{t} limit {l0}) as z) as n from {ig}.{t}'])
    if k >= 12:
        # operand grouping for every arithmetic operator of the renderer, `%` included: fully parenthesised operands in the original
        def rex(depth=0):
            if depth >= 3 or rng.random() < 0.35:
                return rng.choice([c1, c2, c3, str(rng.randint(1, 7))])
            op = rng.choice(['+', '-', '*', '%', '%', '%'])
            a, b = rex(depth + 1), rex(depth + 1)
            a = f'({a})' if ' ' in a else a
            b = f'({b})' if ' ' in b else b
            return f'{a} {op} {b}'
        return f'select {rex()} as v, {rex()} as w from {ig}.{t} where {rex()} {rng.choice(["=", "<", ">=", "<>"])} {rex()}'
    if k == 0:
        fn = rng.choice(['row_number()', 'rank()', 'dense_rank()', f'sum({c3})', f'count({c3})', f'max({c3})', f'min({c3})', f'lag({c3})', f'lead({c3})'])
        part = rng.choice(['', f'partition by {c1} ', f'partition by {c1}, {c2} '])
        od = rng.choice([f'order by {c2}', f'order by {c2} desc', f'order by {c2}, {c3} desc', f'order by {c2} desc, {c1}'])
        return f'select {c1}, {c2}, {fn} over ({part}{od}) as w from {ig}.{t}'
    if k == 1:
        return f'select {c1}, sum({c2}) over (partition by {c1}) as s, count(*) over () as n from {ig}.{t} order by {c1}, s'
    if k == 2:
        return f"select * from {ig}.{t} where cast({c1} as text) {rng.choice(['like', 'not like'])} '{rng.choice(['1%', '%2', '_', '%'])}'"
    if k == 3:
        # (no `/` between integers: SQLAlchemy 2 renders it as true division on purpose, sqlite's own `/` truncates)
        return f'select {c1} % {rng.choice([2, 3])} as q, {c2} % 2 as r, {c1} * 1.5 as f, {c3} / 2.0 as h from {ig}.{t} where {c2} % 2 > 0'
    if k == 4:
        return f'select cast({c1} as {rng.choice(["text", "integer", "float", "varchar", "char(3)"])}) as x, {c2} from {ig}.{t} order by {c2}'
    if k == 5:
        return f'select case {c1} when 1 then 10 when 2 then 20 else {c2} end as x from {ig}.{t}'
    if k == 6:
        return f"select {c1} || '-' || {c2} as s, lower('AbC') as l, upper('x') as u, length(cast({c3} as text)) as n from {ig}.{t}"
    if k == 7:
        return f'select {c1}, count(distinct {c2}) as d, avg({c3}) as a, min({c2}) as mn from {ig}.{t} group by {c1} having count(*) >= 1 order by {c1} desc nulls last'
    if k == 8:
        return f'select abs({c1} - {c2}) as d, round({c3} / 3.0, 1) as r, coalesce({c1}, {c2}, 0) as c, nullif({c1}, {c2}) as n from {ig}.{t}'
    if k == 9:
        return f"select * from {ig}.{t} where {c1} in (1, 2) or ({c2} is not null and not ({c3} between 1 and 2)) order by {c1} nulls first, {c2} desc limit 3 offset 1"
    if k == 10:
        ig2, t2 = rng.choice(c08.ALL_TABLES)
        return f'select x.{c1}, (select max({c2}) from {ig2}.{t2}) as m, exists (select 1 from {ig2}.{t2} where {c3} = 1) as e from {ig}.{t} as x'
    return f'select {c1}, {c2} from {ig}.{t} where {c3} = (select min({c3}) from {ig}.{t}) or {c1} > all (select 0) order by 1, 2'


def run(tier, seed, replay=None):
    R = Result(PROP, tier, seed, level='proof')
    R.cov['checker_cmd'] = 'make -C /verif/coq (Props/C06.v); coqc Gen/C06_inst.v Gen/C06_cases_*.v'
    R.cov['trusted_base'] = [KERNEL, 'sqlite3 3.40 as the engine that executes rendered text', 'harness/sqlcoq.py (AST -> Model/SqlEval terms)',
                             'Model/SqlEval.v (meaning of the AST)', 'axioms: none']
    R.assumptions = ['the meaning of the parsed AST is Model/SqlEval.v; the rendered text is executed by sqlite3 for all three target dialects '
                     '(mysql / postgres output only where sqlite accepts it)',
                     'DML / DDL are compared sqlite-vs-sqlite (original text vs rendered text): exploration, not proof',
                     'integer columns; window functions, LIKE, casts and division are not generated']
    rng = random.Random(seed)
    findings = findings_for(PROP)
    from mindsdb_sql import parse_sql
    from mindsdb_sql.parser import ast
    from mindsdb_sql.render.sqlalchemy_render import SqlalchemyRender
    try:
        ensure_static()
        R.obligation('Props/C06.v (make)', True)
    except BrokenTie as e:
        R.obligation('static development builds', False)
        R.violation({'broken': e.what, 'detail': e.detail, 'theorem': 'Props/C06.v'}, nofail=True)
        return R.finish()
    import c06sa
    sa_broken = c06sa.check(R, rng, tier)
    if replay:
        rp = json.loads(open(replay).read())
        inputs = [rp['sql']] if 'sql' in rp else []
    else:
        inputs = list(EDGE) + [gen_statement(rng) for _ in range(300 if tier == 'quick' else 5000)]
    ndb = 3 if tier == 'quick' else 6
    N = sqlcoq.Names()
    stats = {'statements': 0, 'parse_error': 0, 'unsupported': 0, 'render_error': 0, 'judged': 0, 'ok': 0, 'mismatch': 0,
             'sqlite_rejects_rendered': 0, 'reference_outside_evaluator': 0, 'sqlite_disagrees_on_original': 0}
    skipped = {}
    cases = []          # (sql, dialect, rendered, qfull, order, lim, off, [(db, rows_term | None, lite_orig_term)])
    for sql in inputs:
        stats['statements'] += 1
        try:
            q = parse_sql(sql, 'mindsdb')
        except Exception as e:
            stats['parse_error'] += 1
            skipped.setdefault(f'parse: {str(e)[:50]}', sql)
            continue
        try:
            tr = sqlcoq.Tr(N)
            order, lim, off = '[]', 'None', 'None'
            if isinstance(q, ast.Select):
                order = sqlcoq.lst([tr.order(o) for o in (q.order_by or [])])
                lim, off = tr.nat_const(q.limit), tr.nat_const(q.offset)
                qfull = tr.query(q, strip_limit=True)
            else:
                qfull = tr.query(q)
        except sqlcoq.Unsupported as e:
            stats['unsupported'] += 1
            skipped.setdefault('unsupported: ' + str(e)[:50], sql)
            continue
        setop = ' union ' in sql.lower()
        dbs = [sqlcoq.gen_db(rng, c08.ALL_TABLES, COLS, few_values=setop and i % 2 == 0) for i in range(ndb * (2 if setop else 1))]
        for dialect in ('sqlite', 'mysql', 'postgres'):
            try:
                rendered = SqlalchemyRender(dialect).get_string(parse_sql(sql, 'mindsdb'), with_failback=False)
            except Exception as e:
                stats['render_error'] += 1
                skipped.setdefault(f'render({dialect}): {type(e).__name__}: {str(e)[:50]}', sql)
                continue
            per = []
            for db in dbs:
                con = sqlite_db(db)
                try:
                    rows = [list(r) for r in con.execute(rendered).fetchall()]
                    rt = c08.rows_term(rows, N)
                except (sqlite3.Error, sqlcoq.Unsupported) as e:
                    rt = None
                    if dialect == 'sqlite':
                        skipped.setdefault(f'sqlite rejects sqlite rendering: {str(e)[:60]}', rendered)
                try:
                    o = [list(r) for r in con.execute(c08.strip_limit(sql)).fetchall()]
                    ot = c08.rows_term(o, N)
                except (sqlite3.Error, sqlcoq.Unsupported):
                    ot = None
                con.close()
                per.append((db, rt, ot))
            cases.append((sql, dialect, rendered, qfull, order, lim, off, per))
    # ---- Coq
    shard = 60
    names = []
    for k in range(0, len(cases), shard):
        name = f'C06_cases_{k // shard}'
        lines = list(c08.HEADER)
        lines.append('Definition lite_ok (fuel : nat) db q (rows : option rel) : bool :=')
        lines.append('  match rows with None => true | Some r => let f := eval_top fuel db q in frame_err f || bag_eq (snd f) r end.')
        lines.append('Definition vd (fuel : nat) db q order lim off (rows : option rel) : nat :=')
        lines.append('  match rows with None => 9%nat | Some r => fst (verdict (eval_top fuel db q) ([], r) order lim off) end.')
        defs, idx = [], []
        for i, (sql, dialect, rendered, qfull, order, lim, off, per) in enumerate(cases[k:k + shard]):
            lines.append(f'Definition q{i} := {qfull}.')
            for j, (db, rt, ot) in enumerate(per):
                lines.append(f'Definition d{i}_{j} : list (list name * (list name * rel)) := {sqlcoq.db_term(db, N)}.')
                defs.append(f'(vd {c08.FUEL} d{i}_{j} q{i} {order} {lim} {off} {sqlcoq.opt(rt)}, lite_ok {c08.FUEL} d{i}_{j} q{i} {sqlcoq.opt(ot)})')
                idx.append((k + i, j))
        lines.append('Definition verdicts : list (nat * bool) := [' + ';\n '.join(defs) + '].')
        lines.append('Eval vm_compute in verdicts.')
        write_if_changed(GEN / f'{name}.v', '\n'.join(lines) + '\n')
        names.append((name, idx))
    res = compile_many([n for n, _ in names], timeout=900)
    broken = list(sa_broken)
    fails = []
    for (name, idx), (rc, out) in zip(names, res):
        if rc != 0:
            broken.append(BrokenTie(f'{name} does not compile', out[-1200:]))
            continue
        vals = coq_eval_lists(out)
        v = re.findall(r'\((\d+), (true|false)\)', vals[-1]) if vals else []
        if len(v) != len(idx):
            broken.append(BrokenTie(f'{name}: unexpected Coq output', out[-500:]))
            continue
        for (ci, j), (code, lok) in zip(idx, v):
            code = int(code)
            if lok != 'true':
                stats['sqlite_disagrees_on_original'] += 1
                continue
            if code == 9:
                stats['sqlite_rejects_rendered'] += 1
            elif code == 2:
                stats['reference_outside_evaluator'] += 1
            else:
                stats['judged'] += 1
                if code == 0:
                    stats['ok'] += 1
                else:
                    stats['mismatch'] += 1
                    fails.append((ci, j))
    R.obligation(f'Coq evaluation of {len(cases)} (statement, dialect) pairs x {ndb} databases completes', not broken)
    seen = set()
    for ci, j in fails:
        sql, dialect, rendered, qfull, order, lim, off, per = cases[ci]
        low = ' '.join(sql.lower().split())
        feats = sorted(x for x, pat in (('right_join', ' right '), ('full_join', ' full '), ('left_outer', 'left outer'), ('upper_left', 'LEFT JOIN'),
                                        ('cross', ' cross join'), ('nulls', ' nulls '), ('not', 'not '), ('between', ' between '),
                                        ('union', ' union '), ('distinct', 'distinct'), ('group', ' group by '), ('limit', ' limit '),
                                        ('case', 'case when'), ('neg', '-('), ('in', ' in (')) if pat in (sql if pat.isupper() else low))
        fd = [f for f in findings if f['classifier'].get('kind') == 'render_differs' and set(f['classifier']['needs']) <= set(feats)
              and f['classifier'].get('dialects', [dialect]).count(dialect)]
        if fd:
            R.known_finding(f'{fd[0]["id"]}: {fd[0]["what"]}')
            continue
        key = (tuple(feats), dialect)
        if key in seen or len(seen) >= 8:
            continue
        seen.add(key)
        db = per[j][0]
        R.violation({'sql': sql, 'dialect': dialect, 'rendered': rendered, 'features': feats,
                     'database': {'.'.join(k_): {'columns': v_[0], 'rows': v_[1]} for k_, v_ in db.items() if v_[1]},
                     'what': 'executing the rendered text does not give an acceptable answer to the parsed statement',
                     'judge': 'Model/SqlJudge.verdict = (1, _)'})
    # ---- constructs outside the Coq evaluator (window functions, LIKE, CAST, division, string functions ...): original text
    # against rendered text, both executed by sqlite3 (exploration; the rows and, where the query orders them, their order)
    if not replay or 'outside_sql' in rp:
        outs_sql = [gen_outside(rng) for _ in range(120 if tier == 'quick' else 2000)] if not replay else [rp['outside_sql']]
        n_out = n_cmp = 0
        rep_out = 0
        for sql in outs_sql:
            for dialect in ('sqlite', 'mysql', 'postgres'):
                try:
                    rendered = SqlalchemyRender(dialect).get_string(parse_sql(sql, 'mindsdb'), with_failback=False)
                except Exception as e:
                    skipped.setdefault(f'render({dialect}): {type(e).__name__}: {str(e)[:50]}', sql)
                    continue
                n_out += 1
                for _ in range(ndb):
                    db = sqlcoq.gen_db(rng, c08.ALL_TABLES, COLS)
                    con = sqlite_db(db)
                    try:
                        a = [list(r) for r in con.execute(sql).fetchall()]
                    except sqlite3.Error:
                        con.close()
                        break           # the original is not sqlite text: nothing to compare with
                    try:
                        b = [list(r) for r in con.execute(rendered).fetchall()]
                    except sqlite3.Error:
                        con.close()
                        break           # another dialect's text that sqlite does not accept
                    con.close()
                    n_cmp += 1
                    ordered = ' order by ' in sql.lower() and ' over (' not in sql.lower()
                    same = (a == b) if ordered else (sorted(map(repr, a)) == sorted(map(repr, b)))
                    if not same and rep_out < 3:
                        rep_out += 1
                        R.violation({'outside_sql': sql, 'dialect': dialect, 'rendered': rendered, 'rows_of_the_original': a[:10], 'rows_of_the_rendered_text': b[:10],
                                     'database': {'.'.join(k_): {'columns': v_[0], 'rows': v_[1]} for k_, v_ in db.items() if v_[1]},
                                     'what': 'the rendered text, executed by sqlite3, does not return the rows of the original text'})
                        break
        stats['outside_evaluator_renderings'] = n_out
        stats['outside_evaluator_comparisons'] = n_cmp
    # ---- DML / DDL, sqlite vs sqlite
    dml_bad = []
    for sql, tname in DML:
        for dialect in ('sqlite', 'mysql', 'postgres'):
            try:
                rendered = SqlalchemyRender(dialect).get_string(parse_sql(sql, 'mindsdb'), with_failback=False)
            except Exception as e:
                skipped.setdefault(f'render({dialect}): {type(e).__name__}: {str(e)[:50]}', sql)
                continue
            for _ in range(ndb):
                db = sqlcoq.gen_db(rng, c08.ALL_TABLES, COLS)
                outs = []
                for text in (sql, rendered):
                    con = sqlite_db(db)
                    try:
                        con.execute(text)
                        try:
                            outs.append(sorted(map(repr, con.execute(f'select * from int1.{tname}').fetchall())))
                        except sqlite3.Error:
                            outs.append('no-table')
                        try:
                            outs[-1] = (outs[-1], [r[1] for r in con.execute(f"select * from int1.pragma_table_info('{tname}')").fetchall()])
                        except sqlite3.Error:
                            pass
                    except sqlite3.Error as e:
                        outs.append(f'error')
                    con.close()
                stats['judged'] += 1
                if outs[0] == 'error' or outs[1] == 'error':
                    if outs[0] != outs[1] and outs[0] != 'error':
                        stats['sqlite_rejects_rendered'] += 1
                    continue
                if outs[0] != outs[1]:
                    dml_bad.append((sql, dialect, rendered, db, outs))
                else:
                    stats['ok'] += 1
    for sql, dialect, rendered, db, outs in dml_bad[:3]:
        R.violation({'sql': sql, 'dialect': dialect, 'rendered': rendered, 'what': 'table contents after the rendered statement differ from '
                     'those after the original statement (sqlite3)', 'after_original': str(outs[0])[:500], 'after_rendered': str(outs[1])[:500],
                     'database': {'.'.join(k_): {'columns': v_[0], 'rows': v_[1]} for k_, v_ in db.items() if v_[1]}})
    R.obligation('judge: rendered text has the meaning of the AST on every generated database (except listed findings)',
                 not any(not nf for _, nf in R.violations))
    for e in broken[:2]:
        if not any(not nf for _, nf in R.violations):
            R.violation({'what': e.what, 'detail': e.detail, 'theorem': 'C06 (Gen/C06_*.v)'}, nofail=True)
    R.cov['evaluations'] = sum(len(c[7]) for c in cases)
    R.cov['distinct_nontrivial'] = len({c[2] for c in cases})
    R.cov['rule'] = ('generated SELECTs (nested arithmetic / boolean trees with explicit grouping, NOT, BETWEEN, IN, IS NULL, CASE, joins of every '
                     'kind and spelling, implicit and cross joins, subqueries, EXISTS, UNION, CTE, nested select, GROUP BY / HAVING, DISTINCT, '
                     'ORDER BY with NULLS FIRST / LAST, LIMIT / OFFSET) x 3 target dialects x generated databases; fixed DML / DDL list')
    R.cov['samples'] = [{'sql': s} for s in inputs[:3]]
    R.notes['input_distribution'] = stats
    R.notes['skipped_examples'] = dict(list(skipped.items())[:15])
    return R.finish()
