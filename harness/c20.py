"""C20: calls are isolated: same input, same result, whatever ran before or alongside.

Proof (partial): Props/C20.v -- under the discipline "each call steps only its own private
state and only reads the shared state", the state of a call after ANY schedule depends only on
its own input and the number of its own steps (schedule- and history-independence).
What ties the discipline to the implementation (and what only the runtime can show) is checked
here on the real code:
  1. shared objects (module-level containers, class attributes of the parser / lexer / planner /
     renderer classes, sly's generated tables) have the same deep digest before and after the
     whole corpus of calls, failing calls included;
  2. every input gives the same result in sequential order, in shuffled order interleaved with
     failing calls, from 8 threads with a 1 microsecond switch interval, and with catalog objects
     re-used across calls instead of fresh ones;
  3. the results and the LALR tables have the same digest in fresh processes under several
     PYTHONHASHSEED values."""
import copy
import hashlib
import json
import os
import random
import re
import subprocess
import sys
import threading
import types
import warnings

import plangen
import sqlcorpus
from common import (BrokenTie, Result, ensure_static, findings_for, KERNEL, VERIF)

PROP = 'C20'


def corpus(rng, n_each):
    import c06
    import c14
    h = sqlcorpus.harvest()
    items = []
    texts = list(h['mindsdb'])
    rng.shuffle(texts)
    bad = ['select', 'select from', 'select * from t where', "select 'abc", 'selec 1', 'select 1 1 1', 'create model', 'select a->>b',
           "select -'x'", 'CREATE SKILL s USING a=1', 'select * from t limit x', '((((', 'insert into', 'update t set', 'drop']
    # rejected inputs in families that stop the parser in the same state on the same kind of token but differ afterwards: what one
    # of them is told must not depend on which of them was rejected first
    bad += ['create m predict x', 'create t (a int)', 'create tabl t (a int)', 'create v as (select 1)', 'create e from h', 'create j (select 1)',
            'drop e', 'drop t if exists', 'drop m m1', 'show x', 'show x from y', 'show x like z', 'alter x', 'insert x', 'insert x values (1)',
            'start x', 'select * from t group x', 'select * from t order x', 'select a from t where a is x', 'update t x', 'update t x = 1',
            'select * from a join b on x = y left z', 'select * from a join b on x = y left z on q', 'create or t', 'create or m predict y']
    try:
        import c19
        bad += [t for t in c19.texts(random.Random(rng.random()), 'quick') if '\n' not in t][:n_each]
    except Exception:
        pass
    for s in texts[:n_each] + bad:
        items.append(('parse', s, 'mindsdb'))
    for d in ('mysql', 'sqlite'):
        t2 = list(h[d])
        rng.shuffle(t2)
        for s in t2[:n_each // 3] + bad[:6]:
            items.append(('parse', s, d))
    cats = [c[0] for c in plangen.catalogs()]
    for _ in range(n_each):
        items.append(('plan', plangen.gen_statement(rng, plangen.ALL_FEATURES)[0], rng.choice(cats)))
    for s in plangen.EDGE_STATEMENTS + c14.EDGE:
        items.append(('plan', s, 'names'))
    for s in ['select * from proj.pred where a = 1', 'select * from proj.pred.3 where a = 1', 'select * from proj.pred.7 where a = 1 and b = 2',
              'select * from int1.t1 join proj.pred.3 as m', 'select * from int1.t1 join proj.pred as m', 'select * from proj.pred2 where a = 1',
              'select * from PROJ.pred where a = 1', 'select * from proj.pred2.2 where a = 1']:
        for c in cats:
            items.append(('plan', s, c))
    for s in ['select * from nowhere', 'select * from int1.t1 join proj.pred as m join proj.pred2', 'select * from proj.pred',
              'select * from int1.t1 as t join proj.pred as m where t.zz.q = 1']:
        items.append(('plan', s, 'names'))
    # calls that fail LATE (after planning part of the statement: common table expressions, sub-selects, earlier tables of a join), and
    # calls whose names coincide with what such a call had got to know by then
    late = ['with c1 as (select * from int1.t1) select * from c1 join nowhere.x on c1.a = x.a',
            'with c1 as (select a from int1.t1), c2 as (select a from int2.t2) select * from c1 join c2 on c1.a = c2.a join nowhere.y on y.a = c1.a',
            'with t1 as (select a from int2.t2) select * from t1 join nowhere.z on z.a = t1.a',
            'select * from int1.t1 where a in (select a from int2.t2) and b in (select b from nowhere.q)',
            'select * from int1.t1 join int2.t2 on t1.a = t2.a join nowhere.w on w.a = t1.a',
            'select * from (select * from int1.t1) as s join nowhere.v on v.a = s.a',
            # ... a column of a table that is not in the join is noticed only when the join is planned
            'with c1 as (select * from int1.t1) select c1.a, zz.a from c1 join int2.t2 on c1.a = t2.a',
            'with t1 as (select * from int1.u1), c2 as (select a from int2.t2) select t1.a, zz.b from t1 join int2.t2 as q on t1.a = q.a',
            'select t1.a, zz.b from int1.t1 join int2.t2 on t1.a = t2.a where t1.b in (select b from int3.t3)',
            'with c1 as (select * from int1.t1) select * from c1 join int2.t2 on c1.a = t2.a where zz.c = 1']
    after = ['select * from c1', 'select * from c1 join int2.t2 on c1.a = t2.a', 'select * from c2 where a = 1', 'select * from t1',
             'select * from t1 join int2.t2 on t1.a = t2.a', 'select * from s', 'with c1 as (select b from int2.t2) select * from c1']
    for s in late + after:
        for c in cats:
            items.append(('plan', s, c))
    for _ in range(n_each // 4):
        g = plangen.gen_statement(rng, plangen.ALL_FEATURES)[0]
        refs = list(re.finditer(r'\bint\d\.(\w+)', g))
        if len(refs) >= 2:
            m = refs[-1]
            items.append(('plan', g[:m.start()] + 'nowhere.' + m.group(1) + g[m.end():], rng.choice(cats)))
        cm = re.search(r'\b(\w+)\.([abc])\b', g)
        if cm and len(refs) >= 2:
            items.append(('plan', g[:cm.start()] + 'zz.' + cm.group(2) + g[cm.end():], rng.choice(cats)))
    for _ in range(n_each // 2):
        items.append(('render', c06.gen_statement(rng), rng.choice(['mysql', 'postgres', 'sqlite'])))
    for s in ['select cast(a as foo) from t', 'select count(a, b) from t', 'create table t (a serial)', 'select * from t1 right join t2 on t1.a=t2.a']:
        items.append(('render', s, 'mysql'))
    for s in ['select date, t.level, size as user from db.comment t where number > 1 order by mode', 'select `index`, `option`, uid from public.resource',
              'select a from t']:
        for d in ('oracle', 'Snowflake', 'mssql', 'postgresql', 'oracle'):
            items.append(('render', s, d))
    # the same table name with different definitions, several dialects: nothing may be remembered between calls
    for s in ['create table mydb.persons (id int primary key, name text)', 'create table mydb.persons (location_id int, num int, name text)',
              'create table mydb.persons (a serial, b int)', 'create table persons (x int)', 'drop table mydb.persons', 'create table mydb.persons (id int)']:
        for d in ('mysql', 'postgres', 'sqlite'):
            items.append(('render', s, d))
    return list(dict.fromkeys(items))


def run_one(item, catalogs=None):
    """-> canonical string of the result (or of the error)"""
    kind, text, arg = item
    from mindsdb_sql import parse_sql
    try:
        if kind == 'parse':
            t = parse_sql(text, arg)
            return 'T:' + (t.to_tree() if hasattr(t, 'to_tree') else repr(t)) + '|' + str(t)
        if kind == 'plan':
            from mindsdb_sql.planner import plan_query
            kw = catalogs[arg] if catalogs is not None else copy.deepcopy(dict(plangen.catalogs())[arg])
            p = plan_query(parse_sql(text, 'mindsdb'), **kw)
            return 'P:' + '\n'.join(str(s) for s in p.steps)
        if kind == 'render':
            from mindsdb_sql.render.sqlalchemy_render import SqlalchemyRender
            return 'R:' + SqlalchemyRender(arg).get_string(parse_sql(text, 'mindsdb'), with_failback=True)
    except Exception as e:
        return f'E:{type(e).__name__}:{e}'
    return '?'


# ------------------------------------------------------------------ digest of shared objects
def digest(obj, seen=None, memo=None):
    """structural hash of an object graph (memoised per object, cycles cut): containers by content, objects by class + attributes"""
    seen = seen if seen is not None else set()
    memo = memo if memo is not None else {}
    if isinstance(obj, (str, int, float, bool, bytes, type(None))):
        return repr(obj)
    if id(obj) in memo:
        return memo[id(obj)]
    if id(obj) in seen:
        return '<cycle>'
    seen.add(id(obj))
    try:
        if isinstance(obj, dict):
            r = '{' + ','.join(sorted(digest(k, seen, memo) + ':' + digest(v, seen, memo) for k, v in list(obj.items()))) + '}'
        elif isinstance(obj, (set, frozenset)):
            r = 's{' + ','.join(sorted(digest(x, seen, memo) for x in list(obj))) + '}'
        elif isinstance(obj, (list, tuple)):
            r = '[' + ','.join(digest(x, seen, memo) for x in list(obj)) + ']'
        elif isinstance(obj, (types.FunctionType, types.BuiltinFunctionType, types.MethodType, type, types.ModuleType, staticmethod,
                              classmethod, property)):
            r = f'<{type(obj).__name__} {getattr(obj, "__qualname__", getattr(obj, "__name__", ""))}>'
        elif hasattr(obj, 'pattern') and hasattr(obj, 'flags'):
            r = f'<re {obj.pattern!r} {obj.flags}>'
        elif isinstance(getattr(obj, '__dict__', None), dict):
            r = f'<{type(obj).__name__} ' + digest(obj.__dict__, seen, memo) + '>'
        elif getattr(type(obj), '__slots__', None):
            r = f'<{type(obj).__name__} ' + ','.join(f'{s}={digest(getattr(obj, s, None), seen, memo)}' for s in type(obj).__slots__) + '>'
        else:
            r = repr(obj)
            r = r if ' at 0x' not in r else f'<{type(obj).__name__}>'
        if len(r) > 64:
            r = '#' + hashlib.sha256(r.encode('utf-8', 'replace')).hexdigest()[:24]
        memo[id(obj)] = r
        return r
    finally:
        seen.discard(id(obj))


def shared_cells():
    """name -> object, for module-level containers and class attributes of the packages under test"""
    cells = {}
    for mname, mod in sorted(sys.modules.items()):
        if mod is None or not (mname == 'sly' or mname.startswith('sly.') or mname == 'mindsdb_sql' or mname.startswith('mindsdb_sql.')):
            continue
        for k, v in sorted(vars(mod).items()):
            if k.startswith('__'):
                continue
            if isinstance(v, (dict, list, set)):
                cells[f'{mname}.{k}'] = v
            elif isinstance(v, type) and getattr(v, '__module__', None) == mname:
                for ak, av in sorted(vars(v).items()):
                    if ak.startswith('__') and ak.endswith('__'):
                        continue
                    if isinstance(av, (types.FunctionType, staticmethod, classmethod, property, type)):
                        continue
                    if isinstance(av, (str, int, float, bool, type(None), tuple, frozenset)) and not isinstance(av, tuple):
                        cells[f'{mname}.{k}.{ak}'] = av
                    else:
                        cells[f'{mname}.{k}.{ak}'] = av
    return cells


def cells_digest():
    memo = {}
    return {k: hashlib.sha256(digest(v, None, memo).encode('utf-8', 'replace')).hexdigest() for k, v in shared_cells().items()}


WORKER = r'''
import sys, json, random, hashlib, warnings
warnings.simplefilter('ignore')
sys.path.insert(0, '/verif/harness'); sys.path.insert(0, '/repo')
import c20
rng = random.Random(int(sys.argv[1]))
items = c20.corpus(rng, int(sys.argv[2]))
mode = sys.argv[3] if len(sys.argv) > 3 else 'fwd'
order = list(range(len(items)))
if mode == 'rev':
    order.reverse()
elif mode == 'shuffle':
    random.Random(99).shuffle(order)
got = {}
for i in order:
    got[i] = c20.run_one(items[i])
res = [got[i] for i in range(len(items))]
h = hashlib.sha256('\x00'.join(res).encode('utf-8', 'replace')).hexdigest()
import gen_tables
tabs = {}
for d in ('mindsdb', 'mysql', 'sqlite'):
    try:
        P = gen_tables.parser_class(d)
        g, lr = P._grammar, P._lrtable
        # what can influence a parse: the set of productions, and how each reduce/reduce conflict was resolved
        # (state numbers and the order of productions are process-local names)
        canon = {'productions': sorted(str(p) for p in g.Productions),
                 'rr': sorted({(str(a), str(b)) for _, a, b in lr.rr_conflicts}),
                 'sr': sorted({(str(t), str(r)) for _, t, r in lr.sr_conflicts}),
                 'precedence': sorted((str(k), str(v)) for k, v in g.Precedence.items())}
        tabs[d] = hashlib.sha256(json.dumps(canon, sort_keys=True).encode()).hexdigest()
    except Exception as e:
        tabs[d] = 'error:' + type(e).__name__ + str(e)[:80]
print(json.dumps({'results': h, 'tables': tabs, 'per_item': [hashlib.sha256(r.encode('utf-8', 'replace')).hexdigest()[:12] for r in res],
                  'per_item_sorted_suggestions': [hashlib.sha256(c20.sort_suggestions(r).encode('utf-8', 'replace')).hexdigest()[:12] for r in res]}))
'''


def sort_suggestions(text):
    """the same result with the items of a 'Possible inputs: "A", "B"' line put in alphabetical order"""
    import re

    def fix(m):
        return m.group(1) + ', '.join(sorted(re.findall(r'"(?:[^"]|"(?=[^,]))*"', m.group(2))))
    return re.sub(r'(Possible inputs: )(.*)$', fix, text, flags=re.M)


def run(tier, seed, replay=None):
    R = Result(PROP, tier, seed, level='proof')
    R.cov['checker_cmd'] = 'make -C /verif/coq (Props/C20.v)'
    R.cov['trusted_base'] = [KERNEL, 'harness/c20.py (inventory and digest of shared objects, thread / order / process experiments)', 'axioms: none']
    R.assumptions = ['PARTIAL: the theorem covers the discipline (private state per call, shared state only read); that the calls follow it is '
                     'observed on a corpus after one warm-up pass (lazy initialisation is allowed to happen once)',
                     'thread interleavings are sampled (8 threads, switch interval 1e-6 s), not enumerated',
                     'PYTHONHASHSEED values 0, 1, random (quick) / 0, 1, 2, 4242, random (thorough); LALR tables are compared up to renaming: production set, precedence, and the resolution of every conflict']
    rng = random.Random(seed)
    findings = findings_for(PROP)
    warnings.simplefilter('ignore')
    try:
        ensure_static()
        R.obligation('Props/C20.v (make)', True)
    except BrokenTie as e:
        R.obligation('static development builds', False)
        R.violation({'broken': e.what, 'detail': e.detail, 'theorem': 'Props/C20.v'}, nofail=True)
        return R.finish()
    n_each = 60 if tier == 'quick' else 400
    items = corpus(random.Random(seed), n_each)
    if replay:
        rp = json.loads(open(replay).read())
        if 'item' in rp:
            items = [tuple(rp['item'])] + items[:50]
    stats = {'items': len(items), 'kinds': {k: sum(1 for i in items if i[0] == k) for k in ('parse', 'plan', 'render')}}
    # warm-up + reference results
    ref = {it: run_one(it) for it in items}
    stats['errors'] = sum(1 for v in ref.values() if v.startswith('E:'))
    # 1. shared cells unchanged
    before = cells_digest()
    for it in items:
        run_one(it)
    after = cells_digest()
    changed = sorted(k for k in before if after.get(k) != before[k]) + sorted(k for k in after if k not in before)
    stats['shared_cells'] = len(before)
    R.obligation(f'{len(before)} shared objects (module containers, class attributes, generated tables) have the same digest before and after '
                 f'{len(items)} calls', not changed)
    for k in changed[:5]:
        fd = [f for f in findings if f['classifier'].get('kind') == 'shared_write' and f['classifier'].get('cell') == k]
        if fd:
            R.known_finding(f'{fd[0]["id"]}: {fd[0]["what"]}')
        else:
            R.violation({'what': f'a shared object changed while the corpus ran: {k}', 'cell': k})

    def report(kind, it, a, b, extra=None):
        fd = [f for f in findings if f['classifier'].get('kind') == kind and f['classifier'].get('item_kind') == it[0]]
        if fd:
            R.known_finding(f'{fd[0]["id"]}: {fd[0]["what"]}')
            return
        R.violation(dict({'item': list(it), 'what': f'{kind}: the result of the same call differs', 'reference': a[:600], 'other': b[:600]},
                         **(extra or {})))
    # 2a. shuffled order, interleaved with failing calls
    order = list(items)
    random.Random(seed + 1).shuffle(order)
    diff = [(it, ref[it], r) for it in order for r in [run_one(it)] if r != ref[it]]
    R.obligation('same results in shuffled order', not diff)
    for it, a, b in diff[:2]:
        report('order', it, a, b)
    # 2b. catalog objects re-used across calls
    pristine = {k: copy.deepcopy(v) for k, v in plangen.catalogs()}
    diff = []
    modified = set()
    for this_order in (order, list(reversed(order)), sorted(order)):
        cats = {k: copy.deepcopy(v) for k, v in plangen.catalogs()}
        for it in this_order:
            if it[0] == 'plan':
                r = run_one(it, catalogs=cats)
                if r != ref[it]:
                    diff.append((it, ref[it], r))
        modified |= {k for k in cats if cats[k] != pristine[k]}
    R.obligation('same plans when the catalog objects are re-used across calls', not diff)
    for it, a, b in diff[:2]:
        report('catalog_reuse', it, a, b)
    stats['catalog_objects_modified'] = sorted(modified)
    # 2c. threads
    old = sys.getswitchinterval()
    sys.setswitchinterval(1e-6)
    tdiff = []
    lock = threading.Lock()

    def worker(k):
        mine = list(items)
        random.Random(seed * 100 + k).shuffle(mine)
        for it in mine[: (len(mine) if tier != 'quick' else 60)]:
            r = run_one(it)
            if r != ref[it]:
                with lock:
                    tdiff.append((it, ref[it], r))
    ths = [threading.Thread(target=worker, args=(k,)) for k in range(8)]
    for t in ths:
        t.start()
    for t in ths:
        t.join()
    sys.setswitchinterval(old)
    R.obligation('same results from 8 concurrent threads', not tdiff)
    for it, a, b in tdiff[:2]:
        report('threads', it, a, b)
    # 3. hash seeds, fresh processes
    outs = {}
    wfile = VERIF / '.scratch' / 'c20_worker.py'
    wfile.write_text(WORKER)
    for hs in (['0', '1', 'random'] if tier == 'quick' else ['0', '1', '2', '4242', 'random']):
        env = dict(os.environ, PYTHONHASHSEED=hs, PYTHONPATH='/repo:/verif/harness', PYTHONDONTWRITEBYTECODE='1')
        r = subprocess.run(['/venv/bin/python', str(wfile), str(seed), str(n_each // 2)], capture_output=True, text=True, env=env, timeout=1200)
        try:
            outs[hs] = json.loads(r.stdout.strip().split('\n')[-1])
        except Exception:
            outs[hs] = {'results': 'worker failed: ' + r.stderr[-300:], 'tables': {}, 'per_item': []}
    # 3b. fresh processes that make the same calls in another order (what a call returns must not depend on what was called, or
    # what failed, before it -- also not through anything remembered for the life of the process)
    base = outs['0']
    for mode in ('rev', 'shuffle'):
        env = dict(os.environ, PYTHONHASHSEED='0', PYTHONPATH='/repo:/verif/harness', PYTHONDONTWRITEBYTECODE='1')
        r = subprocess.run(['/venv/bin/python', str(wfile), str(seed), str(n_each // 2), mode], capture_output=True, text=True, env=env, timeout=1200)
        try:
            o2 = json.loads(r.stdout.strip().split('\n')[-1])
        except Exception:
            o2 = {'per_item': [], 'results': 'worker failed: ' + r.stderr[-300:]}
        idx = [i for i, (a, b) in enumerate(zip(base.get('per_item', []), o2.get('per_item', []))) if a != b]
        R.obligation(f'same results in a fresh process that makes the calls in {"reverse" if mode == "rev" else "shuffled"} order', not idx and bool(o2.get('per_item')))
        if idx or not o2.get('per_item'):
            items2 = corpus(random.Random(seed), n_each // 2)
            for i in idx[:2]:
                report('process_order', items2[i], f'hash of the result when the calls are made in corpus order: {base["per_item"][i]}',
                       f'in {mode} order: {o2["per_item"][i]}', {'replay_hint': 'run the corpus of c20.corpus in both orders in fresh processes'})
            if not idx:
                R.violation({'what': 'order worker failed', 'detail': str(o2.get('results'))[:300], 'theorem': 'C20 process-order experiment'}, nofail=True)
    hdiff = [hs for hs in outs if outs[hs]['results'] != base['results'] or outs[hs]['tables'] != base['tables']]
    fd_so = [f for f in findings if f['classifier'].get('kind') == 'hashseed_suggestion_order']

    def only_suggestion_order(hs):
        idx_ = [i for i, (a, b) in enumerate(zip(base['per_item'], outs[hs]['per_item'])) if a != b]
        idx_s_ = [i for i, (a, b) in enumerate(zip(base.get('per_item_sorted_suggestions', []), outs[hs].get('per_item_sorted_suggestions', []))) if a != b]
        return bool(fd_so) and bool(idx_) and not idx_s_ and outs[hs]['tables'] == base['tables']
    R.obligation('same results (up to the listed suggestion-order finding), same production set and same conflict resolutions in fresh '
                 'processes under several PYTHONHASHSEED values', all(only_suggestion_order(hs) for hs in hdiff))
    for hs in hdiff[:2]:
        items2 = corpus(random.Random(seed), n_each // 2)
        idx = [i for i, (a, b) in enumerate(zip(base['per_item'], outs[hs]['per_item'])) if a != b]
        idx_s = [i for i, (a, b) in enumerate(zip(base.get('per_item_sorted_suggestions', []), outs[hs].get('per_item_sorted_suggestions', []))) if a != b]
        fd = [f for f in findings if f['classifier'].get('kind') == 'hashseed_suggestion_order']
        if fd and idx and not idx_s and outs[hs]['tables'] == base['tables'] and all(items2[i][0] == 'parse' for i in idx):
            # the only differences are rejected inputs whose messages list the same suggestions in another order
            R.known_finding(f'{fd[0]["id"]}: {fd[0]["what"]}')
            continue
        R.violation({'what': f'results or tables differ between PYTHONHASHSEED=0 and PYTHONHASHSEED={hs}',
                     'tables_0': base['tables'], f'tables_{hs}': outs[hs]['tables'],
                     'first_differing_items': [list(items2[i]) for i in idx[:3]], 'worker': outs[hs]['results'][:300]})
    R.cov['evaluations'] = len(items) * (4 + 8 * (1 if tier != 'quick' else 0)) + 5
    R.cov['distinct_nontrivial'] = len(set(ref.values()))
    R.cov['rule'] = ('parse (3 dialects, incl. inputs that fail), plan (generated statements x 5 catalogs, incl. failing), render (generated '
                     'statements x 3 dialects, incl. unsupported shapes): sequential, shuffled, catalog re-use, 8 threads, 5 hash seeds')
    R.cov['samples'] = [{'kind': k, 'input': s, 'arg': a} for k, s, a in items[:3]]
    R.notes['input_distribution'] = stats
    return R.finish()
