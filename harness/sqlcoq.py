"""Translator: mindsdb_sql AST / plan steps -> terms of Model/SqlEval.v (expr, query, from, pstep).

Fails closed: anything the evaluator has no meaning for raises Unsupported, and the case is
counted as skipped -- never judged.  Names are lower-cased and interned as positives; the first
three ids are the functions the evaluator knows (coalesce, abs, ifnull)."""
import random


class Unsupported(Exception):
    pass


class Names:
    def __init__(self):
        self.d = {'coalesce': 1, 'abs': 2, 'ifnull': 3}
        self.s = {}

    def n(self, name):
        name = name.lower()
        if name not in self.d:
            self.d[name] = len(self.d) + 1
        return self.d[name]

    def sv(self, s):
        if s not in self.s:
            self.s[s] = len(self.s) + 1
        return self.s[s]


def opt(x):
    return 'None' if x is None else f'(Some {x})'


def lst(xs):
    return '[' + '; '.join(xs) + ']'


BINOPS = {'+': 'BAdd', '-': 'BSub', '*': 'BMul', '=': 'BEq', '!=': 'BNe', '<>': 'BNe', '<': 'BLt', '<=': 'BLe', '>': 'BGt',
          '>=': 'BGe', 'and': 'BAnd', 'or': 'BOr'}
AGGS = {'count': 'ACount', 'sum': 'ASum', 'min': 'AMin', 'max': 'AMax'}
JK = {'join': 'JI', 'inner join': 'JI', 'left join': 'JL', 'left outer join': 'JL', 'right join': 'JR', 'right outer join': 'JR',
      'full join': 'JF', 'full outer join': 'JF', 'cross join': 'JC'}


def contains_agg(e):
    """an aggregate call in the expression itself (not inside a nested query)"""
    from mindsdb_sql.parser import ast
    if e is None or isinstance(e, (ast.Select, ast.Union)):
        return False
    if isinstance(e, ast.Function) and e.op.lower() in AGGS:
        return True
    if isinstance(e, ast.Case):
        return any(contains_agg(c) or contains_agg(v) for c, v in e.rules) or contains_agg(e.default)
    if isinstance(e, ast.Operation):
        return any(contains_agg(a) for a in e.args)
    if isinstance(e, ast.Tuple):
        return any(contains_agg(a) for a in e.items)
    return False


class Tr:
    def __init__(self, names=None, result_index=None):
        self.N = names or Names()
        # map from step_num of a Result to the index in the translated step list
        self.result_index = result_index or (lambda r: r.step_num)

    # ---------------------------------------------------------------- values
    def val(self, c):
        from mindsdb_sql.parser.ast import NullConstant
        if isinstance(c, NullConstant) or c.value is None:
            return 'VNull'
        v = c.value
        if isinstance(v, bool):
            return f'(VInt {1 if v else 0})'
        if isinstance(v, int):
            return f'(VInt ({v}))'
        if isinstance(v, str):
            return f'(VStr {self.N.sv(v)})'
        raise Unsupported(f'constant {v!r}')

    def res_k(self, p):
        from mindsdb_sql.planner.step_result import Result
        if isinstance(p.value, Result):
            return self.result_index(p.value)
        raise Unsupported('parameter')

    # ---------------------------------------------------------------- expressions
    def expr(self, e):
        from mindsdb_sql.parser import ast
        if isinstance(e, ast.Identifier):
            parts = e.parts
            if any(not isinstance(p, str) for p in parts):
                raise Unsupported('star in expression')
            if len(parts) == 1:
                return f'(ECol None {self.N.n(parts[0])})'
            return f'(ECol (Some {self.N.n(parts[-2])}) {self.N.n(parts[-1])})'
        if isinstance(e, ast.Constant):
            if type(e).__name__ in ('Last', 'Latest'):
                raise Unsupported('latest')
            if isinstance(e.value, str) and e.value.startswith('$var[') and e.value.endswith(']'):
                return f'(EVar {self.N.n(e.value[5:-1])})'
            return f'(EConst {self.val(e)})'
        if isinstance(e, ast.Parameter):
            return f'(EParam {self.res_k(e)})'
        if isinstance(e, ast.BetweenOperation):
            a, lo, hi = e.args
            return f'(EBetween {self.expr(a)} {self.expr(lo)} {self.expr(hi)})'
        if isinstance(e, ast.UnaryOperation):
            op = {'not': 'UNot', '-': 'UNeg'}.get(e.op)
            if op is None:
                raise Unsupported(f'unary {e.op}')
            return f'(EUn {op} {self.expr(e.args[0])})'
        if isinstance(e, (ast.Exists, ast.NotExists)):
            return f'(EExists {"true" if isinstance(e, ast.NotExists) else "false"} {self.query(e.args[0])})'
        if isinstance(e, ast.Function):
            name = e.op.lower()
            if getattr(e, 'from_arg', None) is not None or getattr(e, 'namespace', None):
                raise Unsupported('function form')
            if name in AGGS:
                if len(e.args) != 1:
                    raise Unsupported('aggregate arity')
                a = e.args[0]
                arg = 'None' if isinstance(a, ast.Star) else f'(Some {self.expr(a)})'
                if isinstance(a, ast.Star) and name != 'count':
                    raise Unsupported('agg(*)')
                return f'(EAgg {AGGS[name]} {"true" if e.distinct else "false"} {arg})'
            if name in ('coalesce', 'abs', 'ifnull'):
                return f'(EFun {self.N.n(name)} {lst([self.expr(a) for a in e.args])})'
            raise Unsupported(f'function {name}')
        if isinstance(e, ast.BinaryOperation):
            op = e.op
            a, b = e.args
            if op in ('in', 'not in'):
                neg = 'true' if op == 'not in' else 'false'
                if isinstance(b, ast.Tuple):
                    return f'(EIn {neg} {self.expr(a)} {lst([self.expr(x) for x in b.items])})'
                if isinstance(b, (ast.Select, ast.Union, ast.Except, ast.Intersect)):
                    return f'(EInQ {neg} {self.expr(a)} {self.query(b)})'
                if isinstance(b, ast.Parameter):
                    return f'(EInP {neg} {self.expr(a)} {self.res_k(b)})'
                raise Unsupported('in operand')
            if op in ('is', 'is not'):
                if isinstance(b, ast.NullConstant):
                    return f'(EUn {"UIsNull" if op == "is" else "UNotNull"} {self.expr(a)})'
                raise Unsupported('is <non-null>')
            if op in BINOPS:
                return f'(EBin {BINOPS[op]} {self.expr(a)} {self.expr(b)})'
            raise Unsupported(f'operator {op}')
        if isinstance(e, ast.Case):
            if getattr(e, 'arg', None) is not None:
                raise Unsupported('simple case')
            ws = [f'({self.expr(c)}, {self.expr(v)})' for c, v in e.rules]
            return f'(ECase {lst(ws)} {opt(self.expr(e.default) if e.default is not None else None)})'
        if isinstance(e, (ast.Select, ast.Union)):
            return f'(ESubQ {self.query(e)})'
        raise Unsupported(f'expression {type(e).__name__}')

    # ---------------------------------------------------------------- from
    def frm(self, f):
        from mindsdb_sql.parser import ast
        if isinstance(f, ast.Identifier):
            al = opt(self.N.n(f.alias.parts[-1]) if f.alias is not None else None)
            return f'(FTab {lst([str(self.N.n(p)) for p in f.parts])} {al})'
        if isinstance(f, ast.Join):
            k = JK.get(' '.join(f.join_type.lower().split()))
            if k is None:
                raise Unsupported(f'join type {f.join_type}')
            on = opt(self.expr(f.condition) if f.condition is not None else None)
            if f.condition is None and k != 'JC':
                if k != 'JI':
                    raise Unsupported('outer join without condition')
            return f'(FJoin {k} {self.frm(f.left)} {self.frm(f.right)} {on})'
        if isinstance(f, (ast.Select, ast.Union)):
            if f.alias is None:
                raise Unsupported('subselect without alias')
            return f'(FSub {self.query(f)} {self.N.n(f.alias.parts[-1])})'
        raise Unsupported(f'from {type(f).__name__}')

    # ---------------------------------------------------------------- queries
    def target(self, t):
        from mindsdb_sql.parser import ast
        if isinstance(t, ast.Star):
            return '(TStar None)'
        if isinstance(t, ast.Identifier) and t.parts and isinstance(t.parts[-1], ast.Star):
            if len(t.parts) < 2:
                return '(TStar None)'
            return f'(TStar (Some {self.N.n(t.parts[-2])}))'
        al = None
        if getattr(t, 'alias', None) is not None:
            al = self.N.n(t.alias.parts[-1])
        elif not isinstance(t, ast.Identifier):
            al = self.N.n('expr:' + t.to_string())
        return f'(TExpr {self.expr(t)} {opt(al)})'

    def nat_const(self, c):
        from mindsdb_sql.parser import ast
        if c is None:
            return 'None'
        if isinstance(c, ast.Constant) and isinstance(c.value, int) and not isinstance(c.value, bool) and 0 <= c.value < 1000:
            return f'(Some {c.value}%nat)'
        raise Unsupported('limit / offset')

    def order(self, o):
        d = (o.direction or 'default').upper()
        desc = d == 'DESC'
        n = (o.nulls or 'default').upper()
        nf = (not desc) if n == 'DEFAULT' else (n == 'NULLS FIRST')
        b = lambda x: 'true' if x else 'false'
        return f'({self.expr(o.field)}, ({b(desc)}, {b(nf)}))'

    def query(self, q, from_override=None, strip_limit=False):
        from mindsdb_sql.parser import ast
        if isinstance(q, (ast.Union, ast.Except, ast.Intersect)):
            allf = "false" if q.unique else "true"
            if isinstance(q, ast.Except):
                return f'(QSetOp SExcept {allf} {self.query(q.left)} {self.query(q.right)})'
            if isinstance(q, ast.Intersect):
                return f'(QSetOp SIntersect {allf} {self.query(q.left)} {self.query(q.right)})'
            return f'(QUnion {allf} {self.query(q.left)} {self.query(q.right)})'
        if not isinstance(q, ast.Select):
            raise Unsupported(f'query {type(q).__name__}')
        if getattr(q, 'mode', None) or getattr(q, 'using', None):
            pass
        targets = lst([self.target(t) for t in q.targets])
        having = opt(self.expr(q.having) if q.having is not None else None)
        order = lst([self.order(o) for o in (q.order_by or [])])
        agg = any(contains_agg(x) for x in list(q.targets) + [q.having] + [o.field for o in (q.order_by or [])])
        frm = from_override if from_override is not None else (self.frm(q.from_table) if q.from_table is not None else None)
        where = opt(self.expr(q.where) if q.where is not None else None)
        group = lst([self.expr(g) for g in (q.group_by or [])])
        b = lambda x: 'true' if x else 'false'
        lim = 'None' if strip_limit else self.nat_const(q.limit)
        off = 'None' if strip_limit else self.nat_const(q.offset)
        body = f'(QSel {b(bool(q.distinct))} {b(agg)} {targets} {opt(frm)} {where} {group} {having} {order} {lim} {off})'
        if q.cte:
            ctes = lst([f'({self.N.n(c.name.parts[-1])}, {self.query(c.query)})' for c in q.cte])
            return f'(QWith {ctes} {body})'
        return body

    # ---------------------------------------------------------------- plan steps
    def step(self, s):
        from mindsdb_sql.parser import ast
        from mindsdb_sql.planner import steps as S
        from mindsdb_sql.planner.step_result import Result
        k = lambda r: self.result_index(r)
        if isinstance(s, S.FetchDataframeStep):
            if s.query is None or s.raw_query is not None:
                raise Unsupported('raw fetch')
            return f'(PFetch [{self.N.n(s.integration)}] {self.query(s.query)})'
        if isinstance(s, S.SubSelectStep):
            al = opt(self.N.n(s.table_name) if s.table_name else None)
            q = s.query
            if not isinstance(q, ast.Select) or q.from_table is not None:
                raise Unsupported('subselect step with FROM')
            return f'(PEval {self.query(q, from_override=f"(FRes {k(s.dataframe)} {al})")})'
        if isinstance(s, S.QueryStep):
            q = s.query
            if isinstance(s.from_table, Result) and isinstance(q, ast.Select) and q.from_table is None:
                return f'(PEval {self.query(q, from_override=f"(FRes {k(s.from_table)} None)")})'
            if s.from_table is None and isinstance(q, ast.Select) and q.from_table is None:
                return f'(PEval {self.query(q)})'
            raise Unsupported('query step shape')
        if isinstance(s, S.JoinStep):
            j = s.query
            kind = JK.get(' '.join(j.join_type.lower().split()))
            if kind is None:
                raise Unsupported(f'join type {j.join_type}')
            on = opt(self.expr(j.condition) if j.condition is not None else None)
            return f'(PJoin {kind} {k(s.left)} {k(s.right)} {on})'
        if isinstance(s, S.UnionStep):
            op = getattr(s, 'operation', 'union')
            allf = "false" if s.unique else "true"
            if op == 'union':
                return f'(PUnion {k(s.left)} {k(s.right)} {allf})'
            if op in ('except', 'intersect'):
                return f'(PSetOp {"SExcept" if op == "except" else "SIntersect"} {k(s.left)} {k(s.right)} {allf})'
            raise Unsupported(f'set operation {op}')
        if isinstance(s, S.ProjectStep):
            return f'(PProject {k(s.dataframe)} {lst([self.target(t) for t in s.columns])})'
        if isinstance(s, S.LimitOffsetStep):
            return f'(PLimit {k(s.dataframe)} {self.nat_const(s.limit)} {self.nat_const(s.offset)})'
        if isinstance(s, S.FilterStep):
            return f'(PFilter {k(s.dataframe)} {self.expr(s.query)})'
        if isinstance(s, S.MultipleSteps):
            if s.reduce != 'union':
                raise Unsupported('multiple steps reduce')
            return f'(PMulti {lst([self.step(x) for x in s.steps])})'
        if isinstance(s, S.MapReduceStep):
            if s.reduce != 'union' or s.partition is not None or isinstance(s.step, list):
                raise Unsupported('map-reduce shape')
            return f'(PMapReduce {k(s.values)} {self.step(s.step)})'
        raise Unsupported(f'step {type(s).__name__}')


# ---------------------------------------------------------------------- databases
def gen_db(rng, tables, cols=('a', 'b', 'c'), maxrows=4, strings=False, few_values=False):
    """tables: list of tuples of name parts.  -> python structure {parts: (cols, rows)}
    few_values: values from {0, 1, NULL} only and more rows, so that the same row occurs several times (bag semantics)"""
    db = {}
    for t in tables:
        n = rng.choice([0, 1, 2, 3, maxrows]) if not few_values else rng.choice([1, 2, 3, 4, 5])
        rows = []
        for _ in range(n):
            rows.append([None if rng.random() < 0.15 else rng.randint(0, 1 if few_values else 3) for _ in cols])
        if rows and rng.random() < 0.3:
            rows.append(list(rows[0]))
        db[tuple(t)] = (list(cols), rows)
    return db


def db_term(db, N):
    def v(x):
        if x is None:
            return 'VNull'
        if isinstance(x, int):
            return f'VInt {x}' if x >= 0 else f'VInt ({x})'
        return f'VStr {N.sv(x)}'
    ents = []
    for parts, (cols, rows) in db.items():
        rs = lst([lst([v(x) for x in r]) for r in rows])
        ents.append(f'({lst([str(N.n(p)) for p in parts])}, ({lst([str(N.n(c)) for c in cols])}, {rs}))')
    return lst(ents)
