"""Translator: LALR tables + grammar + error-callback kind of the three parsers in /repo
-> Coq data (coq/Gen/Tbl_<dialect>.v) + a JSON side file with the symbol numbering.

Fail-closed: anything that is not of the expected shape raises TranslateError.
Numbering: states +1, productions +1, symbols: 1=$end 2=error, terminals (sorted), nonterminals (sorted).
"""
import ast
import inspect
import json
import textwrap

from common import GEN, write_if_changed


class TranslateError(Exception):
    pass


def parser_class(dialect):
    if dialect == 'sqlite':
        from mindsdb_sql.parser.parser import SQLParser as P
    elif dialect == 'mysql':
        from mindsdb_sql.parser.dialects.mysql.parser import MySQLParser as P
    elif dialect == 'mindsdb':
        from mindsdb_sql.parser.dialects.mindsdb.parser import MindsDBParser as P
    else:
        raise TranslateError(dialect)
    return P


def lexer_class(dialect):
    if dialect == 'sqlite':
        from mindsdb_sql.parser.lexer import SQLLexer as L
    elif dialect == 'mysql':
        from mindsdb_sql.parser.dialects.mysql.lexer import MySQLLexer as L
    else:
        from mindsdb_sql.parser.dialects.mindsdb.lexer import MindsDBLexer as L
    return L


def callback_kind(P):
    """Classify Parser.error of the dialect from its source text (python ast)."""
    fn = P.error
    src = textwrap.dedent(inspect.getsource(fn))
    tree = ast.parse(src).body[0]
    if not isinstance(tree, ast.FunctionDef):
        raise TranslateError('error callback is not a function')

    def always_raises(stmts):
        for st in stmts:
            if isinstance(st, ast.Raise):
                return True
            if isinstance(st, ast.If):
                if st.orelse and always_raises(st.body) and always_raises(st.orelse):
                    return True
            if isinstance(st, (ast.Return,)):
                return False
        return False

    if always_raises(tree.body):
        return 'CbRaise'

    # does the body return a value?  (returning a token = user recovery, not modelled)
    for node in ast.walk(tree):
        if isinstance(node, ast.Return) and node.value is not None:
            if not (isinstance(node.value, ast.Constant) and node.value.value is None):
                raise TranslateError('error() returns a value: user recovery is not modelled')
        if isinstance(node, (ast.Call,)) and isinstance(node.func, ast.Attribute) \
                and node.func.attr in ('errok', 'restart'):
            raise TranslateError('error() calls errok/restart: not modelled')

    # CbDrain: on every path that does not raise, an unconditional top-level statement
    # evaluates list(self.tokens) (or tuple/for over self.tokens)
    def drains(stmt):
        for node in ast.walk(stmt):
            if isinstance(node, ast.Call) and isinstance(node.func, ast.Name) \
                    and node.func.id in ('list', 'tuple') and node.args:
                a = node.args[0]
                if isinstance(a, ast.Attribute) and a.attr == 'tokens' \
                        and isinstance(a.value, ast.Name) and a.value.id == 'self':
                    return True
        return False

    for st in tree.body:
        if isinstance(st, (ast.If, ast.For, ast.While, ast.Try, ast.With)):
            # conditional statements: only accept those whose body always raises (fallback)
            if isinstance(st, ast.If) and always_raises(st.body) and not st.orelse:
                continue
            continue
        if drains(st):
            return 'CbDrain'
    return 'CbIgnore'


def dynamic_callback_check(P, kind):
    """Cross-check the static classification by calling error() on a dummy parser whose remaining
    token stream spans several lines.  Returns the kind to use in the model: anything that does not
    exhaust the stream on every probe is CbIgnore (the conservative reading: recovery may resume)."""
    from sly.lex import Token

    def tok(ty, line, idx):
        t = Token()
        t.type, t.value, t.lineno, t.index, t.end = ty, ty.lower(), line, idx, idx + 1
        return t
    obs = set()
    for bad_line in (1, 2):
        p = P()
        p.used_tokens = [tok('ID', 1, 0)]
        rest = [tok('ID', 1, 2), tok('ID', 2, 4), tok('ID', 3, 6), tok('ID', 3, 8)]
        it = iter(rest)
        p.tokens = it
        try:
            r = p.error(tok('ID', bad_line, 1), expected_tokens=[])
            raised = False
        except Exception:
            raised = True
            r = None
        if r is not None:
            raise TranslateError('error() returned a token')
        left = list(it)
        obs.add('CbRaise' if raised else ('CbDrain' if not left else 'CbIgnore'))
    if obs == {kind}:
        return kind
    if 'CbIgnore' in obs or len(obs) > 1:
        return 'CbIgnore'
    raise TranslateError(f'static callback kind {kind} != observed {sorted(obs)}')


def symbol_numbering(g):
    terms = sorted(t for t in g.Terminals if t not in ('$end', 'error'))
    nonterms = sorted(set(g.Nonterminals) | {g.Productions[0].name})
    num = {'$end': 1, 'error': 2}
    for t in terms:
        num[t] = len(num) + 1
    for n in nonterms:
        if n in num:
            raise TranslateError(f'symbol {n} both terminal and nonterminal')
        num[n] = len(num) + 1
    return num, terms, nonterms


def compute_past(nstates, edges, maxlen=40):
    """Greatest fixpoint: past[t] = longest common suffix of past[s]+[X] over edges s-X->t.
    past[0] = [$end].  Start from 'unknown' (None = top), iterate to fixpoint."""
    TOP = None
    past = {s: TOP for s in range(nstates)}
    past[0] = (1,)
    inedges = {s: [] for s in range(nstates)}
    for (s, X, t) in edges:
        inedges[t].append((s, X))

    def lcs(a, b):
        if a is TOP:
            return b
        if b is TOP:
            return a
        n = 0
        while n < len(a) and n < len(b) and a[-1 - n] == b[-1 - n]:
            n += 1
        return a[len(a) - n:] if n else ()

    changed = True
    rounds = 0
    while changed:
        changed = False
        rounds += 1
        for t in range(nstates):
            if t == 0:
                # state 0 must have no in-edges for the certificate to say [$end]
                cur = (1,)
                for (s, X) in inedges[0]:
                    cur = ()
            else:
                cur = TOP
                for (s, X) in inedges[t]:
                    ps = past[s]
                    cand = TOP if ps is TOP else (ps + (X,))[-maxlen:]
                    if cand is TOP:
                        continue
                    cur = lcs(cur, cand)
            if cur is TOP:
                continue
            if past[t] is TOP or cur != past[t]:
                # monotone decreasing: new value must be a suffix of the old one
                past[t] = cur
                changed = True
        if rounds > 200:
            raise TranslateError('past certificate does not converge')
    for s in past:
        if past[s] is TOP:
            past[s] = ()     # unreachable state
    return past, rounds


def dump(dialect):
    P = parser_class(dialect)
    g = P._grammar
    t = P._lrtable
    num, terms, nonterms = symbol_numbering(g)
    prods = []
    for i, p in enumerate(g.Productions):
        if p.number != i:
            raise TranslateError('production numbering')
        if len(p.prod) != p.len:
            raise TranslateError('production length')
        prods.append((num[p.name], [num[x] for x in p.prod]))
    nstates = len(t.lr_action)
    if sorted(t.lr_action.keys()) != list(range(nstates)):
        raise TranslateError('state numbering')
    action = {}
    edges = []
    for s in range(nstates):
        rowl = []
        for a, v in t.lr_action[s].items():
            if v is None:
                # sly stores None for a nonassoc conflict: Parser.parse treats it as error
                rowl.append((num[a], ('Er', None)))
                continue
            if not isinstance(v, int):
                raise TranslateError(f'action {v!r}')
            if v > 0:
                rowl.append((num[a], ('Sh', v + 1)))
                edges.append((s, num[a], v))
            elif v < 0:
                rowl.append((num[a], ('Rd', -v + 1)))
            else:
                rowl.append((num[a], ('Ac', None)))
        action[s] = rowl
    # keys of the row as passed to error(): includes entries whose value is None
    rowkeys = {s: [num[a] for a in t.lr_action[s].keys()] for s in range(nstates)}
    goto = {}
    for s, r in t.lr_goto.items():
        goto[s] = [(num[A], v + 1) for A, v in r.items()]
        for A, v in r.items():
            edges.append((s, num[A], v))
    # a defaulted state is executed without looking at the next token: the model knows only default REDUCTIONS; anything else
    # (e.g. a default accept) is left out of the model's tables and reported, so that the search still runs
    defaults = [(s + 1, -v + 1) for s, v in t.defaulted_states.items() if v < 0]
    bad_defaults = [s for s, v in t.defaulted_states.items() if v >= 0]
    past, rounds = compute_past(nstates, edges)
    try:
        kind = callback_kind(P)
    except TranslateError:
        kind = 'CbIgnore'
    kind = dynamic_callback_check(P, kind)
    start = num[g.Productions[0].prod[0]]
    if g.Productions[0].len != 1:
        raise TranslateError("production 0 is not S' -> start")
    return dict(dialect=dialect, num=num, terms=terms, nonterms=nonterms, prods=prods,
                nstates=nstates, action=action, goto=goto, defaults=defaults, past=past,
                cb=kind, start=start, rowkeys=rowkeys, past_rounds=rounds, bad_defaults=bad_defaults)


def plist(xs):
    return '[' + '; '.join(str(x) for x in xs) + ']'


def act_str(a):
    k, v = a
    return k if k in ('Ac', 'Er') else f'{k} {v}'


def emit(d):
    name = d['dialect']
    out = []
    w = out.append
    w('(* GENERATED by harness/gen_tables.py from /repo -- do not edit *)')
    w('From Coq Require Import PArith List.')
    w('From MSV Require Import Model.Sly.')
    w('Import ListNotations.')
    w('Local Open Scope positive_scope.')
    w('Definition prods : list (positive * (sym * list sym)) :=')
    w(' [' + ';\n  '.join(f'({i + 1}, ({lhs}, {plist(rhs)}))' for i, (lhs, rhs) in enumerate(d['prods'])) + '].')
    for s in range(d['nstates']):
        row = d['action'][s]
        w(f'Definition a{s + 1} : list (sym * act) := [' +
          '; '.join(f'({a}, {act_str(x)})' for a, x in row) + '].')
    w('Definition arows : list (positive * list (sym * act)) :=')
    w(' [' + '; '.join(f'({s + 1}, a{s + 1})' for s in range(d['nstates'])) + '].')
    w('Definition grows : list (positive * list (sym * positive)) :=')
    w(' [' + ';\n  '.join(f'({s + 1}, [' + '; '.join(f'({A}, {v})' for A, v in r) + '])'
                          for s, r in sorted(d['goto'].items())) + '].')
    w('Definition defs : list (positive * positive) := [' +
      '; '.join(f'({s}, {p})' for s, p in d['defaults']) + '].')
    w('Definition pasts : list (positive * list sym) :=')
    w(' [' + ';\n  '.join(f'({s + 1}, {plist(ps)})' for s, ps in sorted(d['past'].items())) + '].')
    w(f'Definition tbl : tables := mk_tables prods arows grows defs pasts {d["start"]}.')
    w(f'Definition cb : cbkind := {d["cb"]}.')
    w('Definition Kval : bool := Eval vm_compute in K_tables tbl.')
    text = '\n'.join(out) + '\n'
    changed = write_if_changed(GEN / f'Tbl_{name}.v', text)
    side = dict(dialect=name, num=d['num'], cb=d['cb'], nstates=d['nstates'],
                nprods=len(d['prods']), nterms=len(d['terms']), start=d['start'],
                past_rounds=d['past_rounds'],
                rowkeys={str(k): v for k, v in d['rowkeys'].items()},
                prods=[(lhs, rhs) for lhs, rhs in d['prods']],
                nactions=sum(len(r) for r in d['action'].values()))
    write_if_changed(GEN / f'Tbl_{name}.json', json.dumps(side))
    return changed


if __name__ == '__main__':
    import sys
    for dia in sys.argv[1:] or ['mindsdb', 'mysql', 'sqlite']:
        d = dump(dia)
        print(dia, d['nstates'], len(d['prods']), d['cb'], 'past rounds', d['past_rounds'], emit(d))
