"""Translator for C03: the operator fragment of the dialect's grammar + the decision table
read off the LALR tables at one reference state -> Coq [pgram] (Gen/Prec_<dialect>.v).
Everything emitted here is *checked* by Coq (K_prec evaluates the tables against it); a wrong
guess here can only make K_prec false, never a theorem true."""
import json

import gen_tables
from gen_tables import TranslateError
from common import GEN, write_if_changed

# operator tokens the property talks about (by token name), and atoms
FRAG = ['OR', 'AND', 'EQUALS', 'NEQUALS', 'LESS', 'LEQ', 'GREATER', 'GEQ', 'LIKE', 'NOT_LIKE', 'IN', 'NOT_IN',
        'IS', 'IS_NOT', 'PLUS', 'MINUS', 'STAR', 'DIVIDE', 'MODULO']
ATOMS = ['ID', 'INTEGER']

# Standard SQL binding levels, written from the property text (tightest = largest):
#   unary minus 7 > * / % 6 > + - 5 > comparisons and IN/BETWEEN/LIKE/IS 4 > NOT 3 > AND 2 > OR 1
# chains of * / %, of + -, of AND, of OR associate to the left; comparisons do not chain.
STD_LEVEL = {'OR': (1, True), 'AND': (2, True),
             'EQUALS': (4, False), 'NEQUALS': (4, False), 'LESS': (4, False), 'LEQ': (4, False),
             'GREATER': (4, False), 'GEQ': (4, False), 'LIKE': (4, False), 'NOT_LIKE': (4, False),
             'IN': (4, False), 'NOT_IN': (4, False), 'IS': (4, False), 'IS_NOT': (4, False),
             'PLUS': (5, True), 'MINUS': (5, True), 'STAR': (6, True), 'DIVIDE': (6, True), 'MODULO': (6, True)}
STD_NOT, STD_NEG, STD_BTW = 3, 7, 4


def std_tables(f):
    """-> (prod -> (level, left)), (token -> level) for the dialect's fragment."""
    plv, tlv = {}, {}
    for mid, pn in f['ops']:
        lv = STD_LEVEL[mid[-1]]
        plv[pn] = lv
        tlv[mid[0]] = lv[0]      # NOT (of NOT IN) counts as a comparison-level lookahead
    plv[f['pneg']] = (STD_NEG, False)
    plv[f['pnot']] = (STD_NOT, False)
    plv[f['pbtw']] = (STD_BTW, False)
    tlv['BETWEEN'] = STD_BTW
    return plv, tlv


def std_dec(plv, tlv, p, b):
    if p not in plv or b not in tlv:
        return None
    lq, left = plv[p]
    lb = tlv[b]
    if lb < lq:
        return True
    if lq < lb:
        return False
    return True if left else None


def deviations(f):
    """pairs (rule production, lookahead token) where the levels have an opinion and the dialect's
    decision table differs (or has none)."""
    plv, tlv = std_tables(f)
    out = []
    for pn in plv:
        for b in f['optoks']:
            d = std_dec(plv, tlv, pn, b)
            if d is None:
                continue
            if f['dec'].get(pn, {}).get(b) != d:
                out.append((pn, b, d, f['dec'].get(pn, {}).get(b)))
    return out


class Tab:
    def __init__(self, dialect):
        P = gen_tables.parser_class(dialect)
        self.g, self.t = P._grammar, P._lrtable
        self.A, self.G, self.D = self.t.lr_action, self.t.lr_goto, self.t.defaulted_states
        self.prods = self.g.Productions

    def eact(self, s, a):
        if s in self.D:
            return ('R', -self.D[s])
        v = self.A[s].get(a, 'none')
        if v == 'none':
            return ('-',)
        if v is None:
            return ('E',)
        if v > 0:
            return ('S', v)
        if v < 0:
            return ('R', -v)
        return ('A',)

    def defd(self, s, a):
        return self.eact(s, a)[0] in ('S', 'R')

    def chain(self, st, toks):
        for tok in toks:
            a = self.eact(st, tok)
            if a[0] != 'S':
                return None
            st = a[1]
        return st

    def tsof(self, s):
        return self.G.get(s, {}).get('expr')

    def find_prod(self, rhs):
        r = [p.number for p in self.prods if p.name == 'expr' and tuple(p.prod) == tuple(rhs)]
        if len(r) != 1:
            raise TranslateError(f'production expr -> {rhs}: {len(r)} candidates')
        return r[0]


def fragment(dialect):
    tb = Tab(dialect)
    g = tb.g
    ops = []
    for p in tb.prods:
        r = p.prod
        if p.name == 'expr' and len(r) in (3, 4) and r[0] == 'expr' and r[-1] == 'expr' \
                and all(x in g.Terminals for x in r[1:-1]):
            mid = tuple(r[1:-1])
            if mid == ('NOT',):
                continue            # `expr NOT expr`: not an SQL operator, outside the property
            if all(x in FRAG or x == 'NOT' for x in mid) and mid[-1] in FRAG:
                ops.append((mid, p.number))
    if not ops:
        raise TranslateError('no binary operator productions found')
    # the operators the property speaks about are fixed: each of them that is a token of this dialect has to be a binary
    # operator production of its own (an operator hidden behind a helper non-terminal has no precedence of its own)
    have = {o[0][0] for o in ops if len(o[0]) == 1}
    missing = [t for t in FRAG if t in g.Terminals and t not in have and t not in ('NOT_LIKE', 'NOT_IN')]
    if missing:
        raise TranslateError(f'`expr {missing[0]} expr` is not a production of the {dialect} grammar although {missing[0]} is one of its tokens '
                             f'(all missing: {missing})')
    pneg = tb.find_prod(('MINUS', 'expr'))
    pnot = tb.find_prod(('NOT', 'expr'))
    pbtw = tb.find_prod(('expr', 'BETWEEN', 'expr', 'AND', 'expr'))
    ppar = tb.find_prod(('LPAREN', 'expr', 'RPAREN'))
    optoks = sorted({o[0][0] for o in ops} | {'BETWEEN'})
    # reference state: after SELECT
    a = tb.eact(0, 'SELECT')
    if a[0] != 'S' or tb.tsof(a[1]) is None:
        raise TranslateError('no reference state after SELECT')
    sref = a[1]
    tsref = tb.tsof(sref)
    dec = {}

    def row(p, tu):
        r = {}
        for b in optoks:
            x = tb.eact(tu, b)
            if x == ('R', p):
                r[b] = True
            elif x[0] == 'S':
                r[b] = False
        return r
    for mid, pn in ops:
        u = tb.chain(tsref, mid)
        if u is None or tb.tsof(u) is None:
            raise TranslateError(f'operator {mid} not shiftable in the reference state')
        dec[pn] = row(pn, tb.tsof(u))
    for tok, pn in (('MINUS', pneg), ('NOT', pnot)):
        x = tb.eact(sref, tok)
        if x[0] != 'S' or tb.tsof(x[1]) is None:
            raise TranslateError(f'prefix {tok} not shiftable in the reference state')
        dec[pn] = row(pn, tb.tsof(x[1]))
    b1 = tb.chain(tsref, ['BETWEEN'])
    b3 = tb.chain(tb.tsof(b1), ['AND']) if b1 is not None and tb.tsof(b1) is not None else None
    if b3 is None or tb.tsof(b3) is None:
        raise TranslateError('BETWEEN not shiftable in the reference state')
    dec[pbtw] = row(pbtw, tb.tsof(b3))

    # terminators: every non-operator token for which all rule-completion states reduce
    ES = [s for s in tb.A if tb.tsof(s) is not None]

    def redok_ops(tu, p):
        for b in optoks:
            d = dec[p].get(b)
            x = tb.eact(tu, b)
            if d is True and x != ('R', p):
                return False
            if d is False and x[0] != 'S':
                return False
        return True

    def unit_chain(s, q, a, fuel=8):
        while fuel:
            fuel -= 1
            x = tb.eact(q, a)
            if x[0] != 'R':
                return False
            p = tb.prods[x[1]]
            if p.len != 1:
                return False
            q2 = tb.G.get(s, {}).get(p.name)
            if q2 is None:
                return False
            if p.name == 'expr':
                return True
            q = q2
        return False

    # atoms: candidate tokens whose unit chain to expr works in every state for every operator lookahead
    atoms = []
    for k in ATOMS:
        good = True
        for s in ES:
            x = tb.eact(s, k)
            if x[0] != 'S':
                good = False
                break
            for b in optoks:
                if tb.defd(tb.tsof(s), b) and not unit_chain(s, x[1], b):
                    good = False
        if good:
            atoms.append(k)
    if not atoms:
        raise TranslateError('no atom token works in every expression state')
    cands = [t for t in sorted(g.Terminals) if t not in optoks and t != 'error'] + ['$end']
    terms = []
    for a in cands:
        ok = True
        used = False
        for s in ES:
            ts = tb.tsof(s)
            if not tb.defd(ts, a):
                continue
            used = True
            checks = []
            for mid, pn in ops:
                u = tb.chain(ts, mid)
                if u is not None and tb.tsof(u) is not None and redok_ops(tb.tsof(u), pn):
                    checks.append((tb.tsof(u), pn))
            for tok, pn in (('MINUS', pneg), ('NOT', pnot)):
                x = tb.eact(s, tok)
                if x[0] == 'S' and tb.tsof(x[1]) is not None:
                    checks.append((tb.tsof(x[1]), pn))
            c1 = tb.chain(ts, ['BETWEEN'])
            if c1 is not None and tb.tsof(c1) is not None:
                c3 = tb.chain(tb.tsof(c1), ['AND'])
                if c3 is not None and tb.tsof(c3) is not None and redok_ops(tb.tsof(c3), pbtw):
                    checks.append((tb.tsof(c3), pbtw))
            x = tb.eact(s, 'LPAREN')
            if x[0] == 'S' and tb.tsof(x[1]) is not None:
                y = tb.eact(tb.tsof(x[1]), 'RPAREN')
                if y[0] == 'S':
                    checks.append((y[1], ppar))
            for st, pn in checks:
                if tb.eact(st, a) != ('R', pn):
                    ok = False
            for k in atoms:
                x = tb.eact(s, k)
                if x[0] == 'S' and not unit_chain(s, x[1], a):
                    ok = False
            if not ok:
                break
        if ok and used:
            terms.append(a)
    return dict(atoms=atoms, ops=ops, pneg=pneg, pnot=pnot, pbtw=pbtw, ppar=ppar, optoks=optoks, terms=terms, dec=dec,
                sref=sref, ES=ES)


def plist(xs):
    return '[' + '; '.join(str(x) for x in xs) + ']'


def emit(dialect):
    side = json.loads((GEN / f'Tbl_{dialect}.json').read_text())
    num = side['num']
    f = fragment(dialect)
    n = lambda t: num[t]
    out = ['(* GENERATED by harness/gen_prec.py from /repo -- do not edit *)',
           'From Coq Require Import PArith List Bool.',
           f'From MSV Require Import Model.Sly Model.OpPrec Gen.Tbl_{dialect}.',
           'Import ListNotations.', 'Local Open Scope positive_scope.']
    for i, (mid, pn) in enumerate(f['ops']):
        out.append(f'Definition op{i} : binop := mkOp {plist(n(t) for t in mid)} {pn + 1}.  (* {" ".join(mid)} *)')
    decs = []
    for pn, r in f['dec'].items():
        decs.append(f'({pn + 1}, [' + '; '.join(f'({n(b)}, {"true" if v else "false"})' for b, v in sorted(r.items())) + '])')
    out.append('Definition G : pgram := mkPG')
    out.append(f'  {n("expr")} {plist(n(a) for a in f["atoms"])}')
    out.append('  ' + plist(f'op{i}' for i in range(len(f['ops']))))
    out.append(f'  {n("MINUS")} {f["pneg"] + 1} {n("NOT")} {f["pnot"] + 1}')
    out.append(f'  {n("LPAREN")} {n("RPAREN")} {f["ppar"] + 1}')
    out.append(f'  {n("BETWEEN")} {n("AND")} {f["pbtw"] + 1}')
    out.append('  ' + plist(n(b) for b in f['optoks']))
    out.append('  ' + plist(n(a) for a in f['terms']))
    out.append('  [' + ';\n   '.join(decs) + '].')
    plv, tlv = std_tables(f)
    out.append('Definition L : stdlv := mkStd')
    out.append('  [' + '; '.join(f'({pn + 1}, ({lv}%nat, {"true" if left else "false"}))' for pn, (lv, left) in plv.items()) + ']')
    out.append('  [' + '; '.join(f'({n(b)}, {lv}%nat)' for b, lv in tlv.items()) + '].')
    out.append('Definition Kprec_val : bool := Eval vm_compute in K_prec tbl G.')
    out.append('Definition lvok_val : bool := Eval vm_compute in lv_ok G L.')
    out.append('Definition refines_val : bool := Eval vm_compute in refines G L.')
    out.append(f'Definition sref : positive := {f["sref"] + 1}.')
    write_if_changed(GEN / f'Prec_{dialect}.v', '\n'.join(out) + '\n')
    rule_name = {pn: ' '.join(mid) for mid, pn in f['ops']}
    rule_name.update({f['pneg']: 'UMINUS', f['pnot']: 'UNOT', f['pbtw']: 'BETWEEN'})
    devs = [dict(rule=rule_name[pn], prod=pn, look=b, std='reduce' if d else 'shift',
                 actual={True: 'reduce', False: 'shift', None: 'error/other'}[a]) for pn, b, d, a in deviations(f)]
    info = dict(deviations=devs, rule_name={str(k): v for k, v in rule_name.items()}, atoms=f['atoms'], ops=[(list(mid), pn) for mid, pn in f['ops']], optoks=f['optoks'], terms=f['terms'],
                dec={str(k): v for k, v in f['dec'].items()}, pneg=f['pneg'], pnot=f['pnot'], pbtw=f['pbtw'],
                ppar=f['ppar'], sref=f['sref'], nES=len(f['ES']))
    write_if_changed(GEN / f'Prec_{dialect}.json', json.dumps(info))
    return info


if __name__ == '__main__':
    import sys
    for d in sys.argv[1:] or ['mindsdb', 'mysql', 'sqlite']:
        i = emit(d)
        print(d, len(i['ops']), 'ops', len(i['terms']), 'terms:', i['terms'][:60])
