"""C08: executing a federated plan returns what the original query returns.

Proof: Props/C08.v -- pushdown laws over ALL relations (lists of rows with NULLs, duplicates,
any size): a conjunct on one side of an inner / left join may be applied before the join, the
semi-join restriction `b IN (distinct values of a)` of the joined side preserves inner and left
joins, LIMIT may be applied to the preserved side of a chain of left joins only when nothing
filters / groups / orders afterwards, re-applying the whole WHERE after the join is idempotent;
each law states the side condition under which it holds and the refutation without it.
Tie + judge: the implementation plans generated multi-integration queries; both the original
query and the emitted steps (by their documented meaning, Model/SqlEval.exec_plan) are evaluated
in Coq on generated small databases and compared by Model/SqlJudge.verdict (bag equality, order
by the ORDER BY keys, LIMIT / OFFSET as 'any valid prefix'); the reference evaluator itself is
cross-checked against sqlite3 on every case and a case is judged only where the two agree."""
import copy
import itertools
import json
import random
import re
import sqlite3

import plangen
import sqlcoq
from common import (GEN, BrokenTie, Result, compile_gen, compile_many, coq_eval_lists, ensure_static, findings_for,
                    write_if_changed, KERNEL)

PROP = 'C08'
TABLES = {'int1': ['t1', 'u1'], 'int2': ['t2', 'u2'], 'int3': ['t3']}
ALL_TABLES = [(i, t) for i, ts in TABLES.items() for t in ts]
COLS = ['a', 'b', 'c']


# ------------------------------------------------------------------ generator
def atom(rng, aliases):
    al = rng.choice(aliases)
    c = rng.choice(COLS)
    k = rng.random()
    v = rng.randint(0, 3)
    if k < 0.40:
        return f'{al}.{c} {rng.choice(["=", "=", ">", "<", "!=", ">=", "<="])} {v}'
    if k < 0.46:
        return f'{v} {rng.choice(["=", "<", "<=", ">", ">=", "!="])} {al}.{c}'
    if k < 0.54:
        return f'{al}.{c} between {rng.randint(0, 1)} and {rng.randint(1, 3)}'
    if k < 0.62 and len(aliases) > 1:
        b = rng.choice([x for x in aliases if x != al] or aliases)
        return f'{al}.{c} {rng.choice(["=", "<", ">"])} {b}.{rng.choice(COLS)}'
    if k < 0.66:
        return f'{al}.{c} in ({rng.randint(0, 1)}, {rng.randint(2, 3)})'
    if k < 0.70:
        # lists that mix literals with columns (in either order)
        b = rng.choice(aliases)
        items = [str(rng.randint(0, 3)), f'{b}.{rng.choice(COLS)}'] + ([str(rng.randint(0, 3))] if rng.random() < 0.5 else [])
        if rng.random() < 0.3:
            rng.shuffle(items)
        return f'{al}.{c} {rng.choice(["in", "in", "not in"])} ({", ".join(items)})'
    if k < 0.78:
        return f'{al}.{c} is null'
    if k < 0.84:
        return f'{al}.{c} is not null'
    if k < 0.90:
        return f'coalesce({al}.{c}, {v}) = {rng.randint(0, 3)}'
    if k < 0.93:
        return f'{al}.{c} + 1 > {v}'
    if k < 0.97:
        # comparisons with the NULL literal are never true (not the same as IS [NOT] NULL)
        return rng.choice([f'{al}.{c} = null', f'{al}.{c} != null', f'{al}.{c} <> null', f'null = {al}.{c}', f'not ({al}.{c} = null)',
                           f'({al}.{c} = null) is null', f'{al}.{c} < null'])
    return f'{al}.{c} not in (1, 2)'


def cond(rng, aliases, depth=0):
    r = rng.random()
    if depth < 2 and r < 0.35:
        return f'{cond(rng, aliases, depth + 1)} and {cond(rng, aliases, depth + 1)}'
    if depth < 2 and r < 0.43:
        return f'({cond(rng, aliases, depth + 1)} or {cond(rng, aliases, depth + 1)})'
    if depth < 2 and r < 0.48:
        return f'not ({cond(rng, aliases, depth + 1)})'
    return atom(rng, aliases)


def subq(rng, features):
    ig, t = rng.choice(ALL_TABLES)
    w = f' where {atom(rng, [t])}' if rng.random() < 0.6 else ''
    return f'select {rng.choice(COLS)} from {ig}.{t}{w}'


def gen_select(rng, features, single=None):
    njoin = rng.choice([0, 1, 1, 1, 2]) if 'join' in features else 0
    tabs = []
    pool = [x for x in ALL_TABLES if single is None or x[0] == single]
    for i in range(njoin + 1):
        ig, t = rng.choice(pool)
        used = [a for _, a, _ in tabs]
        alias = f'x{i}' if (rng.random() < 0.4 or t in used) else None
        tabs.append((f'{ig}.{t}', alias or t, alias))
    aliases = [a for _, a, _ in tabs]
    frm = tabs[0][0] + (f' as {tabs[0][2]}' if tabs[0][2] else '')
    jts = ['join', 'join', 'left join', 'inner join', 'right join', 'full join', 'left outer join']
    for i in range(1, len(tabs)):
        j = rng.choice(jts if 'outer' in features else jts[:4])
        # key columns vary on both sides and between joins (the same column name in two tables is not the same column)
        on = f'{rng.choice(aliases[:i])}.{rng.choice(["a", "a", "b", "c"])} = {aliases[i]}.{rng.choice(["a", "a", "b", "c"])}'
        if rng.random() < 0.15:
            on = ' = '.join(reversed(on.split(' = ')))
        if rng.random() < 0.35:
            on += f' and {atom(rng, [aliases[i]] if rng.random() < 0.7 else aliases[:i + 1])}'
        if rng.random() < 0.08:
            on = f'{aliases[i - 1]}.a < {aliases[i]}.b'
        frm += f' {j} {tabs[i][0]}' + (f' as {tabs[i][2]}' if tabs[i][2] else '') + f' on {on}'
    star = rng.random() < 0.45
    tcols = [f'{rng.choice(aliases)}.{c}' for c in rng.sample(COLS, rng.randint(1, 3))]
    targets = '*' if star else ', '.join(tcols)
    if not star and rng.random() < 0.2:
        targets += f', {rng.choice(aliases)}.a + 1 as s'
    distinct = 'distinct ' if rng.random() < 0.12 else ''
    sql = f'select {distinct}{targets} from {frm}'
    ws = []
    if 'where' in features and rng.random() < 0.75:
        ws.append(cond(rng, aliases))
    if 'subquery' in features and rng.random() < 0.3:
        ws.append(f'{rng.choice(aliases)}.{rng.choice(COLS)} {rng.choice(["in", "in", "not in"])} ({subq(rng, features)})')
    if 'subquery' in features and rng.random() < 0.08:
        ws.append(f'{rng.choice(aliases)}.a > (select min(a) from {rng.choice(ALL_TABLES)[0]}.{"t1" if False else rng.choice(["t1"])})'.replace('int2.t1', 'int1.t1').replace('int3.t1', 'int1.t1'))
    if ws:
        sql += ' where ' + ' and '.join(ws)
    grouped = False
    if 'group' in features and rng.random() < 0.2:
        g = f'{aliases[0]}.{rng.choice(COLS)}'
        agg = rng.choice(['count(*)', f'sum({aliases[-1]}.b)', f'max({aliases[-1]}.c)', f'count({aliases[-1]}.a)', f'count(distinct {aliases[-1]}.b)'])
        sql = sql.replace(f'select {distinct}{targets}', f'select {g}, {agg} as n') + f' group by {g}'
        if rng.random() < 0.3:
            sql += f' having {agg} {rng.choice([">", ">=", "="])} {rng.randint(0, 2)}'
        grouped = True
        tcols = [g]
    if 'order' in features and rng.random() < 0.45:
        if grouped:
            keys = [tcols[0]]
        elif star:
            keys = [f'{rng.choice(aliases)}.{c}' for c in rng.sample(COLS, rng.randint(1, 2))]
        else:
            keys = rng.sample(tcols, rng.randint(1, len(tcols)))
        if not grouped and not distinct and rng.random() < 0.25:
            # a sort key can be any expression, not only a column
            k0 = keys[0]
            keys[0] = rng.choice([f'{k0} - {rng.choice(aliases)}.a', f'abs({k0} - 1)', f'coalesce({k0}, 1)', f'{k0} * {k0}'])
        sql += ' order by ' + ', '.join(k + rng.choice(['', '', ' desc', ' asc', ' nulls last', ' desc nulls first']) for k in keys)
    if 'limit' in features and rng.random() < 0.4:
        sql += f' limit {rng.randint(1, 3)}'
        if rng.random() < 0.3:
            sql += f' offset {rng.randint(1, 2)}'
    return sql


def gen_statement(rng, features, single=None):
    k = rng.random()
    if 'union' in features and k < 0.10:
        f2 = features - {'order', 'limit', 'group'}
        c = rng.choice(COLS)
        s1 = gen_select(rng, f2 - {'join'}, single)
        s2 = gen_select(rng, f2 - {'join'}, single)
        fix = lambda s: re.sub(r'^select (distinct )?.*? from', f'select {c}, a from', s, count=1)
        return f'{fix(s1)} union {rng.choice(["", "all "])}{fix(s2)}'
    if 'union' in features and 0.10 <= k < 0.14:
        # chains of set operations over several integrations (UNION / UNION ALL / EXCEPT are left-associative with one precedence;
        # INTERSECT is used only with itself)
        c = rng.choice(COLS)
        ops = rng.choice([['union', 'union all', 'except', 'except'], ['intersect']])
        parts = []
        for _ in range(rng.randint(2, 3)):
            ig, t = rng.choice(ALL_TABLES)
            w = f' where {atom(rng, [t])}' if rng.random() < 0.4 else ''
            parts.append(f'select {c} from {ig}.{t}{w}')
        sql = parts[0]
        for p_ in parts[1:]:
            sql += f' {rng.choice(ops)} {p_}'
        return sql
    if 'cte' in features and k < 0.16:
        s1 = gen_select(rng, features - {'join', 'order', 'limit', 'group'}, single)
        s1 = re.sub(r'^select (distinct )?.*? from', 'select * from', s1, count=1)
        return f'with c1 as ({s1}) select * from c1 where {atom(rng, ["c1"])}'
    if 'nested' in features and k < 0.24:
        s1 = gen_select(rng, features - {'limit', 'order', 'group'}, single)
        s1 = re.sub(r'^select (distinct )?.*? from', 'select * from', s1, count=1) if ' join ' not in s1 else None
        if s1:
            tail = rng.choice(['', ' where s.b = 1', ' where s.a > 0 order by s.a limit 2', ' order by s.c desc'])
            if rng.random() < 0.35:
                # the derived table cuts its rows and takes part in a join that is filtered from outside
                ig2, t2 = rng.choice(ALL_TABLES)
                cut = rng.choice([' order by a, b, c limit 2', ' order by c desc, a, b limit 3', ' order by a, b, c limit 2 offset 1'])
                flt = rng.choice(['s.b = 1', 's.a > 1', f's.c = 0 and {t2}.b > 0', 's.b in (0, 1)'])
                if ' where ' in s1 or ' order by ' in s1 or ' limit ' in s1:
                    return f'select s.a, s.c from ({s1}) as s{tail}'
                return f'select * from ({s1}{cut}) as s join {ig2}.{t2} on s.a = {t2}.a where {flt}'
            return f'select s.a, s.c from ({s1}) as s{tail}'
    return gen_select(rng, features, single)


ALL_FEATURES = {'join', 'where', 'subquery', 'group', 'order', 'limit', 'outer', 'union', 'cte', 'nested'}

EDGE = [
    "select * from int1.t1 left join int2.t2 on t1.a = t2.a where t2.a is null",
    "select * from int1.t1 left join int2.t2 on t1.a = t2.a where t2.b = 1 limit 2",
    "select t1.a, count(*) as n from int1.t1 left join int2.t2 on t1.a = t2.a group by t1.a limit 2",
    "select * from int1.t1 join int2.t2 on t1.a = t2.a limit 2",
    "select * from int1.t1 left join int2.t2 on t1.a = t2.a order by t1.a limit 2 offset 1",
    "select * from int1.t1 left join int2.t2 on t1.a = t2.a order by t1.b desc limit 1",
    "select * from int1.t1 right join int2.t2 on t1.a = t2.a where t1.b = 1",
    "select * from int1.t1 full join int2.t2 on t1.a = t2.a and t2.b = 1",
    "select * from int1.t1 join int2.t2 on t1.a = t2.a where not t1.b = 1",
    "select * from int1.t1 join int2.t2 on t1.a = t2.a where t1.b = 1 or t2.b = 2",
    "select * from int1.t1 where a in (select a from int2.t2 where b = 1)",
    "select * from int1.t1 where a not in (select a from int2.t2)",
    "select * from int1.t1 where a > (select min(a) from int2.t2)",
    "select a, b from int1.t1 union select a, b from int2.t2",
    "select a, b from int1.t1 union all select a, b from int2.t2",
    "select distinct t1.a from int1.t1 join int2.t2 on t1.a = t2.a order by t1.a limit 2",
    "select * from int1.t1 join int2.t2 on t1.a = t2.a join int3.t3 on t2.a = t3.a where t3.b > 0 and t1.c = 1 limit 3",
    "select s.a from (select * from int1.t1 where b = 1) as s join int2.t2 on s.a = t2.a",
    "select * from int1.t1 as x left join int1.u1 as y on x.a = y.a left join int2.t2 as z on z.a = x.a limit 2",
    "select * from int1.t1 left join int2.t2 on t1.a = t2.a where coalesce(t2.b, 0) = 0",
    "select * from int1.t1 left join int2.t2 on t1.a = t2.a limit 2 offset 1",
    "select distinct * from int1.t1 join int2.t2 on t1.a = t2.a", "select distinct * from int1.t1 left join int2.t2 on t1.b = t2.b",
    "select distinct * from (select t1.a, t2.b from int1.t1 join int2.t2 on t1.a = t2.a) as s", "select distinct * from int1.t1",
    "with x as (select * from int1.t1), y as (select * from int2.t2) select * from x", "with x as (select * from int1.t1), y as (select * from int2.t2) select * from y",
    "with x as (select * from int1.t1), y as (select * from int2.t2) select * from (select * from x) as s",
    "with x as (select a from int1.t1), y as (select a from int2.t2) select * from x union select * from y",
    # derived tables that cut their rows (LIMIT / OFFSET / DISTINCT / GROUP BY) joined and filtered from outside: the filter does not commute
    "select * from (select * from int1.t1 order by a, b, c limit 2) as s join int2.t2 on s.a = t2.a where s.b = 1",
    "select * from (select * from int1.t1 order by a, b, c limit 2 offset 1) as s join int2.t2 on s.a = t2.a where s.b > 0 and t2.c = 1",
    "select * from int2.t2 join (select * from int1.t1 order by c desc, a, b limit 3) as s on s.a = t2.a where s.a = 2",
    "select * from (select * from int1.t1 order by a, b, c limit 1) as s left join int2.t2 on s.a = t2.a where s.b = 1 or s.b = 2",
    "select * from (select distinct a from int1.t1) as s join int2.t2 on s.a = t2.a where s.a > 1",
    "select s.a, t2.b from (select a, count(*) as n from int1.t1 group by a) as s join int2.t2 on s.a = t2.a where s.n = 1",
    "select a from int1.t1 except select a from int2.t2", "select a from int1.t1 except select a from int2.t2 union select a from int3.t3",
    "select a from int1.t1 union select a from int2.t2 except select a from int3.t3", "select a from int1.t1 intersect select a from int2.t2",
    "select a from int1.t1 union all select a from int2.t2 except select a from int1.u1",
    "select a from int1.t1 intersect select a from int2.t2 intersect select a from int3.t3",
    "select a, b from int1.t1 except select a, b from int2.t2 union all select a, b from int2.u2",
    "select b from int1.u1 except select b from int2.u2 union select b from int3.t3", "select c from int2.t2 except select c from int1.t1 intersect select c from int3.t3",
    "select a from int1.t1 except select a from int2.t2 except select a from int3.t3",
]


def systematic_edges():
    """every combination of join kinds over chains of 2 and 3 tables x the table a WHERE predicate is about x the kind of predicate:
    pushdown decisions depend on exactly these three things"""
    out = []
    kinds = ['join', 'left join', 'right join', 'full join']
    preds = ['{t}.b is null', '{t}.b is not null', '{t}.b = 1', 'coalesce({t}.b, 0) = 0']
    for j1 in kinds:
        for t in ('t1', 't2'):
            for pr in preds:
                out.append(f'select * from int1.t1 {j1} int2.t2 on t1.a = t2.a where ' + pr.format(t=t))
        for j2 in kinds:
            for t in ('t1', 't2', 't3'):
                for pr in preds[:3]:
                    out.append(f'select * from int1.t1 {j1} int2.t2 on t1.a = t2.a {j2} int3.t3 on t2.a = t3.a where ' + pr.format(t=t))
    # chains of three tables over every choice of key columns: the restriction sent with a later fetch has to come from the
    # column of the table named in ITS join condition
    # a comparison written constant-first is the mirrored comparison, for every operator and on either side of the join
    for op in ('=', '<', '<=', '>', '>=', '!='):
        for t in ('t1', 't2'):
            for v in (1, 2):
                out.append(f'select * from int1.t1 join int2.t2 on t1.a = t2.a where {v} {op} {t}.b')
                out.append(f'select * from int1.t1 left join int2.t2 on t1.a = t2.a where {v} {op} {t}.b and t1.c >= 0')
    # the shape in which ORDER BY / LIMIT may follow the first table into its fetch (outer joins only, keys of the first table):
    # every way of writing a sort key -- direction, NULLS FIRST / LAST, two keys -- has to arrive there as it was written
    for ob in ('{a}.b', '{a}.b desc', '{a}.b nulls last', '{a}.b asc nulls last', '{a}.b desc nulls first', '{a}.b nulls first',
               '{a}.b desc nulls last', '{a}.c nulls last, {a}.b desc', '{a}.b desc nulls first, {a}.a'):
        for lim in ('limit 1', 'limit 2', 'limit 2 offset 1'):
            out.append(f'select * from int1.t1 left join int2.t2 on t1.a = t2.a order by {ob.format(a="t1")} {lim}')
        out.append(f'select x.a, x.b, y.c from int1.t1 as x left join int2.t2 as y on x.a = y.a left join int3.t3 on y.a = t3.a order by {ob.format(a="x")} limit 2')
    for c1, c2, c3, c4 in itertools.product(COLS, repeat=4):
        out.append(f'select * from int1.t1 join int2.t2 on t1.{c1} = t2.{c2} join int3.t3 on t2.{c3} = t3.{c4}')
        if c1 == c3:
            out.append(f'select * from int1.t1 join int2.t2 on t2.{c2} = t1.{c1} left join int3.t3 on t3.{c4} = t2.{c3}')
            out.append(f'select * from int1.t1 join int2.t2 on t1.{c1} = t2.{c2} join int3.t3 on t1.{c3} = t3.{c4}')
    return out


# ------------------------------------------------------------------ sqlite reference (validation of the Coq evaluator)
def sqlite_rows(sql, db):
    con = sqlite3.connect(':memory:')
    try:
        for ig in {p[0] for p in db}:
            con.execute(f"attach ':memory:' as {ig}")
        for (ig, t), (cols, rows) in db.items():
            con.execute(f'create table {ig}.{t} ({", ".join(c + " integer" for c in cols)})')
            con.executemany(f'insert into {ig}.{t} values ({", ".join("?" * len(cols))})', rows)
        return [list(r) for r in con.execute(sql).fetchall()]
    finally:
        con.close()


def strip_limit(sql):
    return re.sub(r'\s+limit \d+( offset \d+)?\s*$', '', sql)


def rows_term(rows, N):
    def v(x):
        if x is None:
            return 'VNull'
        if isinstance(x, bool):
            return f'VInt {int(x)}'
        if isinstance(x, int):
            return f'VInt {x}' if x >= 0 else f'VInt ({x})'
        if isinstance(x, str):
            return f'VStr {N.sv(x)}'
        raise sqlcoq.Unsupported('non-integer value from sqlite')
    return sqlcoq.lst([sqlcoq.lst([v(x) for x in r]) for r in rows])


HEADER = ['From Coq Require Import ZArith PArith List Bool.',
          'From MSV Require Import Lib.Rel Model.SqlEval Model.SqlJudge.',
          'Import ListNotations.', 'Local Open Scope positive_scope.']
FUEL = 40


def prepare(sql, cname, cat_kw, rng, ndb, N, plan_fn=None, extra_alts=None):
    """-> dict with Coq definitions for one statement, or raises Unsupported"""
    from mindsdb_sql import parse_sql
    from mindsdb_sql.parser import ast
    from mindsdb_sql.planner import plan_query
    q0 = parse_sql(sql, 'mindsdb')
    tr = sqlcoq.Tr(N)
    top = q0
    order, lim, off = '[]', 'None', 'None'
    if isinstance(top, ast.Select):
        order = sqlcoq.lst([tr.order(o) for o in (top.order_by or [])])
        lim, off = tr.nat_const(top.limit), tr.nat_const(top.offset)
        qfull = tr.query(top, strip_limit=True)
    else:
        qfull = tr.query(top)
    plan = (plan_fn or plan_query)(parse_sql(sql, 'mindsdb'), **copy.deepcopy(cat_kw))
    steps = plan.steps
    for i, s in enumerate(steps):
        if s.step_num != i:
            raise sqlcoq.Unsupported('nested step numbering')
    tsteps = [tr.step(s) for s in steps]
    alts = {}
    for aname, fn in (('no_fetch_limit', alt_no_fetch_limit), ('api_star', alt_api_star), ('fetch_order_as_written', alt_fetch_order_as_written)):
        try:
            a = fn(copy.deepcopy(steps), q0)
            if a is not None:
                alts[aname] = sqlcoq.lst([tr.step(s) for s in a])
        except sqlcoq.Unsupported:
            pass
    # both decisions undone at once (a statement can run into two listed findings)
    try:
        a1 = alt_no_fetch_limit(copy.deepcopy(steps), q0)
        a2 = alt_api_star(a1, q0) if a1 is not None else None
        if a2 is not None:
            alts['no_fetch_limit_and_api_star'] = sqlcoq.lst([tr.step(s) for s in a2])
    except sqlcoq.Unsupported:
        pass
    if extra_alts:
        for aname, a in extra_alts(steps, q0):
            try:
                alts[aname] = sqlcoq.lst([tr.step(s) for s in a])
            except sqlcoq.Unsupported:
                pass
    dbs = []
    # bag semantics of set operations shows only when the same row occurs several times: more, and few-valued, databases
    # ... and whether a filter commutes with an inner LIMIT shows only when the first rows fail it and later rows pass
    inner_cut = re.search(r'\(select[^()]* limit \d', sql.lower()) is not None
    for _ in range(ndb * 8 if inner_cut else (ndb * 4 if any(w in sql.lower() for w in (' except ', ' intersect ')) else ndb)):
        setops = any(w in sql.lower() for w in (' except ', ' intersect ', ' union '))
        if inner_cut:
            # full tables of few distinct values: several rows compete for the places the inner LIMIT leaves
            db = sqlcoq.gen_db(rng, ALL_TABLES, COLS, maxrows=5, few_values=len(dbs) % 2 == 0)
            for k_, (cols_, rows_) in list(db.items()):
                while len(rows_) < 4:
                    rows_.append([rng.randint(0, 2) for _ in cols_])
        else:
            db = sqlcoq.gen_db(rng, ALL_TABLES, COLS, few_values=setops and len(dbs) % 4 != 3)
        try:
            lite = sqlite_rows(strip_limit(sql) if lim != 'None' or off != 'None' else sql, db)
            lite_t = rows_term(lite, N)
        except (sqlite3.Error, sqlcoq.Unsupported) as e:
            lite_t = None
        dbs.append((db, lite_t))
    return dict(sql=sql, cname=cname, qfull=qfull, order=order, lim=lim, off=off, plan=sqlcoq.lst(tsteps), alts=alts, dbs=dbs, nsteps=len(steps),
                kinds=[type(s).__name__ for s in steps])


def alt_no_fetch_limit(steps, q0):
    """counterfactual plan: LIMIT / OFFSET / ORDER BY are not pushed into the fetch of a joined table"""
    from mindsdb_sql.parser import ast
    from mindsdb_sql.planner import steps as S
    joined = set()
    for s in steps:
        if isinstance(s, S.JoinStep):
            joined |= {s.left.step_num, s.right.step_num}
    changed = False
    for s in steps:
        if isinstance(s, S.FetchDataframeStep) and s.step_num in joined and isinstance(s.query, ast.Select) and s.query.limit is not None:
            s.query.limit = None
            s.query.offset = None
            s.query.order_by = None
            changed = True
    if not changed:
        return None
    last = steps[-1]
    if isinstance(last, S.QueryStep) and isinstance(q0, ast.Select) and last.query.offset is None:
        last.query.offset = copy.deepcopy(q0.offset)
    return steps


def alt_fetch_order_as_written(steps, q0):
    """counterfactual plan: a fetch that carries a pushed LIMIT sorts by the ORDER BY of the statement exactly as it was written
    (direction and NULLS FIRST / LAST; only the table qualifier removed).  None when the plan already does: a failure this plan
    cures lies in how the sort keys were copied, not in the decision to push the LIMIT (the listed finding)"""
    from mindsdb_sql.parser import ast
    from mindsdb_sql.planner import steps as S
    if not isinstance(q0, ast.Select) or not q0.order_by:
        return None
    joined = set()
    for s in steps:
        if isinstance(s, S.JoinStep):
            joined |= {s.left.step_num, s.right.step_num}
    changed = False
    for s in steps:
        if isinstance(s, S.FetchDataframeStep) and s.step_num in joined and isinstance(s.query, ast.Select) and s.query.limit is not None \
                and s.query.order_by:
            want = copy.deepcopy(q0.order_by)
            for o in want:
                if isinstance(o.field, ast.Identifier):
                    o.field.parts = [o.field.parts[-1]]
            if [o.to_string() for o in want] != [o.to_string() for o in s.query.order_by]:
                s.query.order_by = want
                changed = True
    return steps if changed else None


def alt_api_star(steps, q0):
    """counterfactual plan: the fetch from an api integration returns plain rows when the outer select aggregates"""
    from mindsdb_sql.parser import ast
    from mindsdb_sql.planner import steps as S
    changed = False
    for s in steps:
        if isinstance(s, S.SubSelectStep) and isinstance(s.query, ast.Select) and \
                (s.query.group_by or any(sqlcoq.contains_agg(t) for t in s.query.targets)):
            f = steps[s.dataframe.step_num]
            if isinstance(f, S.FetchDataframeStep) and isinstance(f.query, ast.Select) and any(sqlcoq.contains_agg(t) for t in f.query.targets):
                f.query.targets = [ast.Star()]
                changed = True
    return steps if changed else None


def write_shard(name, preps, N):
    lines = list(HEADER)
    lines.append('Definition lite_ok (fuel : nat) db q (rows : option rel) : bool :=')
    lines.append('  match rows with None => true | Some r => let f := eval_top fuel db q in frame_err f || bag_eq (snd f) r end.')
    idx = []
    defs = []
    for i, p in enumerate(preps):
        lines.append(f'Definition q{i} := {p["qfull"]}.')
        lines.append(f'Definition p{i} := {p["plan"]}.')
        for an, at in p['alts'].items():
            lines.append(f'Definition p{i}_{an} := {at}.')
        for j, (db, lite_t) in enumerate(p['dbs']):
            lines.append(f'Definition d{i}_{j} : list (list name * (list name * rel)) := {sqlcoq.db_term(db, N)}.')
            lt = 'None' if lite_t is None else f'(Some {lite_t})'
            alt = sqlcoq.lst([f'fst (judge_plan {FUEL} d{i}_{j} q{i} {p["order"]} {p["lim"]} {p["off"]} p{i}_{an})' for an in p['alts']])
            defs.append(f'(judge_plan {FUEL} d{i}_{j} q{i} {p["order"]} {p["lim"]} {p["off"]} p{i}, lite_ok {FUEL} d{i}_{j} q{i} {lt}, {alt} : list nat)')
            idx.append((i, j))
    lines.append('Definition verdicts := [' + ';\n '.join(defs) + '].')
    lines.append('Eval vm_compute in map (fun v => (fst (fst (fst v)), snd (fst (fst v)), snd (fst v), snd v)) verdicts.')
    write_if_changed(GEN / f'{name}.v', '\n'.join(lines) + '\n')
    return idx


def parse_verdicts(out):
    vals = coq_eval_lists(out)
    if not vals:
        return None
    return [(int(a), b == 'true', c == 'true', [int(x) for x in d.split(';') if x.strip()])
            for a, b, c, d in re.findall(r'\((\d+), (true|false), (true|false), \[([^\]]*)\]\)', vals[-1])]


def classify(sql):
    low = sql.lower()
    f = set()
    for name, pat in (('limit', ' limit '), ('offset', ' offset '), ('order', ' order by '), ('group', ' group by '), ('left', ' left '),
                      ('right', ' right join'), ('full', ' full join'), ('where', ' where '), ('is_null', ' is null'), ('coalesce', 'coalesce('),
                      ('not_in', ' not in '), ('distinct', 'select distinct'), ('union', ' union '), ('nested', 'from (select'),
                      ('or', ' or '), ('not', 'not (')):
        if pat in low:
            f.add(name)
    return f


def run_cases(R, inputs, catd, rng, ndb, tag, findings, plan_fn=None, extra_check=None, extra_alts=None):
    """shared by C08 and C11: plan, translate, evaluate in Coq; -> (stats, list of failing (prep, db index))"""
    N = sqlcoq.Names()
    preps = []
    stats = {'judged': 0, 'ok': 0, 'mismatch': 0, 'reference_outside_evaluator': 0, 'plan_outside_evaluator': 0, 'unsupported': 0,
             'plan_error': 0, 'sqlite_disagrees': 0, 'order_checked': 0, 'with_limit': 0}
    skipped = {}
    for sql, cname in inputs:
        try:
            p = prepare(sql, cname, catd[cname], rng, ndb, N, plan_fn, extra_alts)
            if extra_check:
                p['extra'] = extra_check(sql, cname, p)
            preps.append(p)
        except sqlcoq.Unsupported as e:
            stats['unsupported'] += 1
            skipped.setdefault('unsupported: ' + str(e)[:60], sql)
        except Exception as e:
            stats['plan_error'] += 1
            skipped.setdefault(f'{type(e).__name__}: {str(e)[:60]}', sql)
    shard = 40
    names = []
    for k in range(0, len(preps), shard):
        name = f'{tag}_cases_{k // shard}'
        idx = write_shard(name, preps[k:k + shard], N)
        names.append((k, name, idx))
    res = compile_many([nm for _, nm, _ in names], timeout=600)
    broken, fails, disputed, outside = [], [], [], []
    for (k, name, idx), (rc, out) in zip(names, res):
        if rc != 0:
            broken.append(BrokenTie(f'{name} does not compile', out[-1500:]))
            continue
        v = parse_verdicts(out)
        if v is None or len(v) != len(idx):
            broken.append(BrokenTie(f'{name}: unexpected Coq output', out[-600:]))
            continue
        for (i, j), (code, ordered, lite_ok, altv) in zip(idx, v):
            p = preps[k + i]
            p.setdefault('altv', {})[j] = dict(zip(p['alts'], altv))
            if not lite_ok:
                stats['sqlite_disagrees'] += 1
                disputed.append((p, j))
                continue
            if code == 2:
                stats['reference_outside_evaluator'] += 1
            elif code == 3:
                stats['plan_outside_evaluator'] += 1
                outside.append((p, j))
            else:
                stats['judged'] += 1
                stats['order_checked'] += ordered
                stats['with_limit'] += p['lim'] != 'None'
                if code == 0:
                    stats['ok'] += 1
                else:
                    stats['mismatch'] += 1
                    fails.append((p, j))
    R.plan_outside = outside
    return stats, fails, broken, skipped, disputed, preps


def run(tier, seed, replay=None):
    R = Result(PROP, tier, seed, level='proof')
    R.cov['checker_cmd'] = 'make -C /verif/coq (Props/C08.v); coqc Gen/C08_cases_*.v'
    R.cov['trusted_base'] = [KERNEL, 'harness/sqlcoq.py (AST / step -> Model/SqlEval terms), Model/SqlEval.v (the reference semantics; '
                             'cross-checked against sqlite3 on every judged case)', 'axioms: none']
    R.assumptions = ['the meaning of a step is the one documented in planner/steps.py as written down in Model/SqlEval.exec_step',
                     'integer columns only; tables of at most 5 rows with NULLs and duplicates; uncorrelated subqueries',
                     'a case is judged only if sqlite3 agrees with the Coq evaluator on the original query']
    rng = random.Random(seed)
    findings = findings_for(PROP)
    try:
        ensure_static()
        R.obligation('Props/C08.v (make)', True)
    except BrokenTie as e:
        R.obligation('static development builds', False)
        R.violation({'broken': e.what, 'detail': e.detail, 'theorem': 'Props/C08.v'}, nofail=True)
        return R.finish()
    cats = [c for c in plangen.catalogs() if c[0] in ('names', 'dicts', 'api')]
    catd = dict(cats)
    if replay:
        rp = json.loads(open(replay).read())
        inputs = [(rp['sql'], rp.get('catalog', 'names'))] if 'sql' in rp else []
    else:
        inputs = [(s, c) for s in EDGE + systematic_edges() for c in ('names',)]
        # one table of an api integration (int1 in the catalog 'api'): what is sent to it and what is left to the outer step
        for ob in ('b - a', 'abs(a - 2), b', 'a * a desc, c', 'coalesce(b, 9) desc', 'b', 'c desc nulls last', 'a + b nulls first'):
            for tail in ('limit 2', 'limit 1', 'limit 2 offset 1', ''):
                inputs.append((f'select a, b, c from int1.t1 where a >= 0 order by {ob} {tail}'.rstrip(), 'api'))
                inputs.append((f'select * from int1.u1 order by {ob} {tail}'.rstrip(), 'api'))
        n = 250 if tier == 'quick' else 4000
        for _ in range(n):
            inputs.append((gen_statement(rng, ALL_FEATURES), rng.choice(cats)[0]))
    ndb = 4 if tier == 'quick' else 8
    stats, fails, broken, skipped, disputed, preps = run_cases(R, inputs, catd, rng, ndb, 'C08', findings)
    R.obligation(f'Coq evaluation of {len(preps)} plans x {ndb} databases completes', not broken)
    seen = set()
    for p, j in fails:
        feats = classify(p['sql'])
        # attribution: which counterfactual plan (one planner decision undone) is acceptable on this database
        cured = sorted(a for a, code in p.get('altv', {}).get(j, {}).items() if code == 0)
        if 'fetch_order_as_written' in cured:
            # the pushed LIMIT is fine once the fetch sorts as the statement says: not the listed decision to push it
            cured = [a for a in cured if 'no_fetch_limit' not in a]
        fd = [f for f in findings if f['classifier'].get('kind') == 'plan_differs' and f['classifier'].get('cured_by') in cured]
        if not fd:
            # cured only when two listed decisions are undone together: both findings apply
            known_alts = {f['classifier'].get('cured_by'): f for f in findings if f['classifier'].get('kind') == 'plan_differs'}
            for a in cured:
                parts = a.split('_and_')
                if len(parts) > 1 and all(x in known_alts for x in parts):
                    fd = [known_alts[x] for x in parts]
                    break
        if fd:
            for f_ in fd:
                R.known_finding(f'{f_["id"]}: {f_["what"]}')
            continue
        key = (tuple(sorted(feats)), tuple(cured))
        if key in seen or len(seen) >= 8:
            continue
        seen.add(key)
        db, _ = p['dbs'][j]
        R.violation({'sql': p['sql'], 'catalog': p['cname'], 'features': sorted(feats), 'steps': p['kinds'], 'acceptable_counterfactual_plans': cured,
                     'database': {'.'.join(k): {'columns': v[0], 'rows': v[1]} for k, v in db.items()},
                     'what': 'the emitted steps, executed by their documented meaning, do not return an acceptable answer to the query',
                     'judge': 'Model/SqlJudge.judge_plan = (1, _)'})
    # ---- structural judge: the hypotheses of the pushdown laws (every pushed filter is a top-level conjunct of WHERE on that
    # table, or a top-level =-constant conjunct of an inner / left ON clause) hold for the implementation's join plans
    import c14
    I = c14.Intern()
    srows = []
    for sql, cname in inputs:
        if ' join ' not in sql or '(select' in sql or sql.startswith('with'):
            continue
        try:
            ob = c14.observe(sql, catd[cname], I, require_model=False)
        except Exception:
            continue
        if ob is not None:
            srows.append((sql, cname, ob))
    lines = c14.HEADER + ['Definition cases : list jcase := [', ';\n'.join(' ' + ob['case'] for _, _, ob in srows), '].',
                          'Eval vm_compute in bad_index judge_case cases.']
    write_if_changed(GEN / 'C08_struct.v', '\n'.join(lines) + '\n')
    rc, out = compile_gen('C08_struct')
    sbad = []
    if rc != 0:
        broken.append(BrokenTie('C08_struct does not compile', out[-1200:]))
    else:
        vals = coq_eval_lists(out)
        sbad = [int(m.group(1)) for m in re.finditer(r'\((\d+), \[', vals[-1])] if vals else []
    R.obligation(f'law hypotheses: pushed filters are conjuncts of the re-applied WHERE / of an inner-left ON clause ({len(srows)} join plans)',
                 not sbad and rc == 0)
    for i in sbad[:3]:
        R.violation({'sql': srows[i][0], 'catalog': srows[i][1], 'case': srows[i][2]['case'][:2500],
                     'what': 'a filter pushed into a table fetch is not a top-level conjunct of WHERE / of an inner-left ON clause: the '
                             'hypothesis of the pushdown law (Props/C08.v) fails', 'judge': 'Model/ModelJoinCorr.judge_case'})
    # hypothesis of C08_order_limit_through_left_join ("the fetch sorts by the SAME comparison"): a fetch of a joined table that
    # carries a pushed LIMIT sorts by the ORDER BY of the statement as it was written (direction, NULLS FIRST / LAST)
    from mindsdb_sql import parse_sql as _ps
    from mindsdb_sql.planner import plan_query as _pq
    nord = 0
    ord_bad = []
    for sql, cname in inputs:
        if ' order by ' not in sql or ' limit ' not in sql or ' join ' not in sql:
            continue
        try:
            q0_ = _ps(sql, 'mindsdb')
            st_ = _pq(_ps(sql, 'mindsdb'), **copy.deepcopy(catd[cname])).steps
            before_ = [str(x) for x in st_]
            changed_ = alt_fetch_order_as_written(st_, q0_)
        except Exception:
            continue
        nord += 1
        if changed_ is not None and len(ord_bad) < 2:
            ord_bad.append(sql)
            R.violation({'sql': sql, 'catalog': cname, 'steps': before_, 'fetch_should_sort_as': [o.to_string() for o in q0_.order_by],
                         'what': 'a fetch that carries the pushed LIMIT does not sort as the statement says: the hypothesis of '
                                 'C08_order_limit_through_left_join (same comparison) fails'})
    R.obligation(f'law hypothesis: a fetch with a pushed LIMIT sorts as the statement says ({nord} join plans with ORDER BY and LIMIT)', not ord_bad)
    R.obligation('judge: every plan result is an acceptable answer (except listed findings)', not R.violations)
    for e in broken[:1]:
        if not R.violations:
            R.violation({'what': e.what, 'detail': e.detail, 'theorem': 'C08 evaluation (Gen/C08_cases_*.v)'}, nofail=True)
    R.cov['evaluations'] = sum(len(p['dbs']) for p in preps)
    R.cov['distinct_nontrivial'] = len({p['plan'] for p in preps})
    R.cov['rule'] = ('generated predictor-free queries over 5 tables in 3 integrations (joins of every kind with ON filters, WHERE trees, IN / '
                     'NOT IN / scalar subqueries, UNION [ALL], CTE, nested select, GROUP BY / HAVING, DISTINCT, ORDER BY with NULLS '
                     'placement, LIMIT / OFFSET) x 3 catalogs + fixed edge statements, each on generated databases; distinct = distinct plans')
    R.cov['samples'] = [{'sql': s, 'catalog': c} for s, c in inputs[:3]]
    R.notes['input_distribution'] = stats
    R.notes['skipped_examples'] = dict(list(skipped.items())[:15])
    R.notes['sqlite_disagreements'] = [p['sql'] for p, _ in disputed[:5]]
    return R.finish()
