"""C01: printing a parsed statement and re-parsing it yields the same tree.

Proof (partial): Props/C01.v -- for EVERY identifier whose parts are non-empty and free of back
quotes, Identifier.parts_to_str followed by splitting the text gives the same parts (refuted with
a back quote inside a part); string constants: the C04 print-then-decode theorem.
Tie: identifiers built from generated parts are printed by the real Identifier class and parsed
back by the real parsers; both are compared in Coq with Model/IdentPrint (print_parts /
split_parts), the reserved-word set being read from the implementation on every run.
Exploration: parse -> print -> parse on statements harvested from /repo/tests, generated
statements and token-level mutations (identifiers replaced by keyword-like / spaced / dotted /
non-ASCII names, strings by tricky contents), 3 dialects: same tree (to_tree), same string when
printed again, and the same for copy.deepcopy of the tree."""
import copy
import json
import random
import re
import warnings

import sqlcorpus
from common import (GEN, BrokenTie, Result, compile_gen, coq_eval_lists, ensure_static, findings_for, parse_coq_list, write_if_changed, KERNEL)

PROP = 'C01'
DIALECTS = ['mindsdb', 'mysql', 'sqlite']
ID_POOL = ['select', 'from', 'order', 'group', 'a b', 'a.b', 'AbC', '_x', '1a', 'ünï', 'a-b', 'x y z', 'table', 'model', 'key', 'value', 'end',
           'case', 'left', 'first', 'last', 'null', 'true', 'Int', 'a$b', 'a@b', 'a#b', '日本', 'latest', 'database', 'view', 'status', 'show', 'from$', 'table$', 'index$', 'status$', 'v$session', '$x', 'select$1', 'user$']
STR_POOL = ['a b', '%x_', 'ü', 'select', '--x', '/*', ' lead', 'UPPER', 'a,b', '(x)', '1', 'null', 'a.b', 'x;y', 'a=b', '{k:1}', 'a`b', 'tab\there']


RAW_SECTIONS = ["CREATE VIEW v AS (\n  select a\n\n  from t\n)", "select * from int1 (select a\n\n   from x\n where b = 1)",
                "create view v from pg (select 1\n  -- only a comment\n  from t)", "CREATE MODEL m FROM db (select a,\n\n\n b from t) PREDICT b",
                "select * from int1 (select a\n from x\n where b = 1)", "select * from int1 ((select 1) union (select 2))",
                "create job j (select 1\n\n; select 2)", "create view v as (select a from t where b = 'x y')"]


def nl(s):
    return '[' + '; '.join(str(ord(c)) for c in s) + ']%N'


def mutate(rng, sql, dialect):
    """replace some identifiers / string constants of the statement (token level, using the real lexer for positions)"""
    from mindsdb_sql import get_lexer_parser
    try:
        lexer, _ = get_lexer_parser(dialect)
        toks = list(lexer.tokenize(sql))
    except Exception:
        return None
    out, pos = [], 0
    changed = False
    for t in toks:
        out.append(sql[pos:t.index])
        end = getattr(t, 'end', None)
        if end is None:
            return None
        raw = sql[t.index:end]
        if t.type == 'ID' and rng.random() < 0.35 and not raw.startswith('`'):
            out.append('`' + rng.choice(ID_POOL) + '`')
            changed = True
        elif t.type in ('QUOTE_STRING',) and rng.random() < 0.5:
            out.append("'" + rng.choice(STR_POOL) + "'")
            changed = True
        else:
            out.append(raw)
        pos = end
    out.append(sql[pos:])
    return ''.join(out) if changed else None


def gen_create_table(rng):
    """CREATE TABLE with every combination of the column options the grammar allows (type length, DEFAULT, [NOT] NULL, PRIMARY KEY)"""
    cols = rng.sample(['id', 'name', 'created_at', 'qty', 'note'], rng.randint(1, 3))
    defs = []
    for c in cols:
        t = rng.choice(['int', 'varchar', 'timestamp', 'text', 'float'])
        d = f'{c} {t}' + rng.choice(['', '', '(5)'])
        k = rng.random()
        if k < 0.4:
            d += ' default ' + rng.choice(['current_timestamp', 'x', 'zero'])
        elif k < 0.5 and '(' not in d:
            d += ' primary key'
        d += rng.choice(['', '', ' not null', ' null'])
        defs.append(d)
    if rng.random() < 0.3:
        defs.append('primary key (' + ', '.join(rng.sample(cols, rng.randint(1, len(cols)))) + ')')
    head = rng.choice(['create table', 'create table', 'create or replace table', 'create table if not exists'])
    return f'{head} {rng.choice(["t", "db.t", "`my db`.t"])} ({", ".join(defs)})'


def first_diff(a, b):
    la, lb = a.split('\n'), b.split('\n')
    for x, y in zip(la, lb):
        if x != y:
            return re.sub(r"[\"'][^\"']*[\"']", 'S', x.strip())[:50], re.sub(r"[\"'][^\"']*[\"']", 'S', y.strip())[:50]
    return f'len {len(la)}', f'len {len(lb)}'


def run(tier, seed, replay=None):
    R = Result(PROP, tier, seed, level='proof')
    R.cov['checker_cmd'] = 'make -C /verif/coq (Props/C01.v); coqc Gen/C01_idents.v'
    R.cov['trusted_base'] = [KERNEL, 'harness/c01.py (reads the reserved-word set from the implementation, compares to_tree() / str())', 'axioms: none']
    R.assumptions = ['PARTIAL: proved for identifiers and (via C04) string constants; every other node kind is explored by the round trip on a '
                     'corpus, not proved', 'tree equality = equality of to_tree() text, as ASTNode.__eq__ defines it',
                     'str.upper is taken from Python for the reserved-word test (the Coq model receives the test as a predicate)']
    rng = random.Random(seed)
    findings = findings_for(PROP)
    warnings.simplefilter('ignore')
    from mindsdb_sql import parse_sql
    from mindsdb_sql.parser.ast import Identifier
    from mindsdb_sql.parser.ast.select.identifier import get_reserved_words
    try:
        ensure_static()
        R.obligation('Props/C01.v (make)', True)
    except BrokenTie as e:
        R.obligation('static development builds', False)
        R.violation({'broken': e.what, 'detail': e.detail, 'theorem': 'Props/C01.v'}, nofail=True)
        return R.finish()
    # ---------------- identifiers: correspondence with Model/IdentPrint
    reserved = sorted(get_reserved_words())
    alphabet = ['a', 'B', '_', '1', ' ', '.', '-', 'é', '$', 'select', 'order', 'x', 'from', 'table', '$']
    idents = []
    for _ in range(300 if tier == 'quick' else 3000):
        parts = []
        for _ in range(rng.randint(1, 3)):
            if rng.random() < 0.3:
                parts.append(rng.choice(ID_POOL + ['order', 'BY', 'Group', 'exists', 'IF']))
            else:
                parts.append(''.join(rng.choice(alphabet) for _ in range(rng.randint(1, 4))))
        idents.append(parts)
    rows = []
    for parts in idents:
        printed = Identifier(parts=list(parts)).to_string()
        back = {}
        for d in DIALECTS:
            try:
                q = parse_sql('select ' + printed, d)
                back[d] = [str(p) for p in q.targets[0].parts] if isinstance(q.targets[0], Identifier) else ['<not an identifier>']
            except Exception as e:
                back[d] = ['<error>', type(e).__name__]
        rows.append((parts, printed, back))
    lines = ['From Coq Require Import NArith List Bool.', 'From MSV Require Import Lib.PyStr Model.IdentPrint.', 'Import ListNotations.',
             'Local Open Scope N_scope.',
             'Fixpoint sl_eqb (a b : list str) : bool := match a, b with [], [] => true | x :: a, y :: b => str_eqb x y && sl_eqb a b | _, _ => false end.',
             'Definition upper_c (c : N) : N := if (97 <=? c) && (c <=? 122) then c - 32 else c.',
             f'Definition reserved_words : list str := [{"; ".join(nl(w) for w in reserved)}].',
             'Definition reserved (p : str) : bool := existsb (str_eqb (map upper_c p)) reserved_words.',
             'Definition cases : list (list str * str * list str) := [',
             ';\n'.join(f' ([{"; ".join(nl(p) for p in parts)}], {nl(printed)}, [{"; ".join(nl(p) for p in back["mindsdb"])}])'
                       for parts, printed, back in rows), '].',
             'Definition bad {A} (f : A -> bool) (l : list A) : list nat :=',
             '  (fix go (i : nat) (l : list A) := match l with [] => [] | x :: r => if f x then go (S i) r else i :: go (S i) r end) O l.',
             "Eval vm_compute in bad (fun c => let '(ps, printed, back) := c in str_eqb (print_parts reserved ps) printed) cases.",
             "Eval vm_compute in bad (fun c => let '(ps, printed, back) := c in sl_eqb (split_parts printed) back) cases.",
             "Eval vm_compute in bad (fun c => let '(ps, printed, back) := c in sl_eqb back ps) cases."]
    write_if_changed(GEN / 'C01_idents.v', '\n'.join(lines) + '\n')
    rc, out = compile_gen('C01_idents')
    if rc != 0:
        R.obligation('Gen/C01_idents.v compiles', False)
        R.violation({'what': 'C01 identifier cases do not compile', 'detail': out[-1200:], 'theorem': 'C01 correspondence'}, nofail=True)
        return R.finish()
    vals = coq_eval_lists(out)
    bad_print, bad_read, bad_rt = (parse_coq_list(v) for v in vals[-3:])
    non_ascii = lambda i: any(ord(c) > 127 for p in rows[i][0] for c in p)
    bad_print = [i for i in bad_print if not non_ascii(i)]
    R.obligation(f'Identifier.to_string = Model/IdentPrint.print_parts on {len(rows)} generated identifiers (reserved words read from the '
                 f'implementation: {len(reserved)})', not bad_print)
    R.obligation('the mindsdb parser reads a printed identifier as Model/IdentPrint.split_parts does', not bad_read)
    if bad_print or bad_read:
        i = (bad_print or bad_read)[0]
        R.violation({'what': f'identifier model disagrees with the implementation on parts {rows[i][0]}: printed {rows[i][1]!r}, read back '
                             f'{rows[i][2]["mindsdb"]}', 'theorem': 'C01 correspondence (Model/IdentPrint)'}, nofail=True)
    seen = set()
    for i in bad_rt:
        parts, printed, back = rows[i]
        feats = sorted({'backquote' if any('`' in p for p in parts) else 'other'})
        fd = [f for f in findings if f['classifier'].get('kind') == 'identifier' and f['classifier'].get('needs') == feats]
        if fd:
            R.known_finding(f'{fd[0]["id"]}: {fd[0]["what"]}')
        elif tuple(feats) not in seen:
            seen.add(tuple(feats))
            R.violation({'parts': parts, 'printed': printed, 'read_back': back, 'what': 'an identifier does not survive print -> parse'})
    for parts, printed, back in rows:
        for d in ('mysql', 'sqlite'):
            if back[d] != back['mindsdb'] and ('dialect', d) not in seen:
                fd = [f for f in findings if f['classifier'].get('kind') == 'identifier_dialect' and f['classifier'].get('dialect') == d]
                if fd:
                    R.known_finding(f'{fd[0]["id"]}: {fd[0]["what"]}')
                else:
                    seen.add(('dialect', d))
                    R.violation({'parts': parts, 'printed': printed, 'read_back': back, 'dialect': d,
                                 'what': f'the {d} parser reads the printed identifier differently from the mindsdb parser'})
    # ---------------- statements: round trip
    h = sqlcorpus.harvest()
    stats = {'statements': 0, 'mutated': 0, 'round_trips_ok': 0, 'failures': 0}
    fails = {}
    import c06
    import c08
    import plangen
    for d in DIALECTS:
        texts = list(h[d])
        if d == 'mindsdb' and not replay:
            n = 150 if tier == 'quick' else 2000
            texts += [c06.gen_statement(rng) for _ in range(n)] + [c08.gen_statement(rng, c08.ALL_FEATURES) for _ in range(n)]
            texts += [plangen.gen_statement(rng, plangen.ALL_FEATURES)[0] for _ in range(n)]
            texts += [gen_create_table(rng) for _ in range(n // 2)]
        if not replay:
            # numeric and string literals of every spelling in expression positions (the tree keeps the value, the printed text must
            # denote it again)
            for _ in range(60 if tier == 'quick' else 600):
                lits = [repr(rng.uniform(0.001, 1000)), repr(round(rng.uniform(0, 100), rng.randint(1, 15))), str(rng.randint(0, 10 ** 12)),
                        repr(rng.uniform(0, 1)), '3.141592653589793', '0.1', '100.0', '40.712776012345', '0.' + '0' * rng.randint(1, 8) + '1',
                        str(rng.randint(1, 9)) + '0' * rng.randint(15, 22) + '.5', "'it''s'", "'a b'"]
                a, b, c = rng.sample(lits, 3)
                texts.append(rng.choice(['select {a} as x, {b} from t where y = {c}', 'select * from t where a > {a} and b in ({b}, {c})',
                                         'select a + {a} from t order by b limit 3', 'insert into t (a, b) values ({a}, {b})',
                                         'update t set a = {a} where b < {b}']).format(a=a, b=b, c=c))
        if not replay:
            # every subset of the optional clauses of a SELECT, alone and inside a sub-select / a UNION branch
            clauses = [('where', ' where a > 1'), ('group', ' group by a'), ('having', ' having max(b) > 0'), ('order', ' order by a desc'),
                       ('limit', ' limit 5'), ('offset', ' offset 3')]
            for mask in range(1 << len(clauses)):
                tail = ''.join(txt_ for i_, (nm_, txt_) in enumerate(clauses) if mask >> i_ & 1)
                texts.append('select a, b from tab' + tail)
                if mask % 5 == 0:
                    texts.append(f'select * from (select a from tab{tail}) as t limit 5')
                    texts.append(f'select a from tab{tail} union select a from tab2')
        if d == 'mindsdb' and not replay:
            texts += RAW_SECTIONS
        muts = []
        for s in texts:
            for _ in range(1 if tier == 'quick' else 4):
                m = mutate(rng, s, d)
                if m:
                    muts.append(m)
        if replay:
            rp = json.loads(open(replay).read())
            texts, muts = ([rp['sql']] if rp.get('dialect', d) == d and 'sql' in rp else []), []
        stats['mutated'] += len(muts)
        for s in texts + muts:
            try:
                t1 = parse_sql(s, d)
            except Exception:
                continue
            stats['statements'] += 1
            key = None
            try:
                s1 = str(t1)
                tc = copy.deepcopy(t1)
                if tc.to_tree() != t1.to_tree() or str(tc) != s1:
                    key = (d, 'copy differs', type(t1).__name__)
                    detail = (s, s1, str(tc))
            except Exception as e:
                key = (d, 'print / copy raises', type(t1).__name__, type(e).__name__)
                detail = (s, str(e)[:200], '')
                s1 = None
            if key is None:
                try:
                    t2 = parse_sql(s1, d)
                    if t2.to_tree() != t1.to_tree():
                        key = (d, 'tree differs', type(t1).__name__) + first_diff(t1.to_tree(), t2.to_tree())
                        detail = (s, s1, '')
                    elif str(t2) != s1:
                        key = (d, 'string not stable', type(t1).__name__)
                        detail = (s, s1, str(t2))
                except Exception as e:
                    key = (d, 'printed text is rejected', type(t1).__name__, re.sub(r"[\"'][^\"']*[\"']", 'S', str(e).split('\n')[0])[:40])
                    detail = (s, s1, '')
            if key is None:
                stats['round_trips_ok'] += 1
            else:
                stats['failures'] += 1
                fails.setdefault(key, detail)
    nrep = 0
    plain_re = re.compile(r'[a-zA-Z_][a-zA-Z_0-9]*')
    res_set = set(reserved)

    def causes(d, s, s1, key):
        """which known defect explains the failure (decided by a counterfactual where possible)"""
        out = []
        if s1 is None:
            return out
        # names that were back-quoted in the input and need quoting, but are printed bare: put the quotes back and try again
        s_nostr = re.sub(r"'(?:[^'\\]|\\.|'')*'", "''", s)        # back quotes inside string literals are not names
        names = [n for n in set(re.findall(r'`([^`]+)`', s_nostr)) if not plain_re.fullmatch(n) or n.upper() in res_set]
        fixed = s1
        for n in sorted(names, key=len, reverse=True):
            fixed = re.sub(r'(?<![`\w.])' + re.escape(n) + r'(?![`\w])', '`' + n.replace('\\', '\\\\') + '`', fixed, flags=re.I)
            fixed = re.sub(r'(?<=\.)' + re.escape(n) + r'(?![`\w])', '`' + n.replace('\\', '\\\\') + '`', fixed, flags=re.I)
        if fixed != s1:
            try:
                t1 = parse_sql(s, d)
                if parse_sql(fixed, d).to_tree() == t1.to_tree():
                    out.append('name_printed_unquoted')
            except Exception:
                pass
            if not out and names:
                out.append('name_printed_unquoted_unconfirmed')
        if re.search(r"\\'", s1) or re.search(r"\\\"", s1):
            out.append('string_quote_escape')
        if re.match(r'SHOW ENGINE .* None\b', s1) or re.match(r'SHOW \S+ CODE$', s1) or re.match(r'SHOW ENGINE ', s1):
            out.append('show_printing')
        if (re.search(r'[\t\n\r\\]', s) and re.search(r'\\[tnr\\]', s1)) or "'`" in s1 or \
                (re.search(r'[^\x00-\x7f]', s) and re.search(r'\\u[0-9a-fA-F]{4}', s1)):
            out.append('command_parameter_printing')
        if re.search(r'\d[eE][-+]?\d', s1) and not re.search(r'\d[eE][-+]?\d', s):
            # a float written positionally comes back in exponent notation, which no lexer reads as a number
            out.append('float_printed_in_exponent_notation')
        if (key[1] == 'tree differs' and 'alias=Identifier' in str(key) and ' AS `' in s1) or ' AS ``' in s1:
            out.append('quoted_alias_keeps_backquotes')
        return out
    for key, (s, s1, extra) in fails.items():
        cs = causes(key[0], s, s1, key)
        fd = [f for f in findings if f['classifier'].get('kind') == 'roundtrip' and f['classifier'].get('cause') in cs]
        if fd:
            R.known_finding(f'{fd[0]["id"]}: {fd[0]["what"]}')
            continue
        if nrep >= 12:
            continue
        nrep += 1
        R.violation({'dialect': key[0], 'sql': s, 'printed': s1, 'printed_again_or_error': extra, 'failure': key[1], 'class': list(key[2:]),
                     'recognised_causes': cs, 'what': 'parse -> print -> parse does not give the same tree / string'})
    # ---------------- sentences derived from the grammars themselves (every statement kind, every production)
    if not replay or 'grammar_sentence' in rp:
        import c01g
        if replay:
            gk, gd = c01g.failure_key(rp['grammar_sentence'], rp.get('dialect', 'mindsdb'))
            gstats, gfails = {}, ({gk: gd} if isinstance(gk, tuple) else {})
        else:
            try:
                gstats, gfails = c01g.explore(rng, tier)
            except Exception as e:
                gstats, gfails = {'error': f'{type(e).__name__}: {e}'}, {}
                R.violation({'what': f'sentences could not be derived from the grammar: {type(e).__name__}: {e}', 'theorem': 'C01 grammar-derived corpus'}, nofail=True)
        listed = {tuple(x) for f in findings if f['classifier'].get('kind') == 'grammar_roundtrip' for x in f['classifier']['classes']}
        gfd = [f for f in findings if f['classifier'].get('kind') == 'grammar_roundtrip']
        ng = 0
        for key, det in gfails.items():
            if (key[0], key[2]) in listed:
                R.known_finding(f'{gfd[0]["id"]}: {gfd[0]["what"]}')
                continue
            ng += 1
            if ng <= 4:
                R.violation(dict(det, dialect=key[0], grammar_sentence=det.get('sql'), failure=list(key),
                                 what='a sentence derived from the grammar is accepted but does not survive print -> parse (statement class not among the listed ones)'))
        stats['grammar_sentences'] = gstats
        R.obligation(f'round trip of grammar-derived sentences outside the listed statement classes '
                     f'({sum(v.get("accepted", 0) for v in gstats.values() if isinstance(v, dict))} accepted sentences)', ng == 0)
    R.obligation('round trip on the corpus (except listed findings)', not any(not nf for _, nf in R.violations))
    R.cov['evaluations'] = stats['statements'] + len(rows)
    R.cov['distinct_nontrivial'] = stats['statements']
    R.cov['rule'] = ('statements harvested from /repo/tests (3 dialects) + generated SELECT / planner statements + token-level mutations of '
                     'identifiers and string constants; identifiers from generated parts (keywords, spaces, dots, digits first, non-ASCII)')
    R.cov['samples'] = [{'parts': r[0]} for r in rows[:3]]
    R.notes['input_distribution'] = stats
    R.notes['failure_classes'] = [list(map(str, k)) for k in list(fails)[:40]]
    return R.finish()
