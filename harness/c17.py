"""C17: the renderer honours its fallback contract and never leaks internal errors.

Proof (partial): Props/C17.v -- the control flow of get_exec_params as a function of what the
translation raises: with fallback the call raises exactly the classes outside the `except`
tuple; with the tuple (SQLAlchemyError, NotImplementedError) the contract holds iff the
translation raises nothing else.  The tuple is regenerated from the source on every run.
Tie: on parser-produced trees x dialect names the outcome of get_string with and without
fallback is compared in Coq with the model applied to the outcome of the translation itself.
Exploration: which classes the translation raises (statements harvested from /repo/tests,
generated statements, shapes the renderer does not support) and whether the tree it was given
is unchanged afterwards (to_tree before / after)."""
import ast as pyast
import copy
import inspect
import json
import random
import re
import warnings

import sqlcorpus
from common import (GEN, BrokenTie, Result, compile_gen, coq_eval_lists, ensure_static, findings_for, write_if_changed, KERNEL)

PROP = 'C17'
DIALECTS = ['mysql', 'postgresql', 'postgres', 'sqlite', 'mssql', 'oracle', 'Snowflake']

SHAPES = [
    "select cast(a as foo) from t", "select count(a, b) from t", "select (1, 2) = (3, 4) from t", "select a from t where (a, b) in ((1, 2))",
    "select a->>'b' from t", "select * from t where a like 'x' escape '!'", "select cast(a as decimal(10, 2)) from t",
    "select a::int from t", "select interval '1 day'", "select * from t1 right join t2 on t1.a = t2.a", "select * from t for update",
    "select last from t", "select * from t where a > latest", "select @@version", "select @x", "select * from t limit 1, 2",
    "select sum(a) over (partition by b order by c desc) from t", "select row_number() over () from t", "select distinct on (a) b from t",
    "select a from t where exists (select 1 from u)", "select * from t where a = ?", "select :p from t", "select * from (select 1) as s",
    "select * from t1, t2", "select max(a) filter (where b > 1) from t", "select extract(year from a) from t", "select trim(both 'x' from a) from t",
    "select substring(a from 1 for 2) from t", "select * from t tablesample (10)", "select a || b from t", "select a % 2, a / 0, a ^ 2 from t",
    "select * from db.schema.t", "select `a b`, `select` from `t x`", "select * from t where a in (select b from u) and not exists (select 1)",
    "insert into t values (1, 2)", "insert into t (a) select b from u", "update t set a = (select max(b) from u)", "delete from t",
    "update t set a = 1 from u where t.b = u.b", "insert into t (a, b) values (?, ?)", "delete from t where a in (1, 2) limit 3",
    "create table t (a serial, b int primary key, c foo)", "create table t (a serial primary key)", "create or replace table t (a int)",
    "create table t as select * from u", "create table if not exists t (a int default 1)", "drop table if exists a, b", "drop table t",
    "create model m predict a", "show tables", "use x", "set a = 1", "describe t", "explain select 1", "start transaction", "commit",
    "select * from t1 union select * from t2 intersect select * from t3", "select * from t1 except select * from t2",
    "with a as (select 1) select * from a", "with recursive a as (select 1) select * from a", "with a (x) as (select 1) select * from a",
    "select case a when 1 then 2 else 3 end from t", "select case when a then b end from t", "select not a, -a, +a, ~a from t",
    "select a is true, a is not false, a is unknown from t", "select a between 1 and 2 and b not between 3 and 4 from t",
    "select coalesce(), now(), current_date, current_user from t", "select database()", "select a.b.c.d from t", "select t.* from t",
    "select * from t order by 1, a desc nulls first, b nulls last", "select * from t group by 1 having 1", "select * from t limit 0 offset 0",
    "select a, ? as x from t where b = ?", "select ? as p", "select :v as x from t", "select (select 1) as s, (1, 2) as tup from t",
    "select a as `x y`, 'lit' as l, 1 as one, null as n, true as b from t", "select -? from t", "select ? + 1 as p1 from t",
    "select cast(a as foo) from t1 union select a from t2 order by a limit 5", "select count(a, b) from t1 union all select a from t2 limit 3",
    "select a from t1 union select cast(a as foo) from t2 order by a limit 5 offset 1", "select a from t1 intersect select count(a, b) from t2 order by a",
    "select * from (select cast(a as foo) from t1 union select a from t2 order by a limit 5) as s",
    "with c as (select a from t1 union select (a, b) = (1, 2) from t2 limit 2) select * from c",
    "insert into t (a) select cast(a as foo) from t1 union select a from t2 limit 1", "select a from t1 union select a from t2 order by a limit 5",
    "select a from t1 except select a from t2 order by a desc limit 2 offset 1",
    "select * from t where " + " and ".join(f"a{i} = {i}" for i in range(300)), "select " + " + ".join(["x"] * 300) + " from t",
    "select * from t where " + " or ".join(f"a{i} > {i}" for i in range(250)),
    "select native_query from int1 (select 1)", "select * from int1 (select * from t where a = 'x')",
    # lists of one item, parenthesised scalars, nested parentheses
    "select a from t where b in (1)", "select a from t where b not in ('x')", "select a from t where b in (c + 1) or d in (f(x))", "select a from t where b in ((1))",
    "select (a) from t where ((b)) = (1)", "select a from t where b in (1, (2), ((3)))", "delete from t where a in (1)", "update t set a = (1) where b in (2)",
    "select a from t where (b, c) in ((1, 2))", "select a from t where b in (select 1)", "select a from t where b = any (select 1)",
    # functions with a FROM-separated argument, in several positions and more than once per statement
    "select substring(a from 2) from t", "select trim(a from b) from t", "select f(x from y) from t", "select position('x' from a) from t",
    "select substring(a from 2), substring(b from 3) from t where substring(c from 1) = 'x'", "select overlay(a from 2) as o, cast(b as foo) from t",
    "select extract(month from d), extract(year from d) from t group by extract(year from d)", "select count(distinct a), sum(distinct b) from t",
    "select substring(a from 2) from t union select substring(b from 3) from u", "update t set a = substring(b from 2) where trim(c from d) = 1",
]


def handlers_from_source():
    """structure of the try / except of get_exec_params ->
    (pass_names, convert, caught_names): the inner handler re-raises the classes of pass_names unchanged and (convert) turns
    every other Exception into NotImplementedError; the outer handler implements the fallback for caught_names"""
    from mindsdb_sql.render import sqlalchemy_render as m
    src = inspect.getsource(m.SqlalchemyRender.get_exec_params)
    tree = pyast.parse(re.sub(r'^    ', '', src, flags=re.M))
    handlers = [n for n in pyast.walk(tree) if isinstance(n, pyast.ExceptHandler)]

    def names_of(h):
        if h.type is None:
            return ['BaseException']
        return [e.id for e in (h.type.elts if isinstance(h.type, pyast.Tuple) else [h.type]) if isinstance(e, pyast.Name)]
    outer = [h for h in handlers if 'with_failback' in pyast.unparse(h)]
    if len(outer) != 1:
        raise BrokenTie('get_exec_params: expected exactly one except clause that implements the fallback', src[:2500])
    body = pyast.unparse(outer[0])
    if 'if not with_failback' not in body or 'raise' not in body or 'str(ast_query)' not in body:
        raise BrokenTie('get_exec_params: the fallback handler has an unexpected shape', body)
    inner = [h for h in handlers if h is not outer[0]]
    pass_names, convert = [], False
    for h in inner:
        hb = [pyast.unparse(x) for x in h.body]
        if hb == ['raise']:
            pass_names += names_of(h)
        elif names_of(h) == ['Exception'] and len(h.body) == 1 and hb[0].startswith('raise NotImplementedError('):
            convert = True
        else:
            raise BrokenTie('get_exec_params: an inner except clause has an unexpected shape', pyast.unparse(h))
    if not inner:
        pass_names = []
    import builtins
    for n in pass_names + names_of(outer[0]):
        if getattr(m, n, None) is None and getattr(builtins, n, None) is None:
            raise BrokenTie(f'get_exec_params: unknown class {n} in an except clause')
    return pass_names, convert, names_of(outer[0])


def run(tier, seed, replay=None):
    R = Result(PROP, tier, seed, level='proof')
    R.cov['checker_cmd'] = 'make -C /verif/coq (Props/C17.v); coqc Gen/C17_cases.v'
    R.cov['trusted_base'] = [KERNEL, 'harness/c17.py (reads the except tuple of get_exec_params with the ast module; classification of raised classes)',
                             'axioms: none']
    R.assumptions = ['PARTIAL: which classes the translation raises is explored on a corpus, not proved',
                     'an exception counts as SQLAlchemyError / NotImplementedError by isinstance',
                     'mutation is detected by comparing to_tree() and str() of the tree before and after the call']
    rng = random.Random(seed)
    findings = findings_for(PROP)
    warnings.simplefilter('ignore')
    from mindsdb_sql import parse_sql
    from mindsdb_sql.render.sqlalchemy_render import SqlalchemyRender
    from sqlalchemy.exc import SQLAlchemyError
    try:
        ensure_static()
        R.obligation('Props/C17.v (make)', True)
    except BrokenTie as e:
        R.obligation('static development builds', False)
        R.violation({'broken': e.what, 'detail': e.detail, 'theorem': 'Props/C17.v'}, nofail=True)
        return R.finish()
    shape_broken = None
    try:
        pass_names, convert, names = handlers_from_source()
    except BrokenTie as e:
        # the handler structure is no longer the one the theorem is about: keep exploring for a concrete leak with the
        # structure the theorem assumes, and report the broken tie only if none is found
        shape_broken = e
        pass_names, convert, names = ['SQLAlchemyError', 'NotImplementedError'], True, ['SQLAlchemyError', 'NotImplementedError']
    R.obligation('try / except structure of get_exec_params recognised', shape_broken is None)
    other_ids = {}

    def cls_term(e):
        if isinstance(e, SQLAlchemyError):
            return 'ESqlAlchemy'
        if isinstance(e, NotImplementedError):
            return 'ENotImplemented'
        n = type(e).__name__
        other_ids.setdefault(n, len(other_ids) + 1)
        return f'(EOther {other_ids[n]})'

    def tuple_terms(ns):
        out = []
        for n in ns:
            if n == 'SQLAlchemyError':
                out.append('ESqlAlchemy')
            elif n == 'NotImplementedError':
                out.append('ENotImplemented')
            elif n in ('Exception', 'BaseException'):
                raise BrokenTie(f'an except clause catches {n}: the model has no class hierarchy')
            else:
                other_ids.setdefault(n, len(other_ids) + 1)
                out.append(f'EOther {other_ids[n]}')
        return '[' + '; '.join(out) + ']'
    try:
        pass_t, caught_t = tuple_terms(pass_names), tuple_terms(names)
    except BrokenTie as e:
        R.violation({'broken': e.what, 'theorem': 'C17 correspondence'}, nofail=True)
        return R.finish()
    # ---- corpus
    texts = []
    if replay:
        rp = json.loads(open(replay).read())
        texts = [rp['sql']] if 'sql' in rp else []
        dialects = [rp.get('dialect')] if rp.get('dialect') else DIALECTS
    else:
        dialects = DIALECTS
        texts = list(SHAPES) + list(sqlcorpus.harvest()['mindsdb'])
        import c06
        texts += [c06.gen_statement(rng) for _ in range(60 if tier == 'quick' else 1500)]
        # every type name the renderer itself knows, as a cast and as a column type (compilation of a type can fail where its
        # translation does not), and statements derived from the grammar (every statement kind)
        fixed = list(SHAPES)
        try:
            from mindsdb_sql.render.sqlalchemy_render import SqlalchemyRender as _SR
            tnames = sorted(_SR('mysql').types_map)
        except Exception:
            tnames = []
        if tier == 'quick' and len(tnames) > 60:
            rngt = random.Random(seed)
            tnames = sorted(set(rngt.sample(tnames, 50)) | {'VARBINARY', 'VARCHAR', 'TYPEENGINE', 'TUPLETYPE', 'INT', 'TEXT', 'NUMERIC', 'ARRAY', 'ENUM', 'JSON'} & set(tnames))
        for tn in tnames:
            fixed += [f'select cast(a as {tn.lower()}) from t', f'create table t (a {tn.lower()})', f'create table t (a {tn.lower()}(5))',
                      f'select cast(a as {tn.lower()}(5)) from t', f'select cast(a as {tn.lower()}(10, 2)), cast(b as {tn.lower()}(8, 3)) from t',
                      f'create table t (a {tn.lower()}(10, 2))']
        import gramgen
        try:
            gen = gramgen.statements(rng, 'mindsdb', 150 if tier == 'quick' else 3000)
        except Exception:
            gen = []
        # constants and names holding every character that some dialect treats specially: what comes back is the rendering (or the
        # tree's own string), not a text derived from it
        for ch in ['`', '"', '%', ':', '\\\\', '?', ';', '--', '/*', '[', ']', '$', '{', '}']:
            fixed += [f"select name from tbl where code = 'a{ch}b'", f"select '{ch}' as c, 'x{ch}y{ch}z' from t", f"insert into t (a) values ('{ch}')",
                      f"update t set a = 'p{ch}' where b = '{ch}q'"]
        fixed += ['select `a"b`, `c%d` from `t:u`', "select `x y` as `p q` from t where `x y` = 'r`s'"]
        texts = fixed + texts[len(SHAPES):] + gen
        if tier == 'quick':
            rng2 = random.Random(seed)
            rest = texts[len(fixed):]
            rng2.shuffle(rest)
            texts = fixed + rest[:300]
    rows = []
    stats = {'trees': 0, 'calls': 0, 'rendered': 0, 'own_string': 0, 'raised_without_fallback': {}, 'unparsable': 0}
    leaks, mutations = {}, {}
    content_bad = {}
    for sql in texts:
        try:
            tree0 = parse_sql(sql, 'mindsdb')
        except Exception:
            stats['unparsable'] += 1
            continue
        try:
            before = (tree0.to_tree(), str(tree0))
        except Exception:
            # the tree cannot even be printed (a listed C01 defect of some grammar-derived statements): the contract speaks of
            # "the tree's own SQL string", so there is nothing to judge here
            stats['own_string_unavailable'] = stats.get('own_string_unavailable', 0) + 1
            continue
        stats['trees'] += 1
        for d in dialects:
            outs = []
            for fb in (False, True):
                t = parse_sql(sql, 'mindsdb')       # a fresh tree per call (deepcopy itself fails on very deep trees)
                try:
                    r = SqlalchemyRender(d)
                except Exception as e:
                    outs.append(('init', e))
                    continue
                try:
                    s = r.get_string(t, with_failback=fb)
                    outs.append(('ok', s))
                except Exception as e:
                    outs.append(('exc', e))
                try:
                    after = (t.to_tree(), str(t))
                except Exception as e:
                    after = ('<to_tree raised>', str(e))
                if after != before and (sql, 'mutation') not in mutations:
                    mutations[(sql, 'mutation')] = (d, before[1], after[1])
                # get_exec_params with parameters
                t2 = parse_sql(sql, 'mindsdb')
                try:
                    r.get_exec_params(t2, with_failback=fb, with_params=True)
                except Exception as e:
                    if fb or not isinstance(e, (SQLAlchemyError, NotImplementedError)):
                        leaks.setdefault((type(e).__name__, 'get_exec_params', fb), (sql, d, str(e)[:150]))
            # the translation + compilation themselves, as get_exec_params calls them
            from mindsdb_sql.parser import ast as mast
            from mindsdb_sql.render import sqlalchemy_render as sr
            t3 = parse_sql(sql, 'mindsdb')
            raw_exc = None
            ref_text = None
            try:
                r3 = SqlalchemyRender(d)
                stmt, _p = r3.get_query(t3, with_params=False)
                ref_text = (sr.render_ddl_query if isinstance(t3, (mast.CreateTable, mast.DropTables)) else sr.render_dml_query)(stmt, r3.dialect)
            except Exception as e:
                raw_exc = e
            # content judge (property text: "return either the SQLAlchemy rendering or the tree's own SQL string"): what a call
            # returns is compared with the rendering obtained here step by step, or with str(tree) (for postgres the fallback
            # has always removed back quotes from the tree's own string: accepted for the own string only)
            own = before[1]
            own_ok = {own} | ({own.replace('`', '')} if str(d).lower() in ('postgresql', 'postgres') else set())
            for fb, o in zip((False, True), outs):
                if o[0] != 'ok' or (sql, 'content') in content_bad:
                    continue
                good = (o[1] == ref_text) if ref_text is not None else (fb and o[1] in own_ok)
                if not good and isinstance(ref_text, str) and isinstance(o[1], str):
                    content_bad[(sql, 'content')] = (d, fb, o[1], ref_text, own)
            if any(o[0] == 'init' for o in outs):
                leaks.setdefault((type(outs[0][1]).__name__, 'constructor', None), (sql, d, str(outs[0][1])[:150]))
                continue
            stats['calls'] += 2
            raw = 'None' if raw_exc is None else f'(Some {cls_term(raw_exc)})'
            if raw_exc is not None:
                rn = type(raw_exc).__name__
                stats.setdefault('raised_by_translation', {})[rn] = stats.setdefault('raised_by_translation', {}).get(rn, 0) + 1
            o_nofb = 'Rendered' if outs[0][0] == 'ok' else f'(Raises {cls_term(outs[0][1])})'
            if outs[1][0] == 'ok':
                o_fb = 'Rendered' if outs[0][0] == 'ok' else 'OwnString'
                stats['rendered' if outs[0][0] == 'ok' else 'own_string'] += 1
            else:
                o_fb = f'(Raises {cls_term(outs[1][1])})'
            if outs[0][0] == 'exc':
                n = type(outs[0][1]).__name__
                stats['raised_without_fallback'][n] = stats['raised_without_fallback'].get(n, 0) + 1
                if not isinstance(outs[0][1], (SQLAlchemyError, NotImplementedError)):
                    leaks.setdefault((n, 'get_string', False), (sql, d, str(outs[0][1])[:150]))
            if outs[1][0] == 'exc':
                leaks.setdefault((type(outs[1][1]).__name__, 'get_string', True), (sql, d, str(outs[1][1])[:150]))
            rows.append((sql, d, raw, o_nofb, o_fb))
    # ---- Coq: correspondence of the control flow + contract judge
    lines = ['From Coq Require Import PArith List Bool.', 'From MSV Require Import Model.Fallback.', 'Import ListNotations.',
             'Local Open Scope positive_scope.',
             f'Definition passl : list exc := {pass_t}.', f'Definition convert : bool := {"true" if convert else "false"}.',
             f'Definition caught : list exc := {caught_t}.',
             'Definition cases : list (option exc * out * out) := [',
             ';\n'.join(f' ({raw}, {a}, {b})' for _, _, raw, a, b in rows), '].',
             'Definition bad {A} (f : A -> bool) (l : list A) : list nat :=',
             '  (fix go (i : nat) (l : list A) := match l with [] => [] | x :: r => if f x then go (S i) r else i :: go (S i) r end) O l.',
             "Eval vm_compute in bad (fun c => let '(raw, a, b) := c in out_eqb (get_string passl convert caught false raw) a && out_eqb (get_string passl convert caught true raw) b) cases.",
             "Eval vm_compute in bad (fun c => let '(raw, a, b) := c in allowed_without_fallback a && allowed_with_fallback b) cases."]
    write_if_changed(GEN / 'C17_cases.v', '\n'.join(lines) + '\n')
    rc, out = compile_gen('C17_cases')
    corr_bad, judge_bad = [], []
    if rc != 0:
        R.obligation('Gen/C17_cases.v compiles', False)
        R.violation({'what': 'C17 cases do not compile', 'detail': out[-1200:], 'theorem': 'C17 correspondence'}, nofail=True)
        return R.finish()
    vals = coq_eval_lists(out)
    from common import parse_coq_list
    corr_bad = parse_coq_list(vals[-2])
    judge_bad = parse_coq_list(vals[-1])
    R.obligation(f'control flow: get_string with / without fallback = Model/Fallback.get_string on {len(rows)} (tree, dialect) pairs '
                 f'(handlers read from the source: pass {pass_names}, convert {convert}, caught {names})', not corr_bad)
    inst_ok = pass_names == ['SQLAlchemyError', 'NotImplementedError'] and convert and names == ['SQLAlchemyError', 'NotImplementedError']
    R.obligation('the handler structure read from the source is the instance of Props/C17.v: C17_contract_holds (std, converting)', inst_ok)
    if not inst_ok and not leaks:
        R.violation({'what': 'the try / except structure of get_exec_params is not the one the contract theorem is about',
                     'read_from_source': {'pass': pass_names, 'convert': convert, 'caught': names}, 'theorem': 'Props/C17.v: C17_contract_holds'},
                    nofail=True)
    # ---- leaks and mutations
    for (cls, where, fb), (sql, d, msg) in sorted(leaks.items(), key=str):
        fd = [f for f in findings if f['classifier'].get('kind') == 'leak' and [cls, where] in f['classifier']['sites']]
        if fd:
            R.known_finding(f'{fd[0]["id"]}: {fd[0]["what"]}')
        else:
            R.violation({'sql': sql, 'dialect': d, 'exception': cls, 'call': where, 'with_failback': fb, 'message': msg,
                         'what': 'the renderer raised a class outside its contract (with fallback: anything; without: other than '
                                 'SQLAlchemyError / NotImplementedError)'})
    for (sql, _), (d, b, a) in sorted(mutations.items()):
        fd = [f for f in findings if f['classifier'].get('kind') == 'mutation' and re.search(f['classifier']['pattern'], sql)]
        if fd:
            R.known_finding(f'{fd[0]["id"]}: {fd[0]["what"]}')
        else:
            R.violation({'sql': sql, 'dialect': d, 'tree_before': b[:300], 'tree_after': a[:300], 'what': 'rendering changed the tree it was given'})
    for (sql, _), (d, fb, got, ref, own) in sorted(content_bad.items())[:3]:
        R.violation({'sql': sql, 'dialect': d, 'with_failback': fb, 'returned': got[:400], 'sqlalchemy_rendering': ref[:400], 'own_string': own[:400],
                     'what': "what get_string returns is neither the SQLAlchemy rendering of the tree nor the tree's own SQL string"})
    stats['content_judged_bad'] = len(content_bad)
    if corr_bad and not any(not nf for _, nf in R.violations):
        sql, d, raw, a, b = rows[corr_bad[0]]
        R.violation({'what': f'model of the fallback control flow disagrees with get_string on `{sql}` ({d}): raw {raw}, observed {a} / {b}',
                     'theorem': 'C17 correspondence (Model/Fallback.get_string)'}, nofail=True)
    if shape_broken is not None and not any(not nf for _, nf in R.violations) and not R.violations:
        R.violation({'what': shape_broken.what, 'detail': shape_broken.detail, 'theorem': 'Props/C17.v: C17_contract_holds (instance read from the source)'},
                    nofail=True)
    R.obligation('judge: no class outside the contract escapes, no tree is mutated (except listed findings)',
                 not any(not nf for _, nf in R.violations))
    R.cov['evaluations'] = stats['calls']
    R.cov['distinct_nontrivial'] = stats['trees']
    R.cov['rule'] = ('statements harvested from /repo/tests + generated SELECTs + fixed list of shapes the renderer may not support, each x 7 '
                     'dialect names x with / without fallback x get_string / get_exec_params')
    R.cov['samples'] = [{'sql': s} for s in texts[:3]]
    R.notes['input_distribution'] = stats
    R.notes['handlers'] = {'pass': pass_names, 'convert': convert, 'caught': names}
    return R.finish()
