"""Correspondence of Model/Lex.v (+ generated rule tables) with sly's Lexer.tokenize."""
import itertools
import json
import random
import re

import gen_lexer
from common import GEN, BrokenTie, compile_gen, compile_many, coq_eval_lists, parse_coq_list, write_if_changed
from gen_tables import TranslateError, lexer_class
from sqlcorpus import harvest

ALPHA = ["'", '"', '\\', 'a', '.', ' ', '`', '@', '-', '\n', '1', '*', '/']


def gen_and_compile_lexer(dialect):
    try:
        d = gen_lexer.emit(dialect)
    except TranslateError as e:
        raise BrokenTie(f'translator gen_lexer failed for {dialect}', str(e))
    rc, out = compile_gen('Uenv', timeout=300)
    if rc != 0:
        raise BrokenTie('Gen/Uenv.v does not compile', out[-1000:])
    rc, out = compile_gen(f'Lexer_{dialect}', timeout=300, deps=['Uenv'])
    if rc != 0:
        raise BrokenTie(f'generated lexer table for {dialect} does not compile', out[-2000:])
    return d


def impl_lex(dialect, text, num):
    """-> ('ok', toks) | ('err', index, toks) ; tok = (typenum, value, lexeme, index, end, lineno)"""
    from sly.lex import LexError
    L = lexer_class(dialect)
    lx = L()
    toks = []
    try:
        for t in lx.tokenize(text):
            toks.append((num[t.type], t.value, text[t.index:t.end], t.index, t.end, t.lineno))
        return ('ok', toks)
    except LexError as e:
        return ('err', lx.index, toks)


def nl(s):
    return '[' + '; '.join(str(ord(c)) for c in s) + ']'


def coq_tok(t):
    ty, val, lexeme, idx, end, line = t
    return f'mkLT {ty}%positive {nl(val)} {nl(lexeme)} {idx} {end} {line}'


def coq_res(r):
    if r[0] == 'ok':
        return 'LexOk [' + '; '.join(coq_tok(t) for t in r[1]) + ']'
    return f'LexErr {r[1]} [' + '; '.join(coq_tok(t) for t in r[2]) + ']'


def texts(dialect, rng, tier, extra=()):
    out = list(extra)
    out += harvest()[dialect][:: (3 if tier == 'quick' else 1)]
    maxlen = 3 if tier == 'quick' else 4
    small = ["'", '"', '\\', 'a', '.', ' ', '`', '@', '\n']
    for n in range(0, maxlen + 1):
        for tup in itertools.product(small, repeat=n):
            out.append(''.join(tup))
    nrand = 1500 if tier == 'quick' else 20000
    for _ in range(nrand):
        n = rng.randint(4, 14)
        out.append(''.join(rng.choice(ALPHA) for _ in range(n)))
    # quote-heavy literals embedded in a statement
    for _ in range(nrand // 3):
        n = rng.randint(0, 8)
        body = ''.join(rng.choice(["'", "''", '\\', "\\'", '\\\\', 'a', ' ', '"', '\n', '%']) for _ in range(n))
        out.append(f"select '{body}' from t")
    # unicode
    pools = [chr(c) for c in (0x130, 0x131, 0x17f, 0x212a, 0xe9, 0x4e2d, 0x1f600, 0x660, 0xa0, 0x2028, 0x85, 0x1c)]
    for _ in range(nrand // 5):
        n = rng.randint(1, 8)
        out.append(''.join(rng.choice(pools + ALPHA + ['select', ' ', 'k', 's', 'i', 'K']) for _ in range(n)))
    return list(dict.fromkeys(out))


def run_corr(dialect, cases, name_prefix, shard=300):
    """cases: list of text. -> (rows, mismatching indices).  rows[i] = (text, impl result)"""
    side = json.loads((GEN / f'Tbl_{dialect}.json').read_text())
    num = dict(side['num'])
    rows = []
    for t in cases:
        try:
            rows.append((t, impl_lex(dialect, t, num)))
        except Exception as e:      # an unexpected exception inside the lexer
            rows.append((t, ('exc', type(e).__name__, [])))
    mism = []
    names = []
    for k in range(0, len(rows), shard):
        name = f'{name_prefix}_{dialect}_{k // shard}'
        names.append((k, name))
        lines = ['From Coq Require Import NArith PArith List.',
                 f'From MSV Require Import Lib.PyStr Lib.Re Model.Lex Model.LexCorr Gen.Lexer_{dialect}.',
                 'Import ListNotations.', 'Local Open Scope N_scope.',
                 'Definition cases : list (str * lexres) := [']
        body = []
        for t, r in rows[k:k + shard]:
            body.append(f' ({nl(t)}, {coq_res(r) if r[0] != "exc" else "LexFuel"})')
        lines.append(';\n'.join(body))
        lines.append('].')
        lines.append('Eval vm_compute in lex_mismatches lexer 1 cases.')
        write_if_changed(GEN / f'{name}.v', '\n'.join(lines) + '\n')
    results = compile_many([n for _, n in names], deps=[f'Lexer_{dialect}'])
    for (k, name), (rc, out) in zip(names, results):
        if rc != 0:
            raise BrokenTie(f'lexer correspondence shard {name} does not compile', out[-1500:])
        vals = coq_eval_lists(out)
        for i in parse_coq_list(vals[-1]):
            mism.append(k + i - 1)
    return rows, mism


def model_lex(dialect, text, name='Lex_probe'):
    lines = ['From Coq Require Import NArith PArith List.',
             f'From MSV Require Import Lib.PyStr Lib.Re Model.Lex Gen.Lexer_{dialect}.',
             'Import ListNotations.', 'Local Open Scope N_scope.',
             f'Eval vm_compute in lexer {nl(text)}.']
    write_if_changed(GEN / f'{name}.v', '\n'.join(lines) + '\n')
    rc, out = compile_gen(name, deps=[f'Lexer_{dialect}'])
    v = coq_eval_lists(out)
    return v[-1] if v else out[-500:]


if __name__ == '__main__':
    import sys
    rng = random.Random(0)
    for d in sys.argv[1:] or ['mindsdb', 'mysql', 'sqlite']:
        gen_and_compile_lexer(d)
        cs = texts(d, rng, 'quick')
        rows, mism = run_corr(d, cs, 'LexCorr')
        print(d, len(rows), 'mismatches', len(mism))
        for i in mism[:5]:
            print(repr(rows[i][0]), rows[i][1], model_lex(d, rows[i][0]))
