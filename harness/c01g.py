"""C01 on sentences derived from each dialect's own grammar (harness/gramgen.py): parse -> print -> parse, copy, print again.
A failure is identified by (dialect, kind of failure, statement class, where it shows): the token type at which the printed text
is rejected, the attribute in which the two trees first differ, the token types at which the two strings first differ, or the
raising function.  The listed findings enumerate such keys; any other key is a violation."""
import copy
import re
import traceback

import gramgen


def _site(e):
    tb = traceback.extract_tb(e.__traceback__)
    for fr in reversed(tb):
        if '/mindsdb_sql/' in fr.filename or '/sly/' in fr.filename:
            return f'{fr.filename.rsplit("/", 1)[-1]}:{fr.name}'
    return '?'


def _attr(line):
    m = re.match(r'\s*([A-Za-z_]+)\s*[=(]', line or '')
    return m.group(1) if m else (line or '').strip()[:12]


def _first_diff_lines(a, b):
    la, lb = a.split('\n'), b.split('\n')
    for x, y in zip(la, lb):
        if x != y:
            return x, y
    return (la[len(lb)] if len(la) > len(lb) else ''), (lb[len(la)] if len(lb) > len(la) else '')


def _reject_point(text, dialect):
    """type of the token at which the dialect's parser rejects the text (or the lexer's complaint)"""
    import mindsdb_sql
    from sly.lex import LexError
    lexer, parser = mindsdb_sql.get_lexer_parser(dialect)
    try:
        toks = list(lexer.tokenize(re.sub(r'[\s;]+$', '', text)))
    except LexError as e:
        return 'LexError'
    except Exception as e:
        return type(e).__name__
    try:
        parser.parse(iter(toks))
    except Exception as e:
        m = re.search(r'at token (\w+)', str(e))
        if m:
            return m.group(1)
        return type(e).__name__ + ':' + _site(e)
    info = getattr(parser, 'error_info', None)
    if info:
        bt = info.get('bad_token')
        return bt.type if bt is not None else 'EOF'
    return 'accepted_by_tokens'


def _tok_types(text, dialect):
    import mindsdb_sql
    lexer, _ = mindsdb_sql.get_lexer_parser(dialect)
    try:
        return [t.type for t in lexer.tokenize(text)]
    except Exception:
        return ['<unlexable>']


def failure_key(s, dialect):
    """None if the statement is not accepted or survives the round trip; else (key tuple, details dict)"""
    from mindsdb_sql import parse_sql
    try:
        t1 = parse_sql(s, dialect)
    except Exception:
        return 'rejected', None
    cls = type(t1).__name__
    try:
        s1 = str(t1)
    except Exception as e:
        return (dialect, 'print raises', cls, type(e).__name__, _site(e)), {'sql': s, 'exception': repr(e)[:200]}
    try:
        tc = copy.deepcopy(t1)
        if tc.to_tree() != t1.to_tree() or str(tc) != s1:
            return (dialect, 'copy differs', cls), {'sql': s, 'printed': s1, 'copy_prints': str(tc)}
    except RecursionError:
        pass
    except Exception as e:
        return (dialect, 'copy raises', cls, type(e).__name__, _site(e)), {'sql': s, 'exception': repr(e)[:200]}
    try:
        t2 = parse_sql(s1, dialect)
    except Exception as e:
        return (dialect, 'printed text is rejected', cls, _reject_point(s1, dialect)), {'sql': s, 'printed': s1, 'error': str(e)[:300]}
    try:
        a, b = t1.to_tree(), t2.to_tree()
    except Exception as e:
        return (dialect, 'to_tree raises', cls, type(e).__name__, _site(e)), {'sql': s, 'printed': s1}
    if a != b:
        x, y = _first_diff_lines(a, b)
        return (dialect, 'tree differs', cls, _attr(x), _attr(y)), {'sql': s, 'printed': s1, 'first_difference': [x.strip()[:150], y.strip()[:150]]}
    s2 = str(t2)
    if s2 != s1:
        ta, tb = _tok_types(s1, dialect), _tok_types(s2, dialect)
        i = next((i for i, (p, q) in enumerate(zip(ta, tb)) if p != q), min(len(ta), len(tb)))
        return (dialect, 'string not stable', cls, (ta + ['<end>'])[i], (tb + ['<end>'])[i]), {'sql': s, 'printed': s1, 'printed_again': s2}
    return 'ok', None


def explore(rng, tier, dialects=('mindsdb', 'mysql', 'sqlite')):
    """-> (stats, {key: details})"""
    stats = {}
    fails = {}
    for d in dialects:
        texts = gramgen.covering(rng, d, 2 if tier == 'quick' else 6) + gramgen.statements(rng, d, 300 if tier == 'quick' else 4000)
        n = {'generated': len(texts), 'accepted': 0, 'ok': 0, 'failing': 0}
        for s in texts:
            k, det = failure_key(s, d)
            if k == 'rejected':
                continue
            n['accepted'] += 1
            if k == 'ok':
                n['ok'] += 1
            else:
                n['failing'] += 1
                fails.setdefault(k, det)
        stats[d] = n
    return stats, fails


# ---------------------------------------------------------------- minimal failing sentences
def _lex(text, dialect):
    import mindsdb_sql
    lexer, _ = mindsdb_sql.get_lexer_parser(dialect)
    return [(t.type, text[t.index:t.end]) for t in lexer.tokenize(text)]


def _coarse(key):
    return key[:3] if isinstance(key, tuple) else key


def minimise(s, dialect, key0):
    """delta debugging on the token list: the shortest text (tokens removed in chunks, identifier-like tokens replaced by `a`) that
    is still accepted and still fails in the same way (dialect, kind, class).  -> (text, token types)"""
    want = _coarse(key0)
    try:
        toks = _lex(s, dialect)
    except Exception:
        return s, ['<unlexable>']

    def fails(tk):
        text = ' '.join(x for _, x in tk)
        k, _ = failure_key(text, dialect)
        return isinstance(k, tuple) and _coarse(k) == want
    n = 2
    while len(toks) >= 2:
        size = max(1, len(toks) // n)
        removed = False
        for i in range(0, len(toks), size):
            cand = toks[:i] + toks[i + size:]
            if cand and fails(cand):
                toks = cand
                n = max(n - 1, 2)
                removed = True
                break
        if not removed:
            if size == 1:
                break
            n = min(n * 2, len(toks))
    # rename: every token that can be replaced by a plain identifier / number / string without losing the failure
    plain = {'ID': 'a', 'INTEGER': '1', 'FLOAT': '1', 'QUOTE_STRING': "'s'", 'DQUOTE_STRING': "'s'"}
    for i, (ty, lx) in enumerate(list(toks)):
        for rep_ty, rep in (('ID', 'a'), ('INTEGER', '1'), ('QUOTE_STRING', "'s'")):
            if ty == rep_ty and lx == rep:
                break
            cand = toks[:i] + [(rep_ty, rep)] + toks[i + 1:]
            if fails(cand):
                toks = cand
                break
    text = ' '.join(x for _, x in toks)
    try:
        types = [t for t, _ in _lex(text, dialect)]
    except Exception:
        types = [t for t, _ in toks]
    return text, types


def explore_min(rng, tier, dialects=('mindsdb', 'mysql', 'sqlite')):
    """-> (stats, {shape: (minimal text, key, original sentence, details)}) where shape = (dialect, kind, class, token types of the minimal sentence)"""
    stats, fails = explore(rng, tier, dialects)
    shapes = {}
    for key, det in fails.items():
        text, types = minimise(det['sql'], key[0], key)
        k2, det2 = failure_key(text, key[0])
        shape = (key[0], key[1], key[2], ' '.join(types))
        shapes.setdefault(shape, (text, list(k2) if isinstance(k2, tuple) else k2, det['sql'], det2 or det))
    stats['minimal_failing_shapes'] = len(shapes)
    return stats, shapes
