"""Run the real sly engine (Parser.parse of the dialect's parser class) on token lists and
observe it from outside: reduction trace (by wrapping Production.func), calls of error(),
and how the call ended.  No change to /repo: wrappers live in this process only."""
import contextlib
import io
import random

from sly.lex import Token

from gen_tables import parser_class, lexer_class

TRACE = []
ERRCALLS = []
_WRAPPED = set()


def instrument(dialect):
    P = parser_class(dialect)
    if P in _WRAPPED:
        return P
    for prod in P._grammar.Productions:
        f = prod.func
        if f is None:
            continue

        def mk(f, n):
            def wrapper(self, p):
                TRACE.append(n)
                return f(self, p)
            return wrapper
        prod.func = mk(f, prod.number)
    orig = P.error

    def error(self, token, expected_tokens=None):
        ERRCALLS.append((token, list(expected_tokens or [])))
        return orig(self, token, expected_tokens=expected_tokens)
    P.error = error
    _WRAPPED.add(P)
    return P


def lex(dialect, text):
    L = lexer_class(dialect)
    return list(L().tokenize(text))


def clone_token(t):
    n = Token()
    n.type, n.value, n.lineno, n.index, n.end = t.type, t.value, t.lineno, t.index, t.end
    return n


def make_token(ttype, value=None):
    n = Token()
    n.type = ttype
    n.value = value if value is not None else ttype.lower()
    n.lineno = 1
    n.index = 0
    n.end = 0
    return n


def run_tokens(dialect, tokens, num):
    """-> dict(code, trace (production numbers +1), bad (1 or position+1), expected (symbol numbers))"""
    from mindsdb_sql.exceptions import ParsingException
    P = instrument(dialect)
    parser = P()
    del TRACE[:]
    del ERRCALLS[:]
    pos = {id(t): i + 1 for i, t in enumerate(tokens)}
    exc = None
    try:
        with contextlib.redirect_stderr(io.StringIO()):
            res = parser.parse(iter(tokens))
        code = 1 if res is not None else 2
    except ParsingException as e:
        exc = e
        code = 3 if ERRCALLS and not _raised_in_action(e) else 4
    except RecursionError as e:
        exc = e
        code = 10
    except Exception as e:       # internal error escaping a semantic action or the engine
        exc = e
        code = 5
    trace = [n + 1 for n in TRACE]
    bad, expected = 1, []
    if code in (2, 3) and ERRCALLS:
        tok, exp = ERRCALLS[-1]
        bad = 1 if tok is None else pos.get(id(tok), 0) + 1
        expected = [num[a] for a in exp]
    out = dict(code=code, trace=trace, bad=bad, expected=expected,
               exc=(type(exc).__name__ + ': ' + str(exc)[:200]) if exc else None,
               site=_site(exc) if exc is not None else None,
               ncalls=len(ERRCALLS))
    return out


def _site(e):
    """file:function of the innermost frame of the library (or of sly) the exception passed through"""
    import traceback
    for fr in reversed(traceback.extract_tb(e.__traceback__)):
        if '/mindsdb_sql/' in fr.filename or '/sly/' in fr.filename:
            return f'{fr.filename.split("/")[-1]}:{fr.name}'
    return 'unknown'


def _raised_in_action(e):
    # a ParsingException whose traceback passes through a grammar action (not through error())
    tb = e.__traceback__
    names = []
    while tb is not None:
        names.append(tb.tb_frame.f_code.co_name)
        tb = tb.tb_next
    return 'wrapper' in names
