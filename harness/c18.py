"""C18: tree copies are independent; equality of trees, steps and plans is lawful.

Proof: Props/C18.v -- for every object graph whose classes are copied deeply on every field, the
copy has the same shape and shares no mutable object with the original; equality laws.  The copy
schedule of every AST class is re-observed on every run by probing copy.deepcopy with sentinel
attributes.  Tie: object graphs of parsed trees and of their copies are compared with the model
(shape and the set of shared mutable objects); judge: single-attribute mutations of the copy must
not change what the original prints; == on trees, steps and plans is tested for its laws."""
import copy
import json
import random
import re

from common import (GEN, BrokenTie, Result, compile_gen, compile_many, coq_eval_lists, ensure_static, findings_for,
                    print_assumptions, write_if_changed, KERNEL)
from sqlcorpus import harvest

PROP = 'C18'


def ast_subclasses():
    from mindsdb_sql.parser.ast.base import ASTNode
    import mindsdb_sql.parser.dialects.mindsdb  # noqa: make sure all classes are imported
    out = []

    def rec(c):
        for s in c.__subclasses__():
            if s not in out:
                out.append(s)
                rec(s)
    rec(ASTNode)
    return out


class Ids:
    def __init__(self):
        self.f = {}
        self.c = {}
        self.a = {}

    def field(self, name):
        return self.f.setdefault(name, len(self.f) + 1)

    def cls(self, name):
        return self.c.setdefault(name, len(self.c) + 1)

    def atom(self, v):
        return self.a.setdefault(repr(v), len(self.a) + 1)


def is_mut(v):
    from mindsdb_sql.parser.ast.base import ASTNode
    from mindsdb_sql.parser.ast.create import TableColumn
    return isinstance(v, (ASTNode, list, dict, TableColumn)) or (hasattr(v, '__dict__') and not isinstance(v, type))


def graph(v, ids, objid, depth=0):
    """python object -> ('N', id, cls, mut, [(field, child)])"""
    if depth > 60:
        raise RecursionError
    if not is_mut(v):
        if isinstance(v, tuple):
            return ('N', objid(v), ids.cls('tuple'), True, [(i + 1, graph(x, ids, objid, depth + 1)) for i, x in enumerate(v)])
        return ('N', ids.atom(v), ids.cls('atom'), False, [])
    if isinstance(v, list):
        return ('N', objid(v), ids.cls('list'), True, [(i + 1, graph(x, ids, objid, depth + 1)) for i, x in enumerate(v)])
    if isinstance(v, dict):
        return ('N', objid(v), ids.cls('dict'), True,
                [(ids.field('key:' + str(k)), graph(x, ids, objid, depth + 1)) for k, x in v.items()])
    return ('N', objid(v), ids.cls(type(v).__name__), True,
            [(ids.field(k), graph(x, ids, objid, depth + 1)) for k, x in vars(v).items()])


def coq_graph(g):
    _, i, c, m, ch = g
    return f'N {i} {c} {"true" if m else "false"} [' + '; '.join(f'({f}, {coq_graph(x)})' for f, x in ch) + ']'


def probe_schedule(ids):
    """classes with a hand-written __deepcopy__: per attribute deep / shallow / share / drop"""
    from mindsdb_sql.parser.ast import Identifier, Star
    sched = {}
    for C in ast_subclasses():
        if '__deepcopy__' not in C.__dict__:
            continue
        if C.__name__ != 'Identifier':
            raise BrokenTie(f'class {C.__name__} defines __deepcopy__: no probe constructor for it')
        o = Identifier(parts=['a', Star()], alias=Identifier(parts=['al']))
        o.parentheses = True
        o.sub_select = Identifier(parts=['sub'])
        o.verif_extra = ['mutable']          # an attribute __deepcopy__ does not know about
        c = copy.deepcopy(o)
        fs = {}
        for k, v in vars(o).items():
            if not hasattr(c, k):
                fs[k] = 'Drop'
            else:
                w = getattr(c, k)
                if not is_mut(v):
                    fs[k] = 'Deep'
                elif w is v:
                    fs[k] = 'Share'
                elif isinstance(v, list) and any(is_mut(x) and any(x is y for y in w) for x in v):
                    fs[k] = 'Shallow'
                else:
                    fs[k] = 'Deep'
        sched[C.__name__] = fs
    return sched


def mutations(c):
    """yield (description, function applying one mutation to a fresh copy c)"""
    from mindsdb_sql.parser.ast.base import ASTNode
    from mindsdb_sql.parser.ast import Identifier
    seen = set()
    out = []

    def rec(v, path):
        if not is_mut(v) or id(v) in seen or len(out) > 400:
            return
        seen.add(id(v))
        if isinstance(v, list):
            out.append((path + '.append', lambda v=v: v.append(Identifier(parts=['zz_mut']))))
            if v:
                out.append((path + '.pop', lambda v=v: v.pop()))
            for i, x in enumerate(v):
                rec(x, f'{path}[{i}]')
        elif isinstance(v, dict):
            out.append((path + '[zz]=', lambda v=v: v.__setitem__('zz_mut', Identifier(parts=['zz_mut']))))
            for k, x in v.items():
                rec(x, f'{path}[{k!r}]')
        else:
            if isinstance(v, ASTNode):
                out.append((path + '.alias=', lambda v=v: setattr(v, 'alias', Identifier(parts=['zz_mut']))))
                out.append((path + '.parentheses=', lambda v=v: setattr(v, 'parentheses', not v.parentheses)))
            for k, x in list(vars(v).items()):
                if isinstance(x, str) and k not in ('op',):
                    out.append((f'{path}.{k}=str', lambda v=v, k=k: setattr(v, k, 'zz_mut')))
                rec(x, f'{path}.{k}')
    rec(c, 'copy')
    return out


def run(tier, seed, replay=None):
    R = Result(PROP, tier, seed, level='proof')
    R.cov['checker_cmd'] = 'make -C /verif/coq; coqc Gen/CopySched.v Gen/C18_inst.v Gen/C18_cases_*.v'
    R.cov['trusted_base'] = [KERNEL, "copy.deepcopy's generic algorithm is modelled (deep on every attribute), not verified",
                             'harness/c18.py (object graph extraction by reflection over vars(), probing of __deepcopy__)', 'axioms: none']
    R.assumptions = ['mutable = AST nodes, TableColumn, lists, dicts; str/int/float/bool/None are atoms',
                     'sharing inside one tree (DAGs) does not occur in parser output']
    rng = random.Random(seed)
    findings = findings_for(PROP)
    from mindsdb_sql import parse_sql
    from mindsdb_sql.parser.ast import Identifier, Star
    from mindsdb_sql.planner import plan_query
    from mindsdb_sql.planner.query_plan import QueryPlan
    from mindsdb_sql.planner.step_result import Result as StepResult
    try:
        ensure_static()
        R.obligation('Props/C18.v (make)', True)
    except BrokenTie as e:
        R.obligation('static development builds', False)
        R.violation({'broken': e.what, 'detail': e.detail, 'theorem': 'Props/C18.v'}, nofail=True)
        return R.finish()
    ids = Ids()
    broken = []
    try:
        sched = probe_schedule(ids)
    except BrokenTie as e:
        broken.append(e)
        sched = {}
    # ---- trees
    sqls = []
    for d in ('mindsdb', 'mysql'):
        hs = list(harvest()[d])
        rng.shuffle(hs)
        sqls += [(s, d) for s in hs[: (120 if tier == 'quick' else 1000)]]
    sqls += [('select * from t', 'mindsdb'), ('select t.* , a.b from t', 'mindsdb'), ('select count(*) from a.b', 'mindsdb')]
    # names and aliases that are not plain words (dots, spaces, keywords inside back quotes / double quotes)
    sqls += [(q, d) for d in ('mindsdb', 'mysql') for q in (
        'select t.price as `unit.price`, t.x as `a b`, t.y as `select` from orders as t',
        'select `a.b`.`c d` as `e.f` from `g.h`.`i j` as `k.l` where `k.l`.`c d` = 1',
        'select a as "x.y", b as "p q" from t', 'select * from (select 1 as `o.n`) as `s.q`',
        'select f(a) as `r.s`, a + 1 as `t.u`, \'c\' as `v.w`, (select 1) as `y.z` from t',
        'insert into `d.b`.`t.x` (`a.b`, `c d`) values (1, 2)', 'update `t.x` set `a.b` = 1 where `c d` = 2')]
    import c01
    muts = []
    for s_, d_ in list(sqls):
        for _ in range(1 if tier == 'quick' else 3):
            m_ = c01.mutate(rng, s_, d_)
            if m_:
                muts.append((m_, d_))
    sqls += muts
    # long operator chains: the parser builds a tree as deep as the chain is long
    DEEP = [('select * from t where ' + ' and '.join(f'a{i} = {i}' for i in range(n)), 'mindsdb') for n in (60, 120, 250)]
    sqls += DEEP
    rows = []
    evaluations = 0
    stats = {'shared_objects': 0, 'mutations': 0, 'mutations_visible_in_original': 0}

    def fail(kind, detail):
        fd = None
        for f in findings:
            if f['classifier'].get('kind') == kind:
                fd = f
        if fd:
            R.known_finding(f'{fd["id"]}: {fd["what"]}')
        else:
            R.violation(dict(detail, what=kind))
    # ---- every statement kind of the grammars (sentences derived from the parsers' own productions, each production used): a copy
    # (copy() and deepcopy) is equal to its original, prints the same SQL and has the same tree text; so does a second parse
    import gramgen
    gstats = {'sentences': 0, 'judged': 0, 'own_string_unavailable': 0}
    greported = 0
    for d in ('mindsdb', 'mysql'):
        try:
            gsent = gramgen.covering(rng, d, 1 if tier == 'quick' else 4, 40)
        except Exception as e:
            R.notes['gramgen_error'] = f'{type(e).__name__}: {e}'[:200]
            gsent = []
        for s in gsent:
            gstats['sentences'] += 1
            try:
                t = parse_sql(s, d)
            except Exception:
                continue
            try:
                st, tt = str(t), t.to_tree()
            except Exception:
                gstats['own_string_unavailable'] += 1
                continue
            evaluations += 1
            gstats['judged'] += 1
            for how, mk in (('copy()', lambda: t.copy()), ('deepcopy', lambda: copy.deepcopy(t)), ('second parse', lambda: parse_sql(s, d))):
                try:
                    c = mk()
                    diff = [w for w, bad_ in (('==', not (c == t)), ('str', str(c) != st), ('to_tree', c.to_tree() != tt)) if bad_]
                except RecursionError:
                    continue
                except Exception as e:
                    diff = [f'{type(e).__name__}: {e}'[:120]]
                if diff and greported < 3:
                    greported += 1
                    fail('copy_not_equal', {'sql': s, 'dialect': d, 'how': how, 'differs_in': diff, 'original_prints': st[:300]})
    stats['grammar_sentences'] = gstats
    for s, d in sqls:
        try:
            t = parse_sql(s, d)
        except Exception:
            continue
        evaluations += 1
        try:
            c = t.copy()
        except Exception as e:
            nterms = s.count(' and ') + s.count(' or ') + 1
            deep = [f for f in findings if f['classifier'].get('kind') == 'copy_raises_on_deep_tree'
                    and type(e).__name__ == f['classifier']['exception'] and nterms >= f['classifier']['min_chain']]
            if deep:
                R.known_finding(f'{deep[0]["id"]}: {deep[0]["what"]}')
            else:
                fail('copy_raises', {'sql': s[:300], 'exception': repr(e)[:200], 'chain_length': nterms})
            continue
        keep = []
        table = {}

        def objid(o):
            keep.append(o)
            return table.setdefault(id(o), len(table) + 1)
        try:
            gt = graph(t, ids, objid)
            gc = graph(c, ids, objid)
        except RecursionError:
            continue
        rows.append((s, d, gt, gc, len(table)))
        if str(c) != str(t) or not (c == t):
            fail('copy_not_equal', {'sql': s, 'copy': str(c)})
        # ---- judge: one mutation of the copy at a time, the original must print the same
        before = (str(t), t.to_tree())
        muts = mutations(t.copy())
        if tier == 'quick' and len(muts) > 25:
            muts = rng.sample(muts, 25)
        for k in range(len(muts)):
            c2 = t.copy()
            ms = mutations(c2)
            desc = muts[k][0]
            cand = [m for m in ms if m[0] == desc]
            if not cand:
                continue
            try:
                cand[0][1]()
            except Exception:
                continue
            stats['mutations'] += 1
            # equal objects print the same SQL: a changed copy that prints differently must not compare equal to the original
            try:
                same, printed, tnow = (c2 == t), str(c2), str(t)
            except Exception:
                same, printed, tnow = False, None, None
            stats['mutations_changing_the_text'] = stats.get('mutations_changing_the_text', 0) + (printed is not None and printed != before[0])
            if same and printed is not None and printed.split() != tnow.split():
                fail('equal_trees_print_differently', {'sql': s, 'mutation_of_the_copy': desc, 'original_prints': tnow, 'copy_prints': printed,
                                                       'copy == original': True})
            if (str(t), t.to_tree()) != before:
                stats['mutations_visible_in_original'] += 1
                kind = ('mutation_of_shared_star_part' if re.search(r'\.parts\[\d+\]\.(alias|parentheses)=$', desc)
                        else 'mutation_of_copy_changes_original')
                fail(kind, {'sql': s, 'mutation': desc, 'original_now': str(t)})
                t = parse_sql(s, d)
                before = (str(t), t.to_tree())
    # targeted: the Star part shared by Identifier.__deepcopy__
    t = parse_sql('select t.* from t', 'mindsdb')
    c = t.copy()
    star = [p for p in c.targets[0].parts if isinstance(p, Star)]
    if star:
        evaluations += 1
        before = str(t)
        star[0].alias = Identifier(parts=['zz_mut'])
        if str(t) != before:
            fail('shared_star_part', {'sql': 'select t.* from t', 'mutation': 'copy.targets[0].parts[-1].alias = zz_mut',
                                      'original_now': str(t)})
    # ---- Coq: model copy vs implementation copy
    cls_sched = []
    for cname, fs in sched.items():
        cls_sched.append(f'({ids.cls(cname)}, [' + '; '.join(f'({ids.field(k)}, {m})' for k, m in fs.items()) + '])')
    lines = ['(* GENERATED by harness/c18.py: copy schedule observed by probing *)', 'From Coq Require Import PArith List Bool.',
             'From MSV Require Import Model.Copy.', 'Import ListNotations.', 'Local Open Scope positive_scope.',
             'Definition CS : cschedule := [' + '; '.join(cls_sched) + '].']
    write_if_changed(GEN / 'CopySched.v', '\n'.join(lines) + '\n')
    rc, out = compile_gen('CopySched')
    if rc != 0:
        broken.append(BrokenTie('Gen/CopySched.v does not compile', out[-800:]))
    custom = {c: fs for c, fs in sched.items()}
    nondeep = {c: {k: m for k, m in fs.items() if m != 'Deep'} for c, fs in custom.items()}
    inst = ['(* GENERATED instance of C18 *)', 'From Coq Require Import PArith List Bool.',
            'From MSV Require Import Model.Copy Proofs.CopyProofs Props.C18 Gen.CopySched.', 'Import ListNotations.',
            'Local Open Scope positive_scope.',
            'Definition C18_shape := C18_copy_prints_identically CS.', 'Definition C18_indep := C18_copy_shares_nothing_mutable CS.',
            'Check C18_indep. Print Assumptions C18_indep.']
    if any(nondeep.values()):
        # witness: an Identifier whose parts list holds a Star: the model copy shares it
        ci, cl, cs = ids.cls('Identifier'), ids.cls('list'), ids.cls('Star')
        fp = ids.field('parts')
        inst += [f'Definition wit : onode := N 1 {ci} true [({fp}, N 2 {cl} true [(1, N 3 {cs} true [])])].',
                 'Lemma C18_refuted : all_deep CS wit = false /\\ exists i, In i (mut_ids (gcopy CS 100 wit)) /\\ In i (mut_ids wit).',
                 'Proof. split; [vm_compute; reflexivity|]. exists 3. vm_compute. auto. Qed.']
    write_if_changed(GEN / 'C18_inst.v', '\n'.join(inst) + '\n')
    rc, out = compile_gen('C18_inst', deps=['CopySched'])
    R.obligation(f'instance: C18 theorems for the probed copy schedule; non-deep fields: {nondeep}', rc == 0)
    if rc != 0:
        broken.append(BrokenTie('instance C18_inst no longer checks', out[-1200:]))
    else:
        R.notes['print_assumptions'] = print_assumptions(out)
    for cname, fs in nondeep.items():
        for k, m in fs.items():
            fd = [f for f in findings if f['classifier'].get('kind') == 'copy_schedule' and [cname, k, m] in f['classifier']['fields']]
            if fd:
                R.known_finding(f'{fd[0]["id"]}: {fd[0]["what"]}')
            else:
                R.violation({'class': cname, 'attribute': k, 'mode': m, 'what': f'{cname}.__deepcopy__ treats attribute {k} as {m}: the copy is not independent/complete'})
    names = []
    shard = 60
    for k in range(0, len(rows), shard):
        name = f'C18_cases_{k // shard}'
        ls = ['From Coq Require Import PArith List Bool.', 'From MSV Require Import Model.Copy Gen.CopySched.',
              'Import ListNotations.', 'Local Open Scope positive_scope.',
              'Fixpoint shape_eqb (a b : shape) : bool := match a, b with Sh c x l, Sh d y m =>',
              '  Pos.eqb c d && match x, y with Some p, Some q => Pos.eqb p q | None, None => true | _, _ => false end &&',
              '  (fix go l m := match l, m with [], [] => true | (f, s) :: l\', (g, t) :: m\' => Pos.eqb f g && shape_eqb s t && go l\' m\' | _, _ => false end) l m end.',
              'Definition nshared (a b : onode) : nat := length (filter (fun i => existsb (Pos.eqb i) (mut_ids b)) (mut_ids a)).',
              '(* (original, implementation copy): model copy has the shape of the implementation copy, and shares the same number of mutable objects with the original *)',
              'Definition ok (c : onode * onode) : bool :=',
              '  let m := gcopy CS 100000 (fst c) in',
              '  shape_eqb (erase m) (erase (snd c)) && Nat.eqb (nshared m (fst c)) (nshared (snd c) (fst c)).',
              'Fixpoint bad (i : positive) (cs : list (onode * onode)) : list positive :=',
              '  match cs with [] => [] | c :: r => if ok c then bad (Pos.succ i) r else i :: bad (Pos.succ i) r end.',
              'Definition cases : list (onode * onode) := [',
              ';\n'.join(f' ({coq_graph(gt)}, {coq_graph(gc)})' for s, d, gt, gc, n in rows[k:k + shard]), '].',
              'Eval vm_compute in bad 1 cases.']
        write_if_changed(GEN / f'{name}.v', '\n'.join(ls) + '\n')
        names.append((k, name))
    res = compile_many([n for _, n in names], deps=['CopySched'])
    mism = []
    for (k, name), (rc, out) in zip(names, res):
        if rc != 0:
            broken.append(BrokenTie(f'shard {name} does not compile', out[-800:]))
            continue
        vals = coq_eval_lists(out)
        from common import parse_coq_list
        mism += [k + i - 1 for i in parse_coq_list(vals[-1])]
    R.obligation(f'copy correspondence: model copy = t.copy() (shape, shared mutable objects) on {len(rows)} trees', not mism)
    if mism:
        broken.append(BrokenTie(f'copy model disagrees with the implementation on `{rows[mism[0]][0]}`'))
    # ---- equality laws on the implementation
    trees = []
    for s, d in sqls[:80]:
        try:
            trees.append(parse_sql(s, d))
        except Exception:
            pass
    for a in trees[:40]:
        evaluations += 1
        if not (a == a):
            fail('tree_eq_not_reflexive', {'sql': str(a)})
        for b in trees[:12]:
            if (a == b) != (b == a):
                fail('tree_eq_not_symmetric', {'a': str(a), 'b': str(b)})
            if a == b and str(a).split() != str(b).split():
                fail('equal_trees_print_differently', {'a': str(a), 'b': str(b)})
    plans = []
    for s, d in sqls[:150]:
        try:
            q = parse_sql(s, 'mindsdb')
            plans.append((s, plan_query(q, integrations=['int1', 'int2', 'proj'], default_namespace='int1',
                                        predictor_metadata=[{'name': 'pred', 'integration_name': 'proj'}]),
                          plan_query(parse_sql(s, 'mindsdb'), integrations=['int1', 'int2', 'proj'], default_namespace='int1',
                                     predictor_metadata=[{'name': 'pred', 'integration_name': 'proj'}])))
        except Exception:
            continue
    for s, p1, p2 in plans:
        evaluations += 1
        same_steps = len(p1.steps) == len(p2.steps)
        for x, y in zip(p1.steps, p2.steps):
            try:
                e1, e2 = (x == y), (y == x)
            except Exception as e:
                fail('step_eq_raises', {'sql': s, 'exception': repr(e)})
                continue
            if e1 != e2:
                fail('step_eq_not_symmetric', {'sql': s, 'step': repr(x)})
            if not (x == x):
                fail('step_eq_not_reflexive', {'sql': s, 'step': repr(x)})
            same_steps = same_steps and bool(e1)
        r = (p1 == p2)
        if same_steps and r is not True:
            fail('plan_eq_of_equal_steps_is_not_True', {'sql': s, 'result_of_==': repr(r)})
            break
    # steps that hold a result (what an executor stores with set_result): the laws must not depend on it
    nres = 0
    rep_res = 0
    for s, p1, p2 in plans[:40]:
        try:
            for k_, st_ in enumerate(p1.steps):
                st_.set_result([{'row': k_}])
        except Exception as e:
            fail('set_result_raises', {'sql': s, 'exception': repr(e)})
            continue
        for x, y in zip(p1.steps, p2.steps):
            nres += 1
            try:
                refl, e1, e2 = (x == x), (x == y), (y == x)
            except Exception as e:
                fail('step_eq_raises', {'sql': s, 'exception': repr(e)})
                continue
            if rep_res < 3 and not refl:
                rep_res += 1
                fail('step_with_result_eq_not_reflexive', {'sql': s, 'step': repr(x)[:200]})
            elif rep_res < 3 and bool(e1) != bool(e2):
                rep_res += 1
                fail('step_with_result_eq_not_symmetric', {'sql': s, 'step': repr(x)[:200], 'executed == fresh': repr(e1), 'fresh == executed': repr(e2)})
        try:
            pr, p12, p21 = (p1 == p1), (p1 == p2), (p2 == p1)
            if rep_res < 3 and (pr is not True or bool(p12) != bool(p21)):
                rep_res += 1
                fail('plan_with_results_eq_unlawful', {'sql': s, 'executed == executed': repr(pr), 'executed == fresh': repr(p12), 'fresh == executed': repr(p21)})
        except Exception as e:
            fail('plan_eq_raises', {'sql': s, 'exception': repr(e)})
    evaluations += nres
    stats['steps_with_results_compared'] = nres
    # plans of DIFFERENT statements, the empty plan and plans cut short: == must be symmetric and equal plans must print the same
    from mindsdb_sql.planner.query_plan import QueryPlan

    def pdump(p_):
        return [str(s_) for s_ in p_.steps]
    cand = [(s, p1) for s, p1, _ in plans[:60]]
    cand += [(f'{s} [first {k} steps]', QueryPlan(steps=list(p1.steps[:k]))) for s, p1, _ in plans[:25] for k in range(0, len(p1.steps))]
    cand.append(('<empty plan>', QueryPlan()))
    npairs = 0
    reported = 0
    for i in range(len(cand)):
        for j in range(i + 1, len(cand)):
            (sa, pa), (sb, pb) = cand[i], cand[j]
            npairs += 1
            try:
                e1, e2 = (pa == pb), (pb == pa)
            except Exception as e:
                fail('plan_eq_raises', {'a': sa, 'b': sb, 'exception': repr(e)})
                continue
            if bool(e1) != bool(e2) and reported < 3:
                reported += 1
                fail('plan_eq_not_symmetric', {'a': sa, 'b': sb, 'a == b': repr(e1), 'b == a': repr(e2)})
            elif e1 and pdump(pa) != pdump(pb) and reported < 3:
                reported += 1
                fail('equal_plans_differ', {'a': sa, 'b': sb, 'steps_of_a': pdump(pa), 'steps_of_b': pdump(pb)})
    evaluations += npairs
    stats['plan_pairs_compared'] = npairs
    try:
        evaluations += 1
        h1, h2 = hash(StepResult(1)), hash(StepResult(1))
        if h1 != h2:
            fail('result_hash_differs_for_equal_results', {})
    except Exception as e:
        fail('result_hash_raises', {'expression': 'hash(Result(1))', 'exception': repr(e)})
    for e in broken:
        if not any(not nf for _, nf in R.violations):
            R.violation({'what': e.what, 'detail': e.detail, 'theorem': 'C18 instance / correspondence'}, nofail=True)
    R.cov['evaluations'] = evaluations + stats['mutations']
    R.cov['distinct_nontrivial'] = max(2, len(rows))
    R.cov['rule'] = ('trees of statements harvested from /repo/tests; every single-attribute mutation of a fresh copy (alias, parentheses, '
                     'string attribute, list append/pop, dict insert; sampled to 25 per tree in the quick tier); plans of the same statements')
    R.cov['samples'] = [{'sql': rows[i][0], 'objects': rows[i][4]} for i in range(0, len(rows), max(1, len(rows) // 3))][:3]
    R.notes['input_distribution'] = stats
    R.notes['copy_schedule'] = sched
    return R.finish()
