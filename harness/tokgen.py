"""Token-level input generator shared by the parser checks (C05, C02, C19).
Every random choice comes from the one `rng` passed in."""
import json

from common import GEN
from implparse import lex, clone_token, make_token
from sqlcorpus import harvest

SYN_VALUES = {'INTEGER': '1', 'FLOAT': '1.5', 'ID': 'x', 'QUOTE_STRING': "'s'", 'DQUOTE_STRING': '"s"',
              'VARIABLE': '@v', 'SYSTEM_VARIABLE': '@@v', 'PARAMETER': '?'}

KINDS = ['valid', 'delete', 'dup', 'replace', 'insert', 'prefix', 'suffix', 'infix', 'concat', 'concat_semi',
         'truncate', 'soup', 'swap', 'ml_prefix', 'ml_concat']


def side(dialect):
    return json.loads((GEN / f'Tbl_{dialect}.json').read_text())


def terminals(dialect):
    s = side(dialect)
    nterm = s['nterms']
    names = [k for k, v in sorted(s['num'].items(), key=lambda kv: kv[1]) if 3 <= v < 3 + nterm]
    return names


def synth(ttype):
    return make_token(ttype, SYN_VALUES.get(ttype, ttype))


def base_token_lists(dialect):
    import re
    out = []
    for s in harvest()[dialect]:
        try:
            toks = lex(dialect, re.sub(r'[\s;]+$', '', s))
        except Exception:
            continue
        if toks:
            out.append((s, toks))
    return out


def gen_cases(dialect, rng, n, kinds=None, weights=None):
    kinds = kinds or KINDS
    bases = base_token_lists(dialect)
    terms = terminals(dialect)
    common_terms = [t for t in ('ID', 'INTEGER', 'COMMA', 'LPAREN', 'RPAREN', 'SELECT', 'FROM', 'WHERE', 'AND',
                                'EQUALS', 'STAR', 'DOT', 'QUOTE_STRING', 'SEMICOLON', 'JOIN', 'ON', 'AS', 'MINUS',
                                'NOT', 'IN', 'BETWEEN', 'CREATE', 'USING') if t in terms]
    cases = []

    def rterm():
        return rng.choice(common_terms) if rng.random() < 0.6 else rng.choice(terms)

    for i in range(n):
        kind = rng.choices(kinds, weights=weights)[0] if weights else kinds[i % len(kinds)]
        src, base = rng.choice(bases)
        toks = [clone_token(t) for t in base]
        desc = {'kind': kind, 'base': src}
        if kind == 'valid':
            pass
        elif kind == 'delete':
            j = rng.randrange(len(toks))
            desc['at'] = j
            del toks[j]
        elif kind == 'dup':
            j = rng.randrange(len(toks))
            desc['at'] = j
            toks.insert(j, clone_token(toks[j]))
        elif kind == 'replace':
            j = rng.randrange(len(toks))
            t = rterm()
            desc.update(at=j, tok=t)
            toks[j] = synth(t)
        elif kind == 'insert':
            j = rng.randrange(len(toks) + 1)
            t = rterm()
            desc.update(at=j, tok=t)
            toks.insert(j, synth(t))
        elif kind in ('prefix', 'suffix', 'infix'):
            k = rng.randint(1, 4)
            garbage = [synth(rterm()) for _ in range(k)]
            if rng.random() < 0.5 and 'SEMICOLON' in terms:
                if kind == 'prefix':
                    garbage.append(synth('SEMICOLON'))
                elif kind == 'suffix':
                    garbage.insert(0, synth('SEMICOLON'))
            desc['garbage'] = [g.type for g in garbage]
            if kind == 'prefix':
                toks = garbage + toks
            elif kind == 'suffix':
                toks = toks + garbage
            else:
                j = rng.randrange(len(toks) + 1)
                desc['at'] = j
                toks = toks[:j] + garbage + toks[j:]
        elif kind in ('concat', 'concat_semi'):
            src2, base2 = rng.choice(bases)
            desc['base2'] = src2
            mid = [synth('SEMICOLON')] if (kind == 'concat_semi' and 'SEMICOLON' in terms) else []
            toks = toks + mid + [clone_token(t) for t in base2]
        elif kind in ('ml_prefix', 'ml_concat'):
            # several lines: garbage (or a broken statement) on the first line, then further lines that hold one
            # more token and a complete statement
            src2, base2 = rng.choice(bases)
            first = [synth(rterm()) for _ in range(rng.randint(1, 3))] if kind == 'ml_prefix' else toks[:max(1, len(toks) - rng.randint(1, 3))] + [synth(rterm())]
            second = [synth(rterm())] + [clone_token(t) for t in base2]
            if rng.random() < 0.5:
                second = [synth(rterm())] + second
            for t in first:
                t.lineno = 1
            for t in second:
                t.lineno = 2 if rng.random() < 0.7 else 3
            second.sort(key=lambda t: t.lineno)
            toks = first + second
            desc['base2'] = src2
        elif kind == 'truncate':
            j = rng.randrange(len(toks))
            desc['at'] = j
            toks = toks[:j]
        elif kind == 'soup':
            k = rng.randint(1, 12)
            toks = [synth(rterm()) for _ in range(k)]
        elif kind == 'swap':
            if len(toks) >= 2:
                j = rng.randrange(len(toks) - 1)
                desc['at'] = j
                toks[j], toks[j + 1] = toks[j + 1], toks[j]
        cases.append((desc, toks))
    return cases


def tokens_text(toks):
    """A text whose lexing gives (approximately) these tokens: lexemes joined by blanks."""
    return ' '.join(str(t.value) for t in toks)
