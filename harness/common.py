"""Shared plumbing for the /verif checks (paths, Coq invocation, evidence, findings)."""
import fcntl
import hashlib
import json
import os
import re
import subprocess
import sys
import time
from pathlib import Path

VERIF = Path('/verif')
REPO = Path('/repo')
COQ = VERIF / 'coq'
GEN = COQ / 'Gen'
EVID = VERIF / 'evidence'
REPLAYS = VERIF / 'replays'
SCRATCH = VERIF / '.scratch'
for _d in (GEN, EVID, REPLAYS, SCRATCH):
    _d.mkdir(parents=True, exist_ok=True)

COQ_FLAGS = ['-Q', str(COQ), 'MSV']
KERNEL = 'Coq 8.16.1 kernel + vm_compute (no native_compute)'


class BrokenTie(Exception):
    """translator / generated instance / Coq build no longer checks"""
    def __init__(self, what, detail=''):
        super().__init__(what)
        self.what = what
        self.detail = detail


def write_if_changed(path, text):
    path = Path(path)
    if path.exists() and path.read_text() == text:
        return False
    path.parent.mkdir(parents=True, exist_ok=True)
    path.write_text(text)
    return True


class Lock:
    def __init__(self, name='build'):
        self.path = COQ / f'.{name}.lock'

    def __enter__(self):
        self.f = open(self.path, 'w')
        fcntl.flock(self.f, fcntl.LOCK_EX)
        return self

    def __exit__(self, *a):
        fcntl.flock(self.f, fcntl.LOCK_UN)
        self.f.close()


def ensure_static(timeout=1500):
    """Build the table-independent Coq development (Lib/Model/Spec/Proofs/Props)."""
    with Lock():
        if not (COQ / 'Makefile').exists():
            subprocess.run(['coq_makefile', '-f', '_CoqProject', '-o', 'Makefile'], cwd=COQ, check=True,
                           stdout=subprocess.DEVNULL, stderr=subprocess.DEVNULL)
        r = subprocess.run(['timeout', str(timeout), 'make', '-j8'], cwd=COQ, capture_output=True, text=True)
        if r.returncode != 0:
            raise BrokenTie('static Coq development does not build', (r.stdout + r.stderr)[-3000:])
        return r.stdout


def coqc(vfile, timeout=900, mem_unlimited_stack=True):
    """Compile one file under Gen/ (full .vo).  Returns (rc, stdout+stderr)."""
    vfile = Path(vfile)
    cmd = ['timeout', str(timeout), 'coqc'] + COQ_FLAGS + [str(vfile)]
    if mem_unlimited_stack:
        cmd = ['bash', '-c', 'ulimit -s unlimited 2>/dev/null; exec "$@"', '--'] + cmd
    r = subprocess.run(cmd, cwd=COQ, capture_output=True, text=True)
    return r.returncode, r.stdout + r.stderr


def _static_stamp():
    # newest .vo among the static files: a Gen file compiled before that must be redone
    m = 0.0
    for sub in ('Lib', 'Model', 'Spec', 'Proofs', 'Props'):
        for f in (COQ / sub).glob('*.vo'):
            m = max(m, f.stat().st_mtime)
    return m


def compile_gen(name, timeout=900, deps=()):
    """Compile Gen/<name>.v unless an up-to-date .vo exists (content hash + static stamp +
    deps).  Serialised by a per-file lock so that concurrent checks share the result."""
    v = GEN / f'{name}.v'
    vo = GEN / f'{name}.vo'
    hfile = GEN / f'{name}.hash'
    with Lock('gen_' + name):
        h = hashlib.sha256(v.read_bytes())
        for d in deps:
            hf = GEN / f'{d}.hash'
            h.update(hf.read_bytes() if hf.exists() else b'?')
        h.update(str(_static_stamp()).encode())
        hx = h.hexdigest()
        ofile = GEN / f'{name}.out'
        if vo.exists() and hfile.exists() and hfile.read_text() == hx and ofile.exists():
            return 0, ofile.read_text()
        if hfile.exists():
            hfile.unlink()
        rc, out = coqc(v, timeout)
        if rc == 0:
            ofile.write_text(out)
            hfile.write_text(hx)
        return rc, out


def compile_many(names, timeout=900, deps=(), workers=8):
    """compile several Gen files in parallel; -> list of (rc, out) in order"""
    from concurrent.futures import ThreadPoolExecutor
    with ThreadPoolExecutor(max_workers=workers) as ex:
        return list(ex.map(lambda n: compile_gen(n, timeout, deps), names))


def coq_eval_lists(out):
    """Extract the printed values of `Eval vm_compute` commands: list of strings (one per
    '= ... : type' block), whitespace-normalised."""
    res = []
    for m in re.finditer(r'^\s*= (.*?)\n\s*: ', out, re.S | re.M):
        res.append(re.sub(r'%(positive|N|Z|nat)\b', '', ' '.join(m.group(1).split())).replace('( ', '(').replace(' )', ')'))
    return res


def parse_coq_list(s):
    """'[1; 2; 3]' or '[]' -> python list of ints (handles %positive etc. suffixes)."""
    s = s.strip()
    s = re.sub(r'%\w+', '', s)
    if s in ('[]', 'nil'):
        return []
    assert s[0] == '[' and s[-1] == ']', s[:200]
    return [int(x) for x in s[1:-1].split(';') if x.strip()]


def print_assumptions(out):
    """Summarise `Print Assumptions` output blocks found in coqc output."""
    res = []
    for m in re.finditer(r'(Closed under the global context|Axioms:\n(?:.+\n?)+)', out):
        res.append(re.sub(r'%(positive|N|Z|nat)\b', '', ' '.join(m.group(1).split())).replace('( ', '(').replace(' )', ')'))
    return res


# ---------------------------------------------------------------- known findings
def load_findings():
    p = VERIF / 'known_findings.json'
    if not p.exists():
        return []
    return json.loads(p.read_text()).get('findings', [])


def findings_for(prop):
    return [f for f in load_findings() if f.get('property') == prop and f.get('status', 'open') == 'open']


# ---------------------------------------------------------------- result object
class Result:
    def __init__(self, prop, tier, seed, level='proof'):
        self.replay_mode = False
        self.prop = prop
        self.tier = tier
        self.seed = seed
        self.level = level
        self.t0 = time.time()
        self.violations = []      # (replay_path, nofail)
        self.known = []           # strings
        self.cov = dict(obligations=0, discharged=0, checker_cmd='', trusted_base=[],
                        evaluations=0, distinct_nontrivial=0, rule='', samples=[])
        self.assumptions = []
        self.notes = {}
        for f in REPLAYS.glob(f'{prop}_{tier}_{seed}_*.json'):
            f.unlink()

    def obligation(self, name, ok):
        self.cov['obligations'] += 1
        if ok:
            self.cov['discharged'] += 1
        self.cov.setdefault('obligation_list', []).append({'name': name, 'ok': bool(ok)})

    def known_finding(self, text):
        if text not in self.known:
            self.known.append(text)

    def violation(self, replay_obj, nofail=False, name=None):
        n = len(self.violations)
        name = name or f'{self.prop}_{self.tier}_{self.seed}_{n}'
        path = REPLAYS / f'{name}.json'
        replay_obj = dict(replay_obj)
        replay_obj.setdefault('property', self.prop)
        replay_obj.setdefault('seed', self.seed)
        path.write_text(json.dumps(replay_obj, indent=1, default=str))
        self.violations.append((str(path), nofail))

    def finish(self):
        for k in self.known:
            print(f'KNOWN-FINDING: property={self.prop} {k}')
        for path, nofail in self.violations:
            print(f'VIOLATION property={self.prop} replay={path}' + (' no-failing-input-found' if nofail else ''))
        ev = dict(property_id=self.prop, tier=self.tier, seed=self.seed, level=self.level,
                  coverage=self.cov, assumptions=self.assumptions,
                  wall_s=round(time.time() - self.t0, 2), violations=len(self.violations))
        ev['coverage']['known_findings_reported'] = list(self.known)
        ev['coverage'].update(self.notes)
        # a --replay run re-checks one recorded input: it must not overwrite the evidence of a full run
        target = EVID / (f'{self.prop}.replay.json' if self.replay_mode else f'{self.prop}.json')
        target.write_text(json.dumps(ev, indent=1, default=str))
        sys.stdout.flush()
        return 1 if self.violations else 0


def grep_forbidden():
    """No Admitted/admit/Axiom/... anywhere in the development (static part)."""
    bad = []
    pat = re.compile(r'\b(Admitted|admit|Axiom|Axioms|Parameter|Parameters|Conjecture|Hypothesis|Variable|'
                     r'Unset Guard Checking|bypass_check|Admit Obligations|type-in-type)\b')
    for f in COQ.rglob('*.v'):
        if '/Gen/' in str(f):
            continue
        txt = re.sub(r'\(\*.*?\*\)', '', f.read_text(), flags=re.S)
        insec = 0
        for i, line in enumerate(txt.split('\n')):
            if re.match(r'\s*Section\b', line):
                insec += 1
            if re.match(r'\s*End\b', line) and insec:
                insec -= 1
            for m in pat.finditer(line):
                w = m.group(1)
                if w in ('Variable', 'Hypothesis') and insec:
                    continue
                bad.append(f'{f}:{i + 1}:{w}')
    return bad
