"""Generator of planner inputs (statement x catalog) shared by the planner checks
(C08, C09, C10, C11, C14).  Every random choice comes from the rng passed in."""
import copy
import itertools

TABLES = {'int1': ['t1', 'u1'], 'int2': ['t2', 'u2'], 'int3': ['t3']}
COLS = ['a', 'b', 'c']


def catalogs():
    """-> list of (name, kwargs for plan_query / QueryPlanner)"""
    # pred3: the target is given as a plain string whose name contains the names of other columns (b, c)
    preds_list = [{'name': 'pred', 'integration_name': 'proj'}, {'name': 'pred2', 'integration_name': 'proj', 'to_predict': ['c']},
                  {'name': 'pred3', 'integration_name': 'proj', 'to_predict': 'bc'}]
    preds_legacy = {'pred': {'integration_name': 'proj'}, 'pred2': {'integration_name': 'proj', 'to_predict': 'c'},
                    'pred3': {'integration_name': 'proj', 'to_predict': 'bc'}}
    return [
        ('names', dict(integrations=['int1', 'int2', 'int3', 'proj'], predictor_metadata=copy.deepcopy(preds_list))),
        ('dicts', dict(integrations=[{'name': 'int1', 'class_type': 'sql', 'type': 'data'},
                                     {'name': 'int2', 'class_type': 'sql', 'type': 'data'},
                                     {'name': 'int3', 'class_type': 'sql', 'type': 'data'},
                                     {'name': 'proj', 'class_type': 'project', 'type': 'project'}],
                       predictor_metadata=copy.deepcopy(preds_list))),
        ('legacy', dict(integrations=['int1', 'int2', 'int3', 'proj'], predictor_metadata=copy.deepcopy(preds_legacy))),
        ('default_ns', dict(integrations=['int1', 'int2', 'int3', 'proj'], predictor_metadata=copy.deepcopy(preds_list),
                            default_namespace='int1')),
        ('api', dict(integrations=[{'name': 'int1', 'class_type': 'api', 'type': 'data'}, 'int2', 'int3', 'proj'],
                     predictor_metadata=copy.deepcopy(preds_list))),
    ]


def tref(rng, integ=None, spell=None):
    integ = integ or rng.choice(list(TABLES))
    t = rng.choice(TABLES[integ])
    q = integ
    if spell == 'upper':
        q = integ.upper()
    elif spell == 'title':
        q = integ.title()
    return f'{q}.{t}', t


def cond(rng, aliases, depth=0):
    """boolean expression over columns of the given aliases"""
    r = rng.random()
    if depth < 2 and r < 0.25:
        return f'{cond(rng, aliases, depth + 1)} and {cond(rng, aliases, depth + 1)}'
    if depth < 2 and r < 0.35:
        return f'({cond(rng, aliases, depth + 1)} or {cond(rng, aliases, depth + 1)})'
    if depth < 2 and r < 0.42:
        return f'not {cond(rng, aliases, depth + 1)}'
    a = rng.choice(aliases)
    c = rng.choice(COLS)
    k = rng.random()
    if k < 0.5:
        return f'{a}.{c} {rng.choice(["=", ">", "<", "!="])} {rng.randint(0, 3)}'
    if k < 0.65:
        return f'{a}.{c} between {rng.randint(0, 1)} and {rng.randint(2, 3)}'
    if k < 0.8:
        return f"{a}.{c} = '{rng.choice('xyz')}'"
    if k < 0.9 and len(set(aliases)) > 1:
        b = rng.choice([x for x in aliases if x != a])
        return f'{a}.{c} = {b}.{rng.choice(COLS)}'
    return f'{a}.{c} in ({rng.randint(0, 2)}, {rng.randint(1, 3)})'


def gen_select(rng, features):
    """-> (sql, meta).  features: set of strings that switch shapes on"""
    meta = {'kind': 'select'}
    njoin = rng.choice([0, 0, 1, 1, 2]) if 'join' in features else 0
    use_model = 'model' in features and rng.random() < 0.6
    spell = rng.choice([None, None, 'upper']) if 'spelling' in features else None
    tabs = []
    integs = list(TABLES)
    single = 'single_integration' in features
    one = rng.choice(integs)
    for i in range(njoin + 1):
        ig = one if single else rng.choice(integs)
        name, t = tref(rng, ig, spell)
        alias = f'x{i}' if (rng.random() < 0.6 or t in [a for _, a, _, _ in tabs]) else None
        tabs.append((name, alias or t, alias, ig))
    aliases = [a for _, a, _, _ in tabs]
    frm = tabs[0][0] + (f' as {tabs[0][2]}' if tabs[0][2] else '')
    jt = ['join', 'left join', 'inner join', 'right join', 'full join']
    meta['join_types'] = []
    for i in range(1, len(tabs)):
        j = rng.choice(jt if 'outer' in features else jt[:3])
        meta['join_types'].append(j)
        on = f'{aliases[i - 1]}.a = {aliases[i]}.a'
        if rng.random() < 0.3:
            on += f' and {aliases[i]}.b = {rng.randint(0, 2)}'
        frm += f' {j} {tabs[i][0]}' + (f' as {tabs[i][2]}' if tabs[i][2] else '') + f' on {on}'
    if use_model:
        m = rng.choice(['proj.pred', 'proj.pred2', 'proj.pred.3', 'PROJ.pred'] if spell else ['proj.pred', 'proj.pred2', 'proj.pred.3'])
        frm += f' join {m} as m'
        meta['model'] = m
        meta['model2'] = None
        if rng.random() < 0.3:
            m2 = rng.choice(['proj.pred2', 'proj.pred'])
            frm += f' join {m2} as m2'
            meta['model2'] = m2
        if rng.random() < 0.4 and len(tabs) < 3 and 'join' in features:
            name, t = tref(rng, rng.choice(integs))
            frm += f' join {name} as z on z.a = {aliases[0]}.a'
            tabs.append((name, 'z', 'z', name.split('.')[0].lower()))
            aliases.append('z')
    targets = rng.choice(['*', ', '.join(f'{rng.choice(aliases)}.{c}' for c in rng.sample(COLS, rng.randint(1, 2)))])
    if use_model and rng.random() < 0.5:
        targets = targets + ', m.c' if targets != '*' else '*'
    sql = f'select {targets} from {frm}'
    ws = []
    if 'where' in features and rng.random() < 0.8:
        ws.append(cond(rng, aliases))
    if use_model and rng.random() < 0.6:
        ws.append(rng.choice(['m.a = 1', "m.b = 'x'", 'not m.a = 1', '(m.a = 1 or ' + aliases[0] + '.b = 2)', 'm.c = 5']))
    if 'subquery' in features and rng.random() < 0.4:
        name, t = tref(rng)
        ws.append(f'{aliases[0]}.a in (select a from {name} where b = {rng.randint(0, 2)})')
        if rng.random() < 0.35:
            # a second sub-select beside the first (on the same or on another integration)
            name2, _ = tref(rng)
            ws.append(f'{aliases[0]}.b {rng.choice(["in", "not in"])} (select b from {name2})')
    if ws:
        sql += ' where ' + ' and '.join(ws)
    if 'group' in features and rng.random() < 0.25 and targets != '*':
        sql = sql.replace(f'select {targets}', f'select {aliases[0]}.a, count(*)') + f' group by {aliases[0]}.a'
    if 'order' in features and rng.random() < 0.4:
        # keys of every kind: a column of any of the tables, an expression, a function call, a position, several keys
        a_ = rng.choice(aliases)
        key = rng.choice([f'{aliases[0]}.{rng.choice(COLS)}', f'{a_}.{rng.choice(COLS)}', f'{a_}.a + 1', f'lower({a_}.b)', '1',
                          f'{a_}.a, {aliases[0]}.b desc', f'coalesce({a_}.c, 0)', f'{a_}.a * -1'])
        sql += f' order by {key}' + rng.choice(['', ' desc'])
    if 'limit' in features and rng.random() < 0.4:
        sql += f' limit {rng.randint(1, 3)}'
        if rng.random() < 0.3:
            sql += f' offset {rng.randint(1, 2)}'
    if use_model and 'using' in features and rng.random() < 0.4:
        opts = [' using a=1', ' using partition_size=2', ' using M.x=1, y=2', ' using partition_size=3, b=1']
        if meta.get('model2'):
            opts += [' using m.partition_size=4, m2.partition_size=2', ' using m2.partition_size=5', ' using m.partition_size=3, m2.a=1']
        sql += rng.choice(opts)
    meta['tables'] = [(n, a, ig) for n, a, _, ig in tabs]
    meta['aliases'] = aliases
    return sql, meta


def gen_statement(rng, features):
    k = rng.random()
    if 'dml' in features and k < 0.08:
        name, t = tref(rng)
        s, m = gen_select(rng, features - {'model'})
        return f'insert into {name} (a, b) {s}', dict(m, kind='insert_select')
    if 'dml' in features and k < 0.14:
        name, t = tref(rng)
        return f'update {name} set a = 1, b = 2 where c = {rng.randint(0, 3)}', {'kind': 'update'}
    if 'dml' in features and k < 0.2:
        name, t = tref(rng)
        n2, _ = tref(rng)
        col = rng.choice(['a', 'a', f'{t}.a', f'{name}.a', f'{name.upper()}.a'])       # bare, table-qualified, fully qualified
        col2 = rng.choice(['b', f'{name}.b'])
        return rng.choice([f'delete from {name} where {col} in (select a from {n2}) and {col2} = 1',
                           f'delete from {name} where {col} = 1', f'delete from {name} where {col2} > 0 and {col} between 1 and 2']), {'kind': 'delete'}
    if 'union' in features and k < 0.3:
        s1, m1 = gen_select(rng, features - {'order', 'limit'})
        s2, m2 = gen_select(rng, features - {'order', 'limit'})
        return f'{s1} union {s2}', {'kind': 'union'}
    if 'cte' in features and k < 0.36:
        s1, m1 = gen_select(rng, features - {'model', 'join'})
        # the CTE name may coincide with the last part of a table / model / view that is used elsewhere in the query
        cname = rng.choice(['c1', 'pred', 't1', 'u2', 'v1'])
        tail = rng.choice(['where a = 1',
                           "where a > (select c from proj.pred where b = 'x')",
                           'where a in (select a from proj.v1)',
                           'where a in (select a from int2.u2)',
                           'where a in (select a from int1.t1 where b = 2)'])
        return f'with {cname} as ({s1}) select * from {cname} {tail}', {'kind': 'cte'}
    if 'nested' in features and k < 0.44:
        s1, m1 = gen_select(rng, features - {'limit', 'order'})
        n2, _ = tref(rng)
        tail = rng.choice(['where s.b = 1 limit 2', 'where s.b = 1 limit 2', f'where s.a in (select b from {n2})',
                           f'where s.b = 1 and s.a > (select min(a) from {n2})', f'where s.a not in (select a from {n2} where b = 1) limit 3'])
        tg = rng.choice(['s.a', 's.a', f's.a, (select max(b) from {n2}) as m'])
        return f'select {tg} from ({s1}) as s {tail}', {'kind': 'nested'}
    if 'subquery' in features and 0.44 <= k < 0.50:
        # a sub-select that joins a table of the outer integration with a table / view / model that lives elsewhere
        integ = rng.choice(list(TABLES))
        outer, t = tref(rng, integ)
        inner, _ = tref(rng, integ)
        other = rng.choice(['proj.v1 as v on q.a = v.a', 'proj.v1 as v on q.b = v.a', f'{tref(rng)[0]} as v on q.a = v.a', 'proj.pred as v'])
        sub = f'select {rng.choice(["v.a", "q.a"])} from {inner} as q join {other}'
        shape = rng.choice(['select * from {o} where a in ({s})', 'select a, ({s} limit 1) as m from {o}', 'delete from {o} where a in ({s})',
                            'select * from {o} where a in ({s}) and b = 1'])
        return shape.format(o=outer, s=sub), {'kind': 'mixed_subquery'}
    return gen_select(rng, features)


ALL_FEATURES = {'join', 'model', 'where', 'subquery', 'group', 'order', 'limit', 'using', 'outer', 'spelling', 'dml', 'union',
                'cte', 'nested'}


# hand-written shapes that need a particular coincidence to go wrong; every planner check runs them with every catalog
EDGE_STATEMENTS = [
    "with pred as (select * from int1.t1) select * from pred where a > (select c from proj.pred where b = 'x')",
    "with v1 as (select * from int1.t1) select * from v1 where a in (select a from proj.v1)",
    "with t2 as (select * from int1.t1) select * from t2 where a in (select a from int2.t2)",
    "with c1 as (select * from int1.t1) select * from c1 join int2.t2 on c1.a = t2.a",
    "select * from int1.t1 as t join proj.pred as m join proj.pred2 as m2 using m.partition_size=4, m2.partition_size=2",
    "select * from int1.t1 as t join proj.pred as m join proj.pred2 as m2 using partition_size=4",
    "select * from int1.t1 as t join proj.pred as m join int2.t2 as z on z.a = t.a join proj.pred2 as m2 using m.partition_size=2",
    "select * from int1.t1 as t join proj.pred as m join int2.t2 as z on z.a = t.a using partition_size=2",
    "select * from INT1.t1 join int2.t2 on t1.a = t2.a",
    "select * from int1.t1 as int1 join int1.u1 as t on int1.a = t.a",
    "select * from int1.t1 where a in (select a from int2.t2 where b in (select b from int3.t3))",
    "select * from int1.t1 union select * from int2.t2 union select * from int1.u1",
    "select * from (select * from int1.t1 limit 3) as s join int2.t2 on s.a = t2.a where t2.b = 1 limit 2",
    "select t1.a from int1.t1 left join int2.t2 on t1.a = t2.a where not t2.b = 1 order by t1.a limit 2 offset 1",
    "select * from int1.t1 join proj.pred as m where m.a = 1 and t1.b = 2 or t1.c = 3",
    "insert into int2.t2 (a, b) select a, b from int1.t1 join proj.pred as m where m.a = 1",
    "update int1.t1 set a = 1 from (select * from int2.t2) as s where s.a = t1.a",
    "delete from int1.t1 where a in (select a from int2.t2 where b = 1)",
    "delete from int1.t1 where int1.t1.a = 1", "delete from int1.t1 where t1.a = 1 and int1.t1.b in (select b from int2.t2)",
    "create table int2.copy1 as select * from int1.t1 join int3.t3 on t1.a = t3.a",
    # an outer select that runs over a fetched frame and has sub-selects of its own
    # several sub-selects side by side, on the outer integration and on others, in WHERE and in the select list
    "select * from int1.t1 where a in (select a from int2.t2) and b in (select b from int2.u2)",
    "select a, (select max(b) from int2.t2) as m from int1.t1 where c in (select c from int2.u2)",
    "delete from int1.t1 where a in (select a from int2.t2) and b in (select b from int2.u2)",
    "select * from int1.t1 where a in (select a from int2.t2) and b in (select b from int1.u1) and c in (select c from int2.u2)",
    "select * from int1.t1 where a in (select a from int3.t3) and b in (select b from int2.t2) and c > (select min(c) from int3.t3)",
    "select * from int1.t1 as a left join int2.t2 as b on a.a = b.a order by lower(a.b) limit 5", "select * from int1.t1 as a join int2.t2 as b on a.a = b.a order by a.a + 1",
    "select * from int1.t1 as a join int2.t2 as b on a.a = b.a order by 1", "select * from int1.t1 as a join proj.pred as m order by abs(a.a) desc limit 2",
    "select * from (select * from int1.t1) as x where x.a in (select b from int2.t2)",
    "select x.a, (select max(b) from int2.t2) as m from (select * from int1.t1) as x",
    "select * from (select * from int1.t1) as x where x.a in (select b from int2.t2) and x.b > (select min(b) from int3.t3)",
    "insert into int3.t3 (a) select x.a from (select * from int1.t1) as x where x.a in (select b from int2.t2)",
    "create table int3.copy2 as select x.a from (select * from int1.t1) as x where x.a in (select b from int2.t2)",
    # sub-selects that mix a table of the outer integration with something that lives elsewhere
    "select * from int1.t1 where a in (select v.a from int1.u1 as q join proj.v1 as v on q.a = v.a)",
    "select a, (select max(v.a) from int1.u1 as q join proj.v1 as v on q.a = v.a) as m from int1.t1",
    "delete from int1.t1 where a in (select v.a from int1.u1 as q join proj.v1 as v on q.a = v.a)",
    "select * from int1.t1 where a in (select q.a from int1.u1 as q join int2.t2 as z on q.a = z.a)",
    "select * from int1.t1 where a in (select q.a from int1.u1 as q join proj.pred as m)",
    "delete from int1.t1 where a in (select q.a from int1.u1 as q join proj.pred as m)",
]
