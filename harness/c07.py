"""C07: constants render as inert, exact literals in every output path.

Proof: Props/C07.v -- for ALL values: quote-doubling read by a standard scanner returns the value
and stops at the literal's end; guarded forms for backslash-aware readers; refutations with
witnesses.  Instantiated with the escaping pairs extracted from the current source.
Tie: every rendered text is compared with  prefix ++ quote_with p v ++ suffix  (correspondence)
and the target's scanner is run by Coq on the implementation's own output (judge)."""
import datetime as dt
import itertools
import json
import random
import re

import gen_literal
from common import (GEN, BrokenTie, Result, compile_gen, compile_many, coq_eval_lists, ensure_static, findings_for,
                    parse_coq_list, print_assumptions, write_if_changed, KERNEL)
from gen_tables import TranslateError

PROP = 'C07'
PLACEHOLDER = 'X7X'
TARGETS = ['mysql', 'postgresql', 'sqlite', 'mssql', 'oracle', 'to_string']
SCANNER = {'mysql': 'bs', 'to_string': 'bs', 'postgresql': 'std', 'sqlite': 'std', 'mssql': 'std', 'oracle': 'std'}
TEMPLATES = [
    ('select_list', "select 'X7X' as c1, 2 as c2"),
    ('where', "select a from t where b = 'X7X' and c = 1"),
    ('in_list', "select a from t where b in ('X7X', 'q')"),
    ('in_list_pair', "select a from t where b in ('X7X', 'b)s', ':x')"),
    ('insert', "insert into t (a, b) values ('X7X', 2)"),
    ('update', "update t set a = 'X7X' where b = 2"),
]

INST = '''(* GENERATED instance of C07 *)
From Coq Require Import NArith List Bool.
From MSV Require Import Lib.PyStr Spec.Literal Model.Literal Proofs.LiteralProofs Props.C07 Gen.LiteralPairs.
Import ListNotations.
{body}
'''
INST_SA_OK = '''Lemma K_sa : K_doubling p_sa = true. Proof. vm_cast_no_check (eq_refl true). Qed.
Definition C07_std := fun v rest => C07_sqlalchemy_std_inert p_sa v rest K_sa.
Definition C07_mysql_guarded := fun v rest => C07_sqlalchemy_bs_inert_guarded p_sa v rest K_sa.
Check C07_std. Print Assumptions C07_std.
Lemma C07_mysql_refuted : exists v rest, not_quote_next rest /\\
  scan_bs (quote_with (fst p_sa) (snd p_sa) v ++ rest) <> Some (v, rest).
Proof. exists evil, []. split; [exact I|]. vm_compute. discriminate. Qed.
'''
INST_TS_OK = '''Lemma K_ts : K_backslash p_ts = true. Proof. vm_cast_no_check (eq_refl true). Qed.
Definition C07_tostring_guarded := fun v rest => C07_tostring_inert_guarded p_ts v rest K_ts.
Check C07_tostring_guarded. Print Assumptions C07_tostring_guarded.
Lemma C07_tostring_refuted' : exists v rest, not_quote_next rest /\\
  scan_bs (quote_with (fst p_ts) (snd p_ts) v ++ rest) <> Some (v, rest).
Proof. exists [97%N; 92%N], []. split; [exact I|]. vm_compute. discriminate. Qed.
'''


def nl(s):
    return '[' + '; '.join(str(ord(c)) for c in s) + ']'


def set_constant(node, value, seen=None):
    """replace the value of every Constant equal to the placeholder (generic attribute walk)"""
    from mindsdb_sql.parser.ast import ASTNode, Constant
    n = 0
    if isinstance(node, Constant):
        if node.value == PLACEHOLDER:
            node.value = value
            n += 1
    if isinstance(node, ASTNode):
        for k, v in list(vars(node).items()):
            n += set_constant(v, value)
    elif isinstance(node, (list, tuple)):
        for x in node:
            n += set_constant(x, value)
    elif isinstance(node, dict):
        for x in node.values():
            n += set_constant(x, value)
    return n


def render(ast, target):
    if target == 'to_string':
        return ast.to_string()
    from mindsdb_sql.render.sqlalchemy_render import SqlalchemyRender
    return SqlalchemyRender(target).get_string(ast, with_failback=False)


def values(rng, tier):
    alpha = ["'", '\\', '%', ':', ';', '-', '\n', 'a']
    out = ['', "\\' OR 1=1 -- ", "it's", "a\\", "''", "'", '\\', "x'; drop table t; --", '%s', ':name', 'a\\\'b',
           '%(asctime)s %(message)s', '%(a', '%(x)s', '?', ':1', '%s %s', '$1', '@x', '%%', '{x}', '%(', ')s', '?, ?']
    mx = 3 if tier == 'quick' else 4
    for n in range(1, mx + 1):
        for tup in itertools.product(alpha, repeat=n):
            out.append(''.join(tup))
    pool = alpha + ['"', ' ', 'é', '中', '\U0001f600', '\t', '\r', 'b', '/*', '*/', '--', '`', '%(', ')s', '(', ')', 's', '?', '$', '{', '}']
    for _ in range(300 if tier == 'quick' else 5000):
        out.append(''.join(rng.choice(pool) for _ in range(rng.randint(1, 12))))
    return list(dict.fromkeys(out))


def classify(target, v, findings):
    for f in findings:
        c = f['classifier']
        if target in c['targets'] and all(ch in v for ch in c.get('value_contains', [])):
            return f
    return None


def run(tier, seed, replay=None):
    R = Result(PROP, tier, seed, level='proof')
    R.cov['checker_cmd'] = 'make -C /verif/coq; coqc Gen/LiteralPairs.v Gen/C07_inst.v Gen/C07_cases_*.v'
    R.cov['trusted_base'] = [KERNEL, 'harness/gen_literal.py (escaping pairs from the source ast)',
                             'Spec/Literal.v: scan_std / scan_bs = what the targets read (written from the SQL / MySQL rules)',
                             'harness/c07.py (templates, Coq term printer)', 'axioms: none']
    R.assumptions = ['targets postgresql/sqlite/mssql/oracle read literals by scan_std, mysql and the library lexer by scan_bs',
                     'SQLAlchemy compiles sa.literal(v) through render_literal_value (checked by the text correspondence)',
                     'non-string constants (int/float/bool/NULL/date) are explored only: str(value) contains no quote']
    rng = random.Random(seed)
    findings = findings_for(PROP)
    from mindsdb_sql import parse_sql
    from mindsdb_sql.parser.ast import Constant
    try:
        ensure_static()
        R.obligation('Props/C07.v (make)', True)
        pairs = gen_literal.emit()
        rc, out = compile_gen('LiteralPairs')
        if rc != 0:
            raise BrokenTie('Gen/LiteralPairs.v does not compile', out[-800:])
    except (BrokenTie, TranslateError) as e:
        R.obligation('translate literal writers', False)
        pairs = None
        broken_tie = e
    sa_ok = pairs is not None and pairs['sa'] == ("'", "''")
    ts_ok = pairs is not None and pairs['ts'] == ("'", "\\'")
    if pairs is not None:
        body = (INST_SA_OK if sa_ok else '') + (INST_TS_OK if ts_ok else '')
        write_if_changed(GEN / 'C07_inst.v', INST.format(body=body))
        rc, out = compile_gen('C07_inst', deps=['LiteralPairs'])
        R.obligation('instance: K_doubling p_sa (render_literal_value) => C07_std for all values; mysql guarded + refuted', sa_ok and rc == 0)
        R.obligation('instance: K_backslash p_ts (Constant.get_string) => guarded + refuted', ts_ok and rc == 0)
        R.notes['print_assumptions'] = print_assumptions(out)
        R.notes['pairs'] = {k: list(v) for k, v in pairs.items()}

    # ---------------- correspondence + judge on the implementation's output
    rows = []
    stats = {}
    if replay:
        rp = json.loads(open(replay).read())
        vals = [rp['value']] if 'value' in rp else []
        tgts = [rp['target']] if 'target' in rp else TARGETS
        tmpls = [t for t in TEMPLATES if t[0] == rp.get('position')] or TEMPLATES
    else:
        vals, tgts, tmpls = values(rng, tier), TARGETS, TEMPLATES
    for v in vals:
        for pos, tmpl in (tmpls if (tier == 'thorough' or len(v) <= 2 or replay) else [tmpls[rng.randrange(len(tmpls))]]):
            for target in tgts:
                try:
                    a0 = parse_sql(tmpl, 'mindsdb')
                    t0 = render(a0, target)
                except Exception as e:
                    stats[f'{target}:{pos}:unsupported'] = stats.get(f'{target}:{pos}:unsupported', 0) + 1
                    continue        # this statement shape is not renderable for this target at all
                try:
                    a1 = parse_sql(tmpl, 'mindsdb')
                    if set_constant(a1, v) != 1:
                        continue
                    t1 = render(a1, target)
                except Exception as e:
                    rows.append((v, pos, target, None, None, None, f'{type(e).__name__}: {e}'))
                    continue
                marker = "'" + PLACEHOLDER + "'"
                if t0.count(marker) != 1:
                    rows.append((v, pos, target, t1, None, None, 'placeholder not rendered as a single quoted literal'))
                    continue
                pre, suf = t0.split(marker)
                rows.append((v, pos, target, t1, pre, suf, None))
                stats[f'{target}:{pos}'] = stats.get(f'{target}:{pos}', 0) + 1
    good = [r for r in rows if r[6] is None]
    evaluations = len(rows)
    # Coq: for each row (text, prefix, suffix, value, pair, scanner): code
    #  1 = text = prefix ++ quote_with p v ++ suffix  and scanner reads (v, suffix)
    #  2 = text matches the model but the scanner does not read (v, suffix)     [property fails on this input]
    #  3 = text differs from the model                                          [correspondence broken]
    names = []
    shard = 400
    for k in range(0, len(good), shard):
        name = f'C07_cases_{k // shard}'
        lines = ['From Coq Require Import NArith PArith List Bool.',
                 'From MSV Require Import Lib.PyStr Spec.Literal Model.Literal Gen.LiteralPairs.',
                 'Import ListNotations.', 'Local Open Scope N_scope.',
                 'Definition opt_eqb (a : option (str * str)) (v s : str) : bool :=',
                 '  match a with Some (x, y) => str_eqb x v && str_eqb y s | None => false end.',
                 'Definition judge (c : bool * bool * str * str * str * str) : positive :=',
                 "  let '(sa, std, text, pre, suf, v) := c in",
                 '  let p := if sa then p_sa else p_ts in',
                 '  let lit := quote_with (fst p) (snd p) v in',
                 '  if str_eqb text (pre ++ lit ++ suf) then',
                 '    (if opt_eqb ((if std then scan_std else scan_bs) (lit ++ suf)) v suf then 1 else 2)%positive',
                 '  else 3%positive.',
                 'Fixpoint bad (i : positive) (cs : list (bool * bool * str * str * str * str)) : list (positive * positive) :=',
                 '  match cs with [] => [] | c :: r => let j := judge c in',
                 '    if Pos.eqb j 1 then bad (Pos.succ i) r else (i, j) :: bad (Pos.succ i) r end.',
                 'Definition cases : list (bool * bool * str * str * str * str) := [']
        body = []
        for v, pos, target, t1, pre, suf, err in good[k:k + shard]:
            sa = 'false' if target == 'to_string' else 'true'
            std = 'true' if SCANNER[target] == 'std' else 'false'
            body.append(f' ({sa}, {std}, {nl(t1)}, {nl(pre)}, {nl(suf)}, {nl(v)})')
        lines.append(';\n'.join(body))
        lines.append('].')
        lines.append('Eval vm_compute in bad 1 cases.')
        write_if_changed(GEN / f'{name}.v', '\n'.join(lines) + '\n')
        names.append((k, name))
    results = compile_many([n for _, n in names], deps=['LiteralPairs']) if pairs is not None else []
    code2, code3 = [], []
    for (k, name), (rc, out) in zip(names, results):
        if rc != 0:
            R.obligation(f'shard {name} compiles', False)
            R.violation({'what': f'correspondence shard {name} does not compile', 'detail': out[-800:],
                         'theorem': 'C07 correspondence'}, nofail=True)
            return R.finish()
        vals_ = coq_eval_lists(out)
        for m in re.finditer(r'\((\d+), (\d+)\)', vals_[-1] if vals_ else ''):
            (code2 if m.group(2) == '2' else code3).append(k + int(m.group(1)) - 1)
    R.obligation(f'text correspondence: rendered text = prefix ++ quote_with p v ++ suffix on {len(good)} renderings', not code3)
    errs = [r for r in rows if r[6] is not None]
    # judge: scanner on the implementation's output
    nviol = 0
    for i in code2:
        v, pos, target, t1, pre, suf, _ = good[i]
        f = classify(target, v, findings)
        if f:
            R.known_finding(f'{f["id"]}: {f["what"]}')
        else:
            nviol += 1
            if nviol <= 5:
                R.violation({'target': target, 'position': pos, 'value': v, 'rendered': t1,
                             'what': f'the {SCANNER[target]} scanner does not read the rendered literal back as the value '
                                     f'and/or does not stop at its end'})
    for i in code3[:3]:
        v, pos, target, t1, pre, suf, _ = good[i]
        # the model does not describe the text: judge the text itself -- does the target scanner, started at the
        # literal, read back v and leave the benign suffix?  (evaluated in python here only to pick a replay; the
        # verdict is the broken correspondence)
        R.violation({'target': target, 'position': pos, 'value': v, 'rendered': t1, 'expected_prefix': pre,
                     'expected_suffix': suf, 'theorem': 'C07 text correspondence (Model/Literal.v quote_with)',
                     'what': 'rendered text is not prefix ++ quote_with p v ++ suffix'},
                    nofail=not _py_misread(t1, pre, suf, v, SCANNER[target]))
    for r in errs[:3]:
        R.violation({'target': r[2], 'position': r[1], 'value': r[0], 'what': 'rendering failed: ' + r[6]})
    if pairs is None:
        # the writers could not be translated: search the renderings themselves for a literal that the target's scanner does not
        # read back as the value (support search in python; the listed findings are recognised as usual)
        nsearch = 0
        for v, pos, target, t1, pre, suf, _ in good:
            if not _py_misread(t1, pre, suf, v, SCANNER[target]):
                continue
            f = classify(target, v, findings)
            if f:
                R.known_finding(f'{f["id"]}: {f["what"]}')
                continue
            nsearch += 1
            if nsearch <= 3:
                R.violation({'target': target, 'position': pos, 'value': v, 'rendered': t1,
                             'what': f'the {SCANNER[target]} scanner does not read the rendered literal back as the value and/or does not '
                                     f'stop at its end', 'found_by': 'search on the renderings (the literal writers could not be translated: '
                                                                     + str(broken_tie) + ')'})
        if not nsearch:
            R.violation({'what': str(broken_tie), 'detail': getattr(broken_tie, 'detail', ''),
                         'theorem': 'translator gen_literal / C07 instance'}, nofail=True)
    elif not sa_ok and not any(not nf for _, nf in R.violations):
        R.violation({'what': f'render_literal_value escapes with {pairs["sa"]}: K_doubling fails', 'theorem': 'C07_std instance'},
                    nofail=True)
    elif not ts_ok and not R.violations:
        R.violation({'what': f'Constant.get_string escapes with {pairs["ts"]}: K_backslash fails',
                     'theorem': 'C07_tostring_guarded instance'}, nofail=True)
    # ---------------- non-string constants (exploration)
    nonstr = 0
    for val, tmpl_ in [(v_, t_) for v_ in [0, 1, -5, 10 ** 20, 1.5, -0.25, True, False, None, dt.date(2020, 1, 2), dt.datetime(2020, 1, 2, 3, 4, 5),
                                           dt.datetime(2021, 3, 4, 5, 6, 7, 123456), dt.datetime(1999, 12, 31, 23, 59, 59, 999999),
                                           dt.datetime(2021, 3, 4, 5, 6, 7, 250000), dt.datetime(2021, 3, 4, 0, 0, 0, 1), dt.date(1, 1, 1),
                                           dt.datetime(9999, 12, 31, 23, 59, 59, 999999), 0.1 + 0.2, 1e-7, 123456789.123456789]
                       for t_ in (["select 'X7X'"] + ([t for _, t in TEMPLATES] if isinstance(v_, (dt.date, dt.datetime)) else []))]:
        for target in TARGETS:
            try:
                a = parse_sql(tmpl_.replace(PLACEHOLDER, 'X7X') if PLACEHOLDER in tmpl_ else tmpl_, 'mindsdb')
                if set_constant(a, val) != 1 and val is not None:
                    continue
                if val is None:
                    from mindsdb_sql.parser.ast import NullConstant
                    a.targets[0] = NullConstant()
                t = render(a, target)
                nonstr += 1
                body = t[len('SELECT '):].strip()
                if isinstance(val, (dt.date, dt.datetime)):
                    # exactly one quoted literal in the whole statement, and it is the value written in full
                    lits_ = [l_ for l_ in re.findall(r"'([^']*)'", t) if re.match(r'\d{1,4}-\d\d-\d\d', l_)]
                    ok = lits_ == [str(val)]
                else:
                    ok = "'" not in body and '\\' not in body
                if not ok:
                    R.violation({'target': target, 'value': repr(val), 'rendered': t, 'what': 'non-string constant rendered with quotes/backslashes'})
            except Exception as e:
                R.notes.setdefault('nonstring_errors', []).append(f'{target} {val!r}: {type(e).__name__}')
    # ---------------- numbers: the rendered literal is read back (standard numeric-literal syntax) as exactly the value, whatever
    # its magnitude: floats over the whole exponent range, integers of any size
    numzoo = [1e-7, 2.5e-5, 1.2345678901234568e-05, 6.62607015e-34, 2.2250738585072014e-308, 5e-324, 1.6e-19, 1e22, 1.7976931348623157e308,
              0.1 + 0.2, 1 / 3, 123456789.123456789, 1e16, 1e15 + 0.3, 9007199254740993.0, -1e-9, -3.5e40, 2 ** 63, 10 ** 30, -(10 ** 25), 0.0]
    numzoo += [rng.uniform(1, 10) * 10.0 ** rng.randint(-300, 300) for _ in range(40 if tier == 'quick' else 400)]
    numzoo += [rng.uniform(-1, 1) * 10.0 ** rng.randint(-30, -3) for _ in range(40 if tier == 'quick' else 400)]
    num_rep = 0
    for val in numzoo:
        for target in TARGETS:
            try:
                a = parse_sql("select 'X7X'", 'mindsdb')
                if set_constant(a, val) != 1:
                    continue
                t = render(a, target)
            except Exception as e:
                R.notes.setdefault('nonstring_errors', []).append(f'{target} {val!r}: {type(e).__name__}')
                continue
            nonstr += 1
            m_ = re.match(r"SELECT\s+\(?\s*(-?\s*\d[\d.]*(?:[eE][+-]?\d+)?)", t)
            try:
                lit = m_.group(1).replace(' ', '')
                back = int(lit) if isinstance(val, int) else float(lit)
            except Exception:
                lit, back = None, None
            if (back != val or lit is None) and num_rep < 3:
                num_rep += 1
                R.violation({'target': target, 'value': repr(val), 'rendered': t, 'literal_read_back': repr(back),
                             'what': 'a numeric constant is rendered as a literal that does not denote exactly that value'})
    # ---------------- integers: Props/C07.v C07_integer_literal_exact (read_int (print_int z) = Some z for every integer) is tied here:
    # what each output path writes for an integer constant is print_int z, and what the library's own lexer + int() reads from that
    # text is read_int of it (both evaluated in Coq)
    ints = [0, 1, -1, 7, 10, -10, 99, 100, 2 ** 31, -(2 ** 31), 2 ** 63, 2 ** 64 + 1, 10 ** 30, -(10 ** 25), 123456789012345678901234567890]
    ints += [rng.randint(-10 ** k, 10 ** k) for k in (1, 2, 3, 5, 9, 12, 18, 19, 20, 25, 40) for _ in range(3 if tier == 'quick' else 30)]
    irows = []
    for z in ints:
        for target in TARGETS:
            try:
                a = parse_sql("select 'X7X'", 'mindsdb')
                if set_constant(a, z) != 1:
                    continue
                t = render(a, target)
                m_ = re.match(r"SELECT\s+(\(?-?\d+\)?)", t)
                lit = m_.group(1).strip('()') if m_ else ''
            except Exception as e:
                R.notes.setdefault('nonstring_errors', []).append(f'{target} {z!r}: {type(e).__name__}')
                continue
            try:
                back = parse_sql('select ' + lit, 'mindsdb').targets[0]
                back = back.value if isinstance(back, Constant) else None
            except Exception:
                back = None
            irows.append((z, target, lit, back))
    if irows:
        cl = lambda s_: '[' + '; '.join(str(ord(c)) for c in s_) + ']%N'
        ls = ['From Coq Require Import ZArith NArith List Bool.', 'From MSV Require Import Lib.PyStr Model.IntLit.', 'Import ListNotations.',
              'Definition zopt_eqb (a b : option Z) : bool := match a, b with Some x, Some y => Z.eqb x y | None, None => true | _, _ => false end.',
              '(* (value, written literal, value read back by the library) -> (print_int = written, read_int written = read back) *)',
              'Definition ok (c : Z * str * option Z) : bool * bool :=',
              "  let '(z, lit, back) := c in (str_eqb (print_int z) lit, zopt_eqb (read_int lit) back).",
              'Definition cases : list (Z * str * option Z) := [',
              ';\n'.join(f' (({z})%Z, {cl(lit)}, {"None" if back is None or isinstance(back, bool) or not isinstance(back, int) else f"Some ({back})%Z"})' for z, _, lit, back in irows),
              '].', 'Eval vm_compute in map ok cases.']
        write_if_changed(GEN / 'C07_int.v', '\n'.join(ls) + '\n')
        rc_i, out_i = compile_gen('C07_int')
        if rc_i != 0:
            R.obligation('integer literals: Gen/C07_int.v compiles', False)
            R.violation({'what': 'Gen/C07_int.v does not compile', 'detail': out_i[-800:], 'theorem': 'C07_integer_literal_exact (tie)'}, nofail=True)
        else:
            fl = re.findall(r'\((true|false), (true|false)\)', (coq_eval_lists(out_i) or [''])[-1])
            badi = [i for i, (a_, b_) in enumerate(fl) if a_ == 'false' or b_ == 'false']
            R.obligation(f'integer literals: every output path writes Model/IntLit.print_int z and the library reads read_int of it ({len(irows)} renderings)',
                         not badi and len(fl) == len(irows))
            nonstr += len(irows)
            for i in badi[:2]:
                z, target, lit, back = irows[i]
                # the theorem says read_int (print_int z) = z: a rendering that is not print_int z, or is read back as something else,
                # is a concrete violation exactly when the value read back differs from z
                R.violation({'target': target, 'value': repr(z), 'literal_written': lit, 'model_print_int_agrees': fl[i][0] == 'true',
                             'value_read_back_by_the_library': repr(back),
                             'what': 'an integer constant is not written as the decimal literal of its value / is not read back as that value'},
                            nofail=(back == z and fl[i][0] == 'true'))
            if len(fl) != len(irows) and not badi:
                R.violation({'what': 'Gen/C07_int.v: unexpected output', 'theorem': 'C07_integer_literal_exact (tie)'}, nofail=True)
    # ---------------- trees built in code with every option of the node: an INSERT whose cells are Constant nodes prints each cell as
    # that constant prints on its own, whatever the flags of the statement (is_plain says the values are constants, nothing more)
    from mindsdb_sql.parser.ast import Insert as Insert_, Identifier as Id_
    cells = [1, -2.5, True, None, 'plain', "it's", 'two\nlines', 'tab\there', 'nb\u00a0sp\u200b', 'back\\slash', dt.date(2020, 1, 2), dt.datetime(2021, 3, 4, 5, 6, 7, 123456), '', '%s :x ?']
    for flag in (False, True):
        try:
            ins = Insert_(table=Id_('t'), columns=[f'c{i}' for i in range(len(cells))], values=[[Constant(v) for v in cells]], is_plain=flag)
            txt = ins.to_string()
            want = ', '.join(Constant(v).to_string() for v in cells)
            nonstr += 1
            if f'({want})' not in txt:
                R.violation({'target': 'to_string', 'position': 'insert', 'is_plain': flag, 'printed': txt, 'cells_printed_on_their_own': want,
                             'what': 'an INSERT built from Constant cells does not print each cell as that constant prints on its own'})
        except Exception as e:
            R.notes.setdefault('nonstring_errors', []).append(f'Insert(is_plain={flag}): {type(e).__name__}: {str(e)[:80]}')
    # ---------------- several constants through ONE renderer call: each literal must be the one its own value gives
    # (values that compare equal in Python but are different SQL values: 1 / 1.0 / TRUE, 0 / 0.0 / -0.0 / FALSE, 2 / 2.0, '1')
    from mindsdb_sql.parser.ast import Insert, Identifier as Ident_
    mixed = [1, 1.0, True, 0, 0.0, False, 2, 2.0, '1', -0.0, 'it\'s', 10, 10.0]
    for target in TARGETS:
        if target == 'oracle':
            continue                    # multirow / this INSERT form is not rendered for oracle
        try:
            single = {}
            for v in mixed:
                a = parse_sql('insert into t (a) values (7)', 'mindsdb')
                a.values[0][0] = Constant(v)
                single[(type(v).__name__, repr(v))] = render(a, target).split('VALUES (', 1)[1].rsplit(')', 1)[0]
            for order in [list(mixed), list(reversed(mixed))] + [rng.sample(mixed, len(mixed)) for _ in range(3)]:
                cols = ', '.join(f'c{i}' for i in range(len(order)))
                a = parse_sql(f'insert into t ({cols}) values ({", ".join(["7"] * len(order))})', 'mindsdb')
                a.values[0] = [Constant(v) for v in order]
                txt = render(a, target)
                got = txt.split('VALUES (', 1)[1].rsplit(')', 1)[0].split(', ')
                want = [single[(type(v).__name__, repr(v))] for v in order]
                nonstr += 1
                if got != want:
                    i = [k for k, (g, w) in enumerate(zip(got, want)) if g != w][0]
                    R.violation({'target': target, 'values_in_order': [repr(v) for v in order], 'rendered': txt, 'position': i,
                                 'rendered_literal': got[i], 'literal_of_that_value_alone': want[i],
                                 'what': 'a constant is rendered differently when other constants are rendered by the same call'})
                    break
        except Exception as e:
            R.notes.setdefault('nonstring_errors', []).append(f'{target} mixed constants: {type(e).__name__}: {str(e)[:80]}')
    # ---------------- IN lists: every item is rendered as the literal of its own value
    from mindsdb_sql.parser.ast import Tuple as Tuple_
    for target in TARGETS:
        try:
            for items in ([1, 2.5], [2.5, 1], [1, 2, 3.75, 4], [0, 1e-7], [1, True], [1, '1'], [3, 2.0, 1.5]):
                a = parse_sql('select a from t where b in (7, 8)', 'mindsdb')
                a.where.args[1] = Tuple_([Constant(v) for v in items])
                txt = render(a, target)
                m_ = re.search(r'IN \((.*)\)', txt)
                got = m_.group(1).split(', ') if m_ else None
                want = []
                for v in items:
                    b = parse_sql('select a from t where b = 7', 'mindsdb')
                    b.where.args[1] = Constant(v)
                    want.append(render(b, target).rsplit('= ', 1)[1].strip())
                nonstr += 1
                if got != want:
                    R.violation({'target': target, 'in_list': [repr(v) for v in items], 'rendered': txt, 'items_rendered': got,
                                 'literals_of_the_values_alone': want, 'what': 'an item of an IN list is not rendered as the literal of its value'})
                    break
        except Exception as e:
            R.notes.setdefault('nonstring_errors', []).append(f'{target} IN list: {type(e).__name__}: {str(e)[:80]}')
    R.cov['evaluations'] = evaluations + nonstr
    R.cov['distinct_nontrivial'] = len({(r[0], r[1], r[2]) for r in good if any(c in r[0] for c in "'\\")})
    R.cov['rule'] = ('values: all strings over {\' \\ % : ; - newline a} up to length 3 (4 in thorough) + random unicode; '
                     'x 5 positions x 6 outputs; non-trivial = value contains a quote or a backslash')
    R.cov['samples'] = [{'value': r[0], 'position': r[1], 'target': r[2], 'rendered': r[3]} for r in good[:: max(1, len(good) // 4)]][:4]
    R.notes['input_distribution'] = stats
    R.notes['property_fails_on'] = len(code2)
    return R.finish()


def _py_misread(text, pre, suf, v, scanner):
    """support only: does a quick python re-implementation of the scanner misread the literal?"""
    if not text.startswith(pre):
        return True
    s = text[len(pre):]
    if not s.startswith("'"):
        return True
    i, out = 1, []
    while i < len(s):
        c = s[i]
        if scanner == 'bs' and c == '\\' and i + 1 < len(s):
            out.append(s[i + 1] if s[i + 1] in "'\"\\" else c + s[i + 1])
            i += 2
        elif c == "'":
            if i + 1 < len(s) and s[i + 1] == "'":
                out.append("'")
                i += 2
            else:
                return not (''.join(out) == v and s[i + 1:] == suf)
        else:
            out.append(c)
            i += 1
    return True
