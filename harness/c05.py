"""C05: accepted => the whole token stream is one sentence of the dialect's grammar.

Proof: Props/C05.v (table-independent) instantiated with the tables regenerated from /repo
(K_tables evaluated by the kernel) and the callback kind extracted from the source.
Tie: trace-level correspondence of Model/Sly.v with sly's Parser.parse."""
import json
import random
import re

import gen_tables
from common import (GEN, BrokenTie, Result, compile_gen, coq_eval_lists, ensure_static, parse_coq_list,
                    print_assumptions, write_if_changed, findings_for, KERNEL)
from implparse import run_tokens, lex
from tokgen import gen_cases, side, tokens_text, synth

DIALECTS = ['mindsdb', 'mysql', 'sqlite']
PROP = 'C05'


def plist(xs):
    return '[' + '; '.join(str(x) for x in xs) + ']'


def gen_and_compile_tables(dialect):
    try:
        d = gen_tables.dump(dialect)
        gen_tables.emit(d)
    except gen_tables.TranslateError as e:
        raise BrokenTie(f'translator gen_tables failed for {dialect}', str(e))
    rc, out = compile_gen(f'Tbl_{dialect}', timeout=600)
    if rc != 0:
        raise BrokenTie(f'generated tables for {dialect} do not compile', out[-2000:])
    return d


INST = '''(* GENERATED instance of C05 for the {d} dialect *)
From Coq Require Import PArith List.
From MSV Require Import Model.Sly Proofs.SlySound Props.C05 Gen.Tbl_{d}.
Lemma K_ok : K_tables tbl = true.
Proof. vm_cast_no_check (eq_refl true). Qed.
Lemma cb_ok : cb <> CbIgnore.
Proof. discriminate. Qed.
Theorem C05_{d} : forall fuel toks d tr,
  run tbl cb fuel toks = OAccept d tr -> derives tbl d /\\ root d = t_start tbl /\\ yield d = toks.
Proof. intros fuel toks d tr. exact (C05_accept_is_sentence tbl cb fuel toks d tr K_ok cb_ok). Qed.
Print Assumptions C05_{d}.
'''


def instance(dialect):
    write_if_changed(GEN / f'C05_inst_{dialect}.v', INST.format(d=dialect))
    rc, out = compile_gen(f'C05_inst_{dialect}', timeout=600, deps=[f'Tbl_{dialect}'])
    return rc == 0, out


def write_cases(name, dialect, cases):
    """cases: list of (toks_syms, summary dict) -> Gen/<name>.v printing mismatching indices."""
    lines = ['From Coq Require Import PArith List.',
             f'From MSV Require Import Model.Sly Model.SlyCorr Gen.Tbl_{dialect}.',
             'Import ListNotations.', 'Local Open Scope positive_scope.',
             'Definition cases : list (list sym * summary) := [']
    rows = []
    for syms, r in cases:
        rows.append(f' ({plist(syms)}, ({r["code"]}, {plist(r["trace"])}, {r["bad"]}, {plist(r["expected"])}))')
    lines.append(';\n'.join(rows))
    lines.append('].')
    lines.append('Eval vm_compute in mismatches tbl cb cases.')
    write_if_changed(GEN / f'{name}.v', '\n'.join(lines) + '\n')


def model_summaries(name, dialect, symlists):
    lines = ['From Coq Require Import PArith List.',
             f'From MSV Require Import Model.Sly Model.SlyCorr Gen.Tbl_{dialect}.',
             'Import ListNotations.', 'Local Open Scope positive_scope.']
    for s in symlists:
        lines.append(f'Eval vm_compute in run_case tbl cb {plist(s)}.')
    write_if_changed(GEN / f'{name}.v', '\n'.join(lines) + '\n')
    rc, out = compile_gen(name, deps=[f'Tbl_{dialect}'])
    return coq_eval_lists(out) if rc == 0 else [out[-500:]]


# ---------------------------------------------------------------- independent recogniser (search support)
def earley_accepts(sidefile, syms):
    """Earley recogniser over the dumped productions: is `syms` a sentence of start?"""
    prods = sidefile['prods']
    start = sidefile['start']
    by_lhs = {}
    for i, (lhs, rhs) in enumerate(prods):
        by_lhs.setdefault(lhs, []).append((i, rhs))
    n = len(syms)
    chart = [set() for _ in range(n + 1)]
    order = [[] for _ in range(n + 1)]

    def add(k, item):
        if item not in chart[k]:
            chart[k].add(item)
            order[k].append(item)
    for i, rhs in by_lhs.get(start, []):
        add(0, (i, 0, 0))
    # nullable handling: iterate until no change inside each set
    for k in range(n + 1):
        j = 0
        while j < len(order[k]):
            (pi, dot, origin) = order[k][j]
            j += 1
            lhs, rhs = prods[pi]
            if dot < len(rhs):
                X = rhs[dot]
                if X in by_lhs:
                    for i2, rhs2 in by_lhs[X]:
                        add(k, (i2, 0, k))
                    # completed nullable X already in this set
                    for (pj, dj, oj) in list(chart[k]):
                        if oj == k and prods[pj][0] == X and dj == len(prods[pj][1]):
                            add(k, (pi, dot + 1, origin))
                elif k < n and syms[k] == X:
                    add(k + 1, (pi, dot + 1, origin))
            else:
                for (pj, dj, oj) in list(chart[origin]):
                    r2 = prods[pj][1]
                    if dj < len(r2) and r2[dj] == lhs:
                        add(k, (pj, dj + 1, oj))
    return any(prods[pi][0] == start and dot == len(prods[pi][1]) and origin == 0
               for (pi, dot, origin) in chart[n])


# ---------------------------------------------------------------- main
def run(tier, seed, replay=None):
    R = Result(PROP, tier, seed, level='proof')
    R.cov['checker_cmd'] = 'coqc -Q /verif/coq MSV (make -C /verif/coq; Gen/C05_inst_<dialect>.v; Gen/C05_cases_*.v)'
    R.cov['trusted_base'] = [KERNEL, 'harness/gen_tables.py (dump of _lrtable/_grammar + error() classification)',
                             'harness/implparse.py + c05.py (trace correspondence, Coq term printer)',
                             'axioms: none (Print Assumptions: Closed under the global context)']
    R.assumptions = ['lexer output is taken from the real lexer (token types only matter for this property)',
                     'semantic actions are not modelled: an exception escaping one is compared as a trace prefix']
    rng = random.Random(seed)
    try:
        ensure_static()
    except BrokenTie as e:
        R.obligation('static development builds', False)
        R.violation({'broken': e.what, 'detail': e.detail, 'theorem': 'Props/C05.v'}, nofail=True)
        return R.finish()
    R.obligation('Props/C05.v: C05_accept_is_sentence, C05_recovery_rejects (make)', True)

    n_per = {'quick': 1300, 'thorough': 12000}[tier]
    if replay:
        n_per = 0
    broken = {}
    stats = {}
    samples = []
    evaluations = 0
    nontrivial = set()
    for dialect in DIALECTS:
        try:
            d = gen_and_compile_tables(dialect)
        except BrokenTie as e:
            R.obligation(f'tables {dialect} regenerate+compile', False)
            R.violation({'dialect': dialect, 'what': e.what, 'detail': e.detail, 'theorem': f'translator / tables for C05_{dialect}'},
                        nofail=True)
            continue
        sd = side(dialect)
        ok, out = instance(dialect)
        if d.get('bad_defaults'):
            ok = False
            out = f'defaulted states that are not reductions: {d["bad_defaults"]} (executed without looking at the next token)'
        R.obligation(f'instance C05_{dialect} (K_tables tbl = true by vm_compute; cb={d["cb"]} <> CbIgnore)', ok)
        if ok:
            pa = print_assumptions(out)
            R.notes.setdefault('print_assumptions', {})[dialect] = pa
        else:
            broken[dialect] = BrokenTie(f'instance theorem C05_{dialect} no longer checks '
                                        f'(cb={d["cb"]}, see Gen/C05_inst_{dialect}.v)', out[-1500:])
        # ---- correspondence
        num = sd['num']
        cases = []
        if replay:
            rp = json.loads(open(replay).read())
            if rp.get('dialect') == dialect and rp.get('token_types'):
                toks = [synth(t) for t in rp['token_types']]
                cases = [({'kind': 'replay'}, toks)]
        else:
            cases = gen_cases(dialect, rng, n_per)
            # fixed corpus first: the resynchronisation shapes the property text worries about
            for txt in ['select 1 )', 'select 1 ) drop table t', 'commit ) ) x y z', 'select a from t where b = 2 ) x', 'x y ; select 1', 'x select 1', 'select 1 select 2', 'select 1 ; select 2', ') select 1',
                        'select 1 x y', 'select from', '', 'select 1 ;;', 'x y\n; select 1', 'x\nselect 1\nselect 2',
                        'select a from from t1\nunion\nselect a from t2', 'select 1 x\n\n y select 2']:
                try:
                    cases.insert(0, ({'kind': 'corpus', 'text': txt}, lex(dialect, re.sub(r'[\s;]+$', '', txt))))
                except Exception:
                    pass
        rows = []
        for desc, toks in cases:
            r = run_tokens(dialect, toks, num)
            syms = [num[t.type] for t in toks]
            rows.append((desc, toks, syms, r))
            evaluations += 1
            key = (dialect, r['code'], tuple(r['trace'][-6:]), r['bad'] > 1)
            nontrivial.add(key)
        st = {}
        for desc, toks, syms, r in rows:
            st[f'{desc["kind"]}:{r["code"]}'] = st.get(f'{desc["kind"]}:{r["code"]}', 0) + 1
        stats[dialect] = st
        mism = []
        shard = 400
        for k in range(0, len(rows), shard):
            name = f'C05_cases_{dialect}_{k // shard}'
            write_cases(name, dialect, [(syms, r) for _, _, syms, r in rows[k:k + shard]])
            rc, out = compile_gen(name, deps=[f'Tbl_{dialect}'])
            if rc != 0:
                broken[dialect] = BrokenTie(f'correspondence shard {name} does not compile', out[-1500:])
                break
            vals = coq_eval_lists(out)
            for i in parse_coq_list(vals[-1]):
                mism.append(k + i - 1)
        R.obligation(f'correspondence Model/Sly.v vs Parser.parse ({dialect}, {len(rows)} cases)', not mism)
        if rows:
            samples.append({'dialect': dialect, 'kind': rows[-1][0]['kind'],
                            'token_types': [t.type for t in rows[-1][1]][:30], 'impl': {k: rows[-1][3][k] for k in ('code', 'bad')}})
        # ---- judge: P on the implementation's own output, for disagreements and (if the
        # instance broke) for every accepted input
        judged = 0
        suspects = list(mism)
        if dialect in broken:
            suspects = list(range(len(rows)))
        found = 0
        for i in suspects:
            desc, toks, syms, r = rows[i]
            if r['code'] != 1:
                continue
            judged += 1
            if not earley_accepts(sd, syms):
                found += 1
                if found <= 3:
                    ms = model_summaries(f'C05_replay_{dialect}', dialect, [syms])
                    R.violation({'dialect': dialect, 'what': 'parse accepted a token sequence that is not a sentence of the grammar',
                                 'token_types': [t.type for t in toks], 'text': tokens_text(toks), 'case': desc,
                                 'implementation': r, 'model': ms,
                                 'checked_by': 'Earley recogniser over the dumped productions (search support)'})
        # ---- end to end: parse_sql itself (its own preprocessing of the text and the real lexer included).  What the property
        # allows to be dropped is written here a second time: trailing semicolons and white space, nothing else.
        if not replay or (rp.get('dialect') == dialect and 'sql_text' in rp):
            from mindsdb_sql import parse_sql
            from sqlcorpus import harvest
            base = [s for s in harvest()[dialect] if len(s) < 200][:40] + ['select 1', 'show databases', 'select a from t where b = 2']
            wraps = [';{}', ';;{}', ' ;\n; {}', '{};;', '{} ; ;', '; {} ;', '{}\n;\n', '\n\n{}', ',{}', '){}', '{} )', '({}', ';', '; ', ';;;',
                     "{} @'v'", '@"v" {}', '{} @@`v`', "@@'sv' {}", '{} @v', '{} 1', "{} 'x'", '{} "y"', '{} `z`', '{} ?',
                     '{} /* a */ from from /* b */', '/* a */ {} /* b */ x y /* c */', '{} /* a */ ) /* b */ ;', '{} -- a\n x -- b\n', '/* a */ /* b */ {}',
                     '{} /* a\n b */ , /* c */']

            def strip_comments(text):
                """the text without its comments, found by a scanner of its own (quotes respected, a block comment ends at the first */)"""
                out_, i_, n_ = [], 0, len(text)
                while i_ < n_:
                    c_ = text[i_]
                    if c_ in '\'"`':
                        j_ = i_ + 1
                        while j_ < n_ and text[j_] != c_:
                            j_ += 2 if text[j_] == '\\' and c_ != '`' else 1
                        out_.append(text[i_:j_ + 1])
                        i_ = j_ + 1
                    elif text.startswith('--', i_):
                        j_ = text.find('\n', i_)
                        i_ = n_ if j_ < 0 else j_
                    elif text.startswith('/*', i_):
                        j_ = text.find('*/', i_ + 2)
                        if j_ < 0:
                            return None
                        out_.append(' ')
                        i_ = j_ + 2
                    else:
                        out_.append(c_)
                        i_ += 1
                return ''.join(out_)
            Lcls = type(__import__('mindsdb_sql').get_lexer_parser(dialect)[0])

            def raw_count(text):
                """number of tokens the lexer's own patterns find in the text (token functions not called): what the parser must see"""
                pos, n, ign = 0, 0, getattr(Lcls, 'ignore', '')
                while pos < len(text):
                    if text[pos] in ign:
                        pos += 1
                        continue
                    m = Lcls._master_re.match(text, pos)
                    if not m or m.end() == pos:
                        return None
                    # sly strips the ignore_ prefix from the names of ignored rules and keeps them in _ignored_tokens
                    if not ((m.lastgroup or '').startswith('ignore_') or m.lastgroup in getattr(Lcls, '_ignored_tokens', ())):
                        n += 1
                    pos = m.end()
                return n
            texts_ = [w.format(s) for s in base for w in wraps] if not replay else [rp['sql_text']]
            if not replay:
                for s in base[:25]:
                    ws_ = s.split(' ')
                    for extra in ("@'v'", '@"v"', '@@`v`', '@v', ';'):
                        k_ = rng.randrange(1, len(ws_)) if len(ws_) > 1 else 1
                        texts_.append(' '.join(ws_[:k_] + [extra] + ws_[k_:]))
            n_acc = 0
            for txt in texts_:
                try:
                    parse_sql(txt, dialect)
                except Exception:
                    continue
                n_acc += 1
                evaluations += 1
                spec_text = re.sub(r'[\s;]+$', '', txt)
                nocom = strip_comments(spec_text)
                if nocom is not None and dialect == 'mindsdb':
                    spec_text = re.sub(r'[\s;]+$', '', nocom)
                try:
                    stoks = lex(dialect, spec_text)
                    rc_ = raw_count(spec_text)
                    if rc_ is not None and rc_ != len(stoks):
                        why = f'the lexer hands {len(stoks)} tokens to the parser where its patterns find {rc_}: a token of the text is skipped'
                    else:
                        why = None if earley_accepts(sd, [num[t.type] for t in stoks]) else 'its token sequence is not a sentence of the grammar'
                except Exception as e:
                    why = f'the lexer rejects it ({type(e).__name__})'
                    stoks = []
                if why and found < 3:
                    found += 1
                    R.violation({'dialect': dialect, 'sql_text': txt, 'text_after_stripping_trailing_semicolons': spec_text,
                                 'token_types': [t.type for t in stoks],
                                 'what': 'parse_sql accepted a text although, after the trailing semicolons and white space are stripped, ' + why,
                                 'checked_by': 'real lexer + Earley recogniser over the dumped productions'})
            stats[dialect]['text_level_accepted'] = n_acc
        if mism and not found:
            i = mism[0]
            desc, toks, syms, r = rows[i]
            ms = model_summaries(f'C05_replay_{dialect}', dialect, [syms])
            R.violation({'dialect': dialect, 'what': 'correspondence Model/Sly.v vs Parser.parse broke; no accepted non-sentence found',
                         'theorem': f'correspondence for C05_{dialect} (Gen/C05_cases_{dialect}_*.v)',
                         'n_mismatches': len(mism), 'token_types': [t.type for t in toks], 'case': desc,
                         'implementation': r, 'model': ms}, nofail=True)
        elif dialect in broken and not found:
            e = broken[dialect]
            R.violation({'dialect': dialect, 'what': e.what, 'detail': e.detail,
                         'theorem': f'C05_{dialect} / K_tables / cb <> CbIgnore', 'accepted_inputs_rechecked': judged},
                        nofail=True)
    R.cov['evaluations'] = evaluations
    R.cov['distinct_nontrivial'] = len(nontrivial)
    R.cov['rule'] = ('token lists from statements harvested from /repo/tests, mutated (delete/dup/replace/insert/prefix/'
                     'suffix/infix/concat/truncate/soup/swap); distinct = (dialect, outcome code, last 6 reductions, '
                     'has bad token); non-trivial = every case runs the full engine')
    R.cov['samples'] = samples
    R.cov['traces_validated_against_impl'] = evaluations
    R.notes['input_distribution'] = stats
    return R.finish()
