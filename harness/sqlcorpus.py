"""Harvest SQL statements from /repo/tests at run time (string constants that some dialect
accepts) plus a built-in seed list, so the generators start from mostly-valid inputs."""
import ast
import functools
import io
import contextlib
from pathlib import Path

from common import REPO

BUILTIN = [
    "select 1", "select a from t", "select a, b as c from t where a = 1 and b > 2 or c < 3",
    "select * from t1 join t2 on t1.a = t2.a left join t3 on t3.b = t2.b where t1.x in (1,2,3)",
    "select a from t group by a having count(*) > 1 order by a desc limit 10 offset 2",
    "select case when a > 1 then 'x' else 'y' end from t",
    "select cast(a as int) from t", "select a from (select b from u) as s",
    "insert into t (a, b) values (1, 'x')", "update t set a = 1 where b = 2", "delete from t where a = 1",
    "select a from t union select b from u", "select count(distinct a) from t",
    "select a between 1 and 2, b not in (1,2), c is not null, d like 'x%' from t",
    "select -a + b * c - d / e % f from t", "select not a = 1 from t",
    "create table t (a int, b text)", "drop table t", "show tables", "use db", "set x = 1",
]


def _strings_from_tests():
    out = []
    for f in sorted((REPO / 'tests').rglob('*.py')):
        try:
            tree = ast.parse(f.read_text())
        except SyntaxError:
            continue
        for node in ast.walk(tree):
            if isinstance(node, ast.Constant) and isinstance(node.value, str):
                s = node.value.strip()
                if 6 <= len(s) <= 1500 and ' ' in s:
                    out.append(s)
            elif isinstance(node, ast.JoinedStr):
                # f-strings: keep the literal parts joined with a placeholder identifier
                parts = []
                for v in node.values:
                    if isinstance(v, ast.Constant) and isinstance(v.value, str):
                        parts.append(v.value)
                    else:
                        parts.append('x')
                s = ''.join(parts).strip()
                if 6 <= len(s) <= 1500 and ' ' in s:
                    out.append(s)
    return out


@functools.lru_cache(maxsize=None)
def harvest():
    """-> dict dialect -> sorted list of accepted statements (deduplicated)."""
    from mindsdb_sql import parse_sql
    cands = list(dict.fromkeys(BUILTIN + _strings_from_tests()))
    res = {'mindsdb': [], 'mysql': [], 'sqlite': []}
    for s in cands:
        for d in res:
            try:
                with contextlib.redirect_stderr(io.StringIO()):
                    parse_sql(s, d)
                res[d].append(s)
            except Exception:
                pass
    return res


if __name__ == '__main__':
    h = harvest()
    print({k: len(v) for k, v in h.items()})
