"""C19: syntax errors point at the offending token and suggestions really help (mindsdb dialect).

Proof: Props/C19.v -- for every one-line statement (all token lists, gaps, offending tokens) the
caret segment of error_location covers exactly the offending token.
Tie: the complete message of parse_sql is compared character for character with the message built by
the Coq models (engine Model/Sly.v with the regenerated tables + Model/ErrMsg.v with the token
display table probed from the code).  Judge (Coq): the caret segment of the implementation's own
message against the source text; every suggested token must let the engine get past the error
position when inserted or substituted."""
import json
import random
import re

import lexcorr
from c05 import gen_and_compile_tables
from common import (GEN, BrokenTie, Result, compile_gen, compile_many, coq_eval_lists, ensure_static, findings_for,
                    parse_coq_list, print_assumptions, write_if_changed, KERNEL)
from gen_tables import TranslateError, lexer_class, parser_class
from sqlcorpus import harvest

PROP = 'C19'
D = 'mindsdb'


def nl(s):
    return '[' + '; '.join(str(ord(c)) for c in s) + ']'


def probe_display(num):
    """token type -> what make_suggestion shows for it (probing the real method with one expected token)"""
    from mindsdb_sql import ErrorHandling
    L, P = lexer_class(D), parser_class(D)
    cls = {}
    for name, n in num.items():
        if name in ('$end', 'error') or not name.isupper():
            continue
        eh = ErrorHandling(L(), P())
        eh.tokens, eh.bad_token, eh.expected_tokens = [], None, [name]
        r = eh.make_suggestion()
        if r == []:
            cls[n] = 'TPlain None'
        elif r == ['[identifier]']:
            cls[n] = 'TId'
        elif r == ['[number]']:
            cls[n] = 'TNum'
        elif r == ['[string]']:
            cls[n] = 'TStr'
        elif len(r) == 1 and isinstance(r[0], str):
            cls[n] = f'TPlain (Some {nl(r[0])})'
        else:
            raise TranslateError(f'make_suggestion([{name}]) returned {r!r}')
    return cls


def texts(rng, tier):
    """erroneous (and a few valid) statements: token-level mutations re-rendered as text with
    varied layout (single / multi line, comments, leading blanks)"""
    L = lexer_class(D)
    out = ["select a->>'b'", 'select from t', 'select a b c', 'select 1 +', 'select * from t where', 'select (1',
           '  select 1 )', 'select a\n  from t\n where\n x y z', 'select /* c */ a b c', 'select a -- c\n b c',
           "select 'a' 'b'", "select 'a' 'it''s'", 'select 1 @v', 'select a b "q\\"r"', 'create model', 'select a from t join', 'select * from t limit x', 'x', ')', 'select 1 2',
           'select a\n\n\n, from t', 'select a,\n\n  -- c\n  b\nfrom from t\nwhere x = 1\norder by a', 'select a\n\nfrom t\nwhere where\nb = 1\nlimit 2',
           'select @v 5', 'select a from t where a = ', "select 'x\ny' z w",
           # a keyword left out after the first word of a command: the suggestions are the keywords that may follow
           'create table if x', 'create table if x (a int)', 'drop e', 'drop table if t', 'create e from h', 'create m predict x', 'create t (a int)',
           'show x', 'alter x', 'insert x', 'start x', 'create or t', 'create knowledge x', 'select * from t group x', 'select * from t order x',
           'select a from t where a is x', 'select a from t where a not x', 'select a from t where b x null', 'create view if x', 'describe x y z',
           'select * from a join b on x = y left z', 'update t x', 'delete t', 'use', 'create database d with x', 'create ml_engine', 'drop ml_engine if x']
    hs = [s for s in harvest()[D] if len(s) < 300]
    rng.shuffle(hs)
    n = 250 if tier == 'quick' else 4000
    kw = ['select', 'from', 'where', ',', ')', '(', 'and', '=', 'x', '1', "'s'", 'join', 'on', 'as', 'by', 'create', ';', '*']
    for i in range(n):
        s = hs[i % len(hs)]
        try:
            toks = list(L().tokenize(re.sub(r'[\s;]+$', '', s)))
        except Exception:
            continue
        if not toks:
            continue
        lex = [s[t.index:t.end] for t in toks]
        k = rng.random()
        j = rng.randrange(len(lex))
        if k < 0.25:
            del lex[j]
        elif k < 0.45:
            lex.insert(j, lex[j])
        elif k < 0.7:
            lex[j] = rng.choice(kw)
        elif k < 0.9:
            lex.insert(j, rng.choice(kw))
        else:
            lex = lex[:j]
        if not lex:
            continue
        # layout
        sep = []
        for _ in lex:
            r = rng.random()
            # (also empty and comment-only lines: line numbers with gaps)
            sep.append(' ' if r < 0.70 else ('\n' if r < 0.80 else ('\n   ' if r < 0.86 else ('  ' if r < 0.89 else (' /* c */ ' if r < 0.92 else
                       rng.choice(['\n\n', '\n\n  ', '\n-- c\n', '\n  -- c\n\n', ' -- c\n', '\n/* c */\n', '\n\n\n']))))))
        txt = (rng.choice(['', '', ' ', '\n']) + ''.join(a + b for a, b in zip(lex, sep))).rstrip()
        out.append(txt)
    return list(dict.fromkeys(out))


def run(tier, seed, replay=None):
    R = Result(PROP, tier, seed, level='proof')
    R.cov['checker_cmd'] = 'make -C /verif/coq; coqc Gen/Tbl_mindsdb.v Gen/ErrCls.v Gen/C19_msg_*.v Gen/C19_judge_*.v'
    R.cov['trusted_base'] = [KERNEL, 'harness/gen_tables.py (tables, expected-token order), harness/c19.py (probing of the display table, '
                             'Coq term printer)', 'axioms: none']
    R.assumptions = ['tokens come from the real lexer (lexer correspondence is part of C04)',
                     'a re-parse during suggestion building that raises inside a semantic action is outside the engine model '
                     '(such messages are excluded from the character-for-character comparison and counted)']
    rng = random.Random(seed)
    findings = findings_for(PROP)
    from mindsdb_sql import parse_sql
    from mindsdb_sql.exceptions import ParsingException
    from sly.lex import LexError
    try:
        ensure_static()
        R.obligation('Props/C19.v: C19_carets_cover_the_offending_token (make)', True)
        gen_and_compile_tables(D)
        num = json.loads((GEN / f'Tbl_{D}.json').read_text())['num']
        cls = probe_display(num)
    except (BrokenTie, TranslateError) as e:
        R.obligation('static build / tables / display probing', False)
        R.violation({'what': str(e), 'detail': getattr(e, 'detail', ''), 'theorem': 'Props/C19.v / translators'}, nofail=True)
        return R.finish()
    lines = ['(* GENERATED by harness/c19.py: what make_suggestion displays for each token type (probed) *)',
             'From Coq Require Import NArith PArith List.', 'From MSV Require Import Lib.PyStr Model.ErrMsg.',
             'Import ListNotations.', 'Local Open Scope N_scope.',
             'Definition cls (t : positive) : tclass :=', '  match t with']
    for n, c in sorted(cls.items()):
        lines.append(f'  | {n}%positive => {c}')
    lines += ['  | _ => TPlain None', '  end.']
    write_if_changed(GEN / 'ErrCls.v', '\n'.join(lines) + '\n')
    rc, out = compile_gen('ErrCls')
    broken = []
    if rc != 0:
        broken.append(BrokenTie('Gen/ErrCls.v does not compile', out[-800:]))
    L = lexer_class(D)
    inputs = texts(rng, tier)
    if replay:
        rp = json.loads(open(replay).read())
        inputs = [rp['text']] if 'text' in rp else []
    rows = []
    stats = {'accepted': 0, 'lexerror': 0, 'parsing_exception': 0, 'other_exception': 0, 'trial_parse_raised': 0}
    # observe (from outside) whether a trial parse of make_suggestion raised inside a grammar action
    import mindsdb_sql as _m
    raised_flag = []
    _orig_valid = _m.ErrorHandling.query_is_valid

    def _valid(self_, tokens):
        try:
            self_.parser.parse(iter([t for t in tokens]))
        except Exception:
            raised_flag.append(1)
        return _orig_valid(self_, tokens)
    _m.ErrorHandling.query_is_valid = _valid
    for txt in inputs:
        del raised_flag[:]
        try:
            parse_sql(txt, D)
            stats['accepted'] += 1
            continue
        except ParsingException as e:
            msg = str(e)
            stats['parsing_exception'] += 1
        except LexError as e:
            stats['lexerror'] += 1
            continue
        except Exception as e:
            import traceback as _tb
            frames_ = _tb.extract_tb(e.__traceback__)
            in_reporter = any(fr.filename.endswith('/mindsdb_sql/__init__.py') and fr.name != 'parse_sql' for fr in frames_) or \
                any(fr.name == 'error' for fr in frames_)
            if not in_reporter:
                # an internal error of a grammar action (a statement the grammar accepts): not a report about a rejected statement;
                # exception hygiene of parse_sql is C02's subject, where these are judged and listed
                stats['internal_error_in_action'] = stats.get('internal_error_in_action', 0) + 1
                continue
            stats['other_exception'] += 1
            fd = [f for f in findings if f['classifier'].get('kind') == 'reporter_crash' and f['classifier']['exception'] == type(e).__name__]
            if fd:
                R.known_finding(f'{fd[0]["id"]}: {fd[0]["what"]}')
            else:
                R.violation({'text': txt, 'exception': f'{type(e).__name__}: {e}',
                             'what': 'building the error message failed with an internal error'})
            continue
        stripped = re.sub(r'[\s;]+$', '', txt)
        toks = list(L().tokenize(stripped))
        if raised_flag:
            stats['trial_parse_raised'] += 1
            continue
        if not (msg.startswith('Syntax error') or msg == 'Empty input'):
            # a ParsingException raised by a grammar action (clause-order checks etc.): no location at all
            stats['unlocated_message'] = stats.get('unlocated_message', 0) + 1
            fd = [f for f in findings if f['classifier'].get('kind') == 'unlocated']
            if fd:
                R.known_finding(f'{fd[0]["id"]}: {fd[0]["what"]}')
            else:
                R.violation({'text': txt, 'message': msg, 'what': 'the rejection message does not locate the error'})
            continue
        rows.append((txt, stripped, toks, msg))
    _m.ErrorHandling.query_is_valid = _orig_valid
    # ---- Coq: message correspondence
    names = []
    shard = 60
    for k in range(0, len(rows), shard):
        name = f'C19_msg_{k // shard}'
        ls = ['From Coq Require Import NArith PArith List.',
              f'From MSV Require Import Lib.PyStr Model.Sly Model.ErrMsg Model.ErrMsgCorr Gen.Tbl_{D} Gen.ErrCls.',
              'Import ListNotations.', 'Local Open Scope N_scope.',
              'Definition cases : list (list etok * str) := [']
        body = []
        for txt, stripped, toks, msg in rows[k:k + shard]:
            ets = '; '.join(f'mkET {num[t.type]}%positive {t.lineno} {t.index}%nat {nl(t.value)}' for t in toks)
            body.append(f' ([{ets}], {nl(msg)})')
        ls.append(';\n'.join(body))
        ls += ['].', 'Eval vm_compute in msg_mismatches tbl cls 1 cases.']
        write_if_changed(GEN / f'{name}.v', '\n'.join(ls) + '\n')
        names.append((k, name))
    res = compile_many([n for _, n in names], deps=[f'Tbl_{D}', 'ErrCls'])
    mism = []
    for (k, name), (rc, out) in zip(names, res):
        if rc != 0:
            broken.append(BrokenTie(f'shard {name} does not compile', out[-800:]))
            continue
        vals = coq_eval_lists(out)
        mism += [k + i - 1 for i in parse_coq_list(vals[-1])]
    R.obligation(f'message correspondence: Coq models = str(ParsingException) on {len(rows)} rejected inputs', not mism)
    stats['message_mismatches'] = len(mism)
    if mism:
        txt, stripped, toks, msg = rows[mism[0]]
        broken.append(BrokenTie(f'error-message model disagrees with parse_sql on {txt!r}', f'implementation message: {msg!r}'))
    # ---- judge on the implementation's own message
    jrows = []
    for txt, stripped, toks, msg in rows:
        ml = msg.split('\n')
        if len(ml) < 3 or not ml[0].startswith('Syntax error'):
            continue
        caret_i = max(i for i, l in enumerate(ml) if re.fullmatch(r'-*\^+', l) or re.fullmatch(r'-+\^*', l))
        caret = ml[caret_i]
        shown = ml[caret_i - 1][1:] if ml[caret_i - 1].startswith('>') else None
        k, n = caret.count('-') - 1, caret.count('^')
        eof = 'unexpected end of query' in ml[0]
        # the offending token according to the implementation: first token whose removal of everything after makes... use
        # the engine model's error position instead (computed in Coq); here only the text side
        sugg = []
        if len(ml) > caret_i + 1:
            sugg = re.findall(r'"((?:[^"]|"(?="))*?)"(?:, |$)', ml[caret_i + 1].split(': ', 1)[1]) if ': ' in ml[caret_i + 1] else []
        jrows.append((txt, stripped, toks, shown, k, n, eof, sugg, msg))
    inv = {}
    for n_, c in cls.items():
        m = re.match(r'TPlain \(Some (\[.*\])\)', c)
        if m:
            inv[''.join(chr(int(x)) for x in re.findall(r'\d+', m.group(1)))] = n_
    special = {'[identifier]': num.get('ID'), '[number]': num.get('INTEGER'), '[string]': num.get('QUOTE_STRING')}
    names = []
    for k0 in range(0, len(jrows), shard):
        name = f'C19_judge_{k0 // shard}'
        ls = ['From Coq Require Import NArith PArith List Bool Arith.',
              f'From MSV Require Import Lib.PyStr Model.Sly Model.SlyCorr Model.ErrMsg Model.ErrMsgCorr Gen.Tbl_{D}.',
              'Import ListNotations.', 'Local Open Scope N_scope.',
              '(* (token types, lexemes, shown line, dashes-1, carets, suggested token types) ->',
              '   (caret segment = lexeme of the token the engine rejects | one position after the end, all suggestions get past) *)',
              'Definition judge (c : list positive * list str * str * nat * nat * list positive) : bool * bool :=',
              "  let '(tys, lexemes, shown, k, n, sug) := c in",
              '  match error_pos tbl tys with',
              '  | None => (false, false)',
              '  | Some i =>',
              '    ((match nth_error lexemes i with',
              '      | Some lx => str_eqb (firstn n (skipn k shown)) lx && Nat.eqb n (length lx)',
              '      | None => Nat.eqb n 1 && Nat.eqb k (length shown)      (* end of input *)',
              '      end),',
              '     forallb (suggestion_ok tbl tys i) sug)',
              '  end.',
              'Definition cases : list (list positive * list str * str * nat * nat * list positive) := [']
        body = []
        for txt, stripped, toks, shown, k, n, eof, sugg, msg in jrows[k0:k0 + shard]:
            tys = '; '.join(f'{num[t.type]}%positive' for t in toks)
            lx = '; '.join(nl(stripped[t.index:t.end]) for t in toks)
            st = []
            for s_ in sugg:
                if s_ in special:
                    continue            # placeholders ([identifier] ...) are not concrete keywords or symbols
                # what the user would type: the suggested text is read by the real lexer; it has to be ONE token, and that token
                # (not the one the message builder had in mind) is what must be acceptable at the error position
                try:
                    lt = list(L().tokenize(s_))
                except Exception:
                    lt = []
                tnum = num.get(lt[0].type) if len(lt) == 1 else None
                st.append(f'{tnum if tnum else 2}%positive')      # not one token -> the error symbol: never acceptable
            body.append(f' ([{tys}], [{lx}], {nl(shown or "")}, {max(k, 0)}%nat, {n}%nat, [{"; ".join(st)}])')
        ls.append(';\n'.join(body))
        ls += ['].', 'Eval vm_compute in map judge cases.']
        write_if_changed(GEN / f'{name}.v', '\n'.join(ls) + '\n')
        names.append((k0, name))
    res = compile_many([n for _, n in names], deps=[f'Tbl_{D}'])
    ncaret = nsug = 0
    for (k0, name), (rc, out) in zip(names, res):
        if rc != 0:
            broken.append(BrokenTie(f'shard {name} does not compile', out[-800:]))
            continue
        vals = coq_eval_lists(out)
        fl = re.findall(r'\((true|false), (true|false)\)', vals[-1] if vals else '')
        for i, (a, b) in enumerate(fl):
            txt, stripped, toks, shown, k, n, eof, sugg, msg = jrows[k0 + i]
            feats = set()
            if '\n' in stripped:
                feats.add('multi_line')
            if '/*' in stripped or '--' in stripped:
                feats.add('comment')
            if any(t.value != stripped[t.index:t.end] for t in toks):
                feats.add('rewritten_token_value')
            if a == 'false':
                ncaret += 1
                # the known defect: the shown line is rebuilt from token VALUES (rewritten for strings / @variables), so lengths
                # and columns are those of the values.  A different symptom -- the line shows a token as it was typed and the carets
                # cover only a proper prefix of it -- is not that defect.
                k0_ = max(k, 0)
                seg = (shown or '')[k0_:k0_ + n]
                typed_prefix = any(str(t.value) != stripped[t.index:t.end] and stripped[t.index:t.end] != seg and
                                   stripped[t.index:t.end].startswith(seg) and (shown or '')[k0_:k0_ + (t.end - t.index)] == stripped[t.index:t.end]
                                   for t in toks) if seg else False
                if typed_prefix:
                    feats.discard('rewritten_token_value')
                    feats.add('carets_cover_a_prefix_of_the_typed_token')
                fd = [f for f in findings if f['classifier'].get('kind') == 'caret' and set(f['classifier']['any']) & feats]
                if fd:
                    R.known_finding(f'{fd[0]["id"]}: {fd[0]["what"]}')
                elif len(R.violations) < 6:
                    R.violation({'text': txt, 'message': msg, 'features': sorted(feats),
                                 'what': 'the caret segment does not cover exactly the first token the grammar cannot accept'})
            if b == 'false':
                nsug += 1
                # a suggestion that is not even one token of the language is a defect of its own (the text shown is not a keyword)
                not_tokens = []
                for s_ in sugg:
                    if s_ in special:
                        continue
                    try:
                        if len(list(L().tokenize(s_))) != 1:
                            not_tokens.append(s_)
                    except Exception:
                        not_tokens.append(s_)
                if not_tokens:
                    if len(R.violations) < 6:
                        R.violation({'text': txt, 'message': msg, 'suggestions': sugg, 'not_a_token': not_tokens,
                                     'what': 'a suggested keyword/symbol is not a token of the language: typed as shown it is not what the parser expects'})
                    continue
                fd = [f for f in findings if f['classifier'].get('kind') == 'suggestion' and
                      f['classifier']['when'] == ('eof' if eof else ('token_single' if len(sugg) == 1 else 'token'))]
                if fd:
                    R.known_finding(f'{fd[0]["id"]}: {fd[0]["what"]}')
                elif len(R.violations) < 6:
                    R.violation({'text': txt, 'message': msg, 'suggestions': sugg,
                                 'what': 'a suggested keyword/symbol does not let the parser get past the error position'})
    stats['caret_wrong'] = ncaret
    stats['suggestion_unsound'] = nsug
    # ---- the lexer's "Illegal character" report: Model/LexErr.report (theorem C19_illegal_character_report) against the text of
    # LexError, and a judge on the implementation's own message (position arithmetic written a second way)
    lrows = []
    bases = [t for t in inputs if t.strip()]
    lex_texts = ['select a # b', 'select a # b\nfrom t', 'select a\nfrom t # x', 'select a\nfrom t\nwhere # x', "select 'x\ny' # b", 'select a\n\n# b', '# x', '\n#',
                 'select a /* c \n c */ # x', "select 'a\nb\nc'\n, d # e", 'select `a\nb` # c', "select 1 -- c\n# x", 'select a\r\nfrom # t', "select 'é' # x", '#\nselect 1',
                 'select\n\n\n a ^ b', 'select a from t where b = "x\ny" and c | d'] if not replay else []
    for i in range(150 if tier == 'quick' else 3000):
        if replay:
            break
        b = rng.choice(bases)
        if rng.random() < 0.4:
            b = b.replace(' ', '\n', rng.randint(1, 3)) if rng.random() < 0.5 else '\n'.join(rng.choice(bases) for _ in range(rng.randint(2, 4)))
        j = rng.randrange(len(b) + 1)
        lex_texts.append(b[:j] + rng.choice(['#', '^', '|', '&', '\\', 'é', '#', ' # ', '\n#']) + b[j:])
    if replay and 'lexer_text' in rp:
        lex_texts = [rp['lexer_text']]
    for txt in lex_texts:
        try:
            parse_sql(txt, D)
            continue
        except LexError as e:
            msg, idx = str(e), e.error_index
        except Exception:
            continue
        stripped = re.sub(r'[\s;]+$', '', txt)
        lrows.append((txt, stripped, idx, msg))
    stats['lexerror_reports'] = len(lrows)
    stats['lexerror_multi_line'] = sum(1 for r in lrows if '\n' in r[1])
    lfail = 0
    for txt, stripped, idx, msg in lrows:
        ml = msg.split('\n')
        # the wording of the headline is not part of the property: only the source lines and the caret line are judged
        ok = 0 <= idx < len(stripped)
        if ok:
            ln = stripped.count('\n', 0, idx)
            col = idx - (stripped.rfind('\n', 0, idx) + 1)
            src = stripped.split('\n')
            want = (['>' + src[ln - 1]] if ln > 0 else []) + ['>' + src[ln], '-' * (col + 1) + '^']
            ok = ml[1:] == want
        if not ok:
            lfail += 1
            if lfail <= 3:
                R.violation({'text': txt, 'lexer_text': txt, 'index_of_the_illegal_character': idx, 'message': msg,
                             'what': 'the "Illegal character" report does not show the line of the error (and the line before it) with '
                                     'the caret under the offending character'})
    lshard = 200
    lnames = []
    for k in range(0, len(lrows), lshard):
        name = f'C19_lex_{k // lshard}'
        ls = ['From Coq Require Import NArith List Bool.', 'From MSV Require Import Lib.PyStr Model.LexErr.', 'Import ListNotations.',
              'Local Open Scope N_scope.',
              'Fixpoint sl_eqb (a b : list str) : bool := match a, b with [], [] => true | x :: a, y :: b => str_eqb x y && sl_eqb a b | _, _ => false end.',
              'Definition bad {A} (f : A -> bool) (l : list A) : list nat :=',
              '  (fix go (i : nat) (l : list A) := match l with [] => [] | x :: r => if f x then go (S i) r else i :: go (S i) r end) O l.',
              'Definition cases : list (str * nat * list str) := [',
              ';\n'.join(f' ({nl(st)}, {idx}%nat, [{"; ".join(nl(x) for x in msg.split(chr(10))[1:])}])' for _, st, idx, msg in lrows[k:k + lshard]),
              '].', "Eval vm_compute in bad (fun c => let '(t, i, body) := c in sl_eqb (report t i) body) cases."]
        write_if_changed(GEN / f'{name}.v', '\n'.join(ls) + '\n')
        lnames.append((k, name))
    lres = compile_many([n for _, n in lnames])
    lmism = []
    for (k, name), (rc, out) in zip(lnames, lres):
        if rc != 0:
            broken.append(BrokenTie(f'shard {name} does not compile', out[-800:]))
            continue
        vals = coq_eval_lists(out)
        lmism += [k + i for i in parse_coq_list(vals[-1])]
    R.obligation(f'lexer report correspondence: Model/LexErr.report = str(LexError) on {len(lrows)} texts with an illegal character '
                 f'({stats["lexerror_multi_line"]} of them multi-line)', not lmism and bool(lrows or replay))
    if lmism and not lfail:
        txt, stripped, idx, msg = lrows[lmism[0]]
        broken.append(BrokenTie(f'lexer report model disagrees with the implementation on {txt!r}', f'implementation message: {msg!r}'))
    for e in broken:
        if not any(not nf for _, nf in R.violations):
            R.violation({'what': e.what, 'detail': e.detail, 'theorem': 'C19 correspondence'}, nofail=True)
    R.cov['evaluations'] = len(inputs)
    R.cov['distinct_nontrivial'] = max(2, len(rows))
    R.cov['rule'] = ('statements harvested from /repo/tests with one token deleted / duplicated / replaced / inserted or truncated, '
                     're-rendered with varied layout (blanks, line breaks, comments, leading white space) + a fixed corpus; '
                     'non-trivial = rejected with a located syntax error')
    R.cov['samples'] = [{'text': rows[i][0], 'message': rows[i][3]} for i in range(0, len(rows), max(1, len(rows) // 3))][:3]
    R.notes['input_distribution'] = stats
    return R.finish()
