"""C14: in a table-model join the model gets the right rows and arguments, only those.

Proof: Props/C14.v -- for every condition tree (any nesting of AND / OR / NOT / functions) the
arguments are exactly the top-level `col = const` conjuncts on the model's own alias, every pushed
filter is a top-level conjunct on that table, the outer condition evaluates as the conjunction of
the conjuncts that were not consumed; ON filters only for inner / left joins and only top-level
`=`-constant conjuncts; column mapping for conjunctions of equalities; USING keys; every model of a
left-deep join is applied to the join of everything before it, one apply step per model.
(The model follows the repository after the fixes c9afda6 / 57eb20a / 046179c; before them the
judge reported filters and arguments taken from under NOT / OR / functions and from right joins.)
Tie: generated join queries x catalogs are planned by the implementation; the WHERE / ON trees are
translated to Model/ModelJoin.cond by this harness and the implementation's fetch filters,
row_dict, columns_map, params, outer WHERE and step sequence are compared with the model's in Coq.
Judge: the same outputs are compared in Coq with the specification (top-level conjuncts only)."""
import copy
import json
import random
import re

import plangen
from common import (GEN, BrokenTie, Result, compile_gen, compile_many, coq_eval_lists, ensure_static, findings_for,
                    write_if_changed, KERNEL)

PROP = 'C14'
TABS = [('int1', 't1'), ('int2', 't2'), ('int3', 't3'), ('int1', 'u1'), ('int2', 'u2')]
MODELS = [('proj.pred', None), ('proj.pred2', 'c'), ('proj.pred.3', None), ('proj.pred3', 'bc')]
COLS = ['a', 'b', 'c']


# ------------------------------------------------------------------ generator
def atom(rng, aliases, maliases):
    al = rng.choice(aliases + maliases) if maliases and rng.random() < 0.45 else rng.choice(aliases)
    c = rng.choice(COLS)
    if al in maliases and rng.random() < 0.15:
        c = c.upper()
    k = rng.random()
    v = rng.choice(['0', '1', '2', "'x'", "'y'"])
    if k < 0.45:
        return f'{al}.{c} = {v}'
    if k < 0.52:
        return f'{v} = {al}.{c}'
    if k < 0.64:
        return f'{al}.{c} {rng.choice([">", "<", "!=", ">=", "like"])} {v}'
    if k < 0.67:
        return f'{al}.{c} between 0 and 2'
    if k < 0.70:
        # every operand position of a comparison can hold something that is not a constant: a column of this / another table / the model
        o = rng.choice(aliases + maliases)
        oc = f'{o}.{rng.choice(COLS)}'
        return rng.choice([f'{al}.{c} between 0 and {oc}', f'{al}.{c} between {oc} and 2', f'{al}.{c} between {oc} and {oc}',
                           f'1 between {al}.{c} and 2', f'{al}.{c} in (1, {oc})', f'{al}.{c} = {oc} + 1', f'{al}.{c} between 0 and abs(2)'])
    if k < 0.77 and len(aliases) > 1:
        b = rng.choice([x for x in aliases if x != al] or aliases)
        return f'{al}.{c} {rng.choice(["=", "=", ">"])} {b}.{rng.choice(COLS)}'
    if k < 0.83:
        return f'{al}.{c} in (1, 2)'
    if k < 0.88:
        return f'{al}.{c} is null'
    if k < 0.93:
        return f'abs({al}.{c}) > 1'
    if k < 0.96:
        return f'{c} = {v}'
    return f'{al}.{c} is not null'


def where_tree(rng, aliases, maliases, depth, wild):
    r = rng.random()
    if depth < 3 and r < 0.45:
        return f'{where_tree(rng, aliases, maliases, depth + 1, wild)} and {where_tree(rng, aliases, maliases, depth + 1, wild)}'
    if wild and depth < 3:
        if r < 0.55:
            return f'({where_tree(rng, aliases, maliases, depth + 1, wild)} or {where_tree(rng, aliases, maliases, depth + 1, wild)})'
        if r < 0.63:
            return f'not {where_tree(rng, aliases, maliases, depth + 2, wild)}'
        if r < 0.66:
            return f'not ({where_tree(rng, aliases, maliases, depth + 1, wild)})'
        if r < 0.70:
            return f'coalesce({atom(rng, aliases, maliases)}, {atom(rng, aliases, maliases)})'
        if r < 0.72:
            return f'ifnull({atom(rng, aliases, maliases)}, true) = true'
    return atom(rng, aliases, maliases)


def on_tree(rng, prev, this, wild):
    parts = [f'{rng.choice(prev)}.a = {this}.a' if rng.random() < 0.8 else f'{this}.a = {rng.choice(prev)}.b']
    n = rng.choice([0, 0, 1, 1, 2])
    for _ in range(n):
        k = rng.random()
        al = this if rng.random() < 0.75 else rng.choice(prev)
        c = rng.choice(COLS)
        if k < 0.5:
            parts.append(f'{al}.{c} = {rng.randint(0, 2)}')
        elif k < 0.6:
            parts.append(f'{rng.randint(0, 2)} = {al}.{c}')
        elif k < 0.7:
            parts.append(f'{al}.{c} between 0 and 2')
        elif wild and k < 0.78:
            parts.append(f'{al}.{c} > {rng.randint(0, 2)}')
        elif wild and k < 0.86:
            parts.append(f'not {al}.{c} = {rng.randint(0, 2)}')
        elif wild and k < 0.92:
            parts.append(f'({al}.{c} = 1 or {al}.b = 2)')
        elif wild and k < 0.96:
            parts.append(f'coalesce({al}.{c} = 1, true)')
        else:
            parts.append(f'{rng.choice(prev)}.{c} = {this}.b')
    rng.shuffle(parts)
    return ' and '.join(parts)


def gen_query(rng):
    ntab = rng.choice([1, 1, 2, 2, 3])
    nmod = rng.choice([1, 1, 1, 2])
    tabs = rng.sample(TABS, ntab)
    mods = [rng.choice(MODELS) for _ in range(nmod)]
    order = ['t'] * (ntab - 1) + ['m'] * nmod
    rng.shuffle(order)
    order = ['t'] + order
    if ntab == 1 and nmod == 1 and rng.random() < 0.08:
        order = ['m', 't']                      # the "model join table" swap
    wild_where = rng.random() < 0.45
    wild_on = rng.random() < 0.35
    outer = rng.random() < 0.3
    refs = []
    frm = ''
    ti = mi = 0
    for pos, kind in enumerate(order):
        if kind == 't':
            ig, t = tabs[ti]
            ti += 1
            alias = rng.choice([None, None, f'x{pos}', f'X{pos}'])
            name = f'{ig}.{t}'
            al = alias or t
            txt = name + (f' as {alias}' if alias else '')
            refs.append(dict(kind='t', name=name, al=al, table=t))
        else:
            mname, tgt = mods[mi]
            alias = ['m', 'm2'][mi] if rng.random() < 0.9 else ['M', 'M2'][mi]
            mi += 1
            al = alias
            txt = f'{mname} as {alias}'
            refs.append(dict(kind='m', name=mname, al=al, tgt=tgt))
        if pos == 0:
            frm = txt
            continue
        prev_t = [r['al'] for r in refs[:-1] if r['kind'] == 't']
        prev_all = [r['al'] for r in refs[:-1]]
        if kind == 't':
            jt = rng.choice(['join', 'join', 'left join', 'inner join'] + (['right join', 'full join', 'left outer join', 'outer join', 'full outer join'] if outer else []))
            on = None if rng.random() < 0.08 or not prev_all else on_tree(rng, prev_t or prev_all, al, wild_on)
        else:
            jt = rng.choice(['join', 'join', 'join', 'left join'])
            k = rng.random()
            on = None
            if prev_t and k < 0.3:
                on = f'{rng.choice(prev_t)}.a = {al}.a'
                if rng.random() < 0.4:
                    on += f' and {rng.choice(prev_t)}.b = {al}.c'
                if wild_on and rng.random() < 0.3:
                    on += f' and {rng.choice(prev_t)}.c > {al}.b'
        refs[-1]['jt'] = jt
        frm += f' {jt} {txt}' + (f' on {on}' if on else '')
    aliases = [r['al'] for r in refs if r['kind'] == 't']
    maliases = [r['al'] for r in refs if r['kind'] == 'm']
    targets = rng.choice(['*', '*', f'{aliases[0]}.a, {maliases[0]}.c'])
    sql = f'select {targets} from {frm}'
    if rng.random() < 0.9:
        sql += ' where ' + where_tree(rng, aliases, maliases, 0, wild_where)
    if rng.random() < 0.15:
        sql += f' order by {aliases[0]}.a'
    if rng.random() < 0.2:
        sql += f' limit {rng.randint(1, 3)}'
    if rng.random() < 0.35:
        opts = ['a=1', 'B=2', "c='x'", 'partition_size=2', f'{maliases[0]}.x=1', f'{maliases[0].upper()}.y=2', 'zz.q=3', 'A=5',
                f'{maliases[-1]}.Deep.key=4', f'{maliases[0]}.partition_size=3', f'{maliases[0]}.llm.temperature=7', 'zz.a.b=1']
        sql += ' using ' + ', '.join(rng.sample(opts, rng.randint(1, 3)))
    return sql


EDGE = [
    "select * from int1.t1 join proj.pred as m where not m.a = 1 and t1.b = 2",
    "select * from int1.t1 join int2.t2 on t1.a = t2.a join proj.pred as m where not t1.b = 1",
    "select * from int1.t1 join proj.pred as m where coalesce(m.a = 1, t1.b = 2)",
    "select * from int1.t1 join proj.pred as m where m.a = 1 or t1.b = 2",
    "select * from int1.t1 right join int2.t2 on t1.a = t2.a and t2.b = 1 join proj.pred as m",
    "select * from int1.t1 full join int2.t2 on t1.a = t2.a and t2.b = 1 join proj.pred as m",
    "select * from int1.t1 join int2.t2 on t1.a = t2.a and not t2.b = 1 join proj.pred as m where m.a = 1",
    "select * from int1.t1 join proj.pred2 as m where m.c = 1 and m.C = 2 and m.a = 3 and m.a = 4",
    "select * from int1.t1 join proj.pred as m on t1.a = m.a and t1.b = m.c where m.a = 1 using A=1, a=2, m.B=3",
    "select * from proj.pred as m join int1.t1 where m.a = 1 and t1.b = 2",
    # the model is joined to something that is not a plain table: the ON equalities are its column mapping all the same
    "select * from (select * from int1.t1 where a > 0) as s join proj.pred as m on m.a = s.b and s.c = m.c",
    "select * from (select * from int1.t1) as s join proj.pred as m on s.a = m.a where m.b = 1",
    "select * from int1.t1 as t join proj.pred as m join proj.pred2 as m2 on m2.a = m.c",
    "select * from int1.t1 as t join (select * from int2.t2) as s on s.a = t.a join proj.pred as m on m.a = s.b and m.b = t.c",
    "select * from int1.t1 join proj.pred3 as m where m.b = 1 and m.c = 2 and m.bc = 3 and m.a = 4",
    "select * from int1.t1 join proj.pred3 as m where m.B = 1 and m.BC = 3",
    "select * from int1.t1 as x join proj.pred as m join int2.t2 as z on z.a = x.a and z.b = 1 join proj.pred2 as m2 where m.a = 1 and m2.b = 2 and z.c = 3",
]


# ------------------------------------------------------------------ translation to Model/ModelJoin.cond
class Intern:
    def __init__(self):
        self.d = {}

    def __call__(self, key):
        if key not in self.d:
            self.d[key] = len(self.d) + 1
        return self.d[key]


class Unsupported(Exception):
    pass


def alias_map(refs_ast):
    """alias tuple (lower-cased) -> reference number (1-based), as the FROM clause defines it"""
    amap = {}
    for k, t in enumerate(refs_ast):
        if t.alias is not None:
            amap[tuple(p.lower() for p in t.alias.parts)] = k + 1
        else:
            for i in range(len(t.parts)):
                amap[tuple(p.lower() for p in t.parts[i:])] = k + 1
    return amap


def from_refs(node):
    from mindsdb_sql.parser.ast import Join, Identifier
    if isinstance(node, Identifier):
        return [(node, None, None)]
    if isinstance(node, Join):
        l = from_refs(node.left)
        r = from_refs(node.right)
        if len(r) != 1:
            raise Unsupported('nested join')
        return l + [(r[0][0], node.join_type, node.condition)]
    raise Unsupported('from shape')


class Tr:
    def __init__(self, amap, I, isnull_as_cmp=False):
        self.amap = amap
        self.I = I
        # on the side of what was actually pushed into a fetch, an IS NULL conjunct is a filter like any other
        self.isnull_as_cmp = isnull_as_cmp

    def col(self, ident):
        from mindsdb_sql.parser.ast import Identifier
        if isinstance(ident, Identifier) and len(ident.parts) >= 2:
            k = self.amap.get(tuple(p.lower() for p in ident.parts[:-1]))
            if k is None:
                raise Unsupported('unknown alias')
            return k, ident.parts[-1]
        return None

    def const(self, c):
        return self.I(('const', type(c).__name__, repr(c.value)))

    def canon(self, node):
        """canonical text of an opaque sub-expression with aliases replaced by reference numbers"""
        from mindsdb_sql.parser.ast import Identifier
        from mindsdb_sql.planner.utils import query_traversal
        n = copy.deepcopy(node)

        def cb(x, **kw):
            if isinstance(x, Identifier) and len(x.parts) >= 2:
                k = self.amap.get(tuple(p.lower() for p in x.parts[:-1]))
                if k is not None:
                    x.parts = [f'ref{k}', x.parts[-1]]
        query_traversal(n, cb)
        return n.to_string()

    def scan(self, node):
        """(has column-constant comparison / OR, has blocking binary operator) inside an opaque node"""
        from mindsdb_sql.parser.ast import BinaryOperation, BetweenOperation
        from mindsdb_sql.planner.utils import query_traversal
        res = [False, False]

        def cb(x, **kw):
            if isinstance(x, BetweenOperation) and self.classify(x)[0] != 'other':
                res[0] = True
            if isinstance(x, BinaryOperation):
                if x.op == 'or' or self.classify(x)[0] != 'other':
                    res[0] = True
                if x.op not in ('=', 'and'):
                    res[1] = True
        query_traversal(copy.deepcopy(node), cb)
        return res

    def classify(self, node):
        from mindsdb_sql.parser.ast import BinaryOperation, BetweenOperation, Identifier, Constant, Parameter
        args = node.args
        if isinstance(node, BinaryOperation) and len(args) == 2:
            a, b = args
            if isinstance(a, Constant) and isinstance(b, Constant) and node.op == '=' and a.value == 0 and b.value == 0:
                return ('true',)
            if isinstance(a, Identifier) and isinstance(b, Identifier):
                ca, cb = self.col(a), self.col(b)
                if ca and cb:
                    return ('cols', node.op == '=', ca, cb)
                return ('other',)
            if node.op == 'is' and type(b).__name__ == 'NullConstant' and isinstance(a, Identifier):
                # IS NULL: a conjunct like the others for the specification; the implementation never pushes it (fix 11250a0)
                c = self.col(a)
                return ('cmp', 'OIsNull', c, self.I(('const', 'null'))) if c else ('other',)
            if isinstance(a, Identifier) and isinstance(b, (Constant, Parameter)):
                c = self.col(a)
                if c:
                    if isinstance(b, Parameter):
                        raise Unsupported('parameter')
                    return ('cmp', 'OEq' if node.op == '=' else 'OBin', c, self.const(b))
                return ('other',)
            if isinstance(b, Identifier) and isinstance(a, (Constant, Parameter)):
                c = self.col(b)
                if c:
                    if isinstance(a, Parameter):
                        raise Unsupported('parameter')
                    return ('cmp', 'OEqRev' if node.op == '=' else 'OBin', c, self.const(a))
                return ('other',)
        if isinstance(node, BetweenOperation):
            a = args[0]
            if isinstance(a, Identifier) and all(isinstance(x, Constant) for x in args[1:]):
                c = self.col(a)
                if c:
                    return ('cmp', 'OBtw', c, self.I(('btw', tuple(repr(x.value) for x in args[1:]))))
        return ('other',)

    def cmp_term(self, op, c, v):
        return f'({op}, {c[0]}, {self.I(("col", c[1]))}, {v})'

    def cond(self, node):
        from mindsdb_sql.parser.ast import BinaryOperation, BetweenOperation, UnaryOperation, Function
        b = lambda x: 'true' if x else 'false'
        if isinstance(node, BinaryOperation) and node.op in ('and', 'or'):
            return f'({"CAnd" if node.op == "and" else "COr"} {self.cond(node.args[0])} {self.cond(node.args[1])})'
        if isinstance(node, UnaryOperation):
            if node.op == 'not':
                return f'(CNot {self.cond(node.args[0])})'
            return f'(CWrap1 {self.I(("unary", node.op))} false {self.cond(node.args[0])})'
        if isinstance(node, (BinaryOperation, BetweenOperation)):
            k = self.classify(node)
            if k[0] == 'true':
                return 'CTrue'
            if k[0] == 'cmp':
                return f'(CCmp {k[1]} {k[2][0]} {self.I(("col", k[2][1]))} {k[3]})'
            if k[0] == 'cols':
                return f'(CCols {b(k[1])} {k[2][0]} {self.I(("col", k[2][1]))} {k[3][0]} {self.I(("col", k[3][1]))})'
            if isinstance(node, BinaryOperation):
                inter = [self.scan(a) for a in node.args]
                if not any(i[0] for i in inter):
                    return f'(COther {self.I(("expr", self.canon(node)))} {b(node.op not in ("=", "and") or any(i[1] for i in inter))})'
                return f'(CWrap2 {self.I(("binop", node.op))} {b(node.op not in ("=", "and"))} {self.cond(node.args[0])} {self.cond(node.args[1])})'
        inter = self.scan(node)
        if not inter[0]:
            return f'(COther {self.I(("expr", self.canon(node)))} {b(inter[1])})'
        if isinstance(node, Function) and len(node.args) == 1:
            return f'(CWrap1 {self.I(("func", node.op.lower()))} false {self.cond(node.args[0])})'
        if isinstance(node, Function) and len(node.args) == 2:
            return f'(CWrap2 {self.I(("func", node.op.lower()))} false {self.cond(node.args[0])} {self.cond(node.args[1])})'
        raise Unsupported(f'opaque node with comparisons inside: {type(node).__name__}')


class ForeignInFetch(Exception):
    pass


def identifiers_in(node):
    from mindsdb_sql.parser.ast import Identifier
    from mindsdb_sql.planner.utils import query_traversal
    out = []

    def cb(x, **kw):
        if isinstance(x, Identifier):
            out.append(x)
    query_traversal(copy.deepcopy(node), cb)
    return out


def conjuncts(node):
    from mindsdb_sql.parser.ast import BinaryOperation
    if node is None:
        return []
    if isinstance(node, BinaryOperation) and node.op == 'and':
        return conjuncts(node.args[0]) + conjuncts(node.args[1])
    return [node]


JT = {'join': 'JInner', 'inner join': 'JInner', 'left join': 'JLeft', 'left outer join': 'JLeft', 'right join': 'JRight',
      'full join': 'JFull', 'full outer join': 'JFull'}


def nl(s):
    return '[' + '; '.join(str(ord(c)) for c in s) + ']%N'


def observe(sql, cat_kw, I, require_model=True):
    """plan the statement with the implementation; -> dict of Coq terms + python-side facts, or None if not applicable"""
    from mindsdb_sql import parse_sql
    from mindsdb_sql.parser.ast import Identifier, BinaryOperation, Parameter, Constant
    from mindsdb_sql.planner.query_planner import QueryPlanner
    from mindsdb_sql.planner.steps import (FetchDataframeStep, ApplyPredictorStep, JoinStep, QueryStep, MapReduceStep, SubSelectStep)
    q0 = parse_sql(sql, 'mindsdb')
    refs = from_refs(q0.from_table)
    amap = alias_map([r[0] for r in refs])
    tr = Tr(amap, I)
    pl = QueryPlanner(**copy.deepcopy(cat_kw))
    kinds = []
    for r, jt, on in refs:
        kinds.append('m' if pl.get_predictor(r) else 't')
    if 'm' not in kinds and require_model:
        return None
    where = tr.cond(q0.where) if q0.where is not None else 'CTrue'
    ons = [(JT.get((jt or '').lower(), 'JOtherJoin'), tr.cond(on)) if on is not None else None for r, jt, on in refs]
    using = copy.deepcopy(q0.using)
    plan = pl.from_query(parse_sql(sql, 'mindsdb'))
    flat = []
    partitioned = False
    for st in plan.steps:
        if isinstance(st, MapReduceStep):
            partitioned = True
            flat += list(st.step) if isinstance(st.step, list) else [st.step]
        else:
            flat.append(st)
    fetches = [s for s in flat if isinstance(s, FetchDataframeStep)]
    applies = [s for s in flat if isinstance(s, ApplyPredictorStep)]
    qsteps = [s for s in flat if isinstance(s, QueryStep)]
    tcases, mcases = [], []
    facts = {'n_models': kinds.count('m'), 'n_apply': len(applies), 'partitioned': partitioned}
    for k, ((r, jt, on), kind) in enumerate(zip(refs, kinds)):
        ref = k + 1
        if kind == 't':
            name = r.parts[-1]
            fs = [f for f in fetches if isinstance(f.query.from_table, Identifier) and f.query.from_table.parts[-1] == name]
            if len(fs) != 1:
                raise Unsupported('fetch step for table not identified')
            impl = []
            for c in conjuncts(fs[0].query.where):
                if isinstance(c, BinaryOperation) and c.op == 'in' and isinstance(c.args[1], Parameter):
                    # values of the other side of the join: a pre-filter that is sound only for inner / left joins
                    if ons[k] is None or ons[k][0] not in ('JInner', 'JLeft'):
                        facts['unsafe_in'] = c.to_string()
                    continue
                c2 = copy.deepcopy(c)
                for a in c2.args:
                    if isinstance(a, Identifier):
                        a.parts = [f'ref{ref}', a.parts[-1]]
                t2 = Tr({(f'ref{ref}',): ref}, I, isnull_as_cmp=True)
                kk = t2.classify(c2)
                if kk[0] != 'cmp':
                    # not a column-with-constants comparison: the model has nothing to say, the property text still does --
                    # a pushed filter "mentions only that table"
                    own = {tuple(x.lower() for x in r.parts), (r.parts[-1].lower(),)} | ({tuple(x.lower() for x in r.alias.parts)} if r.alias is not None else set())
                    foreign = [i_.to_string() for i_ in identifiers_in(c) if len(i_.parts) >= 2 and tuple(x.lower() for x in i_.parts[:-1]) not in own]
                    if foreign:
                        raise ForeignInFetch(f'the fetch of {r.to_string()} is filtered by `{c.to_string()}`, which mentions {", ".join(foreign)}')
                    raise Unsupported(f'pushed filter of unexpected shape: {c.to_string()}')
                impl.append(t2.cmp_term(kk[1], kk[2], kk[3]))
            ont = 'None' if ons[k] is None else f'(Some ({ons[k][0]}, {ons[k][1]}))'
            tcases.append(f'(mkT {ref} {ont} [{"; ".join(impl)}])')
        else:
            ap = [a for a in applies if a.predictor.alias is not None and r.alias is not None and
                  [x.lower() for x in a.predictor.alias.parts] == [x.lower() for x in r.alias.parts]]
            if len(ap) != 1:
                facts['apply_missing'] = r.to_string()
                continue
            ap = ap[0]
            info = pl.get_predictor(r)
            tgt = info.get('to_predict')
            if isinstance(tgt, list) and tgt:
                tgt = tgt[0]
            tgt = tgt.lower() if tgt else None
            tgts = sorted({I(('col', key[1])) for key in list(I.d) if key[0] == 'col' and tgt is not None and key[1].lower() == tgt})
            rd = ap.row_dict or {}
            rdt = '; '.join(f'({I(("col", c))}, {I(("const", "Constant", repr(v)))})' for c, v in rd.items())
            cm = ap.columns_map or {}
            # judge (property text): every top-level equality of the model's ON clause between a model column and a column of
            # something joined before it is in the model's column mapping
            on_ast = refs[k][2]
            malias = (r.alias.parts[-1] if r.alias is not None else r.parts[-1]).lower()

            def conj(x):
                if isinstance(x, BinaryOperation) and x.op.lower() == 'and':
                    return conj(x.args[0]) + conj(x.args[1])
                return [x] if x is not None else []
            for cj in conj(on_ast):
                if isinstance(cj, BinaryOperation) and cj.op == '=' and all(isinstance(a_, Identifier) and len(a_.parts) >= 2 for a_ in cj.args):
                    a0, a1 = cj.args
                    q0_, q1_ = a0.parts[-2].lower(), a1.parts[-2].lower()
                    if (q0_ == malias) == (q1_ == malias):
                        continue
                    mcol, other = (a0, a1) if q0_ == malias else (a1, a0)
                    got_ = {str(k_).lower(): v_ for k_, v_ in cm.items()}.get(mcol.parts[-1].lower())
                    if got_ is None or [x_.lower() for x_ in got_.parts[-2:]] != [x_.lower() for x_ in other.parts[-2:]]:
                        facts['cm_missing'] = f'{cj.to_string()} -> expected {mcol.parts[-1]}: {other.to_string()}, columns_map = ' + \
                                              str({k_: v_.to_string() for k_, v_ in cm.items()})
            cmt = []
            for c, ident in cm.items():
                cc = tr.col(ident)
                if cc is None:
                    raise Unsupported('columns_map value without alias')
                cmt.append(f'({I(("col", c))}, ({cc[0]}, {I(("col", cc[1]))}))')
            ont = 'None' if ons[k] is None else f'(Some {ons[k][1]})'
            mcases.append(f'(mkM {ref} [{"; ".join(map(str, tgts))}] {ont} [{rdt}] [{"; ".join(cmt)}])')
            # USING
            al = [list(a) for a in ([tuple(p.lower() for p in r.alias.parts)] if r.alias is not None else
                                    [tuple(p.lower() for p in r.parts[i:]) for i in range(len(r.parts))])]
            al1 = [a[0] for a in al if len(a) == 1]
            opts = list((using or {}).items())
            impl_params = list((ap.params or {}).items())
            facts.setdefault('using', []).append((al1, opts, impl_params))
    outer = 'None'
    if qsteps and q0.where is not None:
        ow = qsteps[-1].query.where
        outer = f'(Some {tr.cond(ow)})' if ow is not None else '(Some CTrue)'
    # steps in processing order
    order = [s for s in flat if isinstance(s, (FetchDataframeStep, ApplyPredictorStep, JoinStep))]
    num = {id(s): i for i, s in enumerate(order)}
    bystep = {str(s.step_num): s for s in flat}
    steps = []
    nref = 0
    isw = []

    def res_idx(res):
        s = bystep.get(str(res.step_num))
        while s is not None and id(s) not in num:
            if isinstance(s, MapReduceStep):
                inner = s.step if isinstance(s.step, list) else [s.step]
                s = inner[-1]
            else:
                return None
        return None if s is None else num[id(s)]
    seq_ok = True
    for s in order:
        if isinstance(s, FetchDataframeStep):
            steps.append(f'SFetch {nref}')
            isw.append(False)
            nref += 1
        elif isinstance(s, ApplyPredictorStep):
            i = res_idx(s.dataframe)
            if i is None:
                seq_ok = False
                break
            steps.append(f'SApply {nref} {i}')
            isw.append(True)
            nref += 1
        else:
            l, r = res_idx(s.left), res_idx(s.right)
            if l is None or r is None:
                seq_ok = False
                break
            steps.append(f'SJoin {l} {r}')
    facts['seq'] = (isw, steps) if seq_ok and isw else None
    return dict(case=f'(mkJ {where} [{"; ".join(tcases)}] [{"; ".join(mcases)}] {outer})', facts=facts, kinds=kinds)


HEADER = ['From Coq Require Import PArith NArith List Bool.',
          'From MSV Require Import Lib.PyStr Model.Resolve Model.ModelJoin Model.ModelJoinCorr.',
          'Import ListNotations.', 'Local Open Scope positive_scope.']


def run(tier, seed, replay=None):
    R = Result(PROP, tier, seed, level='proof')
    R.cov['checker_cmd'] = 'make -C /verif/coq (Props/C14.v); coqc Gen/C14_cases_*.v'
    R.cov['trusted_base'] = [KERNEL, 'harness/c14.py: translation of WHERE / ON trees to Model/ModelJoin.cond, alias resolution, '
                             'matching of fetch / apply steps to FROM references', 'axioms: none']
    R.assumptions = ['comparison = binary operator or BETWEEN between a qualified column and constants (classification in harness/c14.py)',
                     'subselects in FROM / WHERE and timeseries models are outside this check (C08, C15)',
                     'str.lower is modelled on ASCII (generated USING keys are ASCII)',
                     'the column mapping is compared with the model only: the property does not restrict it to equalities']
    rng = random.Random(seed)
    findings = findings_for(PROP)
    try:
        out = ensure_static()
        R.obligation('Props/C14.v (make): 11 theorems, Closed under the global context', True)
    except BrokenTie as e:
        R.obligation('static development builds', False)
        R.violation({'broken': e.what, 'detail': e.detail, 'theorem': 'Props/C14.v'}, nofail=True)
        return R.finish()
    cats = plangen.catalogs()
    catd = dict(cats)
    inputs = []
    if replay:
        rp = json.loads(open(replay).read())
        inputs = [(rp['sql'], rp.get('catalog', 'names'))] if 'sql' in rp else []
    else:
        inputs = [(s, c) for s in EDGE for c in ('names', 'legacy')]
        n = 600 if tier == 'quick' else 8000
        for _ in range(n):
            inputs.append((gen_query(rng), rng.choice(cats)[0]))
    I = Intern()
    rows = []
    stats = {'planned': 0, 'unsupported': 0, 'plan_error': 0, 'not_model_join': 0, 'and_tree_where': 0, 'wild_where': 0,
             'safe_on': 0, 'wild_on': 0, 'partitioned': 0, 'two_models': 0}
    errors = {}
    for sql, cname in inputs:
        try:
            ob = observe(sql, catd[cname], I)
        except Unsupported as e:
            stats['unsupported'] += 1
            errors.setdefault('unsupported: ' + str(e), sql)
            continue
        except ForeignInFetch as e:
            stats['foreign_in_fetch'] = stats.get('foreign_in_fetch', 0) + 1
            if stats['foreign_in_fetch'] <= 2:
                R.violation({'sql': sql, 'catalog': cname, 'what': 'a filter pushed into the fetch of a table mentions another table or a model: ' + str(e)})
            continue
        except Exception as e:
            stats['plan_error'] += 1
            errors.setdefault(f'{type(e).__name__}: {str(e)[:60]}', sql)
            continue
        if ob is None:
            stats['not_model_join'] += 1
            continue
        stats['planned'] += 1
        rows.append((sql, cname, ob))
    # ---- Coq: correspondence + judge
    shard = 300
    names = []
    for k in range(0, len(rows), shard):
        part = rows[k:k + shard]
        name = f'C14_cases_{k // shard}'
        using = [(u, i) for i, (_, _, ob) in enumerate(part) for u in ob['facts'].get('using', [])]
        seqs = [(ob['facts']['seq'], i) for i, (_, _, ob) in enumerate(part) if ob['facts'].get('seq') and not ob['facts']['partitioned']]
        b = lambda x: 'true' if x else 'false'
        lines = HEADER + ['Definition cases : list jcase := [', ';\n'.join(' ' + ob['case'] for _, _, ob in part), '].',
                          'Eval vm_compute in bad_index corr_case cases.',
                          'Eval vm_compute in bad_index judge_case cases.',
                          'Eval vm_compute in map guards cases.',
                          'Definition ucases : list (list str * list (str * positive) * list (str * positive)) := [',
                          ';\n'.join(' ([%s], [%s], [%s])' % ('; '.join(nl(a) for a in al),
                                                               '; '.join(f'({nl(k_)}, {I(("uval", repr(v)))})' for k_, v in opts),
                                                               '; '.join(f'({nl(k_)}, {I(("uval", repr(v)))})' for k_, v in impl))
                                    for (al, opts, impl), _ in using), '].',
                          'Eval vm_compute in map using_ok ucases.',
                          'Definition scases : list (bool * list bool * list step) := [',
                          ';\n'.join(' (%s, [%s], [%s])' % (b(isw[0]), '; '.join(b(x) for x in isw[1:]), '; '.join(steps))
                                    for (isw, steps), _ in seqs), '].',
                          'Eval vm_compute in map seq_corr scases.', 'Eval vm_compute in map seq_judge scases.']
        write_if_changed(GEN / f'{name}.v', '\n'.join(lines) + '\n')
        names.append((k, name, using, seqs))
    res = compile_many([nm for _, nm, _, _ in names])
    broken = []
    corr_bad, judge_bad, using_bad, seqc_bad, seqj_bad = [], [], [], [], []
    for (k, name, using, seqs), (rc, out) in zip(names, res):
        if rc != 0:
            broken.append(BrokenTie(f'{name} does not compile', out[-1500:]))
            continue
        vals = coq_eval_lists(out)
        if len(vals) != 6:
            broken.append(BrokenTie(f'{name}: unexpected Coq output', out[-800:]))
            continue
        for target, v in ((corr_bad, vals[0]), (judge_bad, vals[1])):
            for m in re.finditer(r'\((\d+), \[([^\]]*)\]\)', v):
                target.append((k + int(m.group(1)), [x.strip() == 'true' for x in m.group(2).split(';')]))
        g = re.findall(r'\((true|false), (true|false)\)', vals[2])
        for a, b_ in g:
            stats['and_tree_where' if a == 'true' else 'wild_where'] += 1
            stats['safe_on' if b_ == 'true' else 'wild_on'] += 1
        for lst, v, src in ((using_bad, vals[3], using), (seqc_bad, vals[4], seqs), (seqj_bad, vals[5], seqs)):
            fl = re.findall(r'true|false', v)
            if len(fl) != len(src):
                broken.append(BrokenTie(f'{name}: list length mismatch', v[:300]))
                continue
            lst += [k + src[i][1] for i, f in enumerate(fl) if f == 'false']
    for _, _, ob in rows:
        if ob['facts']['partitioned']:
            stats['partitioned'] += 1
        if ob['facts']['n_models'] > 1:
            stats['two_models'] += 1
    comp = ['fetch filters', 'row_dict', 'columns_map', 'outer WHERE']
    R.obligation(f'correspondence: fetch filters, row_dict, columns_map, outer WHERE = Model/ModelJoin.v on {len(rows)} planned joins',
                 not corr_bad and not broken)
    R.obligation('correspondence: USING params = model_params', not using_bad)
    R.obligation('correspondence: step sequence = prun (join_seq ...)', not seqc_bad)
    for i, flags in corr_bad[:3]:
        sql, cname, ob = rows[i]
        broken.append(BrokenTie(f'model disagrees with the implementation on {[c for c, f in zip(comp, flags) if not f]}: `{sql}` ({cname})', ob['case'][:1500]))
    # USING: Model/ModelJoin.model_params is the specification itself (C14_using_* are stated about it): keys lower-cased, an
    # alias-qualified option goes to that model only with the alias cut at the FIRST dot, everything else unchanged
    for i in using_bad[:2]:
        u = rows[i][2]['facts'].get('using')
        R.violation({'sql': rows[i][0], 'catalog': rows[i][1], 'what': 'USING options do not reach the model unchanged apart from key case',
                     '(model aliases, options, params of the apply step)': [[al, [[k_, repr(v_)] for k_, v_ in o], [[k_, repr(v_)] for k_, v_ in im]]
                                                                            for al, o, im in u], 'judge': 'Model/ModelJoinCorr.using_ok'})
    for i in seqc_bad[:2]:
        broken.append(BrokenTie(f'step-sequence model disagrees with the implementation: `{rows[i][0]}`', str(rows[i][2]['facts'].get('seq'))))
    # ---- judge results
    jcomp = ['a fetch filter is not a top-level conjunct of WHERE on that table (nor a top-level =-constant conjunct of an inner/left ON clause)',
             'the model arguments are not exactly the top-level model equalities of WHERE',
             'the outer WHERE does not keep exactly the conjuncts that were not consumed']
    reported = set()
    for i, flags in judge_bad:
        sql, cname, ob = rows[i]
        for kind, (c, f) in zip(['pushed_not_conjunct', 'args_not_conjuncts', 'outer_not_rest'], zip(jcomp, flags)):
            if f:
                continue
            low = sql.lower().replace('is not null', '')
            feats = sorted(x for x, pat in (('or', ' or '), ('not', 'not '), ('function', 'coalesce'), ('function', 'ifnull'),
                                            ('outer_join', 'right join'), ('outer_join', 'full join')) if pat in low)
            fd = [x for x in findings if x['classifier'].get('kind') == kind and feats and set(feats) <= set(x['classifier'].get('contexts', []))]
            if fd:
                R.known_finding(f'{fd[0]["id"]}: {fd[0]["what"]}')
            elif (kind, tuple(feats)) not in reported and len(reported) < 6:
                reported.add((kind, tuple(feats)))
                R.violation({'sql': sql, 'catalog': cname, 'what': c, 'contexts': feats, 'case': ob['case'][:3000],
                             'judge': 'Model/ModelJoinCorr.judge_case'})
    for i in seqj_bad[:3]:
        sql, cname, ob = rows[i]
        R.violation({'sql': sql, 'catalog': cname, 'what': 'a model is not applied to the join of the references before it',
                     'steps': ob['facts']['seq']})
    for sql, cname, ob in rows:
        if ob['facts'].get('unsafe_in'):
            R.violation({'sql': sql, 'catalog': cname, 'what': 'the joined table of a right / full join is pre-filtered by the values of the '
                         'other side (' + ob['facts']['unsafe_in'] + '): unmatched rows that the join must keep are lost'})
            break
    for sql, cname, ob in rows:
        if ob['facts'].get('cm_missing'):
            R.violation({'sql': sql, 'catalog': cname, 'what': 'a join condition between a model column and a column of the data it is joined to is '
                         'not in the model\'s column mapping: ' + ob['facts']['cm_missing']})
            break
    for sql, cname, ob in rows:
        f = ob['facts']
        if f['n_apply'] != f['n_models'] or f.get('apply_missing'):
            R.violation({'sql': sql, 'catalog': cname, 'what': f'{f["n_models"]} model references but {f["n_apply"]} apply-predictor steps'})
            break
    # ---- sources that are sub-selects which cut or group their rows (LIMIT / OFFSET / DISTINCT / GROUP BY): the model's input is the
    # result of THAT sub-select, so what is fetched for it is what the sub-select alone fetches -- no condition of the outer query
    # may move below the cut
    if not replay:
        from mindsdb_sql import parse_sql as _ps
        from mindsdb_sql.planner import plan_query as _pq
        from mindsdb_sql.planner.steps import FetchDataframeStep as _F
        nsub = 0
        sub_rep = 0
        for inner in ('select * from int1.t1 limit 3', 'select * from int1.t1 where a > 0 limit 3', 'select * from int1.t1 order by b limit 2 offset 1',
                      'select a, b from int1.t1 limit 2', 'select distinct a from int1.t1', 'select a, count(*) as n from int1.t1 group by a',
                      'select * from int1.t1 limit 0', 'select * from int1.t1 offset 2'):
            for ow in ('', ' where s.a = 1', ' where s.a = 1 and m.b = 2', ' where m.b = 2 and s.a > 1 and s.a < 5', ' where s.a in (1, 2)'):
                for mref in ('proj.pred as m', 'proj.pred2 as m'):
                    sql = f'select * from ({inner}) as s join {mref}{ow}'
                    try:
                        alone = [str(x.query) for x in _pq(_ps(inner, 'mindsdb'), **copy.deepcopy(catd['names'])).steps if isinstance(x, _F)]
                        got = [str(x.query) for x in _pq(_ps(sql, 'mindsdb'), **copy.deepcopy(catd['names'])).steps if isinstance(x, _F)]
                    except Exception:
                        continue
                    nsub += 1
                    if alone and got[:1] != alone[:1] and sub_rep < 2:
                        sub_rep += 1
                        R.violation({'sql': sql, 'catalog': 'names', 'fetched_for_the_sub_select': got[:1], 'the_sub_select_alone_fetches': alone[:1],
                                     'what': 'the rows fetched for a sub-select that cuts or groups its rows are not the rows of that sub-select: '
                                             'a condition of the outer query was moved below its LIMIT / OFFSET / DISTINCT / GROUP BY'})
        stats['cutting_sub_selects'] = nsub
    R.obligation('judge: implementation outputs = specification (top-level conjuncts only) except listed findings',
                 not any(not nf for _, nf in R.violations))
    for e in broken:
        if not any(not nf for _, nf in R.violations):
            R.violation({'what': e.what, 'detail': e.detail, 'theorem': 'C14 correspondence (Model/ModelJoinCorr.corr_case)'}, nofail=True)
            break
    R.cov['evaluations'] = len(inputs)
    R.cov['distinct_nontrivial'] = len({ob['case'] for _, _, ob in rows})
    R.cov['rule'] = ('generated joins of 1..3 tables with 1..2 models (aliases incl. upper case, inner/left/right/full joins, ON trees with '
                     'constants / NOT / OR / functions, WHERE trees: AND-trees and wild shapes with OR / NOT / functions / reversed and '
                     'unqualified comparisons, USING options) x 5 catalogs + fixed edge statements; distinct = distinct Coq cases')
    R.cov['samples'] = [{'sql': s, 'catalog': c} for s, c in inputs[:3]]
    R.notes['input_distribution'] = stats
    R.notes['skipped_examples'] = dict(list(errors.items())[:12])
    return R.finish()
