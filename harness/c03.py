"""C03: operators group by standard SQL precedence/associativity in every dialect.

Proof: Props/C03.v (table-independent): K_prec (finite check of the regenerated LALR tables
against the decision table read off them) + refinement of the standard levels => the engine
groups every minimally-parenthesised expression as written.  Instantiated per dialect.
Where the dialect's decision table does not refine the levels, Coq proves the refutation for
each deviating (rule, lookahead) pair with a 2-operator witness, replayed on parse_sql.
Tie: engine correspondence (C05) + expression-level correspondence here (all small trees)."""
import itertools
import json
import random
import re

import gen_prec
import gen_tables
from c05 import gen_and_compile_tables
from common import (GEN, BrokenTie, Result, compile_gen, coq_eval_lists, ensure_static, findings_for,
                    print_assumptions, write_if_changed, KERNEL)
from gen_prec import STD_LEVEL, STD_NOT, STD_NEG, STD_BTW
from implparse import lex

PROP = 'C03'
DIALECTS = ['mindsdb', 'mysql', 'sqlite']
TEXT = {'OR': 'or', 'AND': 'and', 'EQUALS': '=', 'NEQUALS': '!=', 'LESS': '<', 'LEQ': '<=', 'GREATER': '>',
        'GEQ': '>=', 'LIKE': 'like', 'NOT_LIKE': 'not like', 'IN': 'in', 'NOT_IN': 'not in', 'NOT IN': 'not in',
        'IS': 'is', 'IS_NOT': 'is not', 'PLUS': '+', 'MINUS': '-', 'STAR': '*', 'DIVIDE': '/', 'MODULO': '%'}
OPTEXT_TO_NAME = {}   # per dialect: ast op text -> op name

CONTEXTS = [
    ('select', 'select {}', lambda a: a.targets[0]),
    ('where', 'select x from t where {}', lambda a: a.where),
    ('on', 'select x from t join u on {}', lambda a: a.from_table.condition),
    ('having', 'select x from t group by x having {}', lambda a: a.having),
    ('funcarg', 'select f({})', lambda a: a.targets[0].args[0]),
    ('case', 'select case when x then {} end', lambda a: a.targets[0].rules[0][1]),
]


# ------------------------------------------------------------------ expression trees (python side)
# ('atom', name) | ('bin', opname, l, r) | ('neg', e) | ('not', e) | ('par', e) | ('btw', x, lo, hi)
def level(e, opinfo):
    k = e[0]
    if k in ('atom', 'par'):
        return 1000
    if k == 'bin':
        return opinfo[e[1]][0]
    return {'neg': STD_NEG, 'not': STD_NOT, 'btw': STD_BTW}[k]


def paren_min(e, opinfo):
    """insert ('par', .) exactly where the standard levels require parentheses"""
    k = e[0]
    P = lambda x: ('par', x)
    if k == 'atom':
        return e
    if k == 'par':
        return P(paren_min(e[1], opinfo))
    if k == 'bin':
        lv, left = opinfo[e[1]]
        l, r = paren_min(e[2], opinfo), paren_min(e[3], opinfo)
        if not (level(l, opinfo) >= lv if left else level(l, opinfo) > lv):
            l = P(l)
        if not level(r, opinfo) > lv:
            r = P(r)
        return ('bin', e[1], l, r)
    if k in ('neg', 'not'):
        lv = STD_NEG if k == 'neg' else STD_NOT
        x = paren_min(e[1], opinfo)
        if not level(x, opinfo) >= lv:
            x = P(x)
        return (k, x)
    if k == 'btw':
        xs = []
        for x in e[1:]:
            x = paren_min(x, opinfo)
            if not level(x, opinfo) > STD_BTW:
                x = P(x)
            xs.append(x)
        return ('btw',) + tuple(xs)


def paren_full(e):
    k = e[0]
    if k == 'atom':
        return e
    if k == 'par':
        return ('par', paren_full(e[1]))
    return ('par', (k,) + tuple(paren_full(x) if isinstance(x, tuple) else x for x in e[1:]))


def text_of(e):
    k = e[0]
    if k == 'atom':
        return e[1]
    if k == 'par':
        return '(' + text_of(e[1]) + ')'
    if k == 'bin':
        return f'{text_of(e[2])} {TEXT[e[1]]} {text_of(e[3])}'
    if k == 'neg':
        return '- ' + text_of(e[1])
    if k == 'not':
        return 'not ' + text_of(e[1])
    if k == 'btw':
        return f'{text_of(e[1])} between {text_of(e[2])} and {text_of(e[3])}'


def coq_of(e, opidx, idnum):
    k = e[0]
    if k == 'atom':
        return f'(EAtom {idnum})'
    if k == 'par':
        return f'(EPar {coq_of(e[1], opidx, idnum)})'
    if k == 'bin':
        return f'(EBin op{opidx[e[1]]} {coq_of(e[2], opidx, idnum)} {coq_of(e[3], opidx, idnum)})'
    if k == 'neg':
        return f'(ENeg {coq_of(e[1], opidx, idnum)})'
    if k == 'not':
        return f'(ENot {coq_of(e[1], opidx, idnum)})'
    if k == 'btw':
        return '(EBtw ' + ' '.join(coq_of(x, opidx, idnum) for x in e[1:]) + ')'


def shape_of_ast(node, names):
    """implementation AST -> python tree (None if a node kind outside the fragment appears)"""
    from mindsdb_sql.parser.ast import Identifier, BinaryOperation, UnaryOperation, BetweenOperation
    from mindsdb_sql.parser.ast import Constant
    if isinstance(node, Identifier):
        r = ('atom', node.parts[-1] if node.parts else '?')
    elif type(node) is Constant and isinstance(node.value, int) and not isinstance(node.value, bool) and names.get('__numbers__'):
        # numeric operands (only where asked for): 101 stands for atom a, 102 for b, ...; a folded negative literal is `- atom`
        v = node.value
        r = ('atom', names['__numbers__'].get(abs(v), str(v)))
        if v < 0:
            r = ('neg', r)
    elif isinstance(node, BetweenOperation):
        xs = [shape_of_ast(a, names) for a in node.args]
        if any(x is None for x in xs):
            return None
        r = ('btw',) + tuple(xs)
    elif isinstance(node, BinaryOperation):
        nm = names.get(node.op)
        l, rr = shape_of_ast(node.args[0], names), shape_of_ast(node.args[1], names)
        if nm is None or l is None or rr is None:
            return None
        r = ('bin', nm, l, rr)
    elif isinstance(node, UnaryOperation):
        x = shape_of_ast(node.args[0], names)
        if x is None or node.op not in ('-', 'not'):
            return None
        r = ('neg' if node.op == '-' else 'not', x)
    else:
        return None
    if getattr(node, 'parentheses', False):
        r = ('par', r)
    return r


def gen_trees(n, binops, with_prefix=True, with_btw=True):
    """all trees with exactly n operators (atoms are placeholders, renamed later)"""
    if n == 0:
        return [('atom', 'a')]
    out = []
    for k in range(n):
        for l in gen_trees(k, binops, with_prefix, with_btw):
            for r in gen_trees(n - 1 - k, binops, with_prefix, with_btw):
                for o in binops:
                    out.append(('bin', o, l, r))
    if with_prefix:
        for x in gen_trees(n - 1, binops, with_prefix, with_btw):
            out.append(('neg', x))
            out.append(('not', x))
    if with_btw:
        for k1 in range(n):
            for k2 in range(n - k1):
                k3 = n - 1 - k1 - k2
                for a in gen_trees(k1, binops, with_prefix, with_btw):
                    for b in gen_trees(k2, binops, with_prefix, with_btw):
                        for c in gen_trees(k3, binops, with_prefix, with_btw):
                            out.append(('btw', a, b, c))
    return out


def rename_atoms(e, it):
    k = e[0]
    if k == 'atom':
        return ('atom', next(it))
    return (k,) + tuple(rename_atoms(x, it) if isinstance(x, tuple) else x for x in e[1:])


def atoms_iter():
    i = 0
    while True:
        i += 1
        yield f'c{i}'


# ------------------------------------------------------------------ known findings
def classify_dev(dialect, dev, findings):
    for f in findings:
        c = f['classifier']
        if dialect not in c['dialects']:
            continue
        for pr in c['pairs']:
            if (pr['rules'] == ['*'] or dev['rule'] in pr['rules']) and \
               (pr['looks'] == ['*'] or dev['look'] in pr['looks']) and pr['actual'] == dev['actual']:
                return f
    return None


def witness(dev, info):
    """2-operator expression that exhibits the (rule, lookahead) decision; returns (std_tree, other_tree)"""
    ops = {' '.join(mid): pn for mid, pn in info['ops']}
    first = {}
    for mid, pn in info['ops']:
        first.setdefault(mid[0], ' '.join(mid))
    A, B, C, D = (('atom', x) for x in ('a', 'b', 'c', 'd'))
    rule, look = dev['rule'], dev['look']
    # the construct introduced by the lookahead, with left operand X
    if look == 'BETWEEN':
        mk2 = lambda X: ('btw', X, C, D)
    else:
        nm = first[look].replace(' ', '_') if first[look].replace(' ', '_') in STD_LEVEL else first[look]
        mk2 = lambda X, nm=nm: ('bin', nm, X, C)
    if rule == 'UMINUS':
        L, R = mk2(('neg', B)), ('neg', mk2(B))
    elif rule == 'UNOT':
        L, R = mk2(('not', B)), ('not', mk2(B))
    elif rule == 'BETWEEN':
        E = ('atom', 'e')
        L, R = mk2(('btw', A, B, E)), ('btw', A, B, mk2(E))
    else:
        rn = rule.replace(' ', '_') if rule.replace(' ', '_') in STD_LEVEL else rule
        L, R = mk2(('bin', rn, A, B)), ('bin', rn, A, mk2(B))
    return (L, R) if dev['std'] == 'reduce' else (R, L)


def opname(mid):
    s = '_'.join(mid)
    return s if s in STD_LEVEL else ' '.join(mid)


INST_OK = '''(* GENERATED instance of C03 for the {d} dialect: the full property *)
From Coq Require Import PArith List Bool.
From MSV Require Import Model.Sly Model.OpPrec Proofs.SlySound Proofs.OpPrecSound Proofs.OpPrecSim Props.C03
     Gen.Tbl_{d} Gen.Prec_{d}.
Lemma K_ok : K_prec tbl G = true. Proof. vm_cast_no_check (eq_refl true). Qed.
Lemma lv_ok_ : lv_ok G L = true. Proof. vm_cast_no_check (eq_refl true). Qed.
Lemma ref_ok : refines G L = true. Proof. vm_cast_no_check (eq_refl true). Qed.
Definition C03_{d} := C03_standard_grouping tbl G L cb K_ok lv_ok_ ref_ok.
Check C03_{d}.
Print Assumptions C03_{d}.
'''

INST_DEV = '''(* GENERATED instance of C03 for the {d} dialect: the tables do NOT refine the standard levels *)
From Coq Require Import PArith List Bool.
From MSV Require Import Model.Sly Model.OpPrec Model.OpPrecCorr Proofs.SlySound Proofs.OpPrecSound Props.C03
     Gen.Tbl_{d} Gen.Prec_{d}.
Import ListNotations.
Local Open Scope positive_scope.
Lemma K_ok : K_prec tbl G = true. Proof. vm_cast_no_check (eq_refl true). Qed.
Lemma lv_ok_ : lv_ok G L = true. Proof. vm_cast_no_check (eq_refl true). Qed.
Lemma ref_false : refines G L = false. Proof. vm_cast_no_check (eq_refl false). Qed.
Definition C03_table_{d} := C03_groups_by_table tbl G K_ok.
Print Assumptions C03_table_{d}.
(* witnesses: (standard tree, tree the tables produce): same tokens, the first is minimally
   parenthesised by the levels, the second is what C03_table_{d} proves the engine builds *)
Definition witnesses : list (ex * ex) := [
{w}
].
Definition wit_ok (p : ex * ex) : bool :=
  wf_lvl G L (fst p) && wf_dec G (snd p) && list_eqb (syms G (fst p)) (syms G (snd p))
  && negb (ex_eqb (fst p) (snd p)).
Lemma C03_refuted_{d} : forallb wit_ok witnesses = true.
Proof. vm_cast_no_check (eq_refl true). Qed.
'''


def strip_par(e):
    if not isinstance(e, tuple):
        return e
    if e[0] == 'par':
        return strip_par(e[1])
    return (e[0],) + tuple(strip_par(x) for x in e[1:])


def do_replay(R, path):
    """re-run one recorded input against the implementation: does parse_sql group it as the
    standard levels say (the fully parenthesised text recorded in the replay file)?"""
    from mindsdb_sql import parse_sql
    rp = json.loads(open(path).read())
    d, sql = rp.get('dialect'), rp.get('sql')
    R.cov.update(evaluations=1, distinct_nontrivial=2, rule='replay of one recorded statement', samples=[rp])
    if not sql or 'standard_grouping' not in rp:
        print('replay file names no input:', rp.get('what'))
        R.violation(rp, nofail=True, name='C03_replay')
        return R.finish()
    names = {v: k.replace(' ', '_') if k.replace(' ', '_') in STD_LEVEL else k for k, v in TEXT.items()}
    try:
        got = strip_par(shape_of_ast(parse_sql(sql, d).targets[0], names))
        want = strip_par(shape_of_ast(parse_sql('select ' + rp['standard_grouping'], 'mindsdb').targets[0], names))
    except Exception as e:
        got, want = ('exception', str(e)), None
    R.obligation('replayed statement groups by the standard levels', got == want)
    if got != want:
        R.violation(dict(rp, replayed=True), name='C03_replay')
    return R.finish()


def run(tier, seed, replay=None):
    R = Result(PROP, tier, seed, level='proof')
    if replay:
        return do_replay(R, replay)
    R.cov['checker_cmd'] = 'make -C /verif/coq; coqc Gen/Prec_<d>.v Gen/C03_inst_<d>.v Gen/C03_cases_<d>_*.v'
    R.cov['trusted_base'] = [KERNEL, 'harness/gen_tables.py, harness/gen_prec.py (fragment + decision table; checked by K_prec)',
                             'STD_LEVEL in gen_prec.py = the standard levels, written from the property text',
                             'harness/c03.py (expression enumeration, AST->shape, Coq term printer)',
                             'axioms: none (Closed under the global context)']
    R.assumptions = ['atoms are identifiers; IN/LIKE/IS take expression operands (tuples, NULL are outside the modelled fragment)',
                     'semantic actions build BinaryOperation/UnaryOperation/BetweenOperation from the derivation as written '
                     '(checked by the expression-level correspondence)']
    rng = random.Random(seed)
    try:
        ensure_static()
    except BrokenTie as e:
        R.obligation('static development builds', False)
        R.violation({'broken': e.what, 'detail': e.detail, 'theorem': 'Props/C03.v'}, nofail=True)
        return R.finish()
    R.obligation('Props/C03.v: C03_groups_by_table, C03_standard_grouping (make)', True)
    findings = findings_for(PROP)
    from mindsdb_sql import parse_sql
    evaluations = 0
    nontrivial = set()
    samples = []
    stats = {}
    for dialect in DIALECTS:
        broken = None
        try:
            gen_and_compile_tables(dialect)
            info = gen_prec.emit(dialect)
            rc, out = compile_gen(f'Prec_{dialect}', deps=[f'Tbl_{dialect}'])
            if rc != 0:
                raise BrokenTie(f'Gen/Prec_{dialect}.v does not compile', out[-1500:])
        except (BrokenTie, gen_tables.TranslateError) as e:
            R.obligation(f'translate precedence fragment ({dialect})', False)
            broken = e if isinstance(e, BrokenTie) else BrokenTie(f'gen_prec failed for {dialect}', str(e))
            info = None
        names = {}
        opidx = {}
        opinfo = {}
        if info:
            for i, (mid, pn) in enumerate(info['ops']):
                nm = opname(mid)
                opidx[nm] = i
                names[TEXT[nm]] = nm
                opinfo[nm] = STD_LEVEL[mid[-1]]
            # which instance?
            write_if_changed(GEN / f'C03_vals_{dialect}.v',
                             f'From MSV Require Import Model.Sly Model.OpPrec Gen.Tbl_{dialect} Gen.Prec_{dialect}.\n'
                             'Eval vm_compute in (if Kprec_val then 1 else 0, if lvok_val then 1 else 0, '
                             'if refines_val then 1 else 0)%nat.\n')
            rc, out = compile_gen(f'C03_vals_{dialect}', deps=[f'Prec_{dialect}'])
            vals = re.findall(r'\((\d), (\d), (\d)\)', out)
            kp, lv, rf = (int(x) for x in vals[-1]) if vals else (0, 0, 0)
            devs = info['deviations']
            R.obligation(f'K_prec tbl G = true ({dialect}; {info["nES"]} expression states)', bool(kp))
            if not kp or not lv:
                broken = BrokenTie(f'K_prec / lv_ok no longer evaluates to true for {dialect}',
                                   f'K_prec={kp} lv_ok={lv}')
            elif rf != (0 if devs else 1):
                broken = BrokenTie(f'refines (Coq) = {rf} disagrees with python deviations ({len(devs)}) for {dialect}')
            elif rf:
                write_if_changed(GEN / f'C03_inst_{dialect}.v', INST_OK.format(d=dialect))
                rc, out = compile_gen(f'C03_inst_{dialect}', deps=[f'Prec_{dialect}'])
                R.obligation(f'instance C03_{dialect} = C03_standard_grouping tbl G L cb (full property)', rc == 0)
                if rc != 0:
                    broken = BrokenTie(f'instance C03_{dialect} no longer checks', out[-1500:])
                else:
                    R.notes.setdefault('print_assumptions', {})[dialect] = print_assumptions(out)
            else:
                idnum = json.loads((GEN / f'Tbl_{dialect}.json').read_text())['num']['ID']
                ws = []
                wit = []
                for dv in devs:
                    if dv['actual'] == 'error/other':
                        continue
                    s_, o_ = witness(dv, info)
                    s_, o_ = paren_min(s_, opinfo), o_
                    wit.append((dv, s_, o_))
                    ws.append(f'  ({coq_of(s_, opidx, idnum)}, {coq_of(o_, opidx, idnum)})')
                write_if_changed(GEN / f'C03_inst_{dialect}.v', INST_DEV.format(d=dialect, w=';\n'.join(ws)))
                rc, out = compile_gen(f'C03_inst_{dialect}', deps=[f'Prec_{dialect}'])
                R.obligation(f'instance C03_table_{dialect} + C03_refuted_{dialect} ({len(ws)} witnesses checked by Coq)', rc == 0)
                if rc != 0:
                    broken = BrokenTie(f'instance/refutation for {dialect} no longer checks', out[-1500:])
                else:
                    R.notes.setdefault('print_assumptions', {})[dialect] = print_assumptions(out)
                # replay every witness on the implementation, classify
                for dv, s_, o_ in wit:
                    sql = 'select ' + text_of(s_)
                    evaluations += 1
                    try:
                        got = shape_of_ast(parse_sql(sql, dialect).targets[0], names)
                    except Exception as e:
                        got = ('exception', type(e).__name__)
                    if got == s_:
                        # the implementation groups it the standard way: the model is wrong
                        broken = BrokenTie(f'deviation ({dv["rule"]},{dv["look"]}) predicted by the tables is not shown by '
                                           f'parse_sql for {dialect}: {sql}')
                        continue
                    f = classify_dev(dialect, dv, findings)
                    if f:
                        R.known_finding(f'{f["id"]}: {f["what"]}')
                        stats.setdefault(dialect, {}).setdefault('known_pairs', 0)
                        stats[dialect]['known_pairs'] += 1
                    else:
                        R.violation({'dialect': dialect, 'sql': sql, 'rule': dv['rule'], 'lookahead': dv['look'],
                                     'standard_grouping': text_of(paren_full(s_)),
                                     'implementation_grouping': text_of(paren_full(got)) if got and got[0] != 'exception' else str(got),
                                     'what': f'after `{dv["rule"]}` with `{dv["look"]}` next the parser does {dv["actual"]}, the standard levels say {dv["std"]}'})
        # ---- the fragment could not be translated: search without the tables.  Every (finished construct, next operator) pair
        # decides between two groupings of the same tokens; the standard levels say which; parse_sql shows what the parser does
        if info is None:
            fake = {'ops': [(tuple(k.split('_')), None) for k in STD_LEVEL]}
            names_f = {}
            for k in STD_LEVEL:
                names_f[TEXT[k]] = k
            lv_of = lambda r: {'UMINUS': (STD_NEG, False), 'UNOT': (STD_NOT, False), 'BETWEEN': (STD_BTW, False)}.get(r) or STD_LEVEL[r]
            looks = sorted({k.split('_')[0] for k in STD_LEVEL}) + ['BETWEEN']
            look_lv = {}
            for k, v in STD_LEVEL.items():
                look_lv.setdefault(k.split('_')[0], v[0])
            look_lv['BETWEEN'] = STD_BTW
            look_lv['NOT'] = 4            # NOT as a lookahead after an operand starts NOT IN / NOT LIKE
            nfound = 0
            for rule in list(STD_LEVEL) + ['UMINUS', 'UNOT', 'BETWEEN']:
                for look in looks:
                    rl, left = lv_of(rule)
                    ll = look_lv[look]
                    if rl == ll and not left:
                        continue
                    std = 'reduce' if (rl > ll or (rl == ll and left)) else 'shift'
                    dv = {'rule': rule.replace('_', ' ') if rule in ('NOT_IN', 'NOT_LIKE', 'IS_NOT') and False else rule, 'look': look, 'std': std,
                          'actual': 'shift' if std == 'reduce' else 'reduce'}
                    try:
                        s_, o_ = witness(dv, fake)
                    except Exception:
                        continue
                    sql = 'select ' + text_of(s_)
                    evaluations += 1
                    try:
                        got = shape_of_ast(parse_sql(sql, dialect).targets[0], names_f)
                    except Exception:
                        continue
                    if got is None or got == s_:
                        continue
                    f = classify_dev(dialect, dv, findings)
                    if f:
                        R.known_finding(f'{f["id"]}: {f["what"]}')
                    elif nfound < 4:
                        nfound += 1
                        R.violation({'dialect': dialect, 'sql': sql, 'rule': rule, 'lookahead': look,
                                     'standard_grouping': text_of(paren_full(s_)), 'implementation_grouping': text_of(paren_full(got)),
                                     'what': f'after `{rule}` with `{look}` next the parser does not group as the standard levels say ({std})',
                                     'found_by': 'table-independent search (the precedence fragment could not be translated: ' + broken.what + ')'})
            if nfound:
                broken = None
        # ---- expression-level correspondence (implementation vs engine model vs standard)
        if info:
            allops = list(opidx.keys())
            reps = [o for o in ('OR', 'AND', 'EQUALS', 'LESS', 'PLUS', 'STAR') if o in opidx]
            trees = []
            t2 = gen_trees(2, allops)
            n3 = gen_trees(3, reps)
            if tier == 'quick':
                rng.shuffle(t2)
                t2 = t2[:700]
                rng.shuffle(n3)
                n3 = n3[:500]
            for t in gen_trees(1, allops) + t2:
                trees.append(t)
            if tier == 'quick':
                pass
            else:
                n4 = gen_trees(4, [o for o in ('OR', 'AND', 'LESS', 'PLUS', 'STAR') if o in opidx], with_btw=False)
                rng.shuffle(n4)
                n3 = n3 + n4[:20000]
            trees += n3
            cases = []
            for t in trees:
                t = rename_atoms(t, atoms_iter())
                for variant in (paren_min(t, opinfo), paren_full(t)):
                    if tier == 'thorough' and len(cases) % 5 == 0:
                        ctxs = CONTEXTS
                    else:
                        ctxs = [CONTEXTS[rng.randrange(len(CONTEXTS))]]
                    for cname, tmpl, getter in ctxs:
                        cases.append((cname, tmpl, getter, variant))
            # grouping must not depend on the kind of the operands: the same expression over numeric literals groups like the one
            # over identifiers
            sample = cases if len(cases) <= 400 else rng.sample(cases, 400)
            nnum = 0
            rep_num = 0
            for cname, tmpl, getter, e in sample:
                etext = text_of(e)
                letters = sorted(set(re.findall(r'\bc\d+\b', etext)))
                if not letters:
                    continue
                num_of = {l: 101 + i for i, l in enumerate(letters)}
                ntext = re.sub(r'\bc\d+\b', lambda m: str(num_of[m.group(0)]), etext)
                try:
                    g_id = shape_of_ast(getter(parse_sql(tmpl.format(etext), dialect)), names)
                    names_n = dict(names)
                    names_n['__numbers__'] = {v: k for k, v in num_of.items()}
                    g_num = shape_of_ast(getter(parse_sql(tmpl.format(ntext), dialect)), names_n)
                except Exception:
                    continue
                if g_id is None or g_num is None:
                    continue
                nnum += 1
                evaluations += 1
                def dneg(x):
                    # the parser folds the sign into a numeric literal, so `- - 5` is the literal 5: double negations are dropped
                    if not isinstance(x, tuple):
                        return x
                    if x[0] == 'neg' and isinstance(x[1], tuple) and x[1][0] == 'neg':
                        return dneg(x[1][1])
                    return (x[0],) + tuple(dneg(y) for y in x[1:])
                if dneg(strip_par(g_id)) != dneg(strip_par(g_num)) and rep_num < 3:
                    rep_num += 1
                    R.violation({'dialect': dialect, 'context': cname, 'sql': tmpl.format(ntext), 'the_same_over_identifiers': tmpl.format(etext),
                                 'grouping_over_numbers': text_of(paren_full(strip_par(g_num))), 'grouping_over_identifiers': text_of(paren_full(strip_par(g_id))),
                                 'what': 'the grouping of an expression depends on whether its operands are identifiers or numeric literals'})
            stats.setdefault(dialect, {})['numeric_operand_cases'] = nnum
            # ... nor on the layout of the text: the same tokens separated by line breaks, tabs and runs of blanks
            nlay = 0
            rep_lay = 0
            for cname, tmpl, getter, e in sample:
                etext = text_of(e)
                ltext = re.sub(r' ', lambda m: rng.choice(['\n', '\n   ', '\t', '  ', ' ', '\n\n']), etext)
                if ltext == etext:
                    continue
                try:
                    g_one = shape_of_ast(getter(parse_sql(tmpl.format(etext), dialect)), names)
                except Exception:
                    continue
                try:
                    g_lay = shape_of_ast(getter(parse_sql(tmpl.format(ltext), dialect)), names)
                except Exception as ex:
                    g_lay = ('rejected', type(ex).__name__)
                if g_one is None:
                    continue
                nlay += 1
                evaluations += 1
                if g_lay != g_one and rep_lay < 3:
                    rep_lay += 1
                    R.violation({'dialect': dialect, 'context': cname, 'sql': tmpl.format(ltext), 'the_same_on_one_line': tmpl.format(etext),
                                 'grouping_on_one_line': text_of(paren_full(strip_par(g_one))),
                                 'grouping_with_this_layout': text_of(paren_full(strip_par(g_lay))) if g_lay and g_lay[0] != 'rejected' else str(g_lay),
                                 'what': 'the grouping (or the acceptance) of an expression depends on the white space between its tokens'})
            stats.setdefault(dialect, {})['layout_cases'] = nlay
            rows = []
            idnum = json.loads((GEN / f'Tbl_{dialect}.json').read_text())['num']
            for cname, tmpl, getter, e in cases:
                etext = text_of(e)
                sql = tmpl.format(etext)
                evaluations += 1
                try:
                    ast = parse_sql(sql, dialect)
                    got = shape_of_ast(getter(ast), names)
                except Exception as ex:
                    got = 'reject'
                    stats.setdefault(dialect, {}).setdefault('impl_rejects', 0)
                    stats[dialect]['impl_rejects'] += 1
                pre = tmpl.split('{}')[0]
                try:
                    toks = lex(dialect, sql)
                    lo = len(lex(dialect, pre)) + 1
                    hi = lo + len(lex(dialect, etext)) - 1
                except Exception:
                    continue
                rows.append((cname, sql, e, got, [idnum[t.type] for t in toks], lo, hi))
                nontrivial.add((dialect, cname, etext))
            st = stats.setdefault(dialect, {})
            st['cases'] = len(rows)
            bad = []
            shard = 500
            for k in range(0, len(rows), shard):
                name = f'C03_cases_{dialect}_{k // shard}'
                lines = ['From Coq Require Import PArith List.',
                         f'From MSV Require Import Model.Sly Model.OpPrec Model.OpPrecCorr Gen.Tbl_{dialect} Gen.Prec_{dialect}.',
                         'Import ListNotations.', 'Local Open Scope positive_scope.',
                         'Definition cases : list (list sym * positive * positive * ex * ex) := [']
                body = []
                for cname, sql, e, got, syms, lo, hi in rows[k:k + shard]:
                    g = coq_of(got, opidx, idnum['ID']) if got and got != 'reject' else '(EAtom 1)'
                    body.append(f' ([{"; ".join(map(str, syms))}], {lo}, {hi}, {g}, {coq_of(e, opidx, idnum["ID"])})')
                lines.append(';\n'.join(body))
                lines.append('].')
                lines.append('Eval vm_compute in judge_all tbl cb G 1 cases.')
                write_if_changed(GEN / f'{name}.v', '\n'.join(lines) + '\n')
                rc, out = compile_gen(name, deps=[f'Prec_{dialect}'])
                if rc != 0:
                    broken = BrokenTie(f'correspondence shard {name} does not compile', out[-1500:])
                    break
                vals = coq_eval_lists(out)
                for m in re.finditer(r'\((\d+), (\d+)\)', vals[-1] if vals else ''):
                    bad.append((k + int(m.group(1)) - 1, int(m.group(2))))
            codes = {}
            for i, c in bad:
                codes[c] = codes.get(c, 0) + 1
            st['judge_codes'] = codes
            bad = [(i, c) for i, c in bad if not (c == 5 and rows[i][3] == 'reject')]   # rejected by both
            n_model_ne_impl = sum(1 for _, c in bad if c in (3, 4, 5))
            R.obligation(f'expression correspondence: engine model = parse_sql on {len(rows)} statements ({dialect})',
                         n_model_ne_impl == 0)
            has_devs = bool(info['deviations'])
            for i, c in bad:
                cname, sql, e, got, syms, lo, hi = rows[i]
                if c == 2 and has_devs:
                    continue        # explained by the (individually classified) deviations of the decision table
                if got != e:
                    R.violation({'dialect': dialect, 'sql': sql, 'context': cname, 'judge_code': c,
                                 'standard_grouping': text_of(paren_full(e)),
                                 'implementation_grouping': text_of(paren_full(got)) if got and got != 'reject' else 'rejected / outside fragment',
                                 'what': 'parse_sql does not group a minimally parenthesised expression by the standard levels'})
                    if len(R.violations) > 5:
                        break
                elif broken is None:
                    broken = BrokenTie(f'engine model disagrees with parse_sql on `{sql}` ({dialect}) although the '
                                       f'implementation groups it correctly', f'judge code {c}')
            if rows:
                samples.append({'dialect': dialect, 'sql': rows[len(rows) // 2][1]})
        if broken is not None and not R.violations:
            R.violation({'dialect': dialect, 'what': broken.what, 'detail': broken.detail,
                         'theorem': f'C03_{dialect} (K_prec / refines / correspondence)'}, nofail=True)
    R.cov['evaluations'] = evaluations
    R.cov['distinct_nontrivial'] = len(nontrivial)
    R.cov['rule'] = ('all expression trees with 1-2 operators over every fragment operator (+prefix, BETWEEN), 3 operators '
                     'over one representative per level (sampled in quick tier), printed with minimal and with full '
                     'parentheses, in 6 statement contexts; distinct = (dialect, context, expression text)')
    R.cov['samples'] = samples
    R.notes['input_distribution'] = stats
    return R.finish()
