"""C11: a query on one SQL integration is pushed down whole and unchanged in meaning.

Proof: Props/C11.v -- in the reference semantics, for EVERY query: removing the integration qualifier from the table names
(plus name-keeping aliases) and evaluating inside that integration gives the same frame on every database, provided every
table belongs to the integration or is a CTE in scope and no stripped name is captured by a CTE (both conditions refuted
with witnesses when dropped; a column that loses a qualifier equal to the integration name: refuted with a witness).
Per run, harness/c11u.py has Coq build, for each statement planned as one fetch step, the instance
`forall fuel db, eval (inside d) fetched = eval (outside) original` from that theorem (hypotheses decided by vm_compute).
Judge: generated single-integration statements x catalogs are planned; the plan must be exactly
one FetchDataframeStep for that integration whose query equals the original up to removal of the
integration qualifier and aliases that keep the output names (AST comparison), and the original
query and the plan are evaluated in Coq on generated databases (as in C08)."""
import copy
import json
import random
import re

import c08
import plangen
import sqlcoq
from common import (GEN, BrokenTie, Result, ensure_static, findings_for, KERNEL)

PROP = 'C11'

EDGE = [
    "select * from int1.t1 as int1 join int1.u1 as t on int1.a = t.a",
    "select int1.a, t.a from int1.t1 as int1 join int1.u1 as t on int1.b = t.b",
    "select int1.a from int1.t1 as int1 where int1.b = 1",
    "with t1 as (select * from int1.u1 where b = 1) select * from int1.t1",
    "with u1 as (select * from int1.t1) select * from u1 join int1.u1 as z on u1.a = z.a",
    "select a, b from int1.t1 union select a, b from int1.u1",
    "select a, b from int1.t1 union all select a, c from int1.u1 where a > 1",
    "select * from int1.t1 where a in (select a from int1.u1 where b = 1)",
    "select * from (select * from int1.t1 where b = 1) as s where s.a > 0",
    "select INT1.t1.a from INT1.t1",
    "select t1.a as x, t1.a + 1 as y from int1.t1 order by t1.a desc nulls last limit 2",
    "select a from int1.t1 group by a having count(*) > 1",
    "select distinct a, b from int1.t1 order by a, b limit 3 offset 1",
    "select * from int1.t1 as x left join int1.u1 as y on x.a = y.a where y.a is null",
    "select * from int1.t1 right join int1.u1 on t1.a = u1.a and u1.b = 1",
    "select int1.t1.a, int1.b from int1.t1 join int1.u1 as int1 on int1.t1.a = int1.a order by int1.t1.a",
    "select int1.t1.a from int1.t1 where int1.t1.a in (select int1.a from int1.u1 as int1) order by int1.t1.a",
    "select int1.t1.a from int1.t1 union select int1.a from int1.u1 as int1",
    "with c as (select a from int1.t1) select a from c union select a from int1.u1",
    "select a from (with c as (select a from int1.t1) select a from c) as s",
    "select a from int1.u1 where a in (with c as (select a from int1.t1) select a from c)",
    "select a from int1.u1 union with c as (select a from int1.t1 where b = 1) select a from c",
    "select int1.t1.a, int1.u1.b from int1.t1 join int1.u1 on int1.t1.a = int1.u1.a where int1.t1.b = 1 order by int1.t1.a",
    "select int1.t1.a from int1.t1 where int1.t1.b = 1 group by int1.t1.a having count(*) > 0",
    "select int1.t1.* from int1.t1 left join int1.u1 on int1.t1.a = int1.u1.a",
    "select int1.t1.a from int1.t1 where int1.t1.a in (1, int1.t1.b)", "select int1.t1.a from int1.t1 where int1.t1.a in (int1.t1.b, 1)",
    "select a from int1.t1 where a in (1, (select max(a) from int1.u1))", "select a from int1.t1 where a not in (0, int1.t1.b, 3)",
    "select a from int1.t1 where b in (1, 2) and a in (2, (select min(b) from int1.u1 where int1.u1.c in (1, int1.u1.a)))",
    "select coalesce(int1.t1.a, int1.t1.b, 0) as x from int1.t1 where coalesce(1, int1.t1.c) = 1",
    # a full-path column name in every place an expression can stand (window specifications with and without PARTITION BY, casts, CASE,
    # BETWEEN bounds, function arguments, signs, sort expressions, ON clauses, EXISTS)
    "select int1.t1.a, sum(int1.t1.b) over (order by int1.t1.c desc) as s from int1.t1",
    "select sum(int1.t1.b) over (partition by int1.t1.a) as s from int1.t1",
    "select sum(int1.t1.b) over (partition by int1.t1.a order by int1.t1.c) as s, row_number() over (order by int1.t1.a) as r from int1.t1",
    "select cast(int1.t1.a as int) as x, case when int1.t1.a > 1 then int1.t1.b else int1.t1.c end as y from int1.t1",
    "select int1.t1.a from int1.t1 where int1.t1.a between int1.t1.b and int1.t1.c and not int1.t1.a is null",
    "select f(int1.t1.a, g(int1.t1.b)) as v from int1.t1 where exists (select 1 from int1.u1 where int1.u1.a = 1)",
    "select -int1.t1.a as n from int1.t1 order by int1.t1.b + 1, abs(int1.t1.c) desc",
    "select * from int1.t1 join int1.u1 on int1.t1.a = int1.u1.a and int1.u1.b between int1.t1.b and 3",
    "select count(distinct int1.t1.a) as n, max(int1.t1.b) as m from int1.t1 group by int1.t1.c + 1 having min(int1.t1.a) > 0",
    # column and table names that need quoting (dots, blanks, keywords): the name-keeping alias is that one name
    "select int1.t1.`price.usd`, a from int1.t1", "select `a.b`, `c d`, `select` from int1.t1 where `a.b` > 1", "select t1.`x.y.z` from int1.t1 order by t1.`x.y.z`",
    "select `p.q` from int1.`t.1` where `p.q` = 1", "select int1.`t.1`.`p.q`, int1.`t.1`.a from int1.`t.1`",
    # tables of the integration whose schema.table reads like a model / view / project of the catalog (proj.pred, proj.pred2, proj.v1)
    "select a, b from int1.proj.pred where a > 1", "select * from int1.proj.pred where a = 1", "select * from int1.proj.pred2",
    "select a from int1.proj.pred union select a from int1.t1", "select a from int1.t1 where a in (select a from int1.proj.pred where b > 0)",
    "select x.a from int1.proj.v1 as x join int1.t1 on x.a = t1.a", "select * from int1.mindsdb.pred limit 2", "select * from int1.int2.t2 where a = 1",
]


def gen(rng):
    ig = rng.choice(['int1', 'int2'])
    feats = set(c08.ALL_FEATURES)
    sql = c08.gen_statement(rng, feats, single=ig)
    # subqueries generated by c08.subq may name another integration: keep them inside ig
    other = [t for i, t in c08.ALL_TABLES if i == ig]
    sql = re.sub(r'from int\d\.(\w+)', lambda m: f'from {ig}.{m.group(1) if m.group(1) in other else other[0]}', sql)
    sql = re.sub(r'join int\d\.(\w+)', lambda m: f'join {ig}.{m.group(1) if m.group(1) in other else other[0]}', sql)
    if rng.random() < 0.3:
        # columns written with their full path integration.table.column (tables that are used without an alias)
        for t in other:
            if re.search(rf'{ig}\.{t}(?! as)\b', sql) and not re.search(rf'{ig}\.{t} as ', sql):
                sql = re.sub(rf'(?<![\w.]){t}\.([abc])\b', rf'{ig}.{t}.\1', sql)
    if rng.random() < 0.1:
        sql = sql.replace(f'{ig}.', f'{ig.upper()}.', 1)
    return sql, ig


def normalise(q, db, strip=True):
    """text of the statement with integration qualifiers removed and target aliases that repeat the column name dropped"""
    from mindsdb_sql.parser import ast
    from mindsdb_sql.parser.ast.base import ASTNode
    q = copy.deepcopy(q)
    seen = set()

    def walk(x, in_targets=False, table_pos=False):
        if x is None or id(x) in seen:
            return
        seen.add(id(x))
        if isinstance(x, (list, tuple)):
            for y in x:
                walk(y, in_targets, table_pos)
        elif isinstance(x, ASTNode):
            if isinstance(x, ast.Identifier):
                # the integration qualifier of a table, or of a fully qualified column (integration.table.column)
                if strip and len(x.parts) > (1 if table_pos else 2) and isinstance(x.parts[0], str) and x.parts[0].lower() == db:
                    x.parts = x.parts[1:]
                if in_targets and x.alias is not None and isinstance(x.parts[-1], str) and \
                        [p.lower() for p in x.alias.parts] == [x.parts[-1].lower()]:
                    x.alias = None
            for k, v in vars(x).items():
                if k == 'alias' and isinstance(x, ast.Identifier):
                    continue
                tp = (isinstance(x, ast.Select) and k == 'from_table') or (isinstance(x, ast.Join) and k in ('left', 'right'))
                walk(v, in_targets=(k == 'targets'), table_pos=tp and isinstance(v, (ast.Identifier, ast.Join)))
    walk(q)
    return q.to_string()


def run(tier, seed, replay=None):
    R = Result(PROP, tier, seed, level='proof')
    R.cov['checker_cmd'] = 'make -C /verif/coq (Props/C11.v); coqc Gen/C11_cases_*.v'
    R.cov['trusted_base'] = [KERNEL, 'harness/sqlcoq.py, harness/c11.py (AST normalisation for the structural comparison), Model/SqlEval.v '
                             '(reference semantics, cross-checked against sqlite3 on every judged case)', 'axioms: none']
    R.assumptions = ['the whole-query theorem is about Model/SqlEval.v; harness/sqlcoq.py translates statements into it (column qualifiers: last '
                     'two parts), so qualifiers kept on columns are judged by the structural comparison, not by the theorem',
                     'statements that rely on the default namespace or whose stripped names a CTE captures, and constructs outside the '
                     'reference language, are decided by evaluation on generated databases only',
                     'window functions, LIKE and user-defined functions are outside the reference evaluator (structural comparison only)',
                     'integer columns; tables of at most 5 rows']
    rng = random.Random(seed)
    findings = findings_for(PROP)
    from mindsdb_sql import parse_sql
    from mindsdb_sql.planner import plan_query
    from mindsdb_sql.planner.steps import FetchDataframeStep
    try:
        ensure_static()
        R.obligation('Props/C11.v (make)', True)
    except BrokenTie as e:
        R.obligation('static development builds', False)
        R.violation({'broken': e.what, 'detail': e.detail, 'theorem': 'Props/C11.v'}, nofail=True)
        return R.finish()
    cats = [c for c in plangen.catalogs() if c[0] in ('names', 'dicts', 'legacy', 'default_ns')]
    catd = dict(cats)
    if replay:
        rp = json.loads(open(replay).read())
        inputs = [(rp['sql'], rp.get('catalog', 'names'), rp.get('integration', 'int1'))] if 'sql' in rp else []
    else:
        inputs = [(s, c, 'int1') for s in EDGE for c in ('names', 'dicts', 'default_ns')] + \
                 [(s.replace('int1.', 'int2.'), 'default_ns', 'int2') for s in EDGE if s.startswith(('with', 'select a from'))]
        for _ in range(250 if tier == 'quick' else 4000):
            sql, ig = gen(rng)
            inputs.append((sql, rng.choice(cats)[0], ig))
    # ---- structural judge
    stats = {'planned': 0, 'single_fetch': 0, 'plan_error': 0}
    struct_bad = []
    ucases = []
    for sql, cname, ig in inputs:
        try:
            q0 = parse_sql(sql, 'mindsdb')
            plan = plan_query(parse_sql(sql, 'mindsdb'), **copy.deepcopy(catd[cname]))
        except Exception:
            stats['plan_error'] += 1
            continue
        stats['planned'] += 1
        st = plan.steps
        if len(st) == 1 and isinstance(st[0], FetchDataframeStep) and st[0].integration == ig and st[0].query is not None:
            stats['single_fetch'] += 1
            ucases.append((sql, cname, ig, st[0].query))
            # expected: the original with the qualifier removed; the fetched query is taken as it is (only output-name aliases dropped)
            a, b = normalise(q0, ig), normalise(st[0].query, ig, strip=False)
            if a != b:
                struct_bad.append((sql, cname, 'the fetched query differs from the original by more than the integration qualifier and '
                                   'output-name aliases', {'original_normalised': a, 'fetched_normalised': b}))
        else:
            struct_bad.append((sql, cname, 'not planned as exactly one fetch step for that integration',
                               {'steps': [str(s)[:200] for s in st]}))
    # ---- universal instances: one Coq proof per planned statement (all databases), where the theorem's conditions hold
    import c11u
    uflags, uok, ubroken = c11u.run(R, ucases)
    n_univ = sum(1 for f in uflags if f)
    stats['settled_for_every_database'] = n_univ
    stats['conditions_of_the_theorem_do_not_hold'] = sum(1 for f, o in zip(uflags, uok) if f is False and o is False)
    stats['fetched_query_is_not_the_rewriting'] = sum(1 for f, o in zip(uflags, uok) if f is False and o is True)
    stats['outside_the_reference_language'] = sum(1 for f in uflags if f is None)
    R.obligation(f'instances of C11_pushdown_keeps_meaning built by Coq for {n_univ} of {len(ucases)} statements planned as one fetch step '
                 f'(each: the fetched query answers the original on every database)', not ubroken and (n_univ > 0 or not ucases or bool(replay)))
    # a fetched query that is not the rewriting although the conditions hold: the evaluation judge below looks for a database
    not_rewriting = [(c, ) for c, f, o in zip(ucases, uflags, uok) if f is False and o is True]
    # ---- evaluation judge
    N_inputs = [(s, c) for s, c, _ in inputs]
    estats, fails, broken, skipped, disputed, preps = c08.run_cases(R, N_inputs, catd, rng, 4 if tier == 'quick' else 8, 'C11', findings)
    R.obligation(f'Coq evaluation of {len(preps)} plans completes', not broken)
    seen = set()
    for sql, cname, what, extra in struct_bad:
        low = sql.lower()
        feats = sorted(x for x, pat in (('cte', 'with '), ('union', ' union '), ('nested', 'from (select'), ('subquery', '(select'),
                                        ('join', ' join ')) if pat in low)
        fd = [f for f in findings if f['classifier'].get('kind') == 'structure' and f['classifier'].get('what') == what[:30] and
              set(f['classifier'].get('needs', [])) <= set(feats)]
        if fd:
            R.known_finding(f'{fd[0]["id"]}: {fd[0]["what"]}')
            continue
        key = (what[:30], tuple(feats))
        if key in seen or len(seen) >= 6:
            continue
        seen.add(key)
        R.violation(dict(sql=sql, catalog=cname, what=what, features=feats, **extra))
    settled = {(c[0], c[1]) for c, f in zip(ucases, uflags) if f}
    for p, j in fails:
        if (p['sql'], p['cname']) in settled:
            # a statement with a Coq proof for every database cannot fail on one: translator / judge inconsistency
            ubroken.append(BrokenTie(f'`{p["sql"]}` has an instance of C11_pushdown_keeps_meaning and fails the evaluation judge'))
    for p, j in fails:
        feats = c08.classify(p['sql'])
        m = re.match(r'with (\w+) as', p['sql'].lower())
        if m and re.search(r'int\d\.' + m.group(1) + r'\b', p['sql'].lower()):
            feats.add('cte_named_like_qualified_table')
        key = ('eval', tuple(sorted(feats)))
        fd = [f for f in findings if f['classifier'].get('kind') == 'meaning_changed' and set(f['classifier'].get('needs', [])) <= feats]
        if fd:
            R.known_finding(f'{fd[0]["id"]}: {fd[0]["what"]}')
            continue
        if key in seen or len(seen) >= 8:
            continue
        seen.add(key)
        db, _ = p['dbs'][j]
        R.violation({'sql': p['sql'], 'catalog': p['cname'], 'steps': p['kinds'], 'features': sorted(feats),
                     'database': {'.'.join(k): {'columns': v[0], 'rows': v[1]} for k, v in db.items()},
                     'what': 'executing the pushed-down query does not return an acceptable answer to the original query',
                     'judge': 'Model/SqlJudge.judge_plan = (1, _)'})
    for p, j in getattr(R, 'plan_outside', [])[:50]:
        fd = [f for f in findings if f['classifier'].get('kind') == 'pushed_query_fails' and f['classifier'].get('needs') == 'alias_is_integration'
              and re.search(r' as (int\d)\b', p['sql'].lower())]
        if fd:
            R.known_finding(f'{fd[0]["id"]}: {fd[0]["what"]}')
            continue
        if ('outside',) in seen:
            continue
        seen.add(('outside',))
        db, _ = p['dbs'][j]
        R.violation({'sql': p['sql'], 'catalog': p['cname'], 'steps': p['kinds'],
                     'database': {'.'.join(k): {'columns': v[0], 'rows': v[1]} for k, v in db.items()},
                     'what': 'the original query evaluates but the pushed-down query does not (ambiguous or unknown column / table)',
                     'judge': 'Model/SqlJudge.judge_plan = (3, _)'})
    R.obligation('judge: one fetch step, query equal up to qualifier / aliases, same answer on every generated database', not R.violations)
    for e in broken[:1]:
        if not R.violations:
            R.violation({'what': e.what, 'detail': e.detail, 'theorem': 'C11 evaluation (Gen/C11_cases_*.v)'}, nofail=True)
    if not R.violations and (ubroken or (ucases and n_univ == 0 and not replay)):
        e = ubroken[0] if ubroken else BrokenTie('C11_pushdown_keeps_meaning could be instantiated for none of the planned statements')
        R.violation({'what': e.what, 'detail': getattr(e, 'detail', ''), 'theorem': 'Props/C11.v C11_pushdown_keeps_meaning (Gen/C11_univ_*.v)'}, nofail=True)
    if not R.violations and not_rewriting:
        # the conditions hold, the structural judge and the evaluation judge found nothing, yet Coq could not identify the fetched
        # query with the rewriting: the model of the rewriting no longer describes what the planner sends
        (sql_, cn_, ig_, fq_), = not_rewriting[0]
        R.violation({'sql': sql_, 'catalog': cn_, 'integration': ig_, 'fetched': str(fq_),
                     'what': 'the fetched query is not the rewriting of Model/Strip.v (qualifier removed, name-keeping aliases) although the '
                             'conditions of the theorem hold and no database distinguishes them',
                     'theorem': 'alias_norm fetched = pushed d original (hypothesis of C11_pushdown_keeps_meaning)'}, nofail=True)
    R.cov['evaluations'] = len(inputs) + sum(len(p['dbs']) for p in preps)
    R.cov['distinct_nontrivial'] = len({p['plan'] for p in preps})
    R.cov['rule'] = ('generated statements over the tables of one integration (joins of every kind, subqueries, UNION, CTE, nested select, '
                     'GROUP BY / HAVING, DISTINCT, ORDER BY, LIMIT / OFFSET, upper-case qualifier) x 4 catalogs + edge statements with aliases '
                     'and CTE names that coincide with the integration / table names')
    R.cov['samples'] = [{'sql': s, 'catalog': c} for s, c, _ in inputs[:3]]
    stats.update({'eval_' + k: v for k, v in estats.items()})
    R.notes['input_distribution'] = stats
    R.notes['skipped_examples'] = dict(list(skipped.items())[:10])
    return R.finish()
