"""C15: a time-series model receives exactly its context window plus the selected rows.

Proof: Props/C15.v -- for every table content, window size and time condition: the window part of
the model Model/TsSpec.fetched has min(w, #context) rows, all context rows, none older than a
context row left out; the selected part is exactly the rows satisfying the condition; context
and selection are disjoint and (>, >=, BETWEEN) leave no gap; rows without a time are never
handed over.
Tie: generated joins of a table with a time-series model are planned; the emitted data steps
(partition fetch, MapReduceStep with $var injection, MultipleSteps) are executed in Coq
(Model/SqlEval.exec_plan) on generated tables with ties, NULL times and empty partitions and the
rows compared with Model/TsSpec.fetched per partition.  Judge: Model/TsSpec.ts_ok on the same
rows (all selected rows + any w most recent context rows).  Structure (output filter, LIMIT after
the join, rejections) is checked on the plan objects."""
import copy
import json
import random
import re

import sqlcoq
from common import (GEN, BrokenTie, Result, compile_many, coq_eval_lists, ensure_static, findings_for, write_if_changed, KERNEL)

PROP = 'C15'
COLS = ['t', 'g', 'h', 'v']

HEADER = ['From Coq Require Import ZArith PArith List Bool.',
          'From MSV Require Import Lib.Rel Model.SqlEval Model.TsSpec Model.TsJudge.',
          'Import ListNotations.', 'Local Open Scope positive_scope.']


def gen_case(rng):
    gcols = rng.choice([[], ['g'], ['g'], ['g', 'h']])
    w = rng.randint(1, 3)
    kind = rng.choice(['none', 'gt', 'ge', 'eq', 'lt', 'le', 'between', 'gt_latest', 'eq_latest'])
    z = rng.randint(0, 6)
    z2 = z + rng.randint(0, 3)
    al = rng.choice(['ta', 'ta', 'TA', None])
    q = al or 't1'
    # identifiers are not case sensitive here: the order / partition columns are spelled with upper-case letters now and then,
    # in the query and (independently) in the model's metadata
    tc = rng.choice(['t', 't', 't', 'T'])
    up = lambda c: c.upper() if rng.random() < 0.2 else c
    tcond = {'none': None, 'gt': f'{q}.{tc} > {z}', 'ge': f'{q}.{tc} >= {z}', 'eq': f'{q}.{tc} = {z}', 'lt': f'{q}.{tc} < {z}', 'le': f'{q}.{tc} <= {z}',
             'between': f'{q}.{tc} between {z} and {z2}', 'gt_latest': f'{q}.{tc} > latest', 'eq_latest': f'{q}.{tc} = latest'}[kind]
    tterm = {'none': 'TNone', 'gt': f'(TGt {z})', 'ge': f'(TGe {z})', 'eq': f'(TEq {z})', 'lt': f'(TLt {z})', 'le': f'(TLe {z})',
             'between': f'(TBetween {z} {z2})', 'gt_latest': 'TGtLatest', 'eq_latest': 'TEqLatest'}[kind]
    pf = []
    for c in gcols:
        r = rng.random()
        if r < 0.25:
            pf.append(f'{q}.{up(c)} = {rng.randint(0, 2)}')
        elif r < 0.4:
            pf.append(f'{q}.{up(c)} in ({rng.randint(0, 1)}, {rng.randint(1, 2)})')
        elif r < 0.5:
            pf.append(f'{q}.{c} >= {rng.randint(0, 2)}')
        elif r < 0.7:
            # several conjuncts on the same partition column: the WHERE becomes a deep tree of ANDs
            pf.append(f'{q}.{c} >= 0')
            pf.append(f'{q}.{c} <= {rng.randint(1, 2)}')
            if rng.random() < 0.5:
                pf.append(f'{q}.{c} in (0, 1, 2)')
    conds = ([tcond] if tcond else []) + pf
    rng.shuffle(conds)
    if tcond and len(conds) >= 3 and rng.random() < 0.3:
        # the time condition first / inside a parenthesised group
        conds.remove(tcond)
        if rng.random() < 0.5:
            conds = [tcond] + conds
        else:
            conds = [conds[0], '(' + ' and '.join([tcond] + conds[1:]) + ')']
    tab = 'int1.t1' + (f' as {al}' if al else '')
    model_left = rng.random() < 0.25
    frm = f'proj.tp as m join {tab}' if model_left else f'{tab} join proj.tp as m'
    sql = f'select * from {frm}' + (' where ' + ' and '.join(conds) if conds else '')
    limit = None
    if rng.random() < 0.3:
        limit = rng.randint(1, 4)
        sql += f' limit {limit}'
    return dict(sql=sql, gcols=gcols, w=w, tterm=tterm, kind=kind, pf=pf, tcond=tcond, limit=limit, q=q,
                meta_ob=rng.choice(['t', 't', 't', 'T']), meta_g=[up(c) for c in gcols])


REJECT = [' order by ta.t', ' group by ta.g', ' offset 2']
REJECT_WHERE = ['ta.v = 1', 'ta.t > 1 and ta.v > 2', 'ta.t > 1 and ta.t < 5', 'not ta.t > 1', 'ta.t > 1 or ta.g = 1']


def gen_table(rng):
    n = rng.choice([0, 1, 3, 5, 7, 9])
    rows = []
    for _ in range(n):
        rows.append([None if rng.random() < 0.12 else rng.randint(0, 8), None if rng.random() < 0.06 else rng.randint(0, 2),
                     rng.randint(0, 1), rng.randint(0, 3)])
    return rows


def run(tier, seed, replay=None):
    R = Result(PROP, tier, seed, level='proof')
    R.cov['checker_cmd'] = 'make -C /verif/coq (Props/C15.v); coqc Gen/C15_cases_*.v'
    R.cov['trusted_base'] = [KERNEL, 'harness/c15.py (classification of the time condition and partition filters of the generated query), '
                             'harness/sqlcoq.py, Model/SqlEval.v (meaning of the fetch / map-reduce / multiple steps)', 'axioms: none']
    R.assumptions = ['MultipleSteps / MapReduceStep with reduce=union concatenate the results of their steps',
                     'a partition value is a non-NULL tuple of the group-by columns (rows with a NULL partition column get no rows: `g = NULL`)',
                     'integer times; dbt-style sub-select on the left of the join is not generated']
    rng = random.Random(seed)
    findings = findings_for(PROP)
    from mindsdb_sql import parse_sql
    from mindsdb_sql.exceptions import PlanningException
    from mindsdb_sql.planner import plan_query
    from mindsdb_sql.planner import steps as S
    try:
        ensure_static()
        R.obligation('Props/C15.v (make)', True)
    except BrokenTie as e:
        R.obligation('static development builds', False)
        R.violation({'broken': e.what, 'detail': e.detail, 'theorem': 'Props/C15.v'}, nofail=True)
        return R.finish()
    n = 200 if tier == 'quick' else 3000
    ndb = 4 if tier == 'quick' else 8
    if replay:
        rp = json.loads(open(replay).read())
        cases_in = [rp['case']] if 'case' in rp else []
    else:
        cases_in = [gen_case(rng) for _ in range(n)]
    N = sqlcoq.Names()
    for c in COLS:
        N.n(c)
    stats = {'planned': 0, 'plan_error': 0, 'unsupported': 0, 'by_kind': {}, 'grouped': 0, 'model_left': 0, 'with_limit': 0}
    items = []
    struct_bad = []
    skipped = {}
    for cs in cases_in:
        meta = [{'name': 'tp', 'integration_name': 'proj', 'timeseries': True, 'order_by_column': cs.get('meta_ob', 't'),
                 'group_by_columns': list(cs.get('meta_g', cs['gcols'])), 'window': cs['w']}]
        try:
            plan = plan_query(parse_sql(cs['sql'], 'mindsdb'), integrations=['int1', 'proj'], predictor_metadata=meta)
        except Exception as e:
            stats['plan_error'] += 1
            skipped.setdefault(f'{type(e).__name__}: {str(e)[:80]}', cs['sql'])
            continue
        stats['planned'] += 1
        stats['by_kind'][cs['kind']] = stats['by_kind'].get(cs['kind'], 0) + 1
        stats['grouped'] += bool(cs['gcols'])
        stats['with_limit'] += cs['limit'] is not None
        st = plan.steps
        ap = [s for s in st if isinstance(s, S.ApplyTimeseriesPredictorStep)]
        if len(ap) != 1:
            struct_bad.append((cs, 'not exactly one ApplyTimeseriesPredictorStep', [str(s)[:150] for s in st]))
            continue
        ap = ap[0]
        data_k = ap.dataframe.step_num
        # ---- structure: output filter, limit after the join
        want = None if cs['tcond'] is None else re.sub(r'^\w+\.', '', cs['tcond']).lower()
        got = None if ap.output_time_filter is None else ap.output_time_filter.to_string().lower()
        if (want or '') != (got or '').replace('  ', ' '):
            struct_bad.append((cs, 'output_time_filter is not the user\'s time condition', {'expected': want, 'got': got}))
        js = [i for i, s in enumerate(st) if isinstance(s, S.JoinStep)]
        lim = [(i, s) for i, s in enumerate(st) if isinstance(s, S.LimitOffsetStep)]
        if cs['limit'] is not None:
            if not (js and lim and lim[0][0] > js[0] and lim[0][1].limit == cs['limit'] and lim[0][1].dataframe.step_num == js[0]):
                struct_bad.append((cs, 'LIMIT is not applied to the result of the join', [str(s)[:120] for s in st]))
        elif lim:
            struct_bad.append((cs, 'a LimitOffsetStep without a LIMIT in the query', [str(s)[:120] for s in st]))
        for s in st[:data_k + 1]:
            for f in ([s] if isinstance(s, S.FetchDataframeStep) else []):
                if f.query.limit is not None and cs['limit'] is not None and f.query.limit.value == cs['limit'] and cs['limit'] != cs['w']:
                    struct_bad.append((cs, 'the user LIMIT was pushed into a fetch', str(f)))
        # ---- translate the data steps
        try:
            tr = sqlcoq.Tr(N)
            for i, s in enumerate(st[:data_k + 1]):
                if s.step_num != i:
                    raise sqlcoq.Unsupported('step numbering')
            steps = sqlcoq.lst([tr.step(s) for s in st[:data_k + 1]])
            pfe = None
            if cs['pf']:
                pfe = tr.expr(parse_sql('select 1 from x where ' + ' and '.join(re.sub(r'^\w+\.', '', p) for p in cs['pf']), 'mindsdb').where)
        except sqlcoq.Unsupported as e:
            stats['unsupported'] += 1
            skipped.setdefault('unsupported: ' + str(e)[:60], cs['sql'])
            continue
        dbs = [gen_table(rng) for _ in range(ndb)]
        items.append((cs, steps, pfe, dbs))
    # ---- rejections
    rej_bad = []
    if not replay:
        meta = [{'name': 'tp', 'integration_name': 'proj', 'timeseries': True, 'order_by_column': 't', 'group_by_columns': ['g'], 'window': 2}]
        rej = ['select * from int1.t1 as ta join proj.tp as m where ta.t > 1' + r for r in REJECT] + \
              ['select * from int1.t1 as ta join proj.tp as m where ' + w for w in REJECT_WHERE] + \
              ['select ta.g, count(*) from int1.t1 as ta join proj.tp as m where ta.t > 1 group by ta.g having count(*) > 1']
        # filters on columns that are neither the order column nor a partition column, under every number of partition columns, with
        # names that resemble the allowed ones (substrings, extensions, other case is the same column)
        rej = [(q, meta) for q in rej]
        for ob in ('t', 'pickup_hour', 'ts1'):
            for groups in ([], ['g'], ['g', 'grp']):
                m2 = [{'name': 'tp', 'integration_name': 'proj', 'timeseries': True, 'order_by_column': ob, 'group_by_columns': list(groups), 'window': 2}]
                others = {'hour', 'pickup', 'p', 'our', ob + '2', 'x' + ob, ob[:-1], ob[1:], 'gr', 'grp2', 'r', 'z'} - {ob, ''} - set(groups)
                for col in sorted(others):
                    for cond in (f'ta.{col} = 3', f'ta.{col} in (1, 2)'):
                        rej.append((f'select * from int1.t1 as ta join proj.tp as m where ta.{ob} > 1 and {cond}', m2))
        for sql, meta_ in rej:
            try:
                plan_query(parse_sql(sql, 'mindsdb'), integrations=['int1', 'proj'], predictor_metadata=copy.deepcopy(meta_))
                rej_bad.append((sql, 'planned without error'))
            except PlanningException:
                pass
            except Exception as e:
                rej_bad.append((sql, f'{type(e).__name__}: {str(e)[:100]}'))
    # ---- Coq
    sch = '[' + '; '.join(f'(Some {N.n("t1")}, {N.n(c)})' for c in COLS) + ']'
    shard = 50
    names = []
    for k in range(0, len(items), shard):
        name = f'C15_cases_{k // shard}'
        lines = list(HEADER)
        lines.append(f'Definition sch : schema := {sch}.')
        defs, idx = [], []
        for i, (cs, steps, pfe, dbs) in enumerate(items[k:k + shard]):
            lines.append(f'Definition p{i} := {steps}.')
            gc = sqlcoq.lst([f'{COLS.index(c)}%nat' for c in cs['gcols']])
            for j, rows in enumerate(dbs):
                db = {('int1', 't1'): (COLS, rows)}
                lines.append(f'Definition d{i}_{j} : list (list name * (list name * rel)) := {sqlcoq.db_term(db, N)}.')
                rt = sqlcoq.lst([sqlcoq.lst(['VNull' if x is None else f'VInt {x}' for x in r]) for r in rows])
                defs.append(f'ts_check 30 sch ({rt} : rel) 0%nat {gc} {cs["w"]}%nat {cs["tterm"]} {sqlcoq.opt(pfe)} (exec_plan 30 d{i}_{j} p{i})')
                idx.append((k + i, j))
        lines.append('Definition verdicts := [' + ';\n '.join(defs) + '].')
        lines.append('Eval vm_compute in map (fun v => (fst (fst v), snd (fst v), snd v)) verdicts.')
        write_if_changed(GEN / f'{name}.v', '\n'.join(lines) + '\n')
        names.append((name, idx))
    res = compile_many([nm for nm, _ in names], timeout=900)
    broken, corr_bad, judge_bad, outside = [], [], [], 0
    evals = 0
    for (name, idx), (rc, out) in zip(names, res):
        if rc != 0:
            broken.append(BrokenTie(f'{name} does not compile', out[-1200:]))
            continue
        vals = coq_eval_lists(out)
        v = re.findall(r'\((\d+), (true|false), (true|false)\)', vals[-1]) if vals else []
        if len(v) != len(idx):
            broken.append(BrokenTie(f'{name}: unexpected Coq output', out[-500:]))
            continue
        for (ci, j), (code, corr, judge) in zip(idx, v):
            evals += 1
            if code != '0':
                outside += 1
                continue
            if corr != 'true':
                corr_bad.append((ci, j))
            if judge != 'true':
                judge_bad.append((ci, j))
    stats['outside_evaluator'] = outside
    R.obligation(f'correspondence: rows returned by the emitted data steps = Model/TsSpec.fetched per partition ({evals} plan x table pairs)',
                 not corr_bad and not broken)
    seen = set()
    for ci, j in judge_bad:
        cs, steps, pfe, dbs = items[ci]
        key = (cs['kind'], bool(cs['gcols']))
        fd = [f for f in findings if f['classifier'].get('kind') == 'rows' and f['classifier'].get('cond') == cs['kind']]
        if fd:
            R.known_finding(f'{fd[0]["id"]}: {fd[0]["what"]}')
            continue
        if key in seen or len(seen) >= 6:
            continue
        seen.add(key)
        R.violation({'case': cs, 'sql': cs['sql'], 'window': cs['w'], 'group_by_columns': cs['gcols'], 'table_rows(t,g,h,v)': dbs[j],
                     'what': 'the rows handed to the model are not: every selected row + the window most recent rows before the lower bound',
                     'judge': 'Model/TsSpec.ts_ok = false'})
    for cs, what, extra in struct_bad:
        fd = [f for f in findings if f['classifier'].get('kind') == 'structure' and f['classifier'].get('what') == what and
              f['classifier'].get('cond', cs['kind']) == cs['kind']]
        if fd:
            R.known_finding(f'{fd[0]["id"]}: {fd[0]["what"]}')
            continue
        key = (what, cs['kind'])
        if key in seen or len(seen) >= 10:
            continue
        seen.add(key)
        R.violation({'case': cs, 'sql': cs['sql'], 'what': what, 'detail': extra})
    for sql, what in rej_bad:
        fd = [f for f in findings if f['classifier'].get('kind') == 'not_rejected' and f['classifier'].get('sql') == sql]
        if fd:
            R.known_finding(f'{fd[0]["id"]}: {fd[0]["what"]}')
            continue
        R.violation({'sql': sql, 'what': 'a query the time-series planner must reject with PlanningException: ' + what})
    R.obligation('judge: ts_ok on every partition, output filter, LIMIT after the join, rejections (except listed findings)',
                 not any(not nf for _, nf in R.violations))
    for ci, j in corr_bad[:1]:
        if not any(not nf for _, nf in R.violations):
            cs, steps, pfe, dbs = items[ci]
            R.violation({'what': f'model of the fetched rows disagrees with the executed plan: `{cs["sql"]}` on {dbs[j]}', 'case': cs,
                         'theorem': 'C15 correspondence (Model/TsJudge.ts_check)'}, nofail=True)
    for e in broken[:1]:
        if not any(not nf for _, nf in R.violations):
            R.violation({'what': e.what, 'detail': e.detail, 'theorem': 'C15 (Gen/C15_cases_*.v)'}, nofail=True)
    R.cov['evaluations'] = evals
    R.cov['distinct_nontrivial'] = len({it[1] for it in items})
    R.cov['rule'] = ('generated joins table x time-series model (model left / right, alias spellings, 9 kinds of time condition, partition '
                     'filters, 0..2 group-by columns, window 1..3, LIMIT) x generated tables of 0..9 rows with tied times, NULL times, NULL '
                     'partition values, empty partitions; fixed list of queries that must be rejected')
    R.cov['samples'] = [{'sql': c['sql']} for c in cases_in[:3]]
    R.notes['input_distribution'] = stats
    R.notes['skipped_examples'] = dict(list(skipped.items())[:10])
    return R.finish()
