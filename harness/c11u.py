"""C11, universal part per planned statement: for a statement that is planned as one fetch step, Coq is asked to build a proof of

    forall fuel db, eval_q fuel (inside d) <query of the fetch step> = eval_q fuel (outside) <original query>

from the theorem Proofs/StripProofs.pushdown_sound; its two hypotheses -- ok_q (Some d) [] q = true (every table is qualified
with d or is a CTE in scope, no stripped name is captured) and alias_norm fetched = pushed d q (the fetched query IS the
rewriting of Model/Strip.v up to name-keeping aliases) -- are closed terms decided by vm_compute.  Where the proof is built,
the statement is settled for every database, not only for the generated ones."""
import re

import sqlcoq
from common import GEN, BrokenTie, compile_many, coq_eval_lists, write_if_changed

HEADER = ['From Coq Require Import ZArith PArith List Bool.',
          'From MSV Require Import Lib.Rel Model.SqlEval Model.Strip Proofs.StripProofs.',
          'Import ListNotations.', 'Local Open Scope positive_scope.']


def terms(sql, fetched_query, integration, N):
    """-> (d, term of the original, term of the fetched query) or raises sqlcoq.Unsupported"""
    from mindsdb_sql import parse_sql
    tr = sqlcoq.Tr(N)
    q = tr.query(parse_sql(sql, 'mindsdb'))
    r = tr.query(fetched_query)
    return N.n(integration), q, r


def run(R, cases, tag='C11_univ'):
    """cases: list of (sql, catalog name, integration, fetched query AST).  -> (list of bool per case or None when outside the
    translator, list of BrokenTie)"""
    N = sqlcoq.Names()
    rows = []
    for sql, cname, ig, fq in cases:
        try:
            rows.append(terms(sql, fq, ig, N))
        except sqlcoq.Unsupported:
            rows.append(None)
        except Exception:
            rows.append(None)
    idx = [i for i, r in enumerate(rows) if r is not None]
    shard = 60
    names = []
    for k in range(0, len(idx), shard):
        name = f'{tag}_{k // shard}'
        ls = list(HEADER)
        part = idx[k:k + shard]
        for j, i in enumerate(part):
            d, q, r = rows[i]
            ls.append(f'Definition q_{j} : query := {q}.')
            ls.append(f'Definition r_{j} : query := {r}.')
            ls.append(f'Definition u_{j} : option (forall fuel db, eval_q fuel (mkCtx db [{d}] [] [] []) r_{j} = eval_q fuel (mkCtx db [] [] [] []) q_{j}).')
            ls.append(f'Proof. first [ refine (Some (pushdown_sound {d} q_{j} r_{j} _ _)); vm_compute; reflexivity | exact None ]. Defined.')
        ls.append('Definition flags : list bool := [' + '; '.join(f'match u_{j} with Some _ => true | None => false end' for j in range(len(part))) + '].')
        ls.append('Eval lazy in flags.')
        # why not: which hypothesis fails (diagnosis only)
        ls.append('Eval vm_compute in [' + '; '.join(f'ok_q (Some {rows[i][0]}) [] q_{j}' for j, i in enumerate(part)) + '].')
        write_if_changed(GEN / f'{name}.v', '\n'.join(ls) + '\n')
        names.append((part, name))
    res = compile_many([n for _, n in names], timeout=600)
    out = [None] * len(cases)
    okh = [None] * len(cases)
    broken = []
    for (part, name), (rc, txt) in zip(names, res):
        if rc != 0:
            broken.append(BrokenTie(f'{name} does not compile', txt[-1200:]))
            continue
        vals = coq_eval_lists(txt)
        fl = re.findall(r'true|false', vals[-2]) if len(vals) >= 2 else []
        ok = re.findall(r'true|false', vals[-1]) if vals else []
        if len(fl) != len(part) or len(ok) != len(part):
            broken.append(BrokenTie(f'{name}: unexpected Coq output', txt[-600:]))
            continue
        for i, f, o in zip(part, fl, ok):
            out[i] = (f == 'true')
            okh[i] = (o == 'true')
    return out, okh, broken
