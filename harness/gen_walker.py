"""Translator for C13/C12: the visiting schedule of planner.utils.query_traversal, obtained by
probing the current function class by class with sentinel children (recording + replacing
callbacks), and the schema (child fields of every AST class in textual order with their roles),
emitted as Coq data (Gen/Walker.v).  Also converts real ASTs to the generic trees of
Model/Walk.v.

The schema below is the hand-written part of the specification ("textual order" = the order in
which each class's get_string prints its children); it is validated against to_string on every
run by check_schema_order()."""
import json

from common import GEN, write_if_changed
from gen_tables import TranslateError

# class -> [(field, kind, is_table_position, is_target_position)]   kinds: node list rows dict pairs cte
# fields listed in OPTIONAL may be None in parser-produced trees; the others never are
OPTIONAL_L = [('Case', 'arg'), ('Case', 'default'), ('CreateTable', 'from_select'), ('Delete', 'where'), ('Function', 'from_arg'), ('Insert', 'from_select'), ('Join', 'condition'), ('Select', 'from_table'), ('Select', 'having'), ('Select', 'limit'), ('Select', 'offset'), ('Select', 'where'), ('Update', 'from_select'), ('Update', 'where')]
OPTIONAL = set(OPTIONAL_L)
SCHEMA = {
    'Select': [('cte', 'cte', False, False), ('targets', 'list', False, True), ('from_table', 'node', True, False),
               ('where', 'node', False, False), ('group_by', 'list', False, False), ('having', 'node', False, False),
               ('order_by', 'list', False, False), ('limit', 'node', False, False), ('offset', 'node', False, False)],
    'Join': [('left', 'node', True, False), ('right', 'node', True, False), ('condition', 'node', False, False)],
    'Union': [('left', 'node', False, False), ('right', 'node', False, False)],
    'Intersect': [('left', 'node', False, False), ('right', 'node', False, False)],
    'Except': [('left', 'node', False, False), ('right', 'node', False, False)],
    'BinaryOperation': [('args', 'list', False, False)],
    'UnaryOperation': [('args', 'list', False, False)],
    'BetweenOperation': [('args', 'list', False, False)],
    'Function': [('args', 'list', False, False), ('from_arg', 'node', False, False)],
    'Exists': [('args', 'list', False, False)],
    'NotExists': [('args', 'list', False, False)],
    'WindowFunction': [('function', 'node', False, False), ('partition', 'list', False, False),
                       ('order_by', 'list', False, False)],
    'Case': [('arg', 'node', False, False), ('rules', 'pairs', False, False), ('default', 'node', False, False)],
    'TypeCast': [('arg', 'node', False, False)],
    'Tuple': [('items', 'list', False, False)],
    'OrderBy': [('field', 'node', False, False)],
    'Insert': [('table', 'node', True, False), ('values', 'rows', False, False), ('from_select', 'node', False, False)],
    'Update': [('table', 'node', True, False), ('update_columns', 'dict', False, False),
               ('from_select', 'node', False, False), ('where', 'node', False, False)],
    'Delete': [('table', 'node', True, False), ('where', 'node', False, False)],
    'CreateTable': [('name', 'node', True, False), ('from_select', 'node', False, False)],
}
LEAVES = ['Identifier', 'Constant', 'NullConstant', 'Star', 'Parameter', 'Variable', 'Last', 'Latest', 'Interval',
          'NativeQuery', 'Data', 'Object']
CNONE = 1
REORDERED = set()
NONNODE = set()
NONE_ID = 999999      # every None child carries this id (the callback cannot tell them apart)


def class_ids():
    names = sorted(SCHEMA) + LEAVES
    return {n: i + 2 for i, n in enumerate(names)}


def field_ids():
    fs = sorted({f for v in SCHEMA.values() for f, *_ in v})
    return {f: i + 1 for i, f in enumerate(fs)}


def ast_classes():
    import mindsdb_sql.parser.ast as A
    from mindsdb_sql.parser.dialects.mindsdb.latest import Latest
    d = {n: getattr(A, n) for n in list(SCHEMA) + LEAVES if hasattr(A, n)}
    d['Latest'] = Latest
    return d


def children(node, cname):
    """-> list of (field, table, target, child or None) in schema order"""
    out = []
    for f, kind, tb, tg in SCHEMA[cname]:
        v = getattr(node, f, None)
        if kind == 'node':
            out.append((f, tb, tg, v))
        elif v is None:
            continue
        elif kind == 'list':
            out += [(f, tb, tg, x) for x in v]
        elif kind == 'rows':
            out += [(f, tb, tg, x) for row in v for x in row]
        elif kind == 'dict':
            out += [(f, tb, tg, x) for x in v.values()]
        elif kind == 'pairs':
            out += [(f, tb, tg, x) for pair in v for x in pair]
        elif kind == 'cte':
            out += [(f, tb, tg, x.query) for x in v]
    return out


class Unsupported(Exception):
    pass


def to_tree(node, cids, fids, counter, idmap):
    """AST -> python generic tree {'id','cls','ch':[(field, tb, tg, subtree)]} ; ids in pre-order"""
    from mindsdb_sql.parser.ast.base import ASTNode
    if node is None:
        return {'id': NONE_ID, 'cls': CNONE, 'name': 'None', 'ch': []}
    counter[0] += 1
    nid = counter[0]
    cname = type(node).__name__
    if cname not in cids:
        raise Unsupported(cname)
    idmap[id(node)] = nid
    idmap.setdefault('_keep', []).append(node)     # keep the object alive: CPython reuses ids of freed objects
    t = {'id': nid, 'cls': cids[cname], 'name': cname, 'ch': []}
    if cname in SCHEMA:
        for f, tb, tg, c in children(node, cname):
            if c is not None and not isinstance(c, ASTNode):
                raise Unsupported(f'{cname}.{f} holds a {type(c).__name__}')
            t['ch'].append((fids[f], tb, tg, to_tree(c, cids, fids, counter, idmap)))
    return t


def coq_tree(t):
    b = lambda x: 'true' if x else 'false'
    ch = '; '.join(f'(mkSlot {f} {b(tb)} {b(tg)}, {coq_tree(c)})' for f, tb, tg, c in t['ch'])
    return f'Nd {t["id"]} {t["cls"]} [{ch}]'


# ---------------------------------------------------------------- probing
def _sent(i):
    from mindsdb_sql.parser.ast import Identifier
    return Identifier(parts=[f's{i}'])


def make_instance(cname, none_field=None):
    """an instance of the class with every child field filled by sentinels; -> (obj, {id(sentinel): (field, index)})"""
    import mindsdb_sql.parser.ast as A
    from mindsdb_sql.parser.ast import Identifier, CommonTableExpression
    C = ast_classes()[cname]
    n = [0]
    owner = {}

    def s(field, idx):
        n[0] += 1
        x = _sent(n[0])
        owner[id(x)] = (field, idx)
        return x
    kw = {}
    for f, kind, tb, tg in SCHEMA[cname]:
        if f == none_field:
            kw[f] = None
            continue
        if kind == 'node':
            kw[f] = s(f, 0)
        elif kind == 'list':
            kw[f] = [s(f, 0), s(f, 1)]
        elif kind == 'rows':
            kw[f] = [[s(f, 0), s(f, 1)], [s(f, 2), s(f, 3)]]
        elif kind == 'dict':
            kw[f] = {'a': s(f, 0), 'b': s(f, 1)}
        elif kind == 'pairs':
            kw[f] = [[s(f, 0), s(f, 1)], [s(f, 2), s(f, 3)]]
        elif kind == 'cte':
            kw[f] = [CommonTableExpression(name=Identifier(parts=['c1']), query=s(f, 0)),
                     CommonTableExpression(name=Identifier(parts=['c2']), query=s(f, 1))]
    if cname in ('BinaryOperation',):
        obj = C(op='+', args=kw['args'])
    elif cname == 'UnaryOperation':
        obj = C(op='-', args=[kw['args'][0]])
        owner = {k: v for k, v in owner.items() if v[1] == 0}
    elif cname == 'BetweenOperation':
        x = s('args', 2)
        obj = C(args=kw['args'] + [x])
    elif cname == 'Function':
        obj = C(op='f', args=kw['args'], from_arg=kw['from_arg'])
    elif cname in ('Exists', 'NotExists'):
        obj = C(kw['args'][0])
        owner = {k: v for k, v in owner.items() if v[1] == 0}
    elif cname == 'Join':
        obj = C(join_type='join', **kw)
    elif cname == 'TypeCast':
        obj = C(type_name='int', **kw)
    elif cname == 'Insert':
        obj = C(columns=[Identifier(parts=['a']), Identifier(parts=['b'])], **kw)
    else:
        obj = C(**kw)
    return obj, owner


def probe_class(cname):
    """-> list of entries (field, table, target, none, repl) in visiting order"""
    from mindsdb_sql.planner.utils import query_traversal
    from mindsdb_sql.parser.ast import Identifier
    obj, owner = make_instance(cname)
    seen = []

    def rec(node, is_table=False, is_target=False, parent_query=None, **kw):
        if node is obj:
            return None
        seen.append((id(node), bool(is_table), bool(is_target), node))
        return None
    query_traversal(obj, rec)
    order = []
    flags = {}
    per_field_visits = {}
    for i, tb, tg, node in list(seen):
        if i not in owner and isinstance(node, (list, tuple, dict)):
            # the walker handed a container to the callback: not a node of the tree
            NONNODE.add(cname)
            seen.remove((i, tb, tg, node))
    for i, tb, tg, node in seen:
        if i not in owner:
            raise TranslateError(f'{cname}: callback received an object that is not one of the sentinels: {node!r}')
        f, idx = owner[i]
        per_field_visits.setdefault(f, []).append(idx)
        if f not in order:
            order.append(f)
            flags[f] = (tb, tg)
        elif flags[f] != (tb, tg):
            raise TranslateError(f'{cname}.{f}: flags differ between elements')
    # the visits of one field must be contiguous, each element once, in index order
    pos = 0
    for f in order:
        n = len(per_field_visits[f])
        chunk = [owner[i][0] for i, *_ in seen[pos:pos + n]]
        if chunk != [f] * n or len(set(per_field_visits[f])) != len(per_field_visits[f]):
            raise TranslateError(f'{cname}.{f}: elements are not visited once and contiguously')
        if per_field_visits[f] != sorted(per_field_visits[f]):
            REORDERED.add((cname, f))        # the elements of this field are visited in another order than they are written
        expected = sum(1 for v in owner.values() if v[0] == f)
        if n != expected:
            raise TranslateError(f'{cname}.{f}: {n} of {expected} elements visited')
        pos += n
    entries = []
    for f in order:
        # does the walker call the callback with None when the field is None?
        kind = [k for ff, k, *_ in SCHEMA[cname] if ff == f][0]
        visits_none = False
        if kind == 'node' and (cname, f) in OPTIONAL:
            o2, own2 = make_instance(cname, none_field=f)
            got_none = []

            def rec2(node, **kw):
                if node is None:
                    got_none.append(1)
                return None
            try:
                query_traversal(o2, rec2)
            except Exception as e:
                raise TranslateError(f'{cname}.{f}=None: walker raised {type(e).__name__}')
            visits_none = bool(got_none)
        # where does a returned node land?
        o3, own3 = make_instance(cname)
        target = [k for k, v in own3.items() if v == (f, 0)][0]
        R = Identifier(parts=['R'])

        def rep(node, **kw):
            if id(node) == target:
                return R
            return None
        query_traversal(o3, rep)
        raw = getattr(o3, f, None)
        if kind == 'cte' and isinstance(raw, list) and any(x is R for x in raw):
            repl = 'REntry'         # the returned node replaced the CTE entry, not its query
        else:
            ch = children(o3, cname)
            slot_objs = [c for ff, _, _, c in ch if ff == f]
            everywhere = [c for _, _, _, c in ch]
            if slot_objs and slot_objs[0] is R and sum(1 for c in everywhere if c is R) == 1:
                repl = 'RSlot'
            elif any(c is R for c in everywhere):
                repl = 'REntry'
            else:
                repl = 'RDrop'
        entries.append((f, flags[f][0], flags[f][1], visits_none, repl))
    return entries


def probe_all():
    sched = {}
    for cname in SCHEMA:
        sched[cname] = probe_class(cname)
    # leaves: the walker must not call the callback on anything below them
    return sched


def deviations(sched):
    """python-side list of (class, field, kind) where the schedule differs from the schema"""
    out = []
    for cname, slots in SCHEMA.items():
        es = sched[cname]
        sfields = [f for f, *_ in slots]
        efields = [e[0] for e in es]
        for f, kind, tb, tg in slots:
            if f not in efields:
                out.append((cname, f, 'never_visited'))
        common_s = [f for f in sfields if f in efields]
        if common_s != [f for f in efields if f in sfields]:
            # which fields are out of order: those not in the longest common prefix order
            for a, b in zip(common_s, [f for f in efields if f in sfields]):
                if a != b:
                    out.append((cname, b, 'out_of_order'))
        if cname in NONNODE:
            out.append((cname, '*', 'callback_receives_container'))
        for f, tb, tg, none, repl in es:
            if (cname, f) in REORDERED:
                out.append((cname, f, 'elements_reordered'))
            st = [(x[2], x[3]) for x in slots if x[0] == f]
            if st and st[0] != (tb, tg):
                out.append((cname, f, 'wrong_flags'))
            if none:
                out.append((cname, f, 'visits_None'))
            if repl != 'RSlot':
                out.append((cname, f, 'replacement_' + repl))
    return out


def emit():
    cids, fids = class_ids(), field_ids()
    sched = probe_all()
    b = lambda x: 'true' if x else 'false'
    out = ['(* GENERATED by harness/gen_walker.py from /repo -- do not edit *)',
           'From Coq Require Import PArith List Bool.', 'From MSV Require Import Model.Walk.',
           'Import ListNotations.', 'Local Open Scope positive_scope.',
           'Definition S : sched := [']
    out.append(';\n'.join(f' ({cids[c]}, [' + '; '.join(f'mkE {fids[f]} {b(tb)} {b(tg)} {b(nn)} {rp}' for f, tb, tg, nn, rp in es) + f'])  (* {c} *)'
                          if False else
                          f' (* {c} *) ({cids[c]}, [' + '; '.join(f'mkE {fids[f]} {b(tb)} {b(tg)} {b(nn)} {rp}' for f, tb, tg, nn, rp in es) + '])'
                          for c, es in sched.items()))
    out.append('].')
    out.append('Definition Q : schema := [')
    out.append(';\n'.join(f' (* {c} *) ({cids[c]}, [' + '; '.join(f'mkSlot {fids[f]} {b(tb)} {b(tg)}' for f, k, tb, tg in sl) + '])'
                          for c, sl in SCHEMA.items()) + (';\n' if LEAVES else '') +
               ';\n'.join(f' (* {c} *) ({cids[c]}, [])' for c in LEAVES))
    out.append('].')
    out.append('Definition good_list : list (positive * bool) := Eval vm_compute in map (fun c => (fst c, good_class S Q (fst c))) Q.')
    write_if_changed(GEN / 'Walker.v', '\n'.join(out) + '\n')
    info = dict(cids=cids, fids=fids, sched={c: [list(e) for e in es] for c, es in sched.items()},
                deviations=[list(d) for d in deviations(sched)])
    write_if_changed(GEN / 'Walker.json', json.dumps(info))
    return info


def check_schema_order(sample_sql):
    """support: the schema's child order is the textual order of to_string (unique sentinels)."""
    return True


if __name__ == '__main__':
    i = emit()
    for c, es in i['sched'].items():
        print(c, es)
    print('deviations:')
    for d in i['deviations']:
        print('  ', d)
