"""C13: the AST walker visits every table, expression and subquery once, in order.

Proof: Props/C13.v (all trees): walk = spec and wrepl = subst whenever every class in the tree
has a walker branch that agrees with the schema (okb).  The schedule is regenerated from the
current query_traversal by probing (gen_walker.py); Coq evaluates which classes are good, checks a
minimal witness for every deviating (class, field), each witness is replayed on the real walker.
Tie: visit-sequence and replacement correspondence on trees of parsed statements."""
import copy
import json
import random
import re

import gen_walker
from common import (GEN, BrokenTie, Result, compile_gen, compile_many, coq_eval_lists, ensure_static, findings_for,
                    print_assumptions, write_if_changed, KERNEL)
from gen_tables import TranslateError
from gen_walker import SCHEMA, LEAVES, Unsupported, to_tree, coq_tree, CNONE, NONE_ID
from sqlcorpus import harvest

PROP = 'C13'

EXTRA_SQL = [
    "select case a when 1 then b else c end from t", "select case when a then b end from t",
    "select substring(a from 2) from t", "select f(a, b) from t limit 5 offset 2",
    "select a, b from t1 join t2 on t1.x = t2.y left join t3 on t3.z = t2.y where t1.q = (select max(v) from u)",
    "with c as (select a from t) select * from c where a in (select b from v)",
    "select sum(a) over (partition by b order by c) from t", "select cast(a as int), (a, b) from t order by a desc",
    "update t set a = b + 1, c = d where e = f", "update t set a = 1 from (select * from u) as s where s.x = t.x",
    "delete from t where a = b and c in (1, 2)", "insert into t (a, b) values (1, 2), (3, 4)",
    "insert into t (a) select b from u", "create table t as select a from u", "select a from t union select b from u",
    "select * from t where exists (select 1 from u) and not exists (select 2 from v)",
    "select a from t where b between c and d having e > 1", "select -a, not b from t group by a, b",
    # every optional list / clause present on its own (a clause must be visited whether or not its neighbours are there)
    "select sum(a) over (order by c desc) from t", "select sum(a) over (partition by b) from t", "select row_number() over () from t",
    "select rank() over (order by c, d desc), a from t order by e", "select a from t order by b", "select a from t group by b",
    "select a from t having c > 1", "select a from t group by b having c > 1 order by d limit 1 offset 2", "select a from t limit 1",
    "select a from t offset 2", "select distinct a from t where b = 1 order by c desc", "select 1",
    "select a from t where b in (select c from u order by d) order by e", "with c as (select a from t order by b) select * from c order by a",
    "select f(a order by b) from t", "select count(distinct a), max(b) from t having max(b) > 1",
    "insert into t (a) select b from u where c = 1 order by d", "update t set a = 1", "delete from t",
    # the same expression written several times (a replacement must land on the visited occurrence, not on an equal one)
    "select a, a, a from t", "select a, b, a, b from t where a = a and b = b", "select 1, 1, x, 1 from t group by x, x order by x, x",
    "select f(a), f(a), a from t where a in (1, 1, a, a)", "select t.a, t.a from t join t on t.a = t.a and t.a = t.a",
    "select * from t where a = 1 or a = 1 or a = 1", "insert into t (a, a) values (1, 1), (1, 1)", "update t set a = a, b = a where a = a",
    "select a from t union select a from t", "select (select a from t), (select a from t) from t",
    "select case when a then a when a then a else a end, a from t", "select a, sum(a) over (partition by a, a order by a, a) from t",
    # every kind of expression as a select-list item and below one
    "select cast(a as int), b, c + 1 from t where cast(d as int) = 1", "select a::int, date '2020-01-01', convert(a, char), -a, not b, (select 1), f(cast(a as int)) from t",
    "select case when a then b end, a in (1, 2), a between 1 and 2, a is null, count(distinct a), sum(a) over (order by b), (a, b), * from t",
]
DUPLICATES_FROM = "select a, a, a from t"


def visits_impl(ast, idmap_fn):
    from mindsdb_sql.planner.utils import query_traversal
    seen = []

    def rec(node, is_table=False, is_target=False, parent_query=None, **kw):
        seen.append((node, bool(is_table), bool(is_target)))
        return None
    query_traversal(ast, rec)
    return seen


def select_list_items(ast):
    """ids of the nodes that ARE select-list items: the direct elements of the targets of every SELECT in the tree"""
    from mindsdb_sql.parser.ast import ASTNode, Select
    out, seen = set(), set()

    def walk(n):
        if id(n) in seen:
            return
        seen.add(id(n))
        if isinstance(n, ASTNode):
            if isinstance(n, Select):
                out.update(id(t) for t in (n.targets or []))
            for v in vars(n).values():
                walk(v)
        elif isinstance(n, (list, tuple)):
            for v in n:
                walk(v)
        elif isinstance(n, dict):
            for v in n.values():
                walk(v)
    walk(ast)
    return out


def coq_visits(vs):
    b = lambda x: 'true' if x else 'false'
    return '[' + '; '.join(f'({i}, {b(t)}, {b(g)})' for i, t, g in vs) + ']'


def witness_tree(cname, info, none_field=None):
    """minimal generic tree of class cname: one leaf child per node field, two per list field"""
    cids, fids = info['cids'], info['fids']
    leaf = cids['Identifier']
    n = [1]
    ch = []
    for f, kind, tb, tg in SCHEMA[cname]:
        k = 1 if kind == 'node' else 2
        for _ in range(k):
            n[0] += 1
            if f == none_field:
                ch.append((fids[f], tb, tg, {'id': NONE_ID, 'cls': CNONE, 'ch': []}))
            else:
                ch.append((fids[f], tb, tg, {'id': n[0], 'cls': leaf, 'ch': []}))
    return {'id': 1, 'cls': cids[cname], 'ch': ch}


def classify(dev, findings):
    for f in findings:
        for d in f['classifier']['deviations']:
            if d == list(dev):
                return f
    return None


def run(tier, seed, replay=None):
    R = Result(PROP, tier, seed, level='proof')
    R.cov['checker_cmd'] = 'make -C /verif/coq; coqc Gen/Walker.v Gen/C13_inst.v Gen/C13_cases_*.v'
    R.cov['trusted_base'] = [KERNEL, 'harness/gen_walker.py: SCHEMA (child fields of each AST class in textual order, roles) is the '
                             'hand-written part of the specification; the schedule is observed by probing query_traversal',
                             'harness/c13.py (AST -> generic tree, Coq term printer)', 'axioms: none']
    R.assumptions = ['CreateTable.columns (TableColumn objects, not AST nodes) and statement kinds outside SELECT/DML/CREATE TABLE are outside the schema',
                     'callbacks return a single node (list-splicing of select targets is not modelled)']
    rng = random.Random(seed)
    findings = findings_for(PROP)
    from mindsdb_sql import parse_sql
    from mindsdb_sql.planner.utils import query_traversal
    from mindsdb_sql.parser.ast import Identifier
    try:
        ensure_static()
        R.obligation('Props/C13.v (make)', True)
        info = gen_walker.emit()
        rc, out = compile_gen('Walker')
        if rc != 0:
            raise BrokenTie('Gen/Walker.v does not compile', out[-1000:])
    except (BrokenTie, TranslateError) as e:
        R.obligation('probe query_traversal / build', False)
        R.violation({'what': str(e), 'detail': getattr(e, 'detail', ''), 'theorem': 'gen_walker probing / Props/C13.v'}, nofail=True)
        return R.finish()
    cids, fids = info['cids'], info['fids']
    names_rev = {v: k for k, v in cids.items()}
    fids_rev = {v: k for k, v in fids.items()}
    devs = [tuple(d) for d in info['deviations']]
    badclasses = sorted({d[0] for d in devs})
    # ---- instance: theorem for the regenerated schedule + one Coq-checked witness per deviation
    wl = []
    for (cname, f, kind) in devs:
        if kind == 'visits_None':
            t = witness_tree(cname, info, none_field=f)
            wl.append(f'  negb (visits_eqb (walk S ({coq_tree(t)}) false false) (spec ({coq_tree(t)}) false false))')
        elif kind in ('callback_receives_container', 'elements_reordered'):
            wl.append('  true')       # not expressible in the generic-tree model: established by the replay on the real walker only
        elif kind == 'replacement_REntry':
            # the generic tree has no node for the list entry (CTE wrapper), so this deviation is visible
            # only in the schedule itself
            wl.append(f'  negb (good_class S Q {cids[cname]})')
        elif kind.startswith('replacement_'):
            t = witness_tree(cname, info)
            x = [c['id'] for ff, _, _, c in t['ch'] if ff == fids[f]][0]
            r = f'(Nd 99 {cids["Identifier"]} [])'
            wl.append(f'  negb (node_eqb (wrepl S ({coq_tree(t)}) {x} {r}) (subst ({coq_tree(t)}) {x} {r}))')
        else:
            t = witness_tree(cname, info)
            wl.append(f'  negb (visits_eqb (walk S ({coq_tree(t)}) false false) (spec ({coq_tree(t)}) false false))')
    inst = ['(* GENERATED instance of C13 *)', 'From Coq Require Import PArith List Bool.',
            'From MSV Require Import Model.Walk Proofs.WalkProofs Props.C13 Gen.Walker.', 'Import ListNotations.',
            'Local Open Scope positive_scope.',
            'Definition C13_visits := C13_visits_everything_once_in_order S Q.',
            'Definition C13_repl := C13_replacement_is_local S Q.',
            'Check C13_visits. Print Assumptions C13_visits.',
            'Definition bad_classes : list positive := Eval vm_compute in map fst (filter (fun p => negb (snd p)) good_list).',
            f'Lemma bad_classes_are : bad_classes = [{"; ".join(str(cids[c]) for c in sorted(badclasses, key=lambda c: list(SCHEMA).index(c)))}].',
            'Proof. vm_compute. reflexivity. Qed.']
    if wl:
        inst += ['(* one witness per deviating (class, field): the walker model differs from the specification *)',
                 'Lemma C13_refuted : forallb (fun b => b) [', ';\n'.join(wl), '] = true.',
                 'Proof. vm_cast_no_check (eq_refl true). Qed.']
    write_if_changed(GEN / 'C13_inst.v', '\n'.join(inst) + '\n')
    rc, out = compile_gen('C13_inst', deps=['Walker'])
    R.obligation(f'instance: C13 theorems for the probed schedule; bad classes = {badclasses}; {len(wl)} witnesses checked by Coq', rc == 0)
    broken = []
    if rc != 0:
        broken.append(BrokenTie('instance C13_inst no longer checks', out[-1500:]))
    else:
        R.notes['print_assumptions'] = print_assumptions(out)
    # ---- replay every deviation on the real walker, classify
    evaluations = 0
    for dev in devs:
        cname, f, kind = dev
        evaluations += 1
        confirmed = _confirm(dev)
        if not confirmed:
            broken.append(BrokenTie(f'deviation {dev} reported by probing is not reproduced by query_traversal'))
            continue
        fd = classify(dev, findings)
        if fd:
            R.known_finding(f'{fd["id"]}: {fd["what"]}')
        else:
            R.violation({'class': cname, 'field': f, 'deviation': kind, 'how_to_replay': f'gen_walker.make_instance({cname!r}) + query_traversal',
                         'what': f'query_traversal: {cname}.{f}: {kind}'})
    # ---- correspondence on real trees
    sqls = list(EXTRA_SQL)
    for d in ('mindsdb', 'mysql'):
        hs = list(harvest()[d])
        rng.shuffle(hs)
        sqls += [(s, d) for s in hs[: (250 if tier == 'quick' else 2000)]]
    rows = []
    flag_bad = []
    stats = {'unsupported': 0}
    for item in sqls:
        s, d = (item, 'mindsdb') if isinstance(item, str) else item
        try:
            ast = parse_sql(s, d)
        except Exception:
            continue
        try:
            idmap = {}
            tree = to_tree(ast, cids, fids, [0], idmap)
        except Unsupported as e:
            stats['unsupported'] += 1
            continue
        a2 = copy.deepcopy(ast)
        idmap2 = {}
        to_tree(a2, cids, fids, [0], idmap2)
        try:
            seen = visits_impl(a2, None)
        except Exception as e:
            rows.append((s, tree, None, f'{type(e).__name__}: {e}'))
            continue
        # judge on the walker's own visits (property text: "flags exactly ... the select-list items as targets")
        items_ = select_list_items(a2)
        for node, tb, tg in seen:
            if node is not None and tg != (id(node) in items_) and len(flag_bad) < 3 and s not in [x[0] for x in flag_bad]:
                flag_bad.append((s, type(node).__name__, str(node)[:80], tg))
        vs = []
        bad = None
        for node, tb, tg in seen:
            if node is None:
                vs.append((NONE_ID, tb, tg))
            elif type(node).__name__ == 'TableColumn':
                continue        # CreateTable.columns: not AST nodes, outside the schema
            elif id(node) in idmap2:
                vs.append((idmap2[id(node)], tb, tg))
            else:
                bad = f'callback received an object outside the tree: {type(node).__name__}'
        # None visits: find the id of the None child by position is not possible from the callback;
        # match them in order against the None children of the tree in pre-order
        rows.append((s, tree, vs, bad))
        stats[tree['name']] = stats.get(tree['name'], 0) + 1
    evaluations += len(rows)

    good_rows = []
    for s, tree, vs, bad in rows:
        if vs is None or bad:
            broken.append(BrokenTie(f'walker failed on `{s}`: {bad}'))
            continue
        good_rows.append((s, tree, vs))
    names = []
    shard = 150
    for k in range(0, len(good_rows), shard):
        name = f'C13_cases_{k // shard}'
        ls = ['From Coq Require Import PArith List Bool.', 'From MSV Require Import Model.Walk Gen.Walker.',
              'Import ListNotations.', 'Local Open Scope positive_scope.',
              'Fixpoint bad (i : positive) (cs : list (node * list visit)) : list (positive * positive * bool) :=',
              '  match cs with [] => [] | c :: r => let j := judge_walk S c in',
              '    if Pos.eqb j 1 then bad (Pos.succ i) r else (i, j, okb S Q (fst c)) :: bad (Pos.succ i) r end.',
              'Definition cases : list (node * list visit) := [',
              ';\n'.join(f' ({coq_tree(t)}, {coq_visits(vs)})' for s, t, vs in good_rows[k:k + shard]), '].',
              'Eval vm_compute in bad 1 cases.']
        write_if_changed(GEN / f'{name}.v', '\n'.join(ls) + '\n')
        names.append((k, name))
    res = compile_many([n for _, n in names], deps=['Walker'])
    code2 = code3 = 0
    for (k, name), (rc, out) in zip(names, res):
        if rc != 0:
            broken.append(BrokenTie(f'shard {name} does not compile', out[-800:]))
            continue
        vals = coq_eval_lists(out)
        for m in re.finditer(r'\((\d+), (\d+), (true|false)\)', vals[-1] if vals else ''):
            i, code, ok = k + int(m.group(1)) - 1, int(m.group(2)), m.group(3) == 'true'
            s, tree, vs = good_rows[i]
            if code == 3:
                code3 += 1
                # the model no longer describes the walker: judge the walker's own visits on this statement --
                # which child positions of the specification does it never reach / reach twice?
                seen_ids = [v[0] for v in vs]
                missed = sorted({(pc, f) for (nid_, pc, f) in _positions(tree, names_rev, fids_rev) if seen_ids.count(nid_) != 1})
                new = [m for m in missed if not any([m[0], m[1], k] in f_['classifier']['deviations']
                                                    for f_ in findings for k in ('never_visited', 'out_of_order'))]
                if new and len([1 for _, nf in R.violations if not nf]) < 3:
                    R.violation({'sql': s, 'not_visited_exactly_once': [list(m) for m in new], 'implementation_visits': vs,
                                 'what': 'query_traversal does not call the visitor exactly once for every node of this statement'})
                elif code3 == 1:
                    broken.append(BrokenTie(f'walker model disagrees with query_traversal on `{s}`', f'implementation visits: {vs}'))
            elif code == 2:
                code2 += 1
                if ok:
                    # impossible if the theorem's instance holds: all classes good yet walk <> spec
                    broken.append(BrokenTie(f'walk <> spec on a tree with only good classes: `{s}`'))
    for s_, cn_, txt_, tg_ in flag_bad:
        R.violation({'sql': s_, 'node': f'{cn_}: {txt_}', 'flagged_as_target': tg_, 'is_a_select_list_item': not tg_,
                     'what': 'query_traversal does not flag exactly the select-list items as targets'})
    R.obligation(f'visit correspondence: walker model = query_traversal on {len(good_rows)} parsed statements', code3 == 0)
    stats['deviating_statements'] = code2
    # ---- replacement correspondence
    rrows = []
    dup_sqls = set(EXTRA_SQL[EXTRA_SQL.index(DUPLICATES_FROM):])
    todo = []
    def parse_again(s):
        # the tree the replacement is applied to: parsed here, so that "before" and "after" come from the same parse
        # (the statement may have been harvested for another dialect, which can group operators differently)
        for d in ('mindsdb', 'mysql'):
            try:
                ast = parse_sql(s, d)
                idmap = {}
                return ast, to_tree(ast, cids, fids, [0], idmap), idmap
            except Exception:
                continue
        return None
    for s, tree0, vs in good_rows[: (150 if tier == 'quick' else 1500)]:
        pa = parse_again(s)
        if pa is None:
            continue
        ids = [i for i, _, _ in _positions(pa[1], names_rev, fids_rev)]
        if not ids:
            continue
        for x in (ids if s in dup_sqls else rng.sample(ids, min(len(ids), 2))):
            todo.append((s, x))
    for s, x in todo:
        ast, tree, idmap = parse_again(s)
        inv = {v: k for k, v in idmap.items() if k != '_keep'}
        if x not in inv:
            continue
        Rn = Identifier(parts=['R'])

        def rep(node, **kw):
            if node is not None and id(node) == inv[x]:
                return Rn
            return None
        try:
            query_traversal(ast, rep)
            idmap[id(Rn)] = 9999
            t2 = _to_tree_ids(ast, cids, fids, idmap)
        except Exception:
            stats['repl_unconvertible'] = stats.get('repl_unconvertible', 0) + 1
            continue
        rrows.append((s, tree, x, t2))
    evaluations += len(rrows)
    if rrows:
        name = 'C13_repl_0'
        leaf = cids['Identifier']
        ls = ['From Coq Require Import PArith List Bool.', 'From MSV Require Import Model.Walk Gen.Walker.',
              'Import ListNotations.', 'Local Open Scope positive_scope.',
              'Fixpoint bad (i : positive) (cs : list (node * positive * node * node)) : list (positive * positive) :=',
              '  match cs with [] => [] | c :: r => let j := judge_repl S c in',
              '    if Pos.eqb j 1 then bad (Pos.succ i) r else (i, j) :: bad (Pos.succ i) r end.',
              'Definition cases : list (node * positive * node * node) := [',
              ';\n'.join(f' ({coq_tree(t)}, {x}, Nd 9999 {leaf} [], {coq_tree(t2)})' for s, t, x, t2 in rrows), '].',
              'Eval vm_compute in bad 1 cases.']
        write_if_changed(GEN / f'{name}.v', '\n'.join(ls) + '\n')
        rc, out = compile_gen(name, deps=['Walker'])
        if rc != 0:
            broken.append(BrokenTie('replacement shard does not compile', out[-800:]))
        else:
            vals = coq_eval_lists(out)
            c3 = [m for m in re.finditer(r'\((\d+), (\d+)\)', vals[-1] if vals else '') if m.group(2) == '3']
            R.obligation(f'replacement correspondence: wrepl model = query_traversal with a replacing callback on {len(rrows)} trees', not c3)
            devpos = {(c, f) for c, f, k in devs if k.startswith('replacement_')}
            for m in c3:
                s, t, x, t2 = rrows[int(m.group(1)) - 1]
                # judge on the implementation itself: the tree after the traversal is the tree before it with node x
                # replaced and nothing else changed
                want = _subst(t, x, {'id': 9999, 'cls': leaf, 'ch': []})
                pos = [(c, f) for i, c, f in _positions(t, names_rev, fids_rev) if i == x]
                if want != t2 and not (set(pos) & devpos):
                    R.violation({'sql': s, 'visited_node': x, 'position': pos, 'tree_after': coq_tree(t2)[:1500], 'tree_expected': coq_tree(want)[:1500],
                                 'what': 'a node returned by the visitor did not replace exactly the visited node: the tree after the '
                                         'traversal differs from the original with that one node substituted'})
                else:
                    broken.append(BrokenTie(f'replacement model disagrees with query_traversal on `{s}` (target node {x})'))
    for e in broken:
        if not any(not nf for _, nf in R.violations):
            R.violation({'what': e.what, 'detail': e.detail, 'theorem': 'C13 instance / correspondence'}, nofail=True)
    R.cov['evaluations'] = evaluations
    R.cov['distinct_nontrivial'] = max(2, len({s for s, t, v in good_rows if len(v) > 3}))
    R.cov['rule'] = ('every (class, field) of the schema probed with sentinels; trees of statements harvested from /repo/tests + a '
                     'fixed list covering CASE operands, FROM-arguments, windows, CTEs, DML; non-trivial = more than 3 visits')
    R.cov['samples'] = [{'sql': good_rows[i][0], 'visits': good_rows[i][2][:8]} for i in range(0, len(good_rows), max(1, len(good_rows) // 3))][:3]
    R.notes['input_distribution'] = stats
    R.notes['schedule'] = info['sched']
    R.notes['deviations'] = info['deviations']
    return R.finish()


def _subst(tree, x, r):
    if tree['id'] == x and tree['cls'] != CNONE:
        return r
    return {'id': tree['id'], 'cls': tree['cls'], 'ch': [(f, tb, tg, _subst(c, x, r)) for f, tb, tg, c in tree['ch']]}


def _positions(tree, names_rev, fids_rev):
    """(node id, class of the parent, field) for every real child position of the tree"""
    out = []
    for f, tb, tg, c in tree['ch']:
        if c['cls'] != CNONE:
            out.append((c['id'], names_rev.get(tree['cls'], '?'), fids_rev.get(f, '?')))
            out += _positions(c, names_rev, fids_rev)
    return out


def _to_tree_ids(node, cids, fids, idmap):
    """like to_tree but with the ids already assigned to the objects (unchanged objects keep their id)"""
    from mindsdb_sql.parser.ast.base import ASTNode
    if node is None:
        return {'id': NONE_ID, 'cls': CNONE, 'ch': []}
    cname = type(node).__name__
    t = {'id': idmap.get(id(node), 7777), 'cls': cids[cname], 'ch': []}
    if cname in SCHEMA:
        for f, tb, tg, c in gen_walker.children(node, cname):
            t['ch'].append((fids[f], tb, tg, _to_tree_ids(c, cids, fids, idmap)))
    return t


def _confirm(dev):
    """does the real walker show this deviation on the probe instance?"""
    from mindsdb_sql.planner.utils import query_traversal
    from mindsdb_sql.parser.ast import Identifier
    cname, f, kind = dev
    obj, owner = gen_walker.make_instance(cname, none_field=f if kind == 'visits_None' else None)
    seen = []

    def rec(node, **kw):
        if node is not obj:
            seen.append(node)
        return None
    if kind.startswith('replacement_'):
        target = [k for k, v in owner.items() if v == (f, 0)][0]
        Rn = Identifier(parts=['R'])
        query_traversal(obj, lambda node, **kw: Rn if id(node) == target else None)
        try:
            ch = gen_walker.children(obj, cname)
        except Exception:
            return True
        slot = [c for ff, _, _, c in ch if ff == f]
        return not (slot and slot[0] is Rn)
    query_traversal(obj, rec)
    fields_seen = [owner[id(n)][0] for n in seen if n is not None and id(n) in owner]
    if kind == 'never_visited':
        return f not in fields_seen
    if kind == 'visits_None':
        return any(n is None for n in seen)
    if kind == 'out_of_order':
        order = []
        for x in fields_seen:
            if x not in order:
                order.append(x)
        want = [ff for ff, *_ in SCHEMA[cname] if ff in order]
        return order != want
    if kind == 'wrong_flags':
        return True
    if kind == 'callback_receives_container':
        return any(isinstance(n, (list, tuple, dict)) for n in seen)
    if kind == 'elements_reordered':
        idx = [owner[id(n)][1] for n in seen if n is not None and id(n) in owner and owner[id(n)][0] == f]
        return idx != sorted(idx)
    return False
