"""Translator: the three lexer classes in /repo -> Coq rule tables (coq/Gen/Lexer_<dialect>.v).
The master regular expression that sly compiled is parsed with Python's own re parser and the
op-tree is emitted as a Coq [re] term; token functions are translated from their source with
python's ast.  Fail-closed: any construct outside the accepted shapes raises TranslateError."""
import ast
import inspect
import json
import re
import re._parser as sre_parse
import re._constants as sre_c
import textwrap

from common import GEN, write_if_changed
from gen_tables import TranslateError, lexer_class

IGN_BASE = 900000


def nlist(s):
    return '[' + '; '.join(str(ord(c)) for c in s) + ']'


def ranges(pred):
    out = []
    start = None
    for c in range(0x110000):
        if pred(c):
            if start is None:
                start = c
        elif start is not None:
            out.append((start, c - 1))
            start = None
    if start is not None:
        out.append((start, 0x10FFFF))
    return out


def emit_uenv():
    """Unicode tables of the running Python's re module (independent of /repo)."""
    path = GEN / 'Uenv.v'
    if path.exists():
        return
    dig = re.compile(r'\d')
    spc = re.compile(r'\s')
    wrd = re.compile(r'\w')
    digits = ranges(lambda c: dig.fullmatch(chr(c)) is not None)
    spaces = ranges(lambda c: spc.fullmatch(chr(c)) is not None)
    words = ranges(lambda c: wrd.fullmatch(chr(c)) is not None)
    fold = []
    letters = [re.compile(chr(a), re.I) for a in range(97, 123)]
    anyl = re.compile('[a-z]', re.I)
    for c in range(128, 0x110000):
        ch = chr(c)
        if anyl.fullmatch(ch):
            for i, r in enumerate(letters):
                if r.fullmatch(ch):
                    fold.append((c, 97 + i))
    def pl(l):
        lo = [(a, min(b, 127)) for a, b in l if a < 128]
        hi = [(max(a, 128), b) for a, b in l if b >= 128]
        f = lambda x: '[' + '; '.join(f'({a}, {b})' for a, b in x) + ']'
        return f'({f(lo)}, {f(hi)})'
    pf = lambda l: '[' + '; '.join(f'({a}, {b})' for a, b in l) + ']'
    txt = ['(* GENERATED: Unicode tables of the running Python re module *)',
           'From Coq Require Import NArith List.', 'From MSV Require Import Lib.Re.',
           'Import ListNotations.', 'Local Open Scope N_scope.',
           f'Definition U : uenv := mkU\n {pl(digits)}\n {pl(spaces)}\n {pl(words)}\n {pf(fold)}.']
    write_if_changed(path, '\n'.join(txt) + '\n')


def emit_re(p):
    """SubPattern / list of (op, av) -> Coq re term"""
    items = [emit_op(op, av) for op, av in p]
    if len(items) == 1:
        return items[0]
    return 'RSeq [' + '; '.join(items) + ']'


def emit_op(op, av):
    if op is sre_c.LITERAL:
        return f'RLit {av}'
    if op is sre_c.NOT_LITERAL:
        return f'RNotLit {av}'
    if op is sre_c.ANY:
        return 'RAny'
    if op is sre_c.IN:
        neg = False
        its = []
        for o, a in av:
            if o is sre_c.NEGATE:
                neg = True
            elif o is sre_c.LITERAL:
                its.append(f'SLit {a}')
            elif o is sre_c.RANGE:
                its.append(f'SRange {a[0]} {a[1]}')
            elif o is sre_c.CATEGORY:
                m = {sre_c.CATEGORY_DIGIT: 'SDigit', sre_c.CATEGORY_SPACE: 'SSpace',
                     sre_c.CATEGORY_NOT_SPACE: 'SNotSpace'}
                if a not in m:
                    raise TranslateError(f'regex category {a}')
                its.append(m[a])
            else:
                raise TranslateError(f'regex set item {o}')
        return f'RIn {"true" if neg else "false"} [' + '; '.join(its) + ']'
    if op is sre_c.BRANCH:
        if av[0] is not None:
            raise TranslateError('BRANCH with group')
        return 'RAlt [' + '; '.join(emit_re(a) for a in av[1]) + ']'
    if op is sre_c.SUBPATTERN:
        gid, add, dele, sub = av
        if add or dele:
            raise TranslateError('inline regex flags')
        return emit_re(sub) if len(sub) == 1 else '(' + emit_re(sub) + ')'
    if op in (sre_c.MAX_REPEAT, sre_c.MIN_REPEAT):
        mn, mx, sub = av
        mxs = 'None' if mx == sre_c.MAXREPEAT else f'(Some {mx}%nat)'
        g = 'true' if op is sre_c.MAX_REPEAT else 'false'
        return f'RRep {g} {mn}%nat {mxs} ({emit_re(sub)})'
    if op is sre_c.AT:
        if av is sre_c.AT_BOUNDARY:
            return 'RBound'
        raise TranslateError(f'regex anchor {av}')
    raise TranslateError(f'regex opcode {op}')


def const_str(node):
    if isinstance(node, ast.Constant) and isinstance(node.value, str):
        return node.value
    raise TranslateError('expected a string constant in a token function')


def is_tvalue(node):
    return isinstance(node, ast.Attribute) and node.attr == 'value' and isinstance(node.value, ast.Name) \
        and node.value.id == 't'


def chain_ops(expr):
    """t.value.replace(a,b).strip(c)... -> list of ops (innermost first)"""
    if is_tvalue(expr):
        return []
    if isinstance(expr, ast.Call) and isinstance(expr.func, ast.Attribute) and not expr.keywords:
        inner = chain_ops(expr.func.value)
        m = expr.func.attr
        args = [const_str(a) for a in expr.args]
        if m == 'replace' and len(args) == 2 and args[0]:
            return inner + [f'OpReplace {nlist(args[0])} {nlist(args[1])}']
        if m == 'strip' and len(args) == 1:
            return inner + [f'OpStrip {nlist(args[0])}']
        if m == 'lstrip' and len(args) == 1:
            return inner + [f'OpLstrip {nlist(args[0])}']
    raise TranslateError('unsupported expression in a token function: ' + ast.dump(expr)[:200])


def translate_func(fn):
    src = textwrap.dedent(inspect.getsource(fn))
    # drop decorators: find the def
    tree = ast.parse(src[src.index('def '):]).body[0]
    body = [st for st in tree.body if not (isinstance(st, ast.Expr) and isinstance(st.value, ast.Constant))]
    if tree.args.args[1].arg != 't':
        raise TranslateError('token function parameter is not named t')
    ops = []
    returned = False
    newline = False
    counts_nl = False
    for st in body:
        if isinstance(st, ast.Return):
            if isinstance(st.value, ast.Name) and st.value.id == 't':
                returned = True
                break
            raise TranslateError('token function returns something other than t')
        if isinstance(st, ast.Assign) and len(st.targets) == 1 and is_tvalue(st.targets[0]):
            ops += chain_ops(st.value)
            continue
        if isinstance(st, ast.AugAssign) and isinstance(st.op, ast.Add) and isinstance(st.target, ast.Attribute) \
                and st.target.attr == 'lineno' and isinstance(st.value, ast.Call) \
                and isinstance(st.value.func, ast.Name) and st.value.func.id == 'len' \
                and is_tvalue(st.value.args[0]):
            newline = True
            continue
        if isinstance(st, ast.AugAssign) and isinstance(st.op, ast.Add) and ast.unparse(st.target) == 'self.lineno' \
                and ast.unparse(st.value) in ("t.value.count('\\n')", 't.value.count("\\n")') and not ops:
            counts_nl = True        # executed before any rewriting of t.value
            continue
        if isinstance(st, ast.If):
            cases = []
            cur = st
            while True:
                t = cur.test
                ok = (isinstance(t, ast.Compare) and len(t.ops) == 1 and isinstance(t.ops[0], ast.Eq)
                      and isinstance(t.left, ast.Subscript) and is_tvalue(t.left.value)
                      and isinstance(t.left.slice, ast.Constant) and t.left.slice.value == 0)
                if not ok or len(cur.body) != 1:
                    raise TranslateError('unsupported if in a token function')
                b = cur.body[0]
                if not (isinstance(b, ast.Assign) and is_tvalue(b.targets[0])):
                    raise TranslateError('unsupported if body in a token function')
                o = chain_ops(b.value)
                if len(o) != 1 or not o[0].startswith('OpStrip'):
                    raise TranslateError('unsupported if body in a token function')
                c = const_str(t.comparators[0])
                if len(c) != 1:
                    raise TranslateError('if compares with a multi-character string')
                cases.append(f'({ord(c)}, {o[0][len("OpStrip "):]})')
                if len(cur.orelse) == 1 and isinstance(cur.orelse[0], ast.If):
                    cur = cur.orelse[0]
                elif not cur.orelse:
                    break
                else:
                    raise TranslateError('else branch in a token function')
            ops.append('OpCondStrip [' + '; '.join(cases) + ']')
            continue
        raise TranslateError('unsupported statement in a token function: ' + ast.dump(st)[:200])
    if newline:
        if returned or ops or counts_nl:
            raise TranslateError('newline function does more than count lines')
        return 'ANewline'
    if not returned:
        if counts_nl and not ops:
            return 'AIgnore+nl'          # a function that only counts lines and returns None: usable for ignore_ rules
        raise TranslateError('token function does not return t')
    act = 'ATok' if not ops else 'ARewrite [' + '; '.join(ops) + ']'
    return act + ('+nl' if counts_nl else '')


def dump(dialect):
    L = lexer_class(dialect)
    if L.literals:
        raise TranslateError('lexer literals are not modelled')
    if any(L._remapping.values()) if L._remapping else False:
        raise TranslateError('token remapping is not modelled')
    if not (L.reflags == re.IGNORECASE):
        raise TranslateError(f'reflags {L.reflags!r}')
    side = json.loads((GEN / f'Tbl_{dialect}.json').read_text())
    num = side['num']
    master = L._master_re
    parsed = sre_parse.parse(master.pattern, master.flags)
    if len(parsed) != 1 or parsed[0][0] is not sre_c.BRANCH:
        raise TranslateError('master regex is not a single alternation')
    byid = {v: k for k, v in master.groupindex.items()}
    rules = []
    ign_n = 0
    for alt in parsed[0][1][1]:
        if len(alt) != 1 or alt[0][0] is not sre_c.SUBPATTERN:
            raise TranslateError('master regex alternative is not a named group')
        gid, add, dele, sub = alt[0][1]
        name = byid.get(gid)
        if name is None or add or dele:
            raise TranslateError('unnamed group at the top of the master regex')
        if name in L._ignored_tokens:
            ign_n += 1
            tnum = IGN_BASE + ign_n
            if name in L._token_funcs:
                act = translate_func(L._token_funcs[name])
                if act not in ('ANewline', 'AIgnore+nl'):
                    raise TranslateError(f'ignored rule {name} has an unsupported function')
            else:
                act = 'AIgnore'
        else:
            if name not in num:
                raise TranslateError(f'token {name} is not a terminal of the grammar')
            tnum = num[name]
            act = translate_func(L._token_funcs[name]) if name in L._token_funcs else 'ATok'
            if act in ('ANewline', 'AIgnore+nl'):
                raise TranslateError(f'{name}: newline-only action on a non-ignored token')
        rules.append((name, tnum, emit_re(sub), act))
    return dict(dialect=dialect, rules=rules, ignore=L.ignore)


def emit(dialect):
    emit_uenv()
    d = dump(dialect)
    out = ['(* GENERATED by harness/gen_lexer.py from /repo -- do not edit *)',
           'From Coq Require Import NArith PArith List.',
           'From MSV Require Import Lib.PyStr Lib.Re Model.Lex Gen.Uenv.',
           'Import ListNotations.', 'Local Open Scope N_scope.',
           'Definition rules : list rule := [']
    out.append(';\n'.join(f' mkRule {tnum}%positive ({r}) ({act})  (* {name} *)' if False else
                          f' (* {name} *) mkRule {tnum}%positive ({r}) ({act.replace("+nl", "")}) {"true" if act.endswith("+nl") else "false"}' for name, tnum, r, act in d['rules']))
    out.append('].')
    out.append(f'Definition ignore : list N := {nlist(d["ignore"])}.')
    out.append('Definition lexer (s : str) : lexres := lex U rules ignore s.')
    changed = write_if_changed(GEN / f'Lexer_{dialect}.v', '\n'.join(out) + '\n')
    write_if_changed(GEN / f'Lexer_{dialect}.json', json.dumps(
        dict(rules=[(n, t, a) for n, t, r, a in d['rules']], ignore=d['ignore'])))
    return d


if __name__ == '__main__':
    import sys
    for dia in sys.argv[1:] or ['mindsdb', 'mysql', 'sqlite']:
        d = emit(dia)
        print(dia, len(d['rules']), [(n, a) for n, t, r, a in d['rules'] if a != 'ATok'])
